import BeffVerif.Lemmas.Bdd
/-!
# C06 — the four Boolean operations are TOTAL on the diagrams the engine can build

The Rust operations (`bdd.rs`) recurse on RESULTS of other operations, so their termination is not structural; the model
gives them fuel. Here: on ORDERED diagrams (atoms strictly increase from the root — what `from_atom` builds and what every
operation preserves) over a finite set `U` of atoms, fuel `|U| + 2` is enough for `union`, `intersect`, `complement`,
`diff`, and the results are again ordered diagrams over `U`. Hence every diagram reachable from atoms by any script of
operations is ordered, and no operation of such a script ever runs out of fuel (`script_total`): the model's `none`
is unreachable, and the recursion of the real code terminates, with nesting depth at most the number of atoms.
-/
namespace BeffVerif.C06T
open Bdd

/-! ## the order of atoms -/

def lt (a b : Atom) : Prop := a.kind < b.kind ∨ (a.kind = b.kind ∧ a.idx < b.idx)

theorem cmp_lt (a b : Atom) : Atom.cmp a b = .lt ↔ lt a b := by
  unfold Atom.cmp lt
  by_cases h1 : a.kind < b.kind
  · simp [h1]
  · by_cases h2 : b.kind < a.kind
    · simp [h1, h2]; omega
    · by_cases h3 : a.idx < b.idx
      · simp [h1, h2, h3]; omega
      · by_cases h4 : b.idx < a.idx
        · simp [h1, h2, h3, h4] <;> omega
        · simp [h1, h2, h3, h4] <;> omega

theorem cmp_gt (a b : Atom) : Atom.cmp a b = .gt ↔ lt b a := by
  unfold Atom.cmp lt
  by_cases h1 : a.kind < b.kind
  · simp [h1]; omega
  · by_cases h2 : b.kind < a.kind
    · simp [h1, h2]
    · by_cases h3 : a.idx < b.idx
      · simp [h1, h2, h3]; omega
      · by_cases h4 : b.idx < a.idx
        · simp [h1, h2, h3, h4] <;> omega
        · simp [h1, h2, h3, h4] <;> omega

theorem cmp_self (a : Atom) : Atom.cmp a a = .eq := by
  unfold Atom.cmp; simp

theorem lt_trans {a b c : Atom} (h1 : lt a b) (h2 : lt b c) : lt a c := by
  unfold lt at *; omega

theorem lt_irrefl (a : Atom) : ¬ lt a a := by
  unfold lt; omega

/-- number of atoms of `U` at or above `a` -/
def above (U : List Atom) (a : Atom) : Nat := U.countP (fun x => Atom.cmp a x != .gt)

theorem above_mono (U : List Atom) {a a' : Atom} (h : lt a a') : above U a' ≤ above U a := by
  unfold above
  apply List.countP_mono_left
  intro x _ hx
  simp only [bne_iff_ne, ne_eq] at *
  intro hg
  exact hx ((cmp_gt a' x).2 (lt_trans ((cmp_gt a x).1 hg) h))

theorem above_lt {U : List Atom} {a a' : Atom} (ha : a ∈ U) (h : lt a a') : above U a' < above U a := by
  induction U with
  | nil => cases ha
  | cons x U ih =>
    have hm := above_mono U h
    unfold above at *
    simp only [List.countP_cons]
    rcases List.mem_cons.1 ha with rfl | ha
    · have p1 : (Atom.cmp a a != .gt) = true := by rw [cmp_self]; decide
      have p2 : (Atom.cmp a' a != .gt) = false := by rw [(cmp_gt a' a).2 h]; decide
      simp only [p1, p2, if_true, Bool.false_eq_true, if_false]
      omega
    · have := ih ha
      by_cases q : (Atom.cmp a' x != .gt) = true
      · have q' : (Atom.cmp a x != .gt) = true := by
          simp only [bne_iff_ne, ne_eq] at *
          intro hg
          exact q ((cmp_gt a' x).2 (lt_trans ((cmp_gt a x).1 hg) h))
        simp only [q, q', if_true]; omega
      · have q0 : (Atom.cmp a' x != .gt) = false := by simpa using q
        simp only [q0, Bool.false_eq_true, if_false]
        split <;> omega

theorem above_pos {U : List Atom} {a : Atom} (ha : a ∈ U) : 0 < above U a := by
  unfold above
  apply List.countP_pos_iff.2
  exact ⟨a, ha, by rw [cmp_self]; decide⟩

/-! ## ordered diagrams over `U` -/

/-- `a` is below the root atom of `b` -/
def Lt (a : Atom) : Bdd → Prop
  | node a' _ _ _ => lt a a'
  | _ => True

inductive Ordered : Bdd → Prop
  | tt : Ordered tt
  | ff : Ordered ff
  | node (a : Atom) (l m r : Bdd) : Ordered l → Ordered m → Ordered r → Lt a l → Lt a m → Lt a r → Ordered (node a l m r)

def AtomsIn (U : List Atom) : Bdd → Prop
  | node a l m r => a ∈ U ∧ AtomsIn U l ∧ AtomsIn U m ∧ AtomsIn U r
  | _ => True

structure Good (U : List Atom) (b : Bdd) : Prop where
  ord : Ordered b
  ins : AtomsIn U b

def rank (U : List Atom) : Bdd → Nat
  | node a _ _ _ => above U a
  | _ => 0

theorem good_tt (U : List Atom) : Good U tt := ⟨.tt, trivial⟩
theorem good_ff (U : List Atom) : Good U ff := ⟨.ff, trivial⟩

theorem Lt_trans {a0 a : Atom} {b : Bdd} (h0 : lt a0 a) (h : Lt a b) : Lt a0 b := by
  cases b with
  | node a' l m r => exact lt_trans h0 h
  | tt => trivial
  | ff => trivial

theorem rank_lt {U : List Atom} {a : Atom} {b : Bdd} (ha : a ∈ U) (h : Lt a b) : rank U b < above U a := by
  cases b with
  | node a' l m r => exact above_lt ha h
  | tt => exact above_pos ha
  | ff => exact above_pos ha

/-- the parts of a good node -/
theorem good_node {U : List Atom} {a : Atom} {l m r : Bdd} (h : Good U (node a l m r)) :
    a ∈ U ∧ Good U l ∧ Good U m ∧ Good U r ∧ Lt a l ∧ Lt a m ∧ Lt a r := by
  obtain ⟨ho, hi⟩ := h
  cases ho with
  | node _ _ _ _ ol om or' ll lm lr =>
    exact ⟨hi.1, ⟨ol, hi.2.1⟩, ⟨om, hi.2.2.1⟩, ⟨or', hi.2.2.2⟩, ll, lm, lr⟩

theorem mk_good_node {U : List Atom} {a : Atom} {l m r : Bdd} (ha : a ∈ U) (gl : Good U l) (gm : Good U m) (gr : Good U r)
    (ll : Lt a l) (lm : Lt a m) (lr : Lt a r) : Good U (node a l m r) :=
  ⟨.node a l m r gl.ord gm.ord gr.ord ll lm lr, ha, gl.ins, gm.ins, gr.ins⟩

/-- what an operation promises about its result: a good diagram whose root is not below the roots of the operands -/
def Post2 (U : List Atom) (b1 b2 r : Bdd) : Prop := Good U r ∧ ∀ a, Lt a b1 → Lt a b2 → Lt a r
def Post1 (U : List Atom) (b r : Bdd) : Prop := Good U r ∧ ∀ a, Lt a b → Lt a r

def UnionOK (U : List Atom) (k n : Nat) : Prop :=
  ∀ b1 b2, Good U b1 → Good U b2 → rank U b1 ≤ k → rank U b2 ≤ k → ∃ r, union n b1 b2 = some r ∧ Post2 U b1 b2 r

/-- `from_node` over children above `a` -/
theorem fromNode_total {U : List Atom} {k n : Nat} (hu : UnionOK U k n) {a : Atom} {l m r : Bdd} (ha : a ∈ U)
    (gl : Good U l) (gm : Good U m) (gr : Good U r) (ll : Lt a l) (lm : Lt a m) (lr : Lt a r) (hk : above U a ≤ k + 1) :
    ∃ res, fromNodeWith (union n) a l m r = some res ∧ Good U res ∧ ∀ a0, lt a0 a → Lt a0 res := by
  unfold fromNodeWith
  by_cases h1 : m = tt
  · simp only [h1, if_true]
    exact ⟨tt, rfl, good_tt U, fun _ _ => trivial⟩
  · simp only [h1, if_false]
    by_cases h2 : l = r
    · simp only [h2, if_true]
      have rl := rank_lt ha lr
      have rm := rank_lt ha lm
      obtain ⟨res, hres, gres, hlt⟩ := hu r m gr gm (by omega) (by omega)
      exact ⟨res, hres, gres, fun a0 h0 => hlt a0 (Lt_trans h0 lr) (Lt_trans h0 lm)⟩
    · simp only [h2, if_false]
      exact ⟨_, rfl, mk_good_node ha gl gm gr ll lm lr, fun a0 h0 => h0⟩

theorem rank_node_pos {U : List Atom} {a : Atom} {l m r : Bdd} (h : Good U (node a l m r)) : 0 < rank U (node a l m r) :=
  above_pos (good_node h).1

theorem union_total (U : List Atom) : ∀ n k, k < n → UnionOK U k n := by
  intro n
  induction n with
  | zero => intro k hk; omega
  | succ n ih =>
    intro k hk b1 b2 g1 g2 r1 r2
    by_cases hEq : b1 = b2
    · subst hEq
      exact ⟨b1, by simp [union], g1, fun a h _ => h⟩
    · cases b1 with
      | tt => exact ⟨tt, by simp [union, hEq], good_tt U, fun _ _ _ => trivial⟩
      | ff => exact ⟨b2, by simp [union, hEq], g2, fun a _ h => h⟩
      | node a1 l1 m1 r1' =>
        cases b2 with
        | tt => exact ⟨tt, by simp [union], good_tt U, fun _ _ _ => trivial⟩
        | ff => exact ⟨_, by simp [union], g1, fun a h _ => h⟩
        | node a2 l2 m2 r2' =>
          obtain ⟨ha1, gl1, gm1, gr1, ll1, lm1, lr1⟩ := good_node g1
          obtain ⟨ha2, gl2, gm2, gr2, ll2, lm2, lr2⟩ := good_node g2
          have hp1 := rank_node_pos g1
          simp only [rank] at r1 r2 hp1
          -- children are strictly below in rank
          have hk' : k - 1 < n := by omega
          have IH := ih (k - 1) hk'
          simp only [union, hEq, if_false]
          cases hc : Atom.cmp a1 a2 <;> simp only []
          · -- a1 < a2
            have h12 := (cmp_lt a1 a2).1 hc
            have rm1 := rank_lt ha1 lm1
            have rb2 : rank U (node a2 l2 m2 r2') < above U a1 := above_lt ha1 h12
            obtain ⟨m, hm, gm, hltm⟩ := IH m1 (node a2 l2 m2 r2') gm1 g2 (by omega) (by omega)
            simp only [hm]
            obtain ⟨res, hres, gres, hl⟩ := fromNode_total (k := k - 1) IH ha1 gl1 gm gr1 ll1 (hltm a1 lm1 h12) lr1 (by omega)
            exact ⟨res, hres, gres, fun a h1 _ => hl a h1⟩
          · -- a1 = a2
            have := Atom.cmp_eq hc; subst this
            have rl1 := rank_lt ha1 ll1; have rm1 := rank_lt ha1 lm1; have rr1 := rank_lt ha1 lr1
            have rl2 := rank_lt ha1 ll2; have rm2 := rank_lt ha1 lm2; have rr2 := rank_lt ha1 lr2
            obtain ⟨l, hl, gl, hltl⟩ := IH l1 l2 gl1 gl2 (by omega) (by omega)
            obtain ⟨m, hm, gm, hltm⟩ := IH m1 m2 gm1 gm2 (by omega) (by omega)
            obtain ⟨r, hr, gr, hltr⟩ := IH r1' r2' gr1 gr2 (by omega) (by omega)
            simp only [hl, hm, hr]
            obtain ⟨res, hres, gres, hlr⟩ := fromNode_total (k := k - 1) IH ha1 gl gm gr (hltl a1 ll1 ll2) (hltm a1 lm1 lm2)
              (hltr a1 lr1 lr2) (by omega)
            exact ⟨res, hres, gres, fun a h1 _ => hlr a h1⟩
          · -- a2 < a1
            have h21 := (cmp_gt a1 a2).1 hc
            have rm2 := rank_lt ha2 lm2
            have rb1 : rank U (node a1 l1 m1 r1') < above U a2 := above_lt ha2 h21
            obtain ⟨m, hm, gm, hltm⟩ := IH (node a1 l1 m1 r1') m2 g1 gm2 (by omega) (by omega)
            simp only [hm]
            obtain ⟨res, hres, gres, hl⟩ := fromNode_total (k := k - 1) IH ha2 gl2 gm gr2 ll2 (hltm a2 h21 lm2) lr2 (by omega)
            exact ⟨res, hres, gres, fun a _ h2 => hl a h2⟩


theorem fromNode_total' {U : List Atom} {k n : Nat} (hk0 : k < n) {a : Atom} {l m r : Bdd} (ha : a ∈ U)
    (gl : Good U l) (gm : Good U m) (gr : Good U r) (ll : Lt a l) (lm : Lt a m) (lr : Lt a r) (hk : above U a ≤ k + 1) :
    ∃ res, fromNode n a l m r = some res ∧ Good U res ∧ ∀ a0, lt a0 a → Lt a0 res :=
  fromNode_total (union_total U n k hk0) ha gl gm gr ll lm lr hk

def InterOK (U : List Atom) (k n : Nat) : Prop :=
  ∀ b1 b2, Good U b1 → Good U b2 → rank U b1 ≤ k → rank U b2 ≤ k → ∃ r, intersect n b1 b2 = some r ∧ Post2 U b1 b2 r

theorem intersect_total (U : List Atom) : ∀ n k, k < n → InterOK U k n := by
  intro n
  induction n with
  | zero => intro k hk; omega
  | succ n ih =>
    intro k hk b1 b2 g1 g2 r1 r2
    by_cases hEq : b1 = b2
    · subst hEq
      exact ⟨b1, by simp [intersect], g1, fun a h _ => h⟩
    · cases b1 with
      | tt => exact ⟨b2, by simp [intersect, hEq], g2, fun a _ h => h⟩
      | ff => exact ⟨ff, by simp [intersect, hEq], good_ff U, fun _ _ _ => trivial⟩
      | node a1 l1 m1 r1' =>
        cases b2 with
        | tt => exact ⟨_, by simp [intersect], g1, fun a h _ => h⟩
        | ff => exact ⟨ff, by simp [intersect], good_ff U, fun _ _ _ => trivial⟩
        | node a2 l2 m2 r2' =>
          obtain ⟨ha1, gl1, gm1, gr1, ll1, lm1, lr1⟩ := good_node g1
          obtain ⟨ha2, gl2, gm2, gr2, ll2, lm2, lr2⟩ := good_node g2
          have hp1 := rank_node_pos g1
          simp only [rank] at r1 r2 hp1
          have hk' : k - 1 < n := by omega
          have IH := ih (k - 1) hk'
          have UH := union_total U n (k - 1) hk'
          simp only [intersect, hEq, if_false]
          cases hc : Atom.cmp a1 a2 <;> simp only []
          · have h12 := (cmp_lt a1 a2).1 hc
            have rl1 := rank_lt ha1 ll1; have rm1 := rank_lt ha1 lm1; have rr1 := rank_lt ha1 lr1
            have rb2 : rank U (node a2 l2 m2 r2') < above U a1 := above_lt ha1 h12
            obtain ⟨l, hl, gl, hltl⟩ := IH l1 (node a2 l2 m2 r2') gl1 g2 (by omega) (by omega)
            obtain ⟨m, hm, gm, hltm⟩ := IH m1 (node a2 l2 m2 r2') gm1 g2 (by omega) (by omega)
            obtain ⟨r, hr, gr, hltr⟩ := IH r1' (node a2 l2 m2 r2') gr1 g2 (by omega) (by omega)
            simp only [hl, hm, hr]
            obtain ⟨res, hres, gres, hlr⟩ := fromNode_total' hk' ha1 gl gm gr (hltl a1 ll1 h12) (hltm a1 lm1 h12)
              (hltr a1 lr1 h12) (by omega)
            exact ⟨res, hres, gres, fun a h1 _ => hlr a h1⟩
          · have := Atom.cmp_eq hc; subst this
            have rl1 := rank_lt ha1 ll1; have rm1 := rank_lt ha1 lm1; have rr1 := rank_lt ha1 lr1
            have rl2 := rank_lt ha1 ll2; have rm2 := rank_lt ha1 lm2; have rr2 := rank_lt ha1 lr2
            obtain ⟨x1, hx1, gx1, lx1⟩ := UH l1 m1 gl1 gm1 (by omega) (by omega)
            obtain ⟨x2, hx2, gx2, lx2⟩ := UH l2 m2 gl2 gm2 (by omega) (by omega)
            obtain ⟨y1, hy1, gy1, ly1⟩ := UH r1' m1 gr1 gm1 (by omega) (by omega)
            obtain ⟨y2, hy2, gy2, ly2⟩ := UH r2' m2 gr2 gm2 (by omega) (by omega)
            simp only [hx1, hx2, hy1, hy2]
            have rx1 := rank_lt ha1 (lx1 a1 ll1 lm1); have rx2 := rank_lt ha1 (lx2 a1 ll2 lm2)
            have ry1 := rank_lt ha1 (ly1 a1 lr1 lm1); have ry2 := rank_lt ha1 (ly2 a1 lr2 lm2)
            obtain ⟨l, hl, gl, hltl⟩ := IH x1 x2 gx1 gx2 (by omega) (by omega)
            obtain ⟨r, hr, gr, hltr⟩ := IH y1 y2 gy1 gy2 (by omega) (by omega)
            simp only [hl, hr]
            obtain ⟨res, hres, gres, hlr⟩ := fromNode_total' hk' ha1 gl (good_ff U) gr
              (hltl a1 (lx1 a1 ll1 lm1) (lx2 a1 ll2 lm2)) trivial (hltr a1 (ly1 a1 lr1 lm1) (ly2 a1 lr2 lm2)) (by omega)
            exact ⟨res, hres, gres, fun a h1 _ => hlr a h1⟩
          · have h21 := (cmp_gt a1 a2).1 hc
            have rl2 := rank_lt ha2 ll2; have rm2 := rank_lt ha2 lm2; have rr2 := rank_lt ha2 lr2
            have rb1 : rank U (node a1 l1 m1 r1') < above U a2 := above_lt ha2 h21
            obtain ⟨l, hl, gl, hltl⟩ := IH (node a1 l1 m1 r1') l2 g1 gl2 (by omega) (by omega)
            obtain ⟨m, hm, gm, hltm⟩ := IH (node a1 l1 m1 r1') m2 g1 gm2 (by omega) (by omega)
            obtain ⟨r, hr, gr, hltr⟩ := IH (node a1 l1 m1 r1') r2' g1 gr2 (by omega) (by omega)
            simp only [hl, hm, hr]
            obtain ⟨res, hres, gres, hlr⟩ := fromNode_total' hk' ha2 gl gm gr (hltl a2 h21 ll2) (hltm a2 h21 lm2)
              (hltr a2 h21 lr2) (by omega)
            exact ⟨res, hres, gres, fun a _ h2 => hlr a h2⟩

def ComplOK (U : List Atom) (k n : Nat) : Prop :=
  ∀ b, Good U b → rank U b ≤ k → ∃ r, complement n b = some r ∧ Post1 U b r

theorem complement_total (U : List Atom) : ∀ n k, k < n → ComplOK U k n := by
  intro n
  induction n with
  | zero => intro k hk; omega
  | succ n ih =>
    intro k hk b g rk
    cases b with
    | tt => exact ⟨ff, by simp [complement], good_ff U, fun _ _ => trivial⟩
    | ff => exact ⟨tt, by simp [complement], good_tt U, fun _ _ => trivial⟩
    | node a l m r =>
      obtain ⟨ha, gl, gm, gr, ll, lm, lr⟩ := good_node g
      have hp := rank_node_pos g
      simp only [rank] at rk hp
      have hk' : k - 1 < n := by omega
      have IH := ih (k - 1) hk'
      have UH := union_total U n (k - 1) hk'
      have rl := rank_lt ha ll; have rm := rank_lt ha lm; have rr := rank_lt ha lr
      simp only [complement]
      by_cases h1 : r = ff
      · simp only [h1, if_true]
        obtain ⟨lm', hlm, glm, llm⟩ := UH l m gl gm (by omega) (by omega)
        simp only [hlm]
        have rlm := rank_lt ha (llm a ll lm)
        obtain ⟨x, hx, gx, lx⟩ := IH lm' glm (by omega)
        obtain ⟨y, hy, gy, ly⟩ := IH m gm (by omega)
        simp only [hx, hy]
        obtain ⟨res, hres, gres, hlr⟩ := fromNode_total' hk' ha (good_ff U) gx gy trivial (lx a (llm a ll lm)) (ly a lm) (by omega)
        exact ⟨res, hres, gres, fun a0 h0 => hlr a0 h0⟩
      · simp only [h1, if_false]
        by_cases h2 : l = ff
        · simp only [h2, if_true]
          obtain ⟨rm', hrm, grm, lrm⟩ := UH r m gr gm (by omega) (by omega)
          simp only [hrm]
          have rrm := rank_lt ha (lrm a lr lm)
          obtain ⟨x, hx, gx, lx⟩ := IH m gm (by omega)
          obtain ⟨y, hy, gy, ly⟩ := IH rm' grm (by omega)
          simp only [hx, hy]
          obtain ⟨res, hres, gres, hlr⟩ := fromNode_total' hk' ha gx gy (good_ff U) (lx a lm) (ly a (lrm a lr lm)) trivial (by omega)
          exact ⟨res, hres, gres, fun a0 h0 => hlr a0 h0⟩
        · simp only [h2, if_false]
          by_cases h3 : m = ff
          · simp only [h3, if_true]
            obtain ⟨lr', hlr', glr, llr⟩ := UH l r gl gr (by omega) (by omega)
            simp only [hlr']
            have rlr := rank_lt ha (llr a ll lr)
            obtain ⟨x, hx, gx, lx⟩ := IH l gl (by omega)
            obtain ⟨y, hy, gy, ly⟩ := IH lr' glr (by omega)
            obtain ⟨z, hz, gz, lz⟩ := IH r gr (by omega)
            simp only [hx, hy, hz]
            obtain ⟨res, hres, gres, hlr⟩ := fromNode_total' hk' ha gx gy gz (lx a ll) (ly a (llr a ll lr)) (lz a lr) (by omega)
            exact ⟨res, hres, gres, fun a0 h0 => hlr a0 h0⟩
          · simp only [h3, if_false]
            obtain ⟨lm', hlm, glm, llm⟩ := UH l m gl gm (by omega) (by omega)
            obtain ⟨rm', hrm, grm, lrm⟩ := UH r m gr gm (by omega) (by omega)
            simp only [hlm, hrm]
            have rlm := rank_lt ha (llm a ll lm)
            have rrm := rank_lt ha (lrm a lr lm)
            obtain ⟨x, hx, gx, lx⟩ := IH lm' glm (by omega)
            obtain ⟨y, hy, gy, ly⟩ := IH rm' grm (by omega)
            simp only [hx, hy]
            obtain ⟨res, hres, gres, hlr⟩ := fromNode_total' hk' ha gx (good_ff U) gy (lx a (llm a ll lm)) trivial
              (ly a (lrm a lr lm)) (by omega)
            exact ⟨res, hres, gres, fun a0 h0 => hlr a0 h0⟩

def DiffOK (U : List Atom) (k n : Nat) : Prop :=
  ∀ b1 b2, Good U b1 → Good U b2 → rank U b1 ≤ k → rank U b2 ≤ k → ∃ r, diff n b1 b2 = some r ∧ Post2 U b1 b2 r

/-- `diff` hands `tt \ b` to `complement` at the same rank, hence one more unit of fuel -/
theorem diff_total (U : List Atom) : ∀ n k, k + 1 < n → DiffOK U k n := by
  intro n
  induction n with
  | zero => intro k hk; omega
  | succ n ih =>
    intro k hk b1 b2 g1 g2 r1 r2
    by_cases hEq : b1 = b2
    · subst hEq
      exact ⟨ff, by simp [diff], good_ff U, fun _ _ _ => trivial⟩
    · cases b2 with
      | tt => exact ⟨ff, by cases b1 <;> simp [diff], good_ff U, fun _ _ _ => trivial⟩
      | ff => exact ⟨b1, by cases b1 <;> simp [diff] at hEq ⊢, g1, fun a h _ => h⟩
      | node a2 l2 m2 r2' =>
        cases b1 with
        | tt =>
          obtain ⟨r, hr, gr, hl⟩ := complement_total U n k (by omega) (node a2 l2 m2 r2') g2 r2
          exact ⟨r, by simp [diff, hr], gr, fun a _ h => hl a h⟩
        | ff => exact ⟨ff, by simp [diff], good_ff U, fun _ _ _ => trivial⟩
        | node a1 l1 m1 r1' =>
          obtain ⟨ha1, gl1, gm1, gr1, ll1, lm1, lr1⟩ := good_node g1
          obtain ⟨ha2, gl2, gm2, gr2, ll2, lm2, lr2⟩ := good_node g2
          have hp1 := rank_node_pos g1
          simp only [rank] at r1 r2 hp1
          have hk' : k - 1 < n := by omega
          have IH := ih (k - 1) (by omega)
          have UH := union_total U n (k - 1) hk'
          simp only [diff, hEq, if_false]
          cases hc : Atom.cmp a1 a2 <;> simp only []
          · have h12 := (cmp_lt a1 a2).1 hc
            have rl1 := rank_lt ha1 ll1; have rm1 := rank_lt ha1 lm1; have rr1 := rank_lt ha1 lr1
            have rb2 : rank U (node a2 l2 m2 r2') < above U a1 := above_lt ha1 h12
            obtain ⟨x, hx, gx, lx⟩ := UH l1 m1 gl1 gm1 (by omega) (by omega)
            obtain ⟨y, hy, gy, ly⟩ := UH r1' m1 gr1 gm1 (by omega) (by omega)
            simp only [hx, hy]
            have rx := rank_lt ha1 (lx a1 ll1 lm1); have ry := rank_lt ha1 (ly a1 lr1 lm1)
            obtain ⟨l, hl, gl, hltl⟩ := IH x (node a2 l2 m2 r2') gx g2 (by omega) (by omega)
            obtain ⟨r, hr, gr, hltr⟩ := IH y (node a2 l2 m2 r2') gy g2 (by omega) (by omega)
            simp only [hl, hr]
            obtain ⟨res, hres, gres, hlr⟩ := fromNode_total' hk' ha1 gl (good_ff U) gr (hltl a1 (lx a1 ll1 lm1) h12) trivial
              (hltr a1 (ly a1 lr1 lm1) h12) (by omega)
            exact ⟨res, hres, gres, fun a h1 _ => hlr a h1⟩
          · have := Atom.cmp_eq hc; subst this
            have rl1 := rank_lt ha1 ll1; have rm1 := rank_lt ha1 lm1; have rr1 := rank_lt ha1 lr1
            have rl2 := rank_lt ha1 ll2; have rm2 := rank_lt ha1 lm2; have rr2 := rank_lt ha1 lr2
            obtain ⟨x1, hx1, gx1, lx1⟩ := UH l1 m1 gl1 gm1 (by omega) (by omega)
            obtain ⟨x2, hx2, gx2, lx2⟩ := UH l2 m2 gl2 gm2 (by omega) (by omega)
            obtain ⟨y1, hy1, gy1, ly1⟩ := UH r1' m1 gr1 gm1 (by omega) (by omega)
            obtain ⟨y2, hy2, gy2, ly2⟩ := UH r2' m2 gr2 gm2 (by omega) (by omega)
            simp only [hx1, hx2, hy1, hy2]
            have rx1 := rank_lt ha1 (lx1 a1 ll1 lm1); have rx2 := rank_lt ha1 (lx2 a1 ll2 lm2)
            have ry1 := rank_lt ha1 (ly1 a1 lr1 lm1); have ry2 := rank_lt ha1 (ly2 a1 lr2 lm2)
            obtain ⟨l, hl, gl, hltl⟩ := IH x1 x2 gx1 gx2 (by omega) (by omega)
            obtain ⟨r, hr, gr, hltr⟩ := IH y1 y2 gy1 gy2 (by omega) (by omega)
            simp only [hl, hr]
            obtain ⟨res, hres, gres, hlr⟩ := fromNode_total' hk' ha1 gl (good_ff U) gr
              (hltl a1 (lx1 a1 ll1 lm1) (lx2 a1 ll2 lm2)) trivial (hltr a1 (ly1 a1 lr1 lm1) (ly2 a1 lr2 lm2)) (by omega)
            exact ⟨res, hres, gres, fun a h1 _ => hlr a h1⟩
          · have h21 := (cmp_gt a1 a2).1 hc
            have rl2 := rank_lt ha2 ll2; have rm2 := rank_lt ha2 lm2; have rr2 := rank_lt ha2 lr2
            have rb1 : rank U (node a1 l1 m1 r1') < above U a2 := above_lt ha2 h21
            obtain ⟨x, hx, gx, lx⟩ := UH l2 m2 gl2 gm2 (by omega) (by omega)
            obtain ⟨y, hy, gy, ly⟩ := UH r2' m2 gr2 gm2 (by omega) (by omega)
            simp only [hx, hy]
            have rx := rank_lt ha2 (lx a2 ll2 lm2); have ry := rank_lt ha2 (ly a2 lr2 lm2)
            obtain ⟨l, hl, gl, hltl⟩ := IH (node a1 l1 m1 r1') x g1 gx (by omega) (by omega)
            obtain ⟨r, hr, gr, hltr⟩ := IH (node a1 l1 m1 r1') y g1 gy (by omega) (by omega)
            simp only [hl, hr]
            obtain ⟨res, hres, gres, hlr⟩ := fromNode_total' hk' ha2 gl (good_ff U) gr (hltl a2 h21 (lx a2 ll2 lm2)) trivial
              (hltr a2 h21 (ly a2 lr2 lm2)) (by omega)
            exact ⟨res, hres, gres, fun a _ h2 => hlr a h2⟩


/-! ## every script of operations over atoms -/

theorem rank_le (U : List Atom) (b : Bdd) : rank U b ≤ U.length := by
  cases b with
  | node a l m r => exact List.countP_le_length
  | tt => exact Nat.zero_le _
  | ff => exact Nat.zero_le _

theorem good_fromAtom {U : List Atom} {a : Atom} (ha : a ∈ U) : Good U (fromAtom a) :=
  mk_good_node ha (good_tt U) (good_ff U) (good_ff U) trivial trivial trivial

/-- the diagrams the engine can build: atoms, constants, and the four operations -/
inductive Expr where
  | atom (a : Atom)
  | tt
  | ff
  | union (e1 e2 : Expr)
  | inter (e1 e2 : Expr)
  | diff (e1 e2 : Expr)
  | compl (e : Expr)

def Expr.atoms : Expr → List Atom
  | .atom a => [a]
  | .tt | .ff => []
  | .union e1 e2 | .inter e1 e2 | .diff e1 e2 => e1.atoms ++ e2.atoms
  | .compl e => e.atoms

/-- run a script with the modelled operations at fuel `n` -/
def run (n : Nat) : Expr → Option Bdd
  | .atom a => some (fromAtom a)
  | .tt => some Bdd.tt
  | .ff => some Bdd.ff
  | .union e1 e2 => match run n e1, run n e2 with
    | some x, some y => Bdd.union n x y
    | _, _ => none
  | .inter e1 e2 => match run n e1, run n e2 with
    | some x, some y => Bdd.intersect n x y
    | _, _ => none
  | .diff e1 e2 => match run n e1, run n e2 with
    | some x, some y => Bdd.diff n x y
    | _, _ => none
  | .compl e => match run n e with
    | some x => Bdd.complement n x
    | none => none

/-- the Boolean function a script denotes -/
def Expr.eval (ρ : Atom → Bool) : Expr → Bool
  | .atom a => ρ a
  | .tt => true
  | .ff => false
  | .union e1 e2 => e1.eval ρ || e2.eval ρ
  | .inter e1 e2 => e1.eval ρ && e2.eval ρ
  | .diff e1 e2 => e1.eval ρ && !e2.eval ρ
  | .compl e => !e.eval ρ

/-- **C06 (totality)**: every script over atoms of `U` runs to completion with fuel `|U| + 2`, its result is an ordered
diagram over `U` — and (with the exactness lemmas) denotes exactly the Boolean combination the script spells -/
theorem script_total (U : List Atom) : ∀ (e : Expr), (∀ a ∈ e.atoms, a ∈ U) →
    ∃ b, run (U.length + 2) e = some b ∧ Good U b ∧ ∀ ρ, Bdd.eval ρ b = e.eval ρ := by
  intro e
  induction e with
  | atom a =>
    intro h
    exact ⟨_, rfl, good_fromAtom (h a (by simp [Expr.atoms])), fun ρ => by simp [Bdd.eval, fromAtom, Expr.eval]⟩
  | tt => intro _; exact ⟨_, rfl, good_tt U, fun _ => rfl⟩
  | ff => intro _; exact ⟨_, rfl, good_ff U, fun _ => rfl⟩
  | union e1 e2 ih1 ih2 =>
    intro h
    obtain ⟨x, hx, gx, ex⟩ := ih1 (fun a ha => h a (by simp [Expr.atoms, ha]))
    obtain ⟨y, hy, gy, ey⟩ := ih2 (fun a ha => h a (by simp [Expr.atoms, ha]))
    obtain ⟨r, hr, gr, _⟩ := union_total U (U.length + 2) U.length (by omega) x y gx gy (rank_le U x) (rank_le U y)
    exact ⟨r, by simp only [run, hx, hy, hr], gr, fun ρ => by rw [union_sound _ _ _ _ hr ρ, ex, ey]; rfl⟩
  | inter e1 e2 ih1 ih2 =>
    intro h
    obtain ⟨x, hx, gx, ex⟩ := ih1 (fun a ha => h a (by simp [Expr.atoms, ha]))
    obtain ⟨y, hy, gy, ey⟩ := ih2 (fun a ha => h a (by simp [Expr.atoms, ha]))
    obtain ⟨r, hr, gr, _⟩ := intersect_total U (U.length + 2) U.length (by omega) x y gx gy (rank_le U x) (rank_le U y)
    exact ⟨r, by simp only [run, hx, hy, hr], gr, fun ρ => by rw [intersect_sound _ _ _ _ hr ρ, ex, ey]; rfl⟩
  | diff e1 e2 ih1 ih2 =>
    intro h
    obtain ⟨x, hx, gx, ex⟩ := ih1 (fun a ha => h a (by simp [Expr.atoms, ha]))
    obtain ⟨y, hy, gy, ey⟩ := ih2 (fun a ha => h a (by simp [Expr.atoms, ha]))
    obtain ⟨r, hr, gr, _⟩ := diff_total U (U.length + 2) U.length (by omega) x y gx gy (rank_le U x) (rank_le U y)
    exact ⟨r, by simp only [run, hx, hy, hr], gr, fun ρ => by rw [diff_sound _ _ _ _ hr ρ, ex, ey]; rfl⟩
  | compl e ih =>
    intro h
    obtain ⟨x, hx, gx, ex⟩ := ih (fun a ha => h a (by simpa [Expr.atoms] using ha))
    obtain ⟨r, hr, gr, _⟩ := complement_total U (U.length + 2) U.length (by omega) x gx (rank_le U x)
    exact ⟨r, by simp only [run, hx, hr], gr, fun ρ => by rw [complement_sound _ _ _ hr ρ, ex]; rfl⟩

/-- … in particular with `U` = the atoms the script mentions: no hypothesis left -/
theorem bdd_ops_total_of_ordered (e : Expr) :
    ∃ b, run (e.atoms.length + 2) e = some b ∧ ∀ ρ, Bdd.eval ρ b = e.eval ρ := by
  obtain ⟨b, hb, _, he⟩ := script_total e.atoms e (fun _ h => h)
  exact ⟨b, hb, he⟩

/-! ### `dnf_to_bdd` -/

theorem conjPos_total (U : List Atom) : ∀ (as : List Atom) (b : Bdd), (∀ a ∈ as, a ∈ U) → Good U b →
    ∃ r, Dnf.conjPos (U.length + 2) as b = some r ∧ Good U r := by
  intro as
  induction as with
  | nil => intro b _ g; exact ⟨b, rfl, g⟩
  | cons a as ih =>
    intro b h g
    obtain ⟨x, hx, gx, _⟩ := intersect_total U (U.length + 2) U.length (by omega) b (fromAtom a) g
      (good_fromAtom (h a (by simp))) (rank_le U _) (rank_le U _)
    obtain ⟨r, hr, gr⟩ := ih x (fun c hc => h c (by simp [hc])) gx
    exact ⟨r, by simp only [Dnf.conjPos, hx, hr], gr⟩

theorem conjNeg_total (U : List Atom) : ∀ (as : List Atom) (b : Bdd), (∀ a ∈ as, a ∈ U) → Good U b →
    ∃ r, Dnf.conjNeg (U.length + 2) as b = some r ∧ Good U r := by
  intro as
  induction as with
  | nil => intro b _ g; exact ⟨b, rfl, g⟩
  | cons a as ih =>
    intro b h g
    obtain ⟨na, hna, gna, _⟩ := complement_total U (U.length + 2) U.length (by omega) (fromAtom a)
      (good_fromAtom (h a (by simp))) (rank_le U _)
    obtain ⟨x, hx, gx, _⟩ := intersect_total U (U.length + 2) U.length (by omega) b na g gna (rank_le U _) (rank_le U _)
    obtain ⟨r, hr, gr⟩ := ih x (fun c hc => h c (by simp [hc])) gx
    exact ⟨r, by simp only [Dnf.conjNeg, hna, hx, hr], gr⟩

/-- rebuilding a diagram from clauses over `U` never runs out of fuel -/
theorem toBdd_total (U : List Atom) : ∀ (d : Dnf) (b : Bdd), (∀ c ∈ d, (∀ a ∈ c.pos, a ∈ U) ∧ (∀ a ∈ c.neg, a ∈ U)) → Good U b →
    ∃ r, Dnf.toBddAcc (U.length + 2) d b = some r ∧ Good U r := by
  intro d
  induction d with
  | nil => intro b _ g; exact ⟨b, rfl, g⟩
  | cons c cs ih =>
    intro b h g
    obtain ⟨hp, hn⟩ := h c (by simp)
    obtain ⟨p, hp', gp⟩ := conjPos_total U c.pos .tt hp (good_tt U)
    obtain ⟨cb, hcb, gcb⟩ := conjNeg_total U c.neg p hn gp
    obtain ⟨x, hx, gx, _⟩ := union_total U (U.length + 2) U.length (by omega) b cb g gcb (rank_le U _) (rank_le U _)
    obtain ⟨r, hr, gr⟩ := ih x (fun c' hc' => h c' (by simp [hc'])) gx
    exact ⟨r, by simp only [Dnf.toBddAcc, hp', hcb, hx, hr], gr⟩

/-! ### non-vacuity and sharpness -/

private def a0 : Atom := ⟨0, 0⟩
private def a1 : Atom := ⟨0, 1⟩
private def a2 : Atom := ⟨1, 0⟩

/-- a script that exercises all four operations runs, at exactly the fuel of the theorem -/
example : (run 5 (.diff (.union (.atom a0) (.inter (.atom a1) (.compl (.atom a2)))) (.atom a1))).isSome = true := by
  decide +kernel

/-- fuel is needed: the same script does not finish with fuel 1 -/
example : run 1 (.diff (.union (.atom a0) (.inter (.atom a1) (.compl (.atom a2)))) (.atom a1)) = none := by
  decide +kernel

/-- orderedness is what the bound rests on: an UNORDERED diagram (the same atom below itself) is not `Ordered` -/
example : ¬ Ordered (node a0 (node a0 tt ff ff) ff ff) := by
  intro h
  cases h with
  | node _ _ _ _ _ _ _ ll _ _ => exact lt_irrefl a0 ll

end BeffVerif.C06T
