import BeffVerif.Props.C02Frag
namespace BeffVerif.C02F
open BeffVerif RT JsVal JS C02E

theorem exists_right_of_mem_zip_left {α β : Type} {l : List α} {r : List β} (hl : r.length = l.length) {x : α} (hx : x ∈ l) :
    ∃ y, (x, y) ∈ l.zip r := by
  obtain ⟨i, hi, e⟩ := List.mem_iff_getElem.1 hx
  refine ⟨r[i]'(hl ▸ hi), ?_⟩
  rw [List.mem_iff_getElem]
  exact ⟨i, by rw [List.length_zip]; omega, by simp [e]⟩

theorem mem_zip_range {α : Type} {l : List α} {q : α × Nat} (h : q ∈ l.zip (List.range l.length)) :
    ∃ (i : Nat) (hi : i < l.length), q = (l[i], i) := by
  obtain ⟨i, hi, e⟩ := List.mem_iff_getElem.1 h
  rw [List.length_zip, List.length_range, Nat.min_self] at hi
  refine ⟨i, hi, ?_⟩
  rw [← e]; simp

theorem lookupProp_none_iff {ps : List (String × JsVal)} {k : String} :
    lookupProp ps k = none ↔ ps.any (fun p => p.1 == k) = false := by
  induction ps with
  | nil => simp [lookupProp_nil]
  | cons p ps ih =>
    rw [lookupProp_cons, List.any_cons]
    by_cases e : p.1 = k
    · simp [e]
    · have : (p.1 == k) = false := by simpa using e
      simp [e, this, ih]

theorem lookupProp_mem {ps : List (String × JsVal)} {k : String} {v : JsVal} (h : lookupProp ps k = some v) : (k, v) ∈ ps := by
  induction ps with
  | nil => simp [lookupProp_nil] at h
  | cons p ps ih =>
    rw [lookupProp_cons] at h
    by_cases e : p.1 = k
    · simp only [e, if_true, Option.some.injEq] at h
      rw [← e, ← h]; exact List.mem_cons_self
    · simp only [e, if_false] at h
      exact List.mem_cons_of_mem _ (ih h)

theorem lookupProp_isSome_of_any {ps : List (String × JsVal)} {k : String} (h : ps.any (fun p => p.1 == k) = true) :
    (lookupProp ps k).isSome = true := by
  cases hl : lookupProp ps k with
  | some _ => rfl
  | none =>
    exfalso
    have := lookupProp_none_iff.1 hl
    rw [this] at h; cases h

/-- `v[k]` on a plain object, for a name Object.prototype does not answer -/
theorem getProp_obj {dprops : List (String × JsVal)} {k : String} (hk : protoNamedKey k = false) :
    (JsVal.obj dprops).getProp k = (lookupProp dprops k).getD .undef := by
  simp only [protoNamedKey, Bool.or_eq_false_iff, beq_eq_false_iff_ne, ne_eq] at hk
  unfold JsVal.getProp
  simp only [JsVal.getOwn?]
  cases lookupProp dprops k with
  | some x => rfl
  | none =>
    simp only [Option.getD_none]
    unfold JsVal.getInherited
    have h2 : ¬ k ∈ objectProtoFns := by simpa using hk.2
    simp [hk.1, h2]

/-- a schema from which a null branch can be removed accepts `null` as soon as it answers on `null` at all -/
theorem rnb_valid_null (P : Params) {n : Nat} {s r : JsVal} (hp : pureS n s = true) (hr : removeNullUnionBranch n s = some r)
    (hd : ∃ k b, valid P k s .null = some b) : ∃ k, valid P k s .null = some true := by
  cases n with
  | zero => simp [removeNullUnionBranch] at hr
  | succ n =>
    cases s with
    | obj kvs =>
      cases ha : lookupProp kvs "anyOf" with
      | none =>
        simp only [pureS, ha] at hp
        have ho : lookupProp kvs "oneOf" = none := by simpa using hp
        simp [removeNullUnionBranch, ha, ho] at hr
      | some a =>
        cases a with
        | arr vs =>
          have hp0 := hp
          simp only [pureS, ha, Bool.and_eq_true, List.all_eq_true] at hp
          obtain ⟨_, hvs⟩ := hp
          simp only [removeNullUnionBranch, ha, Option.isSome_some, if_true] at hr
          split at hr
          · cases hr
          rename_i hlen
          simp only [Bool.or_eq_true, beq_iff_eq, not_or] at hlen
          have hnull : ∃ v ∈ vs, isNullDef v = true := by
            apply Classical.byContradiction
            intro hno
            apply hlen.1
            rw [List.filter_eq_self.2]
            intro v hv'
            cases hb : isNullDef v with
            | false => rfl
            | true => exact absurd ⟨v, hv', hb⟩ hno
          obtain ⟨v, hv, hnv⟩ := hnull
          have hsimple : nullSimple v = true := by simpa [hnv] using hvs v hv
          obtain ⟨k, b, hb⟩ := hd
          cases k with
          | zero => simp [valid] at hb
          | succ k =>
            rw [valid_pure_anyOf P ha hp0] at hb
            obtain ⟨hdef, _, h3⟩ := anyO_map_spec hb
            cases k with
            | zero =>
              obtain ⟨c, hc⟩ := hdef v hv
              simp [valid] at hc
            | succ k =>
              have : valid P (k+1) v .null = some true := by
                rw [valid_nullSimple P hnv hsimple]; rfl
              have hbt := h3 v hv this
              subst hbt
              exact ⟨k + 2, by rw [valid_pure_anyOf P ha hp0]; exact hb⟩
        | _ => simp [pureS, ha] at hp
    | _ => simp [removeNullUnionBranch] at hr

/-! ### the theorem -/

/-- the flat printing mode of `schema()` -/
def flat : SOpts := ⟨false, "", []⟩

theorem good_core (P : Params) (env : Env) : ∀ n seen rt desc c s c', frag env n seen rt = true →
    schema env flat n rt desc seen c = .ok s c' → Good P env rt s := by
  intro n
  induction n with
  | zero => intro seen rt desc c s c' h; simp [frag] at h
  | succ n ih =>
    intro seen rt desc c s c' hf hs
    cases rt with
    | described d t =>
      simp only [frag] at hf
      simp only [schema] at hs
      exact good_wrap (ih seen t (some d) c s c' hf hs) (fun m strict v => by simp [validate])
    | typeof t =>
      simp only [schema, SRes.ok.injEq] at hs
      obtain ⟨rfl, _⟩ := hs
      apply good_annotate
      refine good_leaf (goodS_type P t) (fun d => d.typeOf == t) (fun m strict d => by simp [validate]) ?_
      intro k d hv
      have ht := valid_type_true hv
      simp only [frag, Bool.or_eq_true, beq_iff_eq] at hf
      rcases hf with (h | h) | h <;> subst h <;> cases d <;> simp [typeOk, JsVal.typeOf] at ht ⊢
    | any =>
      simp only [schema, SRes.ok.injEq] at hs
      obtain ⟨rfl, _⟩ := hs
      apply good_annotate
      exact good_leaf (goodS_empty P) (fun _ => true) (fun m strict d => by simp [validate]) (fun _ _ _ => rfl)
    | nullish x =>
      simp only [schema, SRes.ok.injEq] at hs
      obtain ⟨rfl, _⟩ := hs
      apply good_annotate
      refine good_leaf (goodS_type P "null") (fun d => d.isNullish) (fun m strict d => by simp [validate]) ?_
      intro k d hv
      have ht := valid_type_true hv
      cases d <;> simp [typeOk, JsVal.isNullish] at ht ⊢
    | never =>
      simp only [schema, SRes.ok.injEq] at hs
      obtain ⟨rfl, _⟩ := hs
      apply good_annotate
      refine good_leaf (goodS_never P) (fun _ => false) (fun m strict d => by simp [validate]) ?_
      intro k d hv
      exact (valid_never_true hv).elim
    | const v =>
      simp only [frag, Bool.or_eq_true] at hf
      simp only [schema, flat, Bool.false_eq_true, if_false, SRes.ok.injEq] at hs
      obtain ⟨rfl, _⟩ := hs
      apply good_annotate
      refine good_leaf (goodS_const P _) (fun d => if v.isNullish then d.isNullish else strictEqPrim d v)
        (fun m strict d => by simp [validate]) ?_
      intro k d hv
      have hj := valid_const_true hv
      cases hn : v.isNullish with
      | true => simp only [hn, if_true] at hj ⊢; exact jsonEq_null hj
      | false =>
        simp only [hn, Bool.false_eq_true, if_false] at hj ⊢
        have hp : primConst v = true := by
          rcases hf with h | h
          · exact h
          · rw [hn] at h; cases h
        exact jsonEq_strict hp hn hj
    | ref name =>
      simp only [frag, Bool.and_eq_true, Bool.not_eq_true'] at hf
      obtain ⟨hseen, hlk⟩ := hf
      cases hl : env.lookup name with
      | none => rw [hl] at hlk; cases hlk
      | some t =>
        rw [hl] at hlk
        simp only [schema, hl, flat, Bool.false_eq_true, if_false] at hs
        have hseen' : seen.contains name = false := hseen
        rw [hseen'] at hs
        simp only [Bool.false_eq_true, if_false] at hs
        cases hr : schema env ⟨false, "", []⟩ n t none (name :: seen) c with
        | ok s0 c0 =>
          rw [hr] at hs
          simp only [SRes.ok.injEq] at hs
          obtain ⟨rfl, _⟩ := hs
          apply good_annotate
          exact good_wrap (ih (name :: seen) t none c s0 c0 hlk hr) (fun m strict v => by simp [validate, hl])
        | throw e => rw [hr] at hs; cases hs
        | nofuel => rw [hr] at hs; cases hs
    | consts vs =>
      simp only [frag, List.all_eq_true] at hf
      have hsound : ∀ (d : JsVal), vs.any (fun c => jsonEq 50 c d) = true → vs.any (fun v => sameValueZeroPrim v d) = true := by
        intro d h
        rw [List.any_eq_true] at h ⊢
        obtain ⟨x, hx, hj⟩ := h
        exact ⟨x, hx, jsonEq_svz (hf x hx) hj⟩
      have hleaf : ∀ (s0 : JsVal), GoodS P s0 → (∀ k d, valid P (k+1) s0 d = some true → vs.any (fun c => jsonEq 50 c d) = true) →
          Good P env (.consts vs) s0 := by
        intro s0 g0 h0
        refine good_leaf g0 (fun d => match validate env false 1 (.consts vs) d with | .ok b => b | _ => false)
          (fun m strict d => by simp only [validate]) ?_
        intro k d hv
        simp only [validate]
        rw [Bool.or_eq_true]; right
        exact hsound d (h0 k d hv)
      simp only [schema] at hs
      split at hs
      · rename_i tp htp
        simp only [SRes.ok.injEq] at hs
        obtain ⟨rfl, _⟩ := hs
        apply good_annotate
        have hne : tp ≠ "null" := by
          split at htp
          · cases hh : vs.headD JsVal.null <;> rw [hh] at htp <;> simp [typeofOfConst] at htp <;> simp [← htp]
          · cases htp
        exact hleaf _ (goodS_type_enum P tp hne vs) (fun k d hv => valid_type_enum_true hv)
      · simp only [SRes.ok.injEq] at hs
        obtain ⟨rfl, _⟩ := hs
        apply good_annotate
        exact hleaf _ (goodS_enum P vs) (fun k d hv => valid_enum_true hv)
    | array t =>
      simp only [frag] at hf
      simp only [schema] at hs
      cases hr : schema env flat n t none seen c with
      | throw e => rw [hr] at hs; cases hs
      | nofuel => rw [hr] at hs; cases hs
      | ok s0 c0 =>
        rw [hr] at hs
        simp only [SRes.ok.injEq] at hs
        obtain ⟨rfl, _⟩ := hs
        have g := ih seen t none c s0 c0 hf hr
        apply good_annotate
        refine { gs := ?_, nt := ?_, sound := ?_ }
        · rw [jobj_eq]; simp only [List.foldl]
          exact goodS_typed (t := "array") (by simp [lookup_setProp, lookupProp_nil]) (by simp)
            (by intro k hk; simp at hk; rcases hk with rfl | rfl | rfl | rfl | rfl | rfl | rfl | rfl <;> simp [lookup_setProp, lookupProp_nil])
        · intro m strict d c
          cases m with
          | zero => simp [validate]
          | succ m =>
            simp only [validate]
            cases d <;> try simp
            exact allShort_nt (fun x _ c => g.nt m strict x c) c
        · intro k d m strict hv
          cases m with
          | zero => exact acc_nofuel
          | succ m =>
            cases k with
            | zero => exact absurd hv (valid_zero_ne P _ d)
            | succ k =>
              obtain ⟨items, rfl, hi⟩ := valid_array_true hv
              simp only [validate]
              exact allShort_acc (fun x hx => g.sound k x m strict (hi x hx))
    | optional t =>
      simp only [frag] at hf
      simp only [schema] at hs
      cases hr : schema env flat n t none seen c with
      | throw e => rw [hr] at hs; cases hs
      | nofuel => rw [hr] at hs; cases hs
      | ok s0 c0 =>
        rw [hr] at hs
        simp only [SRes.ok.injEq] at hs
        obtain ⟨rfl, _⟩ := hs
        have g := ih seen t none c s0 c0 hf hr
        refine { gs := ?_, nt := ?_, sound := ?_ }
        · apply goodS_anyOf
          intro s hs'
          simp only [List.mem_cons, List.mem_nil_iff, or_false] at hs'
          rcases hs' with rfl | rfl
          · exact g.gs
          · exact goodS_type P "null"
        · intro m strict d c
          cases m with
          | zero => simp [validate]
          | succ m =>
            simp only [validate]
            split
            · simp
            · exact g.nt m strict d c
        · intro k d m strict hv
          cases m with
          | zero => exact acc_nofuel
          | succ m =>
            cases k with
            | zero => exact absurd hv (valid_zero_ne P _ d)
            | succ k =>
              obtain ⟨s', hs', hv'⟩ := valid_anyOf_true hv
              simp only [validate]
              split
              · exact acc_true
              · rename_i hnn
                simp only [List.mem_cons, List.mem_nil_iff, or_false] at hs'
                rcases hs' with rfl | rfl
                · exact g.sound k d m strict hv'
                · cases k with
                  | zero => exact absurd hv' (valid_zero_ne P _ d)
                  | succ k =>
                    have := valid_type_true hv'
                    cases d <;> simp [typeOk, JsVal.isNullish] at this hnn
    | anyOf ts =>
      simp only [frag, List.all_eq_true] at hf
      simp only [schema] at hs
      cases hr : seqS (fun t c => schema env flat n t none seen c) ts c with
      | throw e => rw [hr] at hs; cases hs
      | nofuel => rw [hr] at hs; cases hs
      | ok ss c0 =>
        rw [hr] at hs
        simp only [SRes.ok.injEq] at hs
        obtain ⟨rfl, _⟩ := hs
        obtain ⟨hlen, hz⟩ := seqS_spec _ ts c ss c0 hr
        have gz : ∀ p ∈ ts.zip ss, Good P env p.1 p.2 := by
          intro p hp
          obtain ⟨c1, c2, e⟩ := hz p hp
          exact ih seen p.1 none c1 p.2 c2 (hf p.1 (List.of_mem_zip hp).1) e
        apply good_annotate
        refine { gs := ?_, nt := ?_, sound := ?_ }
        · apply goodS_anyOf
          intro s hs'
          obtain ⟨t, ht⟩ := exists_left_of_mem_zip_right (l := ts) hlen hs'
          exact (gz _ ht).gs
        · intro m strict d c
          cases m with
          | zero => simp [validate]
          | succ m =>
            simp only [validate]
            apply anyShort_nt
            intro t ht c
            obtain ⟨s', hs'⟩ : ∃ s', (t, s') ∈ ts.zip ss := by
              obtain ⟨i, hi, e⟩ := List.mem_iff_getElem.1 ht
              refine ⟨ss[i]'(hlen ▸ hi), ?_⟩
              rw [List.mem_iff_getElem]
              exact ⟨i, by rw [List.length_zip]; omega, by simp [e]⟩
            exact (gz _ hs').nt m strict d c
        · intro k d m strict hv
          cases m with
          | zero => exact acc_nofuel
          | succ m =>
            cases k with
            | zero => exact absurd hv (valid_zero_ne P _ d)
            | succ k =>
              obtain ⟨s', hs', hv'⟩ := valid_anyOf_true hv
              obtain ⟨t, ht⟩ := exists_left_of_mem_zip_right (l := ts) hlen hs'
              simp only [validate]
              apply anyShort_acc
              · exact ⟨t, (List.of_mem_zip ht).1, (gz _ ht).sound k d m strict hv'⟩
              · intro t' ht' c
                obtain ⟨s'', hs''⟩ : ∃ s'', (t', s'') ∈ ts.zip ss := by
                  obtain ⟨i, hi, e⟩ := List.mem_iff_getElem.1 ht'
                  refine ⟨ss[i]'(hlen ▸ hi), ?_⟩
                  rw [List.mem_iff_getElem]
                  exact ⟨i, by rw [List.length_zip]; omega, by simp [e]⟩
                exact (gz _ hs'').nt m strict d c
    | tuple pre rest =>
      simp only [frag, Bool.and_eq_true, List.all_eq_true] at hf
      obtain ⟨hfpre, hfrest⟩ := hf
      simp only [schema] at hs
      cases hr : seqS (fun t c => schema env flat n t none seen c) pre c with
      | throw e => rw [hr] at hs; cases hs
      | nofuel => rw [hr] at hs; cases hs
      | ok ps c1 =>
        rw [hr] at hs
        simp only at hs
        obtain ⟨hlen, hz⟩ := seqS_spec _ pre c ps c1 hr
        have gz : ∀ p ∈ pre.zip ps, Good P env p.1 p.2 := by
          intro p hp
          obtain ⟨d1, d2, e⟩ := hz p hp
          exact ih seen p.1 none d1 p.2 d2 (hfpre p.1 (List.of_mem_zip hp).1) e
        -- the schema of the rest element, and what it says about the surplus items
        have hrest : ∃ (items : JsVal) (_c2 : SCtx), s = annotate desc (jobj ([("type", JsVal.str "array")] ++ (if ps.length > 0 then [("prefixItems", JsVal.arr ps)] else []) ++
              [("items", items), ("minItems", JsVal.num (natToCanon pre.length))])) ∧
            (∀ m strict (xs : List JsVal) c, (match rest with
              | some r => allShort (fun x => validate env strict m r x) (xs.drop pre.length)
              | none => (.ok (!(decide (xs.length > pre.length))) : Res Bool)) ≠ .throw c) ∧
            (∀ k m strict (xs : List JsVal), (∀ x ∈ xs.drop pre.length, valid P k items x = some true) →
              Acc (match rest with
                | some r => allShort (fun x => validate env strict m r x) (xs.drop pre.length)
                | none => (.ok (!(decide (xs.length > pre.length))) : Res Bool))) := by
          cases rest with
          | some r =>
            simp only at hs hfrest
            cases hi : schema env flat n r none seen c1 with
            | throw e => rw [hi] at hs; cases hs
            | nofuel => rw [hi] at hs; cases hs
            | ok items c2 =>
              rw [hi] at hs
              simp only [SRes.ok.injEq] at hs
              have g := ih seen r none c1 items c2 hfrest hi
              refine ⟨items, c2, hs.1.symm, ?_, ?_⟩
              · intro m strict xs c
                exact allShort_nt (fun x _ c => g.nt m strict x c) c
              · intro k m strict xs hx
                exact allShort_acc (fun x hx' => g.sound k x m strict (hx x hx'))
          | none =>
            simp only [SRes.ok.injEq] at hs
            refine ⟨.bool false, c1, hs.1.symm, ?_, ?_⟩
            · intro m strict xs c; simp
            · intro k m strict xs hx
              have : ¬ xs.length > pre.length := by
                intro hgt
                have hne : xs.drop pre.length ≠ [] := by
                  intro e
                  have := congrArg List.length e
                  simp at this; omega
                obtain ⟨x, hx'⟩ := List.exists_mem_of_ne_nil _ hne
                exact valid_false_ne_true P k x (hx x hx')
              simp [this]; exact acc_true
        obtain ⟨items, c2, rfl, hrnt, hracc⟩ := hrest
        apply good_annotate
        refine { gs := ?_, nt := ?_, sound := ?_ }
        · rw [jobj_eq]
          by_cases hp : ps.length > 0
          · simp only [hp, if_true, List.cons_append, List.nil_append, List.foldl]
            exact goodS_typed (t := "array") (by simp [lookup_setProp, lookupProp_nil]) (by simp)
              (by intro k hk; simp at hk; rcases hk with rfl | rfl | rfl | rfl | rfl | rfl | rfl | rfl <;> simp [lookup_setProp, lookupProp_nil])
          · simp only [hp, if_false, List.cons_append, List.nil_append, List.append_nil, List.foldl]
            exact goodS_typed (t := "array") (by simp [lookup_setProp, lookupProp_nil]) (by simp)
              (by intro k hk; simp at hk; rcases hk with rfl | rfl | rfl | rfl | rfl | rfl | rfl | rfl <;> simp [lookup_setProp, lookupProp_nil])
        · intro m strict d c
          cases m with
          | zero => simp [validate]
          | succ m =>
            simp only [validate]
            cases d with
            | arr xs =>
              simp only
              have hA := allShort_nt (f := fun (p : RT × Nat) => validate env strict m p.1 (xs.getD p.2 .undef))
                (l := pre.zip (List.range pre.length)) (fun q hq c => by
                  obtain ⟨y, hy⟩ := exists_right_of_mem_zip_left (r := ps) hlen (List.of_mem_zip hq).1
                  exact (gz _ hy).nt m strict _ c)
              revert hA
              generalize allShort (fun (p : RT × Nat) => validate env strict m p.1 (xs.getD p.2 .undef)) (pre.zip (List.range pre.length)) = B
              intro hA
              cases B with
              | ok b =>
                cases b with
                | true => exact hrnt m strict xs c
                | false => simp
              | throw c' => exact absurd rfl (hA c')
              | nofuel => simp
            | _ => simp
        · intro k d m strict hv
          cases m with
          | zero => exact acc_nofuel
          | succ m =>
            cases k with
            | zero => exact absurd hv (valid_zero_ne P _ d)
            | succ k =>
              obtain ⟨xs, rfl, h1, h2, h3⟩ := valid_tuple_true hv
              simp only [validate]
              have hA : Acc (allShort (fun (p : RT × Nat) => validate env strict m p.1 (xs.getD p.2 .undef)) (pre.zip (List.range pre.length))) := by
                apply allShort_acc
                intro q hq
                obtain ⟨i, hi, rfl⟩ := mem_zip_range hq
                have hi2 : i < ps.length := hlen ▸ hi
                have hi3 : i < xs.length := Nat.lt_of_lt_of_le hi h3
                have e1 : (pre[i], ps[i]) ∈ pre.zip ps := by
                  rw [List.mem_iff_getElem]
                  exact ⟨i, by rw [List.length_zip]; omega, by simp⟩
                have e2 : (ps[i], xs[i]) ∈ ps.zip xs := by
                  rw [List.mem_iff_getElem]
                  exact ⟨i, by rw [List.length_zip]; omega, by simp⟩
                have e3 : xs.getD i .undef = xs[i] := by simp [List.getD, hi3]
                simp only [e3]
                exact (gz _ e1).sound k _ m strict (h1 _ e2)
              rcases hA with e | e
              · rw [e]
                simp only
                exact hracc k m strict xs (by rw [← hlen]; exact h2)
              · rw [e]; exact acc_nofuel
    | object props ix =>
      simp only [frag, Bool.and_eq_true, List.all_eq_true, Bool.not_eq_true'] at hf
      obtain ⟨⟨hix, hnd⟩, hprops⟩ := hf
      have hix' : ix = [] := by cases ix <;> simp_all
      subst hix'
      simp only [schema] at hs
      cases hr : propsS (fun t c => schema env flat n t none seen c) props ([], []) c with
      | throw e => rw [hr] at hs; cases hs
      | nofuel => rw [hr] at hs; cases hs
      | ok acc c1 =>
        obtain ⟨ps, opt⟩ := acc
        rw [hr] at hs
        simp only [indexS, List.length_nil, beq_self_eq_true, if_true, SRes.ok.injEq] at hs
        obtain ⟨rfl, _⟩ := hs
        obtain ⟨sp1, sp2, sp3⟩ := propsS_spec _ props [] [] c ps opt c1 hr hnd
        -- every property type with the raw schema printed for it
        have gp : ∀ p ∈ props, ∃ raw, Good P env p.2 raw ∧ lookupProp ps p.1 = some ((removeNullUnionBranch 50 raw).getD raw) ∧
            (p.1 ∈ opt → (removeNullUnionBranch 50 raw).isSome = true ∨ isOptionalRT p.2 = true) := by
          intro p hp
          obtain ⟨raw, d1, d2, e1, e2, e3⟩ := sp1 p hp
          refine ⟨raw, ih seen p.2 none d1 raw d2 (hprops p hp).2 e1, e2, ?_⟩
          intro ho
          rcases e3 ho with h | h
          · cases h
          · exact h
        apply good_annotate
        refine { gs := ?_, nt := ?_, sound := ?_ }
        · rw [jobj_eq]
          by_cases hq : (List.filter (fun k => !opt.contains k) (List.map (fun x => x.fst) props)).length > 0
          · simp only [hq, if_true, List.cons_append, List.nil_append, List.foldl]
            exact goodS_typed (t := "object") (by simp [lookup_setProp, lookupProp_nil]) (by simp)
              (by intro k hk; simp at hk; rcases hk with rfl | rfl | rfl | rfl | rfl | rfl | rfl | rfl <;> simp [lookup_setProp, lookupProp_nil])
          · simp only [hq, if_false, List.cons_append, List.nil_append, List.append_nil, List.foldl]
            exact goodS_typed (t := "object") (by simp [lookup_setProp, lookupProp_nil]) (by simp)
              (by intro k hk; simp at hk; rcases hk with rfl | rfl | rfl | rfl | rfl | rfl | rfl | rfl <;> simp [lookup_setProp, lookupProp_nil])
        · intro m strict d c
          cases m with
          | zero => simp [validate]
          | succ m =>
            simp only [validate]
            split
            · simp
            · have hA := allShort_nt (f := fun (p : String × RT) => validate env strict m p.2 (d.getProp p.1)) (l := props)
                (fun p hp c => by obtain ⟨raw, g, _⟩ := gp p hp; exact g.nt m strict _ c)
              revert hA
              generalize allShort (fun (p : String × RT) => validate env strict m p.2 (d.getProp p.1)) props = B
              intro hA
              cases B with
              | ok b => cases b <;> simp <;> split <;> simp
              | throw c' => exact absurd rfl (hA c')
              | nofuel => simp
        · intro k d m strict hv
          cases m with
          | zero => exact acc_nofuel
          | succ m =>
            cases k with
            | zero => exact absurd hv (valid_zero_ne P _ d)
            | succ k =>
              obtain ⟨dprops, rfl, h1, h2, h3⟩ := valid_object_true hv
              simp only [validate]
              have hobj : (!((JsVal.obj dprops).isObjectLike && !(JsVal.obj dprops).isArray)) = false := by
                simp [JsVal.isObjectLike, JsVal.typeOf, JsVal.isArray]
              rw [hobj]
              simp only [Bool.false_eq_true, if_false]
              have hA : Acc (allShort (fun (p : String × RT) => validate env strict m p.2 ((JsVal.obj dprops).getProp p.1)) props) := by
                apply allShort_acc
                intro p hp
                obtain ⟨raw, g, hl, hopt⟩ := gp p hp
                have hk : protoNamedKey p.1 = false := (hprops p hp).1
                rw [getProp_obj hk]
                cases hx : lookupProp dprops p.1 with
                | some x =>
                  simp only [Option.getD_some]
                  have hv' := h1 _ (lookupProp_mem hl) x hx
                  simp only at hv'
                  cases hrr : removeNullUnionBranch 50 raw with
                  | none => rw [hrr] at hv'; exact g.sound k x m strict hv'
                  | some rw' =>
                    rw [hrr] at hv'
                    simp only [Option.getD_some] at hv'
                    obtain ⟨k', hk'⟩ := rnb_sem P 50 raw rw' (g.gs.pure 50) hrr k x true hv'
                    exact g.sound k' x m strict (by simpa using hk')
                | none =>
                  simp only [Option.getD_none]
                  -- a property the document leaves out is not required by the schema: it is optional for the validator too
                  have hnotreq : p.1 ∈ opt := by
                    apply Classical.byContradiction
                    intro hno
                    have : p.1 ∈ List.filter (fun k => !opt.contains k) (List.map (fun x => x.fst) props) := by
                      rw [List.mem_filter]
                      exact ⟨List.mem_map.2 ⟨p, hp, rfl⟩, by simpa using hno⟩
                    have := h2 _ this
                    rw [hx] at this; cases this
                  rcases hopt hnotreq with hrr | ho
                  · cases hrr' : removeNullUnionBranch 50 raw with
                    | none => rw [hrr'] at hrr; cases hrr
                    | some rw' =>
                      obtain ⟨k', hk'⟩ := rnb_valid_null P (g.gs.pure 50) hrr' g.gs.atNull
                      rw [validate_null_undef env n seen p.2 (hprops p hp).2 m strict]
                      exact g.sound k' .null m strict hk'
                  · cases hp2 : p.2 <;> rw [hp2] at ho <;> simp [isOptionalRT] at ho
                    cases m with
                    | zero => exact acc_nofuel
                    | succ m => simp [validate, JsVal.isNullish]; exact acc_true
              rcases hA with e | e
              · rw [e]
                simp only [List.length_nil, Nat.lt_irrefl, decide_false, Bool.false_eq_true, if_false]
                cases strict with
                | false => exact acc_true
                | true =>
                  simp only [if_true]
                  have : List.filter (fun k => !(List.map (fun x => x.fst) props).contains k) (JsVal.obj dprops).ownKeys = [] := by
                    rw [List.filter_eq_nil_iff]
                    intro key hkey
                    simp only [JsVal.ownKeys, List.mem_map] at hkey
                    obtain ⟨q, hq, rfl⟩ := hkey
                    have hany := lookupProp_isSome_of_any (h3 q hq)
                    have : q.1 ∈ List.map (fun x => x.fst) props := by
                      apply Classical.byContradiction
                      intro hno
                      rw [sp2 q.1 hno, lookupProp_nil] at hany
                      cases hany
                    simpa using this
                  rw [this]
                  exact acc_true
              · rw [e]; exact acc_nofuel
    | _ => simp [frag] at hf

/-! ### enough fuel: the validator of a fragment type answers -/

theorem allShort_ne_nofuel {α : Type} {f : α → Res Bool} {l : List α} (h : ∀ x ∈ l, f x ≠ .nofuel) : allShort f l ≠ .nofuel := by
  induction l with
  | nil => simp [allShort]
  | cons x xs ih =>
    simp only [allShort]
    cases hx : f x with
    | ok b => cases b <;> simp [ih (fun y hy => h y (List.mem_cons_of_mem _ hy))]
    | throw c => simp
    | nofuel => exact absurd hx (h x List.mem_cons_self)

theorem anyShort_ne_nofuel {α : Type} {f : α → Res Bool} {l : List α} (h : ∀ x ∈ l, f x ≠ .nofuel) : anyShort f l ≠ .nofuel := by
  induction l with
  | nil => simp [anyShort]
  | cons x xs ih =>
    simp only [anyShort]
    cases hx : f x with
    | ok b => cases b <;> simp [ih (fun y hy => h y (List.mem_cons_of_mem _ hy))]
    | throw c => simp
    | nofuel => exact absurd hx (h x List.mem_cons_self)

/-- with at least as much fuel as the fragment check used, the validator answers -/
theorem validate_frag_answers (env : Env) : ∀ n seen rt, frag env n seen rt = true →
    ∀ m, n ≤ m → ∀ strict d, validate env strict m rt d ≠ .nofuel := by
  intro n
  induction n with
  | zero => intro seen rt h; simp [frag] at h
  | succ n ih =>
    intro seen rt h m hm strict d
    cases m with
    | zero => omega
    | succ m =>
      have hm' : n ≤ m := by omega
      cases rt with
      | described x t => simp only [frag] at h; simp only [validate]; exact ih seen t h m hm' strict d
      | typeof t => simp [validate]
      | any => simp [validate]
      | nullish _ => simp [validate]
      | never => simp [validate]
      | const v => simp [validate]
      | consts vs => simp [validate]
      | array t =>
        simp only [frag] at h
        simp only [validate]
        cases d with
        | arr xs => exact allShort_ne_nofuel (fun x _ => ih seen t h m hm' strict x)
        | _ => simp
      | tuple pre rest =>
        simp only [frag, Bool.and_eq_true, List.all_eq_true] at h
        simp only [validate]
        cases d with
        | arr xs =>
          simp only
          have hA := allShort_ne_nofuel (f := fun (p : RT × Nat) => validate env strict m p.1 (xs.getD p.2 .undef))
            (l := pre.zip (List.range pre.length)) (fun q hq => ih seen q.1 (h.1 q.1 (List.of_mem_zip hq).1) m hm' strict _)
          revert hA
          generalize allShort (fun (p : RT × Nat) => validate env strict m p.1 (xs.getD p.2 .undef)) (pre.zip (List.range pre.length)) = B
          intro hA
          cases B with
          | ok b =>
            cases b with
            | false => simp
            | true =>
              cases rest with
              | none => simp
              | some r => exact allShort_ne_nofuel (fun x _ => ih seen r h.2 m hm' strict x)
          | throw c => simp
          | nofuel => exact absurd rfl hA
        | _ => simp
      | anyOf ts =>
        simp only [frag, List.all_eq_true] at h
        simp only [validate]
        exact anyShort_ne_nofuel (fun t ht => ih seen t (h t ht) m hm' strict d)
      | optional t =>
        simp only [frag] at h
        simp only [validate]
        split
        · simp
        · exact ih seen t h m hm' strict d
      | object props ix =>
        simp only [frag, Bool.and_eq_true, List.all_eq_true, Bool.not_eq_true'] at h
        obtain ⟨⟨hix, _⟩, hprops⟩ := h
        have hix' : ix = [] := by cases ix <;> simp_all
        subst hix'
        simp only [validate]
        split
        · simp
        · have hA := allShort_ne_nofuel (f := fun (p : String × RT) => validate env strict m p.2 (d.getProp p.1)) (l := props)
            (fun p hp => ih seen p.2 (hprops p hp).2 m hm' strict _)
          revert hA
          generalize allShort (fun (p : String × RT) => validate env strict m p.2 (d.getProp p.1)) props = B
          intro hA
          cases B with
          | ok b => cases b <;> simp <;> split <;> simp
          | throw c => simp
          | nofuel => exact absurd rfl hA
      | ref name =>
        simp only [frag, Bool.and_eq_true] at h
        simp only [validate]
        cases hl : env.lookup name with
        | none => simp
        | some t =>
          rw [hl] at h
          exact ih (name :: seen) t h.2 m hm' strict d
      | _ => simp [frag] at h

/-! ### the statements -/

/-- **C02, soundness of the flat schema on the structural fragment.** For every environment and every type of the
fragment (`frag`: keyword types, literals and literal unions, arrays, tuples with rest, closed object types with required
and optional properties, unions, optional wrappers, doc comments, references to named types that do not reach
themselves), every value — a fortiori every JSON document — and every evaluator parameter: if the document is valid
against the schema that flat `schema()` prints (at whatever fuel the evaluator answered), the validator accepts it, in
default mode AND with `disallowExtraProperties` (so it carries no key the type does not declare); and the validator never
throws on such a type. `m` is any validator fuel at least the depth `n` the fragment check explored. -/
theorem schema_sound_frag (P : Params) (env : Env) (n : Nat) (rt : RT) (c : SCtx) (s : JsVal) (c' : SCtx)
    (hf : frag env n [] rt = true) (hs : schema env flat n rt none [] c = .ok s c')
    (k : Nat) (d : JsVal) (hv : valid P k s d = some true) (m : Nat) (hm : n ≤ m) (strict : Bool) :
    validate env strict m rt d = .ok true := by
  have g := good_core P env n [] rt none c s c' hf hs
  rcases g.sound k d m strict hv with e | e
  · exact e
  · exact absurd e (validate_frag_answers env n [] rt hf m hm strict d)

/-- the validator of a fragment type never throws -/
theorem validate_frag_no_throw (env : Env) (n : Nat) (rt : RT) (c : SCtx) (s : JsVal) (c' : SCtx)
    (hf : frag env n [] rt = true) (hs : schema env flat n rt none [] c = .ok s c')
    (m : Nat) (strict : Bool) (d : JsVal) (cls : String) : validate env strict m rt d ≠ .throw cls :=
  (good_core ⟨[], fun _ => none, fun _ _ => true, fun _ _ => true⟩ env n [] rt none c s c' hf hs).nt m strict d cls

/-! ### non-vacuity: a segment type with a named point, a literal union, a tuple and an optional property -/

def exEnv : Env := [("Point", .object [("x", .typeof "number"), ("y", .optional (.typeof "number"))] [])]
def exRT : RT := .object [("from", .described "where it starts" (.ref "Point")), ("to", .ref "Point"),
  ("kind", .consts [.str "a", .str "b"]), ("tags", .array (.anyOf [.typeof "string", .nullish "null"])),
  ("pair", .tuple [.typeof "string"] (some (.typeof "boolean")))] []
def exDoc : JsVal := .obj [("from", .obj [("x", .num "1")]), ("to", .obj [("x", .num "2"), ("y", .num "3")]), ("kind", .str "b"),
  ("tags", .arr [.str "t", .null]), ("pair", .arr [.str "p", .bool true])]
def exBad : JsVal := .obj [("from", .obj [("x", .num "1")]), ("to", .str "not a point"), ("kind", .str "b"),
  ("tags", .arr []), ("pair", .arr [.str "p"])]

/-- the hypotheses of `schema_sound_frag` are met by a type with every constructor of the fragment, its schema accepts a
member and rejects a non-member, and the validator does what the theorem says -/
theorem fragment_example :
    frag exEnv 10 [] exRT = true ∧
    (match schema exEnv flat 10 exRT none [] ⟨[], []⟩ with
      | .ok s _ => (valid ⟨[], fun _ => none, fun _ _ => true, fun _ _ => true⟩ 20 s exDoc == some true) &&
          (valid ⟨[], fun _ => none, fun _ _ => true, fun _ _ => true⟩ 20 s exBad == some false)
      | _ => false) = true ∧
    validate exEnv true 10 exRT exDoc = .ok true ∧ validate exEnv false 10 exRT exBad = .ok false := by
  refine ⟨by decide +kernel, by decide +kernel, by decide +kernel, by decide +kernel⟩

end BeffVerif.C02F
