import BeffVerif.Model.Report
import BeffVerif.Model.RTPred
import BeffVerif.Lemmas.RT
/-!
# C12 — a rejected value always gets at least one error

`report_nonempty`: for every environment, mode, fuel, runtype, path and value — if `validate` rejects the value and
`reportDecodeError` returns, the error list is not empty — provided no `allOf []` occurs in the runtype or in the
environment (hypothesis `NoEmptyIntersection`; the compiler never emits it, and `C12.empty_intersection_reports_nothing`
shows the statement is false without it).

The proof runs two statements together by induction on the fuel: (L) a value that is not `typeof "object"` gets a
non-empty report from EVERY clean runtype (this is what makes `allOf` on a primitive work, where every member may
accept the value), and (S) the statement itself.
-/
namespace BeffVerif.C12
open BeffVerif RT

/-- no `allOf []` anywhere in the tree -/
def Clean (rt : RT) : Prop := anyNode isEmptyAllOf rt = false

theorem anyL_false {p : RT → Bool} : ∀ {ts : List RT}, anyL p ts = false → ∀ t ∈ ts, anyNode p t = false := by
  intro ts
  induction ts with
  | nil => intro _ t ht; cases ht
  | cons x xs ih =>
    intro h t ht
    simp only [anyL, Bool.or_eq_false_iff] at h
    rcases List.mem_cons.1 ht with e | ht'
    · subst e; exact h.1
    · exact ih h.2 t ht'

theorem anySL_false {p : RT → Bool} : ∀ {ts : List (String × RT)}, anySL p ts = false → ∀ t ∈ ts, anyNode p t.2 = false := by
  intro ts
  induction ts with
  | nil => intro _ t ht; cases ht
  | cons x xs ih =>
    intro h t ht
    obtain ⟨k, v⟩ := x
    simp only [anySL, Bool.or_eq_false_iff] at h
    rcases List.mem_cons.1 ht with e | ht'
    · subst e; exact h.1
    · exact ih h.2 t ht'

theorem anyPL_false {p : RT → Bool} : ∀ {ts : List (RT × RT)}, anyPL p ts = false →
    ∀ t ∈ ts, anyNode p t.1 = false ∧ anyNode p t.2 = false := by
  intro ts
  induction ts with
  | nil => intro _ t ht; cases ht
  | cons x xs ih =>
    intro h t ht
    obtain ⟨k, v⟩ := x
    simp only [anyPL, Bool.or_eq_false_iff] at h
    rcases List.mem_cons.1 ht with e | ht'
    · subst e; exact ⟨h.1.1, h.1.2⟩
    · exact ih h.2 t ht'

theorem buildError_ne (path : List String) (msg : String) (v : JsVal) : buildError path msg v ≠ [] := by
  simp [buildError]

theorem buildUnionError_ne (path : List String) (es : List DErr) (v : JsVal) : buildUnionError path es v ≠ [] := by
  unfold buildUnionError
  simp only
  split <;> simp

/-- a successful concatenation contains the result of every element -/
theorem concatRes_mem {α : Type} (f : α → Res (List DErr)) : ∀ (xs : List α) (errs : List DErr),
    concatRes f xs = .ok errs → ∀ x ∈ xs, ∃ e, f x = .ok e ∧ (e ≠ [] → errs ≠ []) := by
  intro xs
  induction xs with
  | nil => intro errs _ x hx; cases hx
  | cons y ys ih =>
    intro errs h x hx
    simp only [concatRes] at h
    cases hy : f y with
    | ok e =>
      rw [hy] at h
      simp only at h
      cases hr : concatRes f ys with
      | ok es =>
        rw [hr] at h
        simp only [Res.ok.injEq] at h
        subst h
        rcases List.mem_cons.1 hx with e1 | hx'
        · subst e1; exact ⟨e, hy, fun hne => by simp [hne]⟩
        · obtain ⟨e', he', himp⟩ := ih es hr x hx'
          exact ⟨e', he', fun hne => by have := himp hne; simp [this]⟩
      | throw c => rw [hr] at h; simp at h
      | nofuel => rw [hr] at h; simp at h
    | throw c => rw [hy] at h; simp at h
    | nofuel => rw [hy] at h; simp at h

theorem mem_zip_range {α : Type} (l : List α) (x : α) (h : x ∈ l) : ∃ i, (x, i) ∈ l.zip (List.range l.length) := by
  obtain ⟨i, hi, hx⟩ := List.mem_iff_getElem.1 h
  refine ⟨i, ?_⟩
  rw [List.mem_iff_getElem]
  refine ⟨i, by simpa using hi, ?_⟩
  simp [hx]

theorem mem_zip_of_le {α β : Type} : ∀ (l : List α) (l2 : List β) (x : α), x ∈ l → l.length ≤ l2.length →
    ∃ i, (x, i) ∈ l.zip l2 := by
  intro l
  induction l with
  | nil => intro l2 x h; cases h
  | cons a as ih =>
    intro l2 x h hl
    cases l2 with
    | nil => simp at hl
    | cons b bs =>
      rcases List.mem_cons.1 h with e | h'
      · subst e; exact ⟨b, by simp⟩
      · obtain ⟨i, hi⟩ := ih bs x h' (by simpa using hl)
        exact ⟨i, by simp [hi]⟩

theorem flatMap_ne {α : Type} (f : α → List DErr) (l : List α) (hl : l ≠ []) (hf : ∀ x, f x ≠ []) : l.flatMap f ≠ [] := by
  cases l with
  | nil => exact absurd rfl hl
  | cons x xs =>
    simp only [List.flatMap_cons, ne_eq, List.append_eq_nil_iff, not_and]
    intro h; exact absurd h (hf x)

section main
variable (env : Env) (strict : Bool)

/-- the two statements proved together -/
def LStmt (n : Nat) : Prop := ∀ rt path v errs, Clean rt → v.typeOf ≠ "object" →
  report env strict n rt path v = .ok errs → errs ≠ []
def SStmt (n : Nat) : Prop := ∀ rt path v errs, Clean rt → validate env strict n rt v = .ok false →
  report env strict n rt path v = .ok errs → errs ≠ []

/-- one child position: rejected child ⇒ the item contributes errors -/
theorem item_ne (n : Nat) (hS : SStmt env strict n) (path : List String) (t : RT) (seg : String) (x : JsVal)
    (hc : Clean t) (hv : validate env strict n t x = .ok false) (e : List DErr)
    (he : reportItem (validate env strict n) (report env strict n) path t seg x = .ok e) : e ≠ [] := by
  unfold reportItem at he
  rw [hv] at he
  exact hS t _ x e hc hv he

theorem notObj_isObjectLike (v : JsVal) (h : v.typeOf ≠ "object") : v.isObjectLike = false := by
  unfold JsVal.isObjectLike
  have : (v.typeOf == "object") = false := by simpa using h
  simp [this]

theorem both (henv : ∀ name t, env.lookup name = some t → Clean t) :
    ∀ n, LStmt env strict n ∧ SStmt env strict n := by
  intro n
  induction n with
  | zero =>
    exact ⟨by intro rt path v errs _ _ h; simp [report] at h, by intro rt path v errs _ _ h; simp [report] at h⟩
  | succ k ih =>
    obtain ⟨hL, hS⟩ := ih
    constructor
    · -- (L) a value that is not `typeof "object"`
      intro rt path v errs hc hv h
      rw [report.eq_def] at h
      simp only at h
      cases rt with
      | typeof t => simp only [Res.ok.injEq] at h; rw [← h]; exact buildError_ne _ _ _
      | any => simp only [Res.ok.injEq] at h; rw [← h]; exact buildError_ne _ _ _
      | nullish d => simp only [Res.ok.injEq] at h; rw [← h]; exact buildError_ne _ _ _
      | never => simp only [Res.ok.injEq] at h; rw [← h]; exact buildError_ne _ _ _
      | const c => simp only [Res.ok.injEq] at h; rw [← h]; exact buildError_ne _ _ _
      | regex tpl d => simp only [Res.ok.injEq] at h; rw [← h]; exact buildError_ne _ _ _
      | date => simp only [Res.ok.injEq] at h; rw [← h]; exact buildError_ne _ _ _
      | bigint => simp only [Res.ok.injEq] at h; rw [← h]; exact buildError_ne _ _ _
      | typed c => simp only [Res.ok.injEq] at h; rw [← h]; exact buildError_ne _ _ _
      | strfmt fs => simp only [Res.ok.injEq] at h; rw [← h]; exact buildError_ne _ _ _
      | numfmt fs => simp only [Res.ok.injEq] at h; rw [← h]; exact buildError_ne _ _ _
      | consts vs => simp only [Res.ok.injEq] at h; rw [← h]; exact buildError_ne _ _ _
      | tuple pre rest =>
        cases v <;> first
          | (exfalso; exact hv rfl)
          | (simp only [Res.ok.injEq] at h; rw [← h]; exact buildError_ne _ _ _)
      | allOf ts =>
        simp only at h
        cases ts with
        | nil => simp [Clean, anyNode, isEmptyAllOf] at hc
        | cons t rest =>
          have hct : Clean t := by
            simp only [Clean, anyNode, Bool.or_eq_false_iff] at hc
            exact anyL_false hc.2 t (List.mem_cons_self)
          obtain ⟨e, he, himp⟩ := concatRes_mem _ _ _ h t (List.mem_cons_self)
          exact himp (hL t path v e hct hv he)
      | anyOf ts =>
        simp only at h
        split at h
        · simp only [Res.ok.injEq] at h; rw [← h]; exact buildUnionError_ne _ _ _
        · simp at h
        · simp at h
      | array t =>
        cases v <;> first
          | (exfalso; exact hv rfl)
          | (simp only [Res.ok.injEq] at h; rw [← h]; exact buildError_ne _ _ _)
      | map kt vt =>
        cases v <;> first
          | (exfalso; exact hv rfl)
          | (simp only [Res.ok.injEq] at h; rw [← h]; exact buildError_ne _ _ _)
      | set t =>
        cases v <;> first
          | (exfalso; exact hv rfl)
          | (simp only [Res.ok.injEq] at h; rw [← h]; exact buildError_ne _ _ _)
      | disc ss key mapping sm =>
        simp only [notObj_isObjectLike v hv, Bool.not_false, if_true, Res.ok.injEq] at h
        rw [← h]; exact buildError_ne _ _ _
      | optional t =>
        simp only at h
        have hct : Clean t := by simp only [Clean, anyNode, Bool.or_eq_false_iff] at hc; exact hc.2
        exact hL t path v errs hct hv h
      | object props indexed =>
        simp only [notObj_isObjectLike v hv, Bool.false_and, Bool.not_false, if_true, Res.ok.injEq] at h
        rw [← h]; exact buildError_ne _ _ _
      | ref name =>
        simp only at h
        cases hl : env.lookup name with
        | none => rw [hl] at h; simp at h
        | some t => rw [hl] at h; exact hL t path v errs (henv name t hl) hv h
      | described d t =>
        simp only at h
        have hct : Clean t := by simp only [Clean, anyNode, Bool.or_eq_false_iff] at hc; exact hc.2
        exact hL t path v errs hct hv h
    · -- (S) a rejected value
      intro rt path v errs hc hv h
      rw [report.eq_def] at h
      rw [validate.eq_def] at hv
      simp only at h hv
      cases rt with
      | typeof t => simp only [Res.ok.injEq] at h; rw [← h]; exact buildError_ne _ _ _
      | any => simp only [Res.ok.injEq] at h; rw [← h]; exact buildError_ne _ _ _
      | nullish d => simp only [Res.ok.injEq] at h; rw [← h]; exact buildError_ne _ _ _
      | never => simp only [Res.ok.injEq] at h; rw [← h]; exact buildError_ne _ _ _
      | const c => simp only [Res.ok.injEq] at h; rw [← h]; exact buildError_ne _ _ _
      | regex tpl d => simp only [Res.ok.injEq] at h; rw [← h]; exact buildError_ne _ _ _
      | date => simp only [Res.ok.injEq] at h; rw [← h]; exact buildError_ne _ _ _
      | bigint => simp only [Res.ok.injEq] at h; rw [← h]; exact buildError_ne _ _ _
      | typed c => simp only [Res.ok.injEq] at h; rw [← h]; exact buildError_ne _ _ _
      | strfmt fs => simp only [Res.ok.injEq] at h; rw [← h]; exact buildError_ne _ _ _
      | numfmt fs => simp only [Res.ok.injEq] at h; rw [← h]; exact buildError_ne _ _ _
      | consts vs => simp only [Res.ok.injEq] at h; rw [← h]; exact buildError_ne _ _ _
      | anyOf ts =>
        simp only at h
        split at h
        · simp only [Res.ok.injEq] at h; rw [← h]; exact buildUnionError_ne _ _ _
        · simp at h
        · simp at h
      | optional t =>
        simp only at h hv
        have hct : Clean t := by simp only [Clean, anyNode, Bool.or_eq_false_iff] at hc; exact hc.2
        split at hv
        · simp at hv
        · exact hS t path v errs hct hv h
      | described d t =>
        simp only at h hv
        have hct : Clean t := by simp only [Clean, anyNode, Bool.or_eq_false_iff] at hc; exact hc.2
        exact hS t path v errs hct hv h
      | ref name =>
        simp only at h hv
        cases hl : env.lookup name with
        | none => rw [hl] at h; simp at h
        | some t => rw [hl] at h hv; exact hS t path v errs (henv name t hl) hv h
      | allOf ts =>
        simp only at h hv
        have hmem : ∀ t ∈ ts, Clean t := by
          simp only [Clean, anyNode, Bool.or_eq_false_iff] at hc
          exact anyL_false hc.2
        obtain ⟨t, ht, hf⟩ := allShort_false _ _ hv
        obtain ⟨e, he, himp⟩ := concatRes_mem _ _ _ h t ht
        by_cases hobj : v.typeOf = "object"
        · have : (v.typeOf == "object") = true := by simpa using hobj
          simp only [this, if_true] at hf
          exact himp (hS t path v e (hmem t ht) hf he)
        · exact himp (hL t path v e (hmem t ht) hobj he)
      | array t =>
        have hct : Clean t := by simp only [Clean, anyNode, Bool.or_eq_false_iff] at hc; exact hc.2
        cases v with
        | arr items =>
          simp only at h hv
          obtain ⟨x, hx, hf⟩ := allShort_false _ _ hv
          obtain ⟨i, hi⟩ := mem_zip_range items x hx
          obtain ⟨e, he, himp⟩ := concatRes_mem _ _ _ h (x, i) hi
          exact himp (item_ne env strict k hS path t _ x hct hf e he)
        | _ => simp only [Res.ok.injEq] at h; rw [← h]; exact buildError_ne _ _ _
      | set t =>
        have hct : Clean t := by simp only [Clean, anyNode, Bool.or_eq_false_iff] at hc; exact hc.2
        cases v with
        | set xs =>
          simp only at h hv
          obtain ⟨x, hx, hf⟩ := allShort_false _ _ hv
          obtain ⟨e, he, himp⟩ := concatRes_mem _ _ _ h x hx
          exact himp (item_ne env strict k hS path t _ x hct hf e he)
        | _ => simp only [Res.ok.injEq] at h; rw [← h]; exact buildError_ne _ _ _
      | map kt vt =>
        have hck : Clean kt ∧ Clean vt := by
          simp only [Clean, anyNode, Bool.or_eq_false_iff] at hc; exact ⟨hc.1.2, hc.2⟩
        cases v with
        | map es =>
          simp only at h hv
          obtain ⟨x, hx, hf⟩ := allShort_false _ _ hv
          obtain ⟨e, he, himp⟩ := concatRes_mem _ _ _ h x hx
          apply himp
          cases hk : validate env strict k kt x.1 with
          | ok b =>
            rw [hk] at hf
            cases b with
            | false =>
              cases hi : reportItem (validate env strict k) (report env strict k) path kt
                  ("key(" ++ (jsonStringify 100 x.1).getD "undefined" ++ ")") x.1 with
              | ok a =>
                rw [hi] at he
                have ha := item_ne env strict k hS path kt _ x.1 hck.1 hk a hi
                simp only at he
                split at he
                · simp only [Res.ok.injEq] at he; rw [← he]; simp [ha]
                · rename_i hno; exact (hno _ he).elim
              | throw c => rw [hi] at he; simp at he
              | nofuel => rw [hi] at he; simp at he
            | true =>
              cases hi : reportItem (validate env strict k) (report env strict k) path kt
                  ("key(" ++ (jsonStringify 100 x.1).getD "undefined" ++ ")") x.1 with
              | ok a =>
                rw [hi] at he
                simp only at he
                cases hj : reportItem (validate env strict k) (report env strict k) path vt
                    ("value(" ++ (jsonStringify 100 x.1).getD "undefined" ++ ")") x.2 with
                | ok b' =>
                  rw [hj] at he
                  have hb := item_ne env strict k hS path vt _ x.2 hck.2 hf b' hj
                  simp only [Res.ok.injEq] at he; rw [← he]; simp [hb]
                | throw c => rw [hj] at he; simp at he
                | nofuel => rw [hj] at he; simp at he
              | throw c => rw [hi] at he; simp at he
              | nofuel => rw [hi] at he; simp at he
          | throw c => rw [hk] at hf; simp at hf
          | nofuel => rw [hk] at hf; simp at hf
        | _ => simp only [Res.ok.injEq] at h; rw [← h]; exact buildError_ne _ _ _
      | disc ss key mapping sm =>
        simp only at h hv
        split at h
        · simp only [Res.ok.injEq] at h; rw [← h]; exact buildError_ne _ _ _
        · rename_i hol
          simp only [hol, if_false] at hv
          split at h
          · simp only [Res.ok.injEq] at h; rw [← h]; exact buildError_ne _ _ _
          · rename_i hnl
            simp only [hnl, if_false] at hv
            cases hm : lookupMapping mapping (v.getProp key) with
            | none => rw [hm] at h; simp only [Res.ok.injEq] at h; rw [← h]; exact buildError_ne _ _ _
            | some t =>
              rw [hm] at h hv
              have hct : Clean t := by
                simp only [Clean, anyNode, Bool.or_eq_false_iff] at hc
                unfold lookupMapping at hm
                cases hd : v.getProp key <;> rw [hd] at hm <;> try (simp at hm)
                rename_i s
                cases hfind : mapping.find? (fun p => p.1 == s) with
                | none => rw [hfind] at hm; simp at hm
                | some p =>
                  rw [hfind] at hm
                  simp only [Option.some.injEq] at hm
                  rw [← hm]
                  exact anySL_false hc.1.2 p (List.mem_of_find?_eq_some hfind)
              exact hS t path v errs hct hv h
      | tuple pre rest =>
        have hcpre : ∀ t ∈ pre, Clean t := by
          simp only [Clean, anyNode, Bool.or_eq_false_iff] at hc
          exact anyL_false hc.1.2
        cases v with
        | arr items =>
          simp only at h hv
          cases h1 : concatRes (fun (p : RT × Nat) => reportItem (validate env strict k) (report env strict k) path p.1
              ("[" ++ JsVal.natToCanon p.2 ++ "]") (items.getD p.2 JsVal.undef)) (pre.zip (List.range pre.length)) with
          | throw c => rw [h1] at h; simp at h
          | nofuel => rw [h1] at h; simp at h
          | ok e1 =>
            rw [h1] at h
            simp only at h
            cases hpre : allShort (fun (p : RT × Nat) => validate env strict k p.1 (items.getD p.2 JsVal.undef))
                (pre.zip (List.range pre.length)) with
            | throw c => rw [hpre] at hv; simp at hv
            | nofuel => rw [hpre] at hv; simp at hv
            | ok b =>
              rw [hpre] at hv
              cases b with
              | false =>
                obtain ⟨p, hp, hf⟩ := allShort_false _ _ hpre
                obtain ⟨e, he, himp⟩ := concatRes_mem _ _ _ h1 p hp
                have hne : e1 ≠ [] := himp (item_ne env strict k hS path p.1 _ _ (hcpre p.1 (List.of_mem_zip hp).1) hf e he)
                cases rest with
                | none => simp only [Res.ok.injEq] at h; rw [← h]; simp [hne]
                | some r =>
                  simp only at h
                  split at h
                  · simp only [Res.ok.injEq] at h; rw [← h]; simp [hne]
                  · rename_i hx; cases hx2 : concatRes (fun (p : JsVal × Nat) => reportItem (validate env strict k)
                        (report env strict k) path r ("[" ++ JsVal.natToCanon p.2 ++ "]") p.1)
                        (List.drop pre.length (items.zip (List.range items.length))) with
                    | ok e2 => exact absurd hx2 (by intro hh; exact hx e2 hh)
                    | throw c => rw [hx2] at h; simp at h
                    | nofuel => rw [hx2] at h; simp at h
              | true =>
                simp only at hv
                cases rest with
                | none =>
                  simp only [Res.ok.injEq, Bool.not_eq_eq_eq_not, Bool.not_false, decide_eq_true_eq] at hv h
                  rw [← h]
                  have hdrop : List.drop pre.length (items.zip (List.range items.length)) ≠ [] := by
                    intro hnil
                    have := congrArg List.length hnil
                    simp at this
                    omega
                  have := flatMap_ne (fun (p : JsVal × Nat) => buildError (path ++ ["[" ++ JsVal.natToCanon p.2 ++ "]"])
                    "unexpected extra tuple item" p.1) _ hdrop (fun x => buildError_ne _ _ _)
                  simp [this]
                | some r =>
                  simp only at hv h
                  have hcr : Clean r := by
                    simp only [Clean, anyNode, anyO, Bool.or_eq_false_iff] at hc
                    exact hc.2
                  obtain ⟨x, hx, hf⟩ := allShort_false _ _ hv
                  have hdz : List.drop pre.length (items.zip (List.range items.length)) =
                      (items.drop pre.length).zip ((List.range items.length).drop pre.length) := by
                    simp only [List.zip, List.drop_zipWith]
                  obtain ⟨i, hi⟩ := mem_zip_of_le (items.drop pre.length) ((List.range items.length).drop pre.length) x hx
                    (by simp)
                  split at h
                  · rename_i e2 h2
                    simp only [Res.ok.injEq] at h; rw [← h]
                    obtain ⟨e, he, himp⟩ := concatRes_mem _ _ _ h2 (x, i) (by rw [hdz]; exact hi)
                    have := himp (item_ne env strict k hS path r _ x hcr hf e he)
                    simp [this]
                  · rename_i hx'
                    cases hx2 : concatRes (fun (p : JsVal × Nat) => reportItem (validate env strict k)
                        (report env strict k) path r ("[" ++ JsVal.natToCanon p.2 ++ "]") p.1)
                        (List.drop pre.length (items.zip (List.range items.length))) with
                    | ok e2 => exact absurd hx2 (by intro hh; exact hx' e2 hh)
                    | throw c => rw [hx2] at h; simp at h
                    | nofuel => rw [hx2] at h; simp at h
        | _ => simp only [Res.ok.injEq] at h; rw [← h]; exact buildError_ne _ _ _
      | object props indexed =>
        simp only at h hv
        have hcp : ∀ p ∈ props, Clean p.2 := by
          simp only [Clean, anyNode, Bool.or_eq_false_iff] at hc
          exact anySL_false hc.1.2
        have hci : ∀ p ∈ indexed, Clean p.1 ∧ Clean p.2 := by
          simp only [Clean, anyNode, Bool.or_eq_false_iff] at hc
          exact anyPL_false hc.2
        split at h
        · simp only [Res.ok.injEq] at h; rw [← h]; exact buildError_ne _ _ _
        · rename_i hobj
          simp only [hobj] at hv
          cases h1 : concatRes (fun (p : String × RT) => reportItem (validate env strict k) (report env strict k) path p.2 p.1
              (v.getProp p.1)) props with
          | throw c => rw [h1] at h; simp at h
          | nofuel => rw [h1] at h; simp at h
          | ok acc =>
            rw [h1] at h
            simp only at h
            cases hprops : allShort (fun (p : String × RT) => validate env strict k p.2 (v.getProp p.1)) props with
            | throw c => rw [hprops] at hv; simp at hv
            | nofuel => rw [hprops] at hv; simp at hv
            | ok b =>
              rw [hprops] at hv
              cases b with
              | false =>
                obtain ⟨p, hp, hf⟩ := allShort_false _ _ hprops
                obtain ⟨e, he, himp⟩ := concatRes_mem _ _ _ h1 p hp
                have hne : acc ≠ [] := himp (item_ne env strict k hS path p.2 _ _ (hcp p hp) hf e he)
                split at h
                · split at h
                  · simp only [Res.ok.injEq] at h; rw [← h]; simp [hne]
                  · rename_i hno
                    cases hx2 : concatRes (fun k_1 => concatRes (reportIndexed (validate env strict k) (report env strict k) path v k_1) indexed)
                        (List.filter (fun k => !(List.map (fun x => x.1) props).contains k) v.ownKeys) with
                    | ok e2 => exact (hno e2 hx2).elim
                    | throw c => rw [hx2] at h; simp at h
                    | nofuel => rw [hx2] at h; simp at h
                · split at h
                  · rename_i hst
                    simp only [Res.ok.injEq] at h; rw [← h]
                    have hlen : (List.filter (fun k => !(List.map (fun x => x.1) props).contains k) v.ownKeys) ≠ [] := by
                      intro hnil
                      simp only [Bool.and_eq_true, decide_eq_true_eq] at hst
                      rw [hnil] at hst
                      simp at hst
                    exact flatMap_ne _ _ hlen (fun x => buildError_ne _ _ _)
                  · simp only [Res.ok.injEq] at h; rw [← h]; exact hne
              | true =>
                simp only [Bool.false_eq_true, if_false] at hv
                split at hv
                · -- index signatures
                  rename_i hix
                  rw [if_pos hix] at h
                  obtain ⟨kk, hkk, hf⟩ := allShort_false _ _ hv
                  unfold indexedAccepts at hf
                  rw [anyShort_false_iff] at hf
                  cases indexed with
                  | nil => simp at hix
                  | cons p0 rest =>
                    have hp0 := hf p0 (List.mem_cons_self)
                    have hc0 := hci p0 (List.mem_cons_self)
                    split at h
                    · rename_i e2 h2
                      simp only [Res.ok.injEq] at h; rw [← h]
                      obtain ⟨e', he', himp'⟩ := concatRes_mem _ _ _ h2 kk hkk
                      obtain ⟨e'', he'', himp''⟩ := concatRes_mem _ _ _ he' p0 (List.mem_cons_self)
                      have hne : e'' ≠ [] := by
                        unfold reportIndexed at he''
                        cases hk1 : validate env strict k p0.1 (.str kk) with
                        | throw c => rw [hk1] at hp0; simp at hp0
                        | nofuel => rw [hk1] at hp0; simp at hp0
                        | ok keyOk =>
                          rw [hk1] at hp0 he''
                          cases hk2 : validate env strict k p0.2 (v.getProp kk) with
                          | throw c => rw [hk2] at he''; simp at he''
                          | nofuel => rw [hk2] at he''; simp at he''
                          | ok valueOk =>
                            rw [hk2] at he''
                            cases keyOk with
                            | true =>
                              simp only at hp0
                              rw [hk2] at hp0
                              simp only [Res.ok.injEq] at hp0
                              subst hp0
                              simp only [Bool.and_false, Bool.false_eq_true, if_false, Bool.not_true, Bool.not_false,
                                if_true] at he''
                              cases hr : report env strict k p0.2 (path ++ [kk]) (v.getProp kk) with
                              | ok e2' =>
                                rw [hr] at he''
                                simp only [List.nil_append, Res.ok.injEq] at he''
                                rw [← he'']
                                exact hS p0.2 _ _ e2' hc0.2 hk2 hr
                              | throw c => rw [hr] at he''; simp at he''
                              | nofuel => rw [hr] at he''; simp at he''
                            | false =>
                              simp only [Bool.false_and, Bool.false_eq_true, if_false, Bool.not_false, if_true] at he''
                              cases hr : report env strict k p0.1 (path ++ [kk]) (.str kk) with
                              | ok e1' =>
                                rw [hr] at he''
                                have hne1 := hS p0.1 _ _ e1' hc0.1 hk1 hr
                                cases valueOk with
                                | true =>
                                  simp only [Bool.not_true, Bool.false_eq_true, if_false, List.append_nil, Res.ok.injEq] at he''
                                  rw [← he'']; exact hne1
                                | false =>
                                  simp only [Bool.not_false, if_true] at he''
                                  cases hr2 : report env strict k p0.2 (path ++ [kk]) (v.getProp kk) with
                                  | ok x =>
                                    rw [hr2] at he''
                                    simp only [Res.ok.injEq] at he''
                                    rw [← he'']; simp [hne1]
                                  | throw c => rw [hr2] at he''; simp at he''
                                  | nofuel => rw [hr2] at he''; simp at he''
                              | throw c => rw [hr] at he''; simp at he''
                              | nofuel => rw [hr] at he''; simp at he''
                      have := himp' (himp'' hne)
                      simp [this]
                    · rename_i hno
                      cases hx2 : concatRes (fun k_1 => concatRes (reportIndexed (validate env strict k) (report env strict k) path v k_1) (p0 :: rest))
                          (List.filter (fun k => !(List.map (fun x => x.1) props).contains k) v.ownKeys) with
                      | ok e2 => exact (hno e2 hx2).elim
                      | throw c => rw [hx2] at h; simp at h
                      | nofuel => rw [hx2] at h; simp at h
                · rename_i hix
                  rw [if_neg hix] at h
                  split at hv
                  · rename_i hst
                    simp only [Res.ok.injEq, beq_eq_false_iff_ne, ne_eq] at hv
                    have hlen : (List.filter (fun k => !(List.map (fun x => x.1) props).contains k) v.ownKeys) ≠ [] := by
                      intro hnil; rw [hnil] at hv; simp at hv
                    have hpos : (List.filter (fun k => !(List.map (fun x => x.1) props).contains k) v.ownKeys).length > 0 := by
                      cases hl : List.filter (fun k => !(List.map (fun x => x.1) props).contains k) v.ownKeys with
                      | nil => exact absurd hl hlen
                      | cons a as => simp
                    simp only [hst, Bool.true_and, hpos, decide_true, if_true, Res.ok.injEq] at h
                    rw [← h]
                    exact flatMap_ne _ _ hlen (fun x => buildError_ne _ _ _)
                  · simp at hv

end main

theorem clean_of_noEmptyIntersection (env : Env) (rt : RT) (h : noEmptyIntersection env rt = true) :
    Clean rt ∧ ∀ name t, env.lookup name = some t → Clean t := by
  unfold noEmptyIntersection anyInEnv at h
  simp only [Bool.not_eq_eq_eq_not, Bool.not_true, Bool.or_eq_false_iff] at h
  refine ⟨h.1, ?_⟩
  intro name t hl
  unfold Env.lookup at hl
  cases hf : env.find? (fun p => p.1 == name) with
  | none => rw [hf] at hl; simp at hl
  | some p =>
    rw [hf] at hl
    simp only [Option.some.injEq] at hl
    have hmem := List.mem_of_find?_eq_some hf
    have := h.2
    simp only [List.any_eq_false] at this
    have hp := this p hmem
    rw [← hl]
    simpa [Clean] using hp

/-- **A rejected value always gets at least one error.** For every environment, mode, fuel, runtype, path and value:
if no `allOf []` occurs (hypothesis `NoEmptyIntersection`, the one the driver evaluates per request), `validate`
rejects the value and `reportDecodeError` returns, then the report is not empty. -/
theorem report_nonempty (env : Env) (strict : Bool) (n : Nat) (rt : RT) (path : List String) (v : JsVal) (errs : List DErr)
    (hyp : noEmptyIntersection env rt = true)
    (hv : validate env strict n rt v = .ok false) (hr : report env strict n rt path v = .ok errs) : errs ≠ [] := by
  obtain ⟨hc, henv⟩ := clean_of_noEmptyIntersection env rt hyp
  exact (both env strict henv n).2 rt path v errs hc hv hr

end BeffVerif.C12
