import Std.Data.String.ToNat
import BeffVerif.Props.C03Idem
import BeffVerif.Props.C12Nonempty
/-!
# C03 — the `objectKeyOrder` option changes key order only

`KEq d1 d2`: the two values are equal up to the order of object keys, at every depth — the same arrays, Sets and Maps
position by position, and for two objects the same keys with related values (`lookupProp`: objects built by the parse
step have no key twice). `key_order_only`: on the structural fragment of `Props/C03Declared` (leaves, arrays, tuples
with rest, Sets, Maps, optional wrappers, descriptions, references with recursion, closed object types with distinct keys
whose reading does not depend on the kind of object) — with declared property names that are not numerals (`NoNum`: a typed
array has its indices as own keys) — for every environment, EVERY value, every fuel and either strictness: if the parse
step returns `d1` with `objectKeyOrder: "input"` and `d2` with `"sorted"`, then `KEq d1 d2`. The object case compares the
two folds (`obj_fold'` over the input's own keys, `obj_fold_sorted` over the sorted declared keys): both hold exactly the
declared keys that are own keys of the input, each with the parse of the same sub-value.
-/
namespace BeffVerif.C03S
open BeffVerif RT JsVal C02F C11F C12

inductive All2 {α β : Type} (R : α → β → Prop) : List α → List β → Prop
  | nil : All2 R [] []
  | cons {a b as bs} : R a b → All2 R as bs → All2 R (a :: as) (b :: bs)

theorem All2.append {α β : Type} {R : α → β → Prop} {as1 as2 : List α} {bs1 bs2 : List β} (h1 : All2 R as1 bs1)
    (h2 : All2 R as2 bs2) : All2 R (as1 ++ as2) (bs1 ++ bs2) := by
  induction h1 with
  | nil => exact h2
  | cons hr _ ih => exact .cons hr ih

theorem all2_mapM' {α β : Type} {f g : α → Res β} {R : β → β → Prop} : ∀ (xs : List α) (ys zs : List β),
    (∀ x ∈ xs, ∀ y z, f x = .ok y → g x = .ok z → R y z) → mapM' f xs = .ok ys → mapM' g xs = .ok zs → All2 R ys zs
  | [], ys, zs, _, h1, h2 => by
    simp only [mapM'] at h1 h2
    cases h1; cases h2; exact .nil
  | x :: xs, ys, zs, h, h1, h2 => by
    simp only [mapM'] at h1 h2
    cases e1 : f x with
    | ok y =>
      rw [e1] at h1
      cases e2 : mapM' f xs with
      | ok ys' =>
        rw [e2] at h1
        cases h1
        cases e3 : g x with
        | ok z =>
          rw [e3] at h2
          cases e4 : mapM' g xs with
          | ok zs' =>
            rw [e4] at h2
            cases h2
            exact .cons (h x (by simp) y z e1 e3) (all2_mapM' xs ys' zs' (fun x' hx' => h x' (by simp [hx'])) e2 e4)
          | throw c => rw [e4] at h2; cases h2
          | nofuel => rw [e4] at h2; cases h2
        | throw c => rw [e3] at h2; cases h2
        | nofuel => rw [e3] at h2; cases h2
      | throw c => rw [e2] at h1; cases h1
      | nofuel => rw [e2] at h1; cases h1
    | throw c => rw [e1] at h1; cases h1
    | nofuel => rw [e1] at h1; cases h1

theorem All2.map_both {α β γ δ : Type} {R : α → β → Prop} {S : γ → δ → Prop} {f : α → γ} {g : β → δ} {as : List α} {bs : List β}
    (h : All2 R as bs) (hfg : ∀ a b, R a b → S (f a) (g b)) : All2 S (as.map f) (bs.map g) := by
  induction h with
  | nil => exact .nil
  | cons hr _ ih => exact .cons (hfg _ _ hr) ih

/-- equal up to the order of object keys, at every depth -/
inductive KEq : JsVal → JsVal → Prop
  | refl (v : JsVal) : KEq v v
  | arr {xs ys : List JsVal} : All2 KEq xs ys → KEq (.arr xs) (.arr ys)
  | set {xs ys : List JsVal} : All2 KEq xs ys → KEq (.set xs) (.set ys)
  | map {es fs : List (JsVal × JsVal)} : All2 KEq (es.map (·.1)) (fs.map (·.1)) → All2 KEq (es.map (·.2)) (fs.map (·.2)) →
      KEq (.map es) (.map fs)
  | obj {a b : List (String × JsVal)} : (∀ k, (lookupProp a k).isSome = (lookupProp b k).isSome) →
      (∀ k y1 y2, lookupProp a k = some y1 → lookupProp b k = some y2 → KEq y1 y2) → KEq (.obj a) (.obj b)

/-- an object type one of whose declared property names is a numeral -/
def numKeyed : RT → Bool
  | .object props _ => props.any (fun p => p.1.isNat)
  | _ => false

def NoNum (t : RT) : Prop := anyNode numKeyed t = false

/-- an own key of an object that is no array is an own property; for a typed array only under a numeral -/
theorem hasOwn_of_mem_ownKeys {v : JsVal} {k : String} (hobj : (v.isObjectLike && !v.isArray) = true) (hk : k ∈ v.ownKeys)
    (hnum : k.isNat = false) : v.hasOwn k = true := by
  cases v with
  | obj props =>
    simp only [ownKeys] at hk
    simp only [hasOwn, getOwn?]
    exact lookupProp_isSome_of_mem hk
  | typed c items =>
    simp only [ownKeys, List.mem_map, List.mem_range] at hk
    obtain ⟨i, _, e⟩ := hk
    have : k.isNat = true := by rw [← e]; exact Nat.isNat_repr i
    rw [this] at hnum; cases hnum
  | arr items => simp [isArray] at hobj
  | _ => simp [ownKeys] at hk

/-- a value that is no object (or is an array) has no safe, non-numeral own property -/
theorem no_own_of_not_object {v : JsVal} {k : String} (hobj : ¬ (v.isObjectLike && !v.isArray) = true) (hs : safeKey k = true)
    (hnum : k.isNat = false) : k ∉ v.ownKeys ∧ v.hasOwn k = false := by
  simp only [safeKey, Bool.and_eq_true, Bool.not_eq_true', bne_iff_ne, ne_eq, Option.isNone_iff_eq_none] at hs
  obtain ⟨⟨⟨_, hlen⟩, _⟩, hidx⟩ := hs
  cases v with
  | arr items =>
    refine ⟨?_, ?_⟩
    · intro hk
      simp only [ownKeys, List.mem_map, List.mem_range] at hk
      obtain ⟨i, _, e⟩ := hk
      have : k.isNat = true := by rw [← e]; exact Nat.isNat_repr i
      rw [this] at hnum; cases hnum
    · have hl : (k == "length") = false := by simpa using hlen
      simp [hasOwn, getOwn?, hl, hidx]
  | obj props => simp [isObjectLike, typeOf, isArray] at hobj
  | typed c items => simp [isObjectLike, typeOf, isArray] at hobj
  | date ms => simp [isObjectLike, typeOf, isArray] at hobj
  | map es => simp [isObjectLike, typeOf, isArray] at hobj
  | set xs => simp [isObjectLike, typeOf, isArray] at hobj
  | protoObj kind =>
    have hk : kind = "Array" := by simpa [isObjectLike, typeOf, isArray] using hobj
    subst hk
    refine ⟨by simp [ownKeys], ?_⟩
    have hnone : getOwn? (protoObj "Array") k = none := by
      unfold getOwn?
      split <;> first | rfl | (exfalso; simp_all)
    simp [hasOwn, hnone]
  | _ => simp [ownKeys, hasOwn, getOwn?]

theorem key_order_only (env : Env) (henv : ∀ name t, env.lookup name = some t → pfrag t = true ∧ NoNum t) (s : Bool) :
    ∀ (n : Nat) (t : RT) (v d1 d2 : JsVal), pfrag t = true → NoNum t →
      parseAV env ⟨s, false⟩ n t v = .ok d1 → parseAV env ⟨s, true⟩ n t v = .ok d2 → KEq d1 d2
  | 0, _, _, _, _, _, _, h1, _ => by simp [parseAV] at h1
  | n+1, t, v, d1, d2, hf, hnn, h1, h2 => by
    have ih := key_order_only env henv s n
    have leaf : ∀ {d1 d2 : JsVal}, (Res.ok v : Res JsVal) = .ok d1 → (Res.ok v : Res JsVal) = .ok d2 → KEq d1 d2 := by
      intro d1 d2 e1 e2; cases e1; cases e2; exact .refl v
    cases t with
    | described ds t =>
      simp only [pfrag] at hf
      simp only [parseAV] at h1 h2
      exact ih t v d1 d2 hf (by simp only [NoNum, anyNode, Bool.or_eq_false_iff] at hnn; exact hnn.2) h1 h2
    | optional t =>
      simp only [pfrag] at hf
      simp only [parseAV] at h1 h2
      by_cases hn : v.isNullish = true
      · simp only [hn, if_true] at h1 h2
        exact leaf h1 h2
      · simp only [hn, Bool.false_eq_true, if_false] at h1 h2
        exact ih t v d1 d2 hf (by simp only [NoNum, anyNode, Bool.or_eq_false_iff] at hnn; exact hnn.2) h1 h2
    | ref name =>
      simp only [parseAV] at h1 h2
      cases hl : env.lookup name with
      | none => rw [hl] at h1; cases h1
      | some t' =>
        rw [hl] at h1 h2
        exact ih t' v d1 d2 (henv name t' hl).1 (henv name t' hl).2 h1 h2
    | array t =>
      simp only [pfrag] at hf
      have hnt : NoNum t := by simp only [NoNum, anyNode, Bool.or_eq_false_iff] at hnn; exact hnn.2
      simp only [parseAV] at h1 h2
      cases v with
      | arr items =>
        simp only at h1 h2
        split at h1
        · rename_i rs1 hm1
          split at h2
          · rename_i rs2 hm2
            cases h1; cases h2
            exact .arr (all2_mapM' items rs1 rs2 (fun x _ y z hy hz => ih t x y z hf hnt hy hz) hm1 hm2)
          · cases h2
          · cases h2
        · cases h1
        · cases h1
      | _ => cases h1
    | set t =>
      simp only [pfrag] at hf
      have hnt : NoNum t := by simp only [NoNum, anyNode, Bool.or_eq_false_iff] at hnn; exact hnn.2
      simp only [parseAV] at h1 h2
      cases v with
      | set items =>
        simp only at h1 h2
        split at h1
        · rename_i rs1 hm1
          split at h2
          · rename_i rs2 hm2
            cases h1; cases h2
            exact .set (all2_mapM' items rs1 rs2 (fun x _ y z hy hz => ih t x y z hf hnt hy hz) hm1 hm2)
          · cases h2
          · cases h2
        · cases h1
        · cases h1
      | _ => cases h1
    | map kt vt =>
      simp only [pfrag, Bool.and_eq_true] at hf
      have hnk : NoNum kt ∧ NoNum vt := by
        simp only [NoNum, anyNode, Bool.or_eq_false_iff] at hnn; exact ⟨hnn.1.2, hnn.2⟩
      simp only [parseAV] at h1 h2
      cases v with
      | map es =>
        simp only at h1 h2
        split at h1
        · rename_i rs1 hm1
          split at h2
          · rename_i rs2 hm2
            cases h1; cases h2
            have hall := all2_mapM' (R := fun (p q : JsVal × JsVal) => KEq p.1 q.1 ∧ KEq p.2 q.2) es rs1 rs2 (by
              intro e _ y z hy hz
              split at hy
              · rename_i k1 hk1
                split at hy
                · rename_i v1 hv1
                  cases hy
                  split at hz
                  · rename_i k2 hk2
                    split at hz
                    · rename_i v2 hv2
                      cases hz
                      exact ⟨ih kt e.1 k1 k2 hf.1 hnk.1 hk1 hk2, ih vt e.2 v1 v2 hf.2 hnk.2 hv1 hv2⟩
                    · cases hz
                    · cases hz
                  · cases hz
                  · cases hz
                · cases hy
                · cases hy
              · cases hy
              · cases hy) hm1 hm2
            exact .map (hall.map_both (fun _ _ h => h.1)) (hall.map_both (fun _ _ h => h.2))
          · cases h2
          · cases h2
        · cases h1
        · cases h1
      | _ => cases h1
    | tuple pre rest =>
      have hfp : pfragL pre = true ∧ (∀ r, rest = some r → pfrag r = true) := by
        cases rest with
        | none => simp only [pfrag, Bool.and_eq_true] at hf; exact ⟨hf.1, fun r e => by cases e⟩
        | some r0 => simp only [pfrag, Bool.and_eq_true] at hf; exact ⟨hf.1, fun r e => by cases e; exact hf.2⟩
      have hnp : (∀ t ∈ pre, NoNum t) ∧ (∀ r, rest = some r → NoNum r) := by
        simp only [NoNum, anyNode, Bool.or_eq_false_iff] at hnn
        exact ⟨fun t ht => anyL_false hnn.1.2 t ht, fun r e => by subst e; simp only [anyO] at hnn; exact hnn.2⟩
      simp only [parseAV] at h1 h2
      cases v with
      | arr items =>
        simp only at h1 h2
        split at h1
        · rename_i ps1 hm1
          split at h2
          · rename_i ps2 hm2
            have hps : All2 KEq ps1 ps2 := all2_mapM' _ ps1 ps2 (by
              intro p hp y z hy hz
              have hmem : p.1 ∈ pre := (List.of_mem_zip hp).1
              exact ih p.1 _ y z (pfragL_mem hfp.1 _ hmem) (hnp.1 _ hmem) hy hz) hm1 hm2
            cases rest with
            | none =>
              simp only at h1 h2
              cases h1; cases h2
              exact .arr hps
            | some r =>
              simp only at h1 h2
              split at h1
              · rename_i rs1 hr1
                split at h2
                · rename_i rs2 hr2
                  cases h1; cases h2
                  exact .arr (hps.append (all2_mapM' _ rs1 rs2 (fun x _ y z hy hz => ih r x y z (hfp.2 r rfl) (hnp.2 r rfl) hy hz) hr1 hr2))
                · cases h2
                · cases h2
              · cases h1
              · cases h1
          · cases h2
          · cases h2
        · cases h1
        · cases h1
      | _ => cases h1
    | typeof _ => simp only [parseAV] at h1 h2; exact leaf h1 h2
    | any => simp only [parseAV] at h1 h2; exact leaf h1 h2
    | nullish _ => simp only [parseAV] at h1 h2; exact leaf h1 h2
    | const _ => simp only [parseAV] at h1 h2; exact leaf h1 h2
    | consts _ => simp only [parseAV] at h1 h2; exact leaf h1 h2
    | regex _ _ => simp only [parseAV] at h1 h2; exact leaf h1 h2
    | date => simp only [parseAV] at h1 h2; exact leaf h1 h2
    | bigint => simp only [parseAV] at h1 h2; exact leaf h1 h2
    | typed _ => simp only [parseAV] at h1 h2; exact leaf h1 h2
    | strfmt _ => simp only [parseAV] at h1 h2; exact leaf h1 h2
    | numfmt _ => simp only [parseAV] at h1 h2; exact leaf h1 h2
    | never => simp [pfrag] at hf
    | allOf ts => simp [pfrag] at hf
    | anyOf ts => simp [pfrag] at hf
    | disc a b c e => simp [pfrag] at hf
    | object props ix =>
      simp only [pfrag, Bool.and_eq_true] at hf
      obtain ⟨⟨hix, hnd⟩, hpp⟩ := hf
      have hix' : ix = [] := by simpa using hix
      subst hix'
      have hnprops : props.any (fun p => p.1.isNat) = false ∧ ∀ p ∈ props, NoNum p.2 := by
        simp only [NoNum, anyNode, numKeyed, Bool.or_eq_false_iff] at hnn
        exact ⟨hnn.1.1, fun p hp => anySL_false hnn.1.2 p hp⟩
      simp only [parseAV] at h1 h2
      by_cases hobj : (v.isObjectLike && !v.isArray) = true
      · -- the two folds
        simp only [Bool.not_false, if_true] at h1
        simp only [Bool.not_true, Bool.false_eq_true, if_false, List.length_nil, Nat.lt_irrefl, gt_iff_lt] at h2
        split at h1
        · rename_i acc1 hfold1
          split at h2
          · rename_i acc2 hfold2
            cases h1; cases h2
            obtain ⟨hinv1, hcov1⟩ := obj_fold' props (parseAV env ⟨s, false⟩ n) v _ acc1 hfold1 (by
              intro acc k acc' h
              split at h
              · rename_i t hl
                split at h
                · rename_i y hpy
                  cases h
                  exact Or.inl ⟨t, y, hl, hpy, rfl⟩
                · cases h
                · cases h
              · rename_i hl
                simp only [parseIndexedKey] at h
                cases h
                exact Or.inr ⟨hl, rfl⟩)
            obtain ⟨hinv2, _, hcov2⟩ := obj_fold_sorted props (parseAV env ⟨s, true⟩ n) v _ (by
              intro acc k acc' h
              split at h
              · rename_i hno
                cases h
                exact Or.inr ⟨Or.inl (by simpa using hno), rfl⟩
              · rename_i hown
                have hown' : v.hasOwn k = true := by simpa using hown
                split at h
                · rename_i t hl
                  split at h
                  · rename_i y hpy
                    cases h
                    exact Or.inl ⟨t, y, hown', hl, hpy, rfl⟩
                  · cases h
                  · cases h
                · rename_i hl
                  cases h
                  exact Or.inr ⟨Or.inr hl, rfl⟩) _ [] acc2 (fun k y h => by simp [lookupProp] at h) hfold2
            -- a declared key is no numeral and is safe
            have hdecl : ∀ k t, parseAV.lookupProp' props k = some t → k.isNat = false ∧ safeKey k = true ∧ pfrag t = true ∧ NoNum t := by
              intro k t hl
              have hm := lookupProp'_mem_pair hl
              have h1' := List.any_eq_false.1 hnprops.1 (k, t) hm
              have h2' := pfragP_mem hpp (k, t) hm
              exact ⟨by simpa using h1', h2'.1, h2'.2, hnprops.2 (k, t) hm⟩
            have hown_iff : ∀ k t, parseAV.lookupProp' props k = some t → (v.hasOwn k = true ↔ k ∈ v.ownKeys) := by
              intro k t hl
              obtain ⟨hnum, hsafe, _, _⟩ := hdecl k t hl
              constructor
              · intro ho
                by_cases hk : k ∈ v.ownKeys
                · exact hk
                · have := getOwn_none_of_safe v k hsafe hobj hk
                  simp [hasOwn, this] at ho
              · intro hk
                exact hasOwn_of_mem_ownKeys hobj hk hnum
            refine .obj ?_ ?_
            · intro k
              cases hg1 : lookupProp acc1 k with
              | some y1 =>
                obtain ⟨hk, t, hl, _⟩ := hinv1 k y1 hg1
                have hmem : k ∈ sortStrings (props.map (·.1)) :=
                  (C10.sortBy_perm _ _).mem_iff.2 (lookupProp'_mem hl)
                have := hcov2 k hmem ((hown_iff k t hl).2 hk) (by rw [hl]; rfl)
                simp [this]
              | none =>
                cases hg2 : lookupProp acc2 k with
                | none => rfl
                | some y2 =>
                  obtain ⟨ho, t, hl, _⟩ := hinv2 k y2 hg2
                  have := hcov1 k ((hown_iff k t hl).1 ho) (by rw [hl]; rfl)
                  rw [hg1] at this; cases this
            · intro k y1 y2 hg1 hg2
              obtain ⟨_, t1, hl1, hp1⟩ := hinv1 k y1 hg1
              obtain ⟨_, t2, hl2, hp2⟩ := hinv2 k y2 hg2
              rw [hl1] at hl2
              cases hl2
              obtain ⟨_, _, hpf, hnn'⟩ := hdecl k t1 hl1
              exact ih t1 _ y1 y2 hpf hnn' hp1 hp2
          · cases h2
          · cases h2
        · cases h1
        · cases h1
      · -- not an object: neither fold finds an own property under a declared name
        simp only [Bool.not_false, if_true] at h1
        simp only [Bool.not_true, Bool.false_eq_true, if_false, List.length_nil, Nat.lt_irrefl, gt_iff_lt] at h2
        split at h1
        · rename_i acc1 hfold1
          split at h2
          · rename_i acc2 hfold2
            cases h1; cases h2
            obtain ⟨hinv1, _⟩ := obj_fold' props (parseAV env ⟨s, false⟩ n) v _ acc1 hfold1 (by
              intro acc k acc' h
              split at h
              · rename_i t hl
                split at h
                · rename_i y hpy
                  cases h
                  exact Or.inl ⟨t, y, hl, hpy, rfl⟩
                · cases h
                · cases h
              · rename_i hl
                simp only [parseIndexedKey] at h
                cases h
                exact Or.inr ⟨hl, rfl⟩)
            obtain ⟨hinv2, _, _⟩ := obj_fold_sorted props (parseAV env ⟨s, true⟩ n) v _ (by
              intro acc k acc' h
              split at h
              · rename_i hno
                cases h
                exact Or.inr ⟨Or.inl (by simpa using hno), rfl⟩
              · rename_i hown
                have hown' : v.hasOwn k = true := by simpa using hown
                split at h
                · rename_i t hl
                  split at h
                  · rename_i y hpy
                    cases h
                    exact Or.inl ⟨t, y, hown', hl, hpy, rfl⟩
                  · cases h
                  · cases h
                · rename_i hl
                  cases h
                  exact Or.inr ⟨Or.inr hl, rfl⟩) _ [] acc2 (fun k y h => by simp [lookupProp] at h) hfold2
            have hdecl : ∀ k t, parseAV.lookupProp' props k = some t → k.isNat = false ∧ safeKey k = true := by
              intro k t hl
              have hm := lookupProp'_mem_pair hl
              have h1' := List.any_eq_false.1 hnprops.1 (k, t) hm
              exact ⟨by simpa using h1', (pfragP_mem hpp (k, t) hm).1⟩
            have e1 : ∀ k, lookupProp acc1 k = none := by
              intro k
              cases hg : lookupProp acc1 k with
              | none => rfl
              | some y =>
                obtain ⟨hk, t, hl, _⟩ := hinv1 k y hg
                exact absurd hk (no_own_of_not_object hobj (hdecl k t hl).2 (hdecl k t hl).1).1
            have e2 : ∀ k, lookupProp acc2 k = none := by
              intro k
              cases hg : lookupProp acc2 k with
              | none => rfl
              | some y =>
                obtain ⟨ho, t, hl, _⟩ := hinv2 k y hg
                rw [(no_own_of_not_object hobj (hdecl k t hl).2 (hdecl k t hl).1).2] at ho
                cases ho
            exact .obj (fun k => by rw [e1 k, e2 k]) (fun k y1 y2 h _ => by rw [e1 k] at h; cases h)
          · cases h2
          · cases h2
        · cases h1
        · cases h1

private def exT : RT := .object [("b", .typeof "string"), ("a", .array (.object [("y", .typeof "number"), ("x", .typeof "number")] []))] []
private def exV : JsVal := .obj [("b", .str "s"), ("extra", .num "1"), ("a", .arr [.obj [("y", .num "1"), ("x", .num "2")]])]

/-- non-vacuity: the two key orders really differ on this input (the theorem says: in nothing but the order) -/
example : pfrag exT = true ∧
    (match parseAV [] ⟨false, false⟩ 9 exT exV with | .ok (.obj kvs) => kvs.map (·.1) == ["b", "a"] | _ => false) = true ∧
    (match parseAV [] ⟨false, true⟩ 9 exT exV with | .ok (.obj kvs) => kvs.map (·.1) == ["a", "b"] | _ => false) = true := by
  decide +kernel

end BeffVerif.C03S
