import BeffVerif.Model.Describe
/-!
# C15 — describe() prints TypeScript that compiles back to the same validator

Lean part: the text model of describe() (tied verbatim to the real describe() on every run) declares every
named type at most once, for every runtime tree, environment and fuel (`describe_definitions_nodup`);
witnesses for the two shapes whose printed text is not a faithful TypeScript spelling (D43, D24c); regression
witnesses for the repaired D24. The round trip through the real compiler is decided by the check.
-/
namespace BeffVerif.C15
open BeffVerif RT

def Uniq (c : DescCtx) : Prop := (c.definitions.map (·.1)).Nodup

theorem define_uniq (c : DescCtx) (n : String) (d : TypeDesc) (h : Uniq c) : Uniq (c.define n d) := by
  unfold DescCtx.define
  split
  · exact h
  · rename_i hn
    unfold Uniq at *
    simp only [List.map_append, List.map_cons, List.map_nil]
    rw [List.nodup_append]
    refine ⟨h, by simp, ?_⟩
    intro a ha b hb
    simp at hb; subst hb
    intro hab; subst hab
    apply hn
    simp only [List.mem_map] at ha
    obtain ⟨p, hp, e⟩ := ha
    rw [List.any_eq_true]
    exact ⟨p, hp, by simp [e]⟩

/-- a fold whose step preserves an invariant of the context preserves it -/
theorem foldl_inv {α β : Type} (P : DescCtx → Prop) (proj : β → DescCtx) (f : β → α → β)
    (hf : ∀ b x, P (proj b) → P (proj (f b x))) : ∀ (l : List α) (b : β), P (proj b) → P (proj (l.foldl f b)) := by
  intro l
  induction l with
  | nil => intro b h; exact h
  | cons x xs ih => intro b h; exact ih _ (hf b x h)

/-- describe() never records two definitions for one name: every runtime tree, environment, fuel, context. -/
theorem describeRT_uniq (env : Env) : ∀ (n : Nat) (rt : RT) (c : DescCtx), Uniq c → Uniq (describeRT env n rt c).2 := by
  intro n
  induction n with
  | zero => intro rt c h; simpa [describeRT] using h
  | succ n ih =>
    intro rt c h
    have hexprs : ∀ (ts : List RT) (c : DescCtx), Uniq c →
        Uniq (ts.foldl (fun (acc : List String × DescCtx) t =>
          ((acc.1 ++ [(describeRT env n t acc.2).1.typeExpr]), (describeRT env n t acc.2).2)) ([], c)).2 := by
      intro ts c hc
      exact foldl_inv Uniq (fun (b : List String × DescCtx) => b.2) _ (fun b x hb => ih x b.2 hb) ts ([], c) hc
    cases rt with
    | described doc t =>
      cases t <;> simp only [describeRT] <;> exact ih _ _ h
    | optional t => simp only [describeRT]; exact ih _ _ h
    | ref name =>
      simp only [describeRT]
      split
      · exact h
      · rename_i to hto
        split
        · split
          · exact h
          · split
            · exact h
            · apply define_uniq
              have := ih to { c with activeRefs := c.activeRefs ++ [name] } h
              exact this
        · exact ih _ _ h
    | tuple pre rest =>
      simp only [describeRT]
      cases rest with
      | none => exact hexprs pre c h
      | some r => exact ih _ _ (hexprs pre c h)
    | allOf ts => simp only [describeRT]; exact hexprs ts c h
    | anyOf ts => simp only [describeRT]; exact hexprs ts c h
    | disc ss k m sm => simp only [describeRT]; exact hexprs ss c h
    | array t => simp only [describeRT]; exact ih _ _ h
    | map k v => simp only [describeRT]; exact ih _ _ (ih _ _ h)
    | set t => simp only [describeRT]; exact ih _ _ h
    | object props ix =>
      simp only [describeRT]
      have h1 := foldl_inv Uniq (fun (b : List (Option String × String) × DescCtx) => b.2)
        (fun (acc : List (Option String × String) × DescCtx) (p : String × RT) =>
          (acc.1 ++ [((describeRT env n p.2 acc.2).1.docText,
            describePropertyKey p.1 ++ (if isOptional p.2 then "?" else "") ++ ": " ++ (describeRT env n p.2 acc.2).1.typeExpr)],
           (describeRT env n p.2 acc.2).2))
        (fun b x hb => ih x.2 b.2 hb)
        (JsVal.sortBy (fun (a b : String × RT) => JsVal.strLe a.1 b.1) props) ([], c) h
      -- the index-signature loop: whatever text it prints (the key variable is chosen among K, K_, …), its context steps
      -- are two descriptions
      split <;> (try split) <;>
        exact foldl_inv Uniq (fun (b : List (Option String × String) × DescCtx) => b.2) _
          (fun b x hb => ih x.2 _ (ih x.1 b.2 hb)) ix ([], _) h1
    | _ => simpa [describeRT] using h

/-- the definitions printed by `describe()` have pairwise distinct names -/
theorem describe_definitions_nodup (env : Env) (fuel : Nat) (rt : RT) :
    Uniq (describeRT env fuel rt (collectRefs env fuel rt ⟨[], [], [], []⟩)).2 := by
  apply describeRT_uniq
  -- collectRefs never touches `definitions`
  have : ∀ (n : Nat) (rt : RT) (c : DescCtx), (collectRefs env n rt c).definitions = c.definitions := by
    intro n
    induction n with
    | zero => intro rt c; rfl
    | succ n ih =>
      intro rt c
      simp only [collectRefs]
      split
      · rename_i name _
        simp only [DescCtx.bump]
        split <;> (split <;> (try split) <;> simp [ih] <;> (try (split <;> simp [ih])))
      · have : ∀ (l : List RT) (c : DescCtx), (l.foldl (fun c ch => collectRefs env n ch c) c).definitions = c.definitions := by
          intro l; induction l with
          | nil => intro c; rfl
          | cons x xs ihl => intro c; simp only [List.foldl_cons]; rw [ihl, ih]
        exact this _ _
  unfold Uniq
  rw [this]
  simp

/-! ## witnesses -/

/-- D43: an object with declared properties AND an index signature is printed with a mapped-type member next
to ordinary members, which TypeScript (and beff) does not accept. -/
theorem mixed_index_object_text :
    RT.describe [] "X" (.object [("a", .typeof "string")] [(.typeof "string", .typeof "number")]) =
      "type CodecX = { a: string, [K in string]: number };" := by decide +kernel

/-- D24 repaired: non-identifier keys are quoted and bigint is printed as the type. -/
theorem quoted_keys_and_bigint :
    RT.describe [] "X" (.object [("a-b", .typeof "string"), ("n", .bigint)] []) =
      "type CodecX = { \"a-b\": string, n: bigint };" := by decide +kernel

/-- recursive types are printed through one alias and the printing terminates -/
theorem recursive_type_text :
    RT.describe [("L", .object [("next", .optional (.ref "L")), ("v", .typeof "number")] [])] "X" (.ref "L") =
      "type L = { next?: L, v: number };\n\ntype CodecX = L;" := by decide +kernel

end BeffVerif.C15
