import BeffVerif.Props.C05Flat
import BeffVerif.Model.ToSchema
/-!
# C07 — `keyof` of an object type is its set of keys (one object atom, no index signature)

The general form of the witness `C07.keyof_object_keys`: for EVERY object type without index signature, in every context
that defines its atom, the port of `keyof` on type vectors (bdd.rs) answers with the literal type of the declared keys —
a value belongs to the answer exactly when it is the string of a declared key (`keyof_flat_object`,
`keyof_flat_object_members`). The walk: one clause with one positive atom, the union with `never`, the fold over the
per-clause answers, no scalar tag to intersect with.
-/
namespace BeffVerif.C07Keyof
open BeffVerif Sem C05 C05Flat Bdd

theorem sm_pure_bind {α β : Type} (a : α) (f : α → SM β) : (pure a >>= f) = f a := rfl

theorem subUnion_none {α : Type} (f : α → α → Option (Sem.Sub α)) (x : Sem.Sub α) : subUnion f .none x = some x := by
  cases x <;> rfl

theorem union_never (x : SemType) : Sem.union never x = some x := by
  cases x
  simp [Sem.union, never, subUnion_none]

/-- the keys of an object type as a type: the union of the string literals -/
def keysType (A : MappingAtomic) : SemType := { never with str := mkLit true (A.vs.map (·.1)) }

/-- **`keyof` of a single object type**: for every context that defines the atom as an object type without index
signature, `keyof` answers with exactly the literal type of the declared keys and leaves the context alone -/
theorem keyof_flat_object (i : Nat) (A : MappingAtomic) (c : Ctx)
    (hA : c.mappings[i]? = some (some A)) (hx : A.index = none) :
    keyofSem (mappingFromIdx i) c = some (keysType A, c) := by
  have hdnf : Dnf.ofBdd (fromAtom ⟨mappingKind, i⟩) = [⟨[⟨mappingKind, i⟩], []⟩] := by
    simp [Dnf.ofBdd, Dnf.ofBddAcc, fromAtom]
  unfold keyofSem
  simp only [mappingFromIdx, never, Bool.false_eq_true, if_false, hdnf]
  have hscal : ((Sem.Sub.none : Sem.Sub Bool) == .all || (Sem.Sub.none : Sem.Sub LitSet) == .all || (Sem.Sub.none : Sem.Sub LitSet) == .all || false || false
      || (Sem.Sub.none : Sem.Sub LitSet) == .all || false) = false := by decide
  simp only [hscal, Bool.false_eq_true, if_false]
  have hconj : (List.foldlM (fun (keys : SemType) (a : Atom) => (do
        let m ← getMapping a.idx
        match m.index with
          | some val => do
            let ks ← SM.lift (Sem.union { never with str := mkLit true (List.map (fun x => x.fst) m.vs) } { never with str := .all })
            SM.lift (Sem.union keys ks)
          | none => do
            let ks ← pure ({ never with str := mkLit true (List.map (fun x => x.fst) m.vs) } : SemType)
            SM.lift (Sem.union keys ks) : SM SemType)) never [(⟨mappingKind, i⟩ : Atom)]) c = some (keysType A, c) := by
    rw [List.foldlM_cons]
    show ((getMapping i >>= _) >>= _) c = _
    rw [sm_bind_of _ _ c c (keysType A) ?_]
    · rfl
    · rw [sm_bind_of _ _ c c A (getMapping_of _ _ _ hA)]
      simp only [hx]
      show (SM.lift (Sem.union never (keysType A))) c = _
      rw [union_never]; rfl
  simp only [Bool.false_eq_true, ↓reduceIte, sm_pure_bind]
  refine Eq.trans (sm_bind_of _ _ c c [keysType A] (mapM_single _ _ c c (keysType A) ?_)) ?_
  · exact hconj
  · simp only [List.foldlM_cons, List.foldlM_nil, sm_pure_bind, Option.getD_some]
    rfl

/-- the members of `keyof A`: exactly the strings that are declared keys, nothing of any other kind -/
theorem keyof_flat_object_members (A : MappingAtomic) (v : Scalar) :
    hasScalar (keysType A) v = true ↔ ∃ s, v = .str s ∧ s ∈ A.vs.map (·.1) := by
  cases v with
  | str s =>
    simp only [hasScalar, keysType, mkLit_has, LitSet.has, if_true, List.contains_eq_mem, decide_eq_true_eq]
    constructor
    · intro h; exact ⟨s, rfl, h⟩
    · rintro ⟨s', e, h⟩; cases e; exact h
  | _ => simp [hasScalar, keysType, never, subBoolHas, subLitHas]

/-- `keyof { a: string; b?: number }` in a context that also holds other atoms -/
example : (keyofSem (mappingFromIdx 1)
    { mappings := [some ⟨[], none⟩, some ⟨[("a", { never with str := .all }), ("b", { never with num := .all, opt := true })], none⟩] }).map (·.1)
    = some { never with str := .some ⟨true, ["a", "b"]⟩ } := by decide +kernel

end BeffVerif.C07Keyof
