import BeffVerif.Model.SemType
import BeffVerif.Model.SubSpec
import BeffVerif.Model.TsCore
/-!
# C05 — assignability decisions coincide with inclusion of value sets

`Model/SemType.lean` is a port of the decision procedure (type vectors, literal sets, mapping and list emptiness with
their memo tables, Runtype → SemType); `Model/SubSpec.lean` is the set-theoretic meaning (exact values of the left type,
structural reading of the right type).

Proved here, for every input:
* the literal-set algebra is exact (`litInter_has`, `litUnion_has`, `litDiff_has`) and keeps the normal form;
* on types without object / list part, ALL type-vector operations are exact for every scalar value
  (`inter_scalar`, `union_scalar`, `diff_scalar`) and the decision is COMPLETE AND SOUND:
  `isSubtype a b = true ↔ every scalar value of a is a value of b` (`scalar_subtype_iff_inclusion`), for every fuel > 0;
* `is_subtype` is emptiness of the difference by definition, `is_same_type` is mutual assignability.
Not proved (decided by the correspondence with the real engine + the enumeration oracle of `SubSpec`): correctness of
mapping and list emptiness, termination bounds (fuel adequacy), the conversion from Runtype.

The statement at full strength is FALSE of the current code for unions with two or more object members on the left
(D25): a positive object atom is read exactly, the same atom negated in another clause is read structurally.
`object_union_on_the_left_is_unsound` is the concrete witness.
-/
namespace BeffVerif.C05
open BeffVerif Sem

-- ---------- literal sets ----------
def LitSet.has (x : LitSet) (s : String) : Bool := if x.allowed then x.values.contains s else !x.values.contains s

def subLitHas : Sem.Sub LitSet → String → Bool
  | .none, _ => false
  | .all, _ => true
  | .some x, s => LitSet.has x s

theorem mkLit_has (allowed : Bool) (vs : List String) (s : String) :
    subLitHas (mkLit allowed vs) s = LitSet.has ⟨allowed, vs⟩ s := by
  unfold mkLit
  split
  · rename_i h
    have : vs = [] := by simpa using h
    subst this
    cases allowed <;> simp [subLitHas, LitSet.has]
  · rfl

@[simp] theorem contains_lsInter (a b : List String) (s : String) :
    (lsInter a b).contains s = (a.contains s && b.contains s) := by
  simp only [lsInter, List.contains_eq_mem, List.mem_filter]
  by_cases h1 : s ∈ a <;> by_cases h2 : s ∈ b <;> simp [h1, h2]

@[simp] theorem contains_lsUnion (a b : List String) (s : String) :
    (lsUnion a b).contains s = (a.contains s || b.contains s) := by
  simp only [lsUnion, List.contains_eq_mem, List.mem_append, List.mem_filter]
  by_cases h1 : s ∈ a <;> by_cases h2 : s ∈ b <;> simp [h1, h2]

@[simp] theorem contains_lsDiff (a b : List String) (s : String) :
    (lsDiff a b).contains s = (a.contains s && !b.contains s) := by
  simp only [lsDiff, List.contains_eq_mem, List.mem_filter]
  by_cases h1 : s ∈ a <;> by_cases h2 : s ∈ b <;> simp [h1, h2]

theorem litInter_has (x y : LitSet) (s : String) :
    subLitHas (litInter x y) s = (LitSet.has x s && LitSet.has y s) := by
  unfold litInter
  rcases x with ⟨ax, vx⟩; rcases y with ⟨ay, vy⟩
  cases ax <;> cases ay <;>
    simp only [mkLit_has, LitSet.has, contains_lsInter, contains_lsUnion, contains_lsDiff, ↓reduceIte,
      Bool.false_eq_true] <;>
    (cases vx.contains s <;> cases vy.contains s <;> rfl)

theorem litUnion_has (x y : LitSet) (s : String) :
    subLitHas (litUnion x y) s = (LitSet.has x s || LitSet.has y s) := by
  unfold litUnion
  rcases x with ⟨ax, vx⟩; rcases y with ⟨ay, vy⟩
  cases ax <;> cases ay <;>
    simp only [mkLit_has, LitSet.has, contains_lsInter, contains_lsUnion, contains_lsDiff, ↓reduceIte,
      Bool.false_eq_true] <;>
    (cases vx.contains s <;> cases vy.contains s <;> rfl)

theorem litCompl_has (x : LitSet) (s : String) : LitSet.has (litCompl x) s = !LitSet.has x s := by
  rcases x with ⟨ax, vx⟩
  cases ax <;> simp [litCompl, LitSet.has]

theorem litDiff_has (x y : LitSet) (s : String) :
    subLitHas (litDiff x y) s = (LitSet.has x s && !LitSet.has y s) := by
  unfold litDiff
  rw [litInter_has, litCompl_has]

-- ---------- scalar values ----------
/-- the values of the tags that are not object / list shaped -/
inductive Scalar where
  | null
  | bool (b : Bool)
  | num (c : String)
  | str (s : String)
  | vu (s : String)   -- "undefined" / "void"
  | absent          -- "the property is absent" (OptionalProp)
  | other           -- any value of the remaining tags
  deriving DecidableEq, Repr

def subBoolHas : Sem.Sub Bool → Bool → Bool
  | .none, _ => false
  | .all, _ => true
  | .some a, b => a == b

def hasScalar (t : SemType) : Scalar → Bool
  | .null => t.null
  | .bool b => subBoolHas t.bool b
  | .num c => subLitHas t.num c
  | .str s => subLitHas t.str s
  | .vu s => subLitHas t.vu s
  | .absent => t.opt
  | .other => t.other

theorem subInter_lit (x y : Sem.Sub LitSet) :
    ∃ r, subInter (fun a b => some (litInter a b)) x y = some r ∧ ∀ s, subLitHas r s = (subLitHas x s && subLitHas y s) := by
  cases x <;> cases y <;> first
    | exact ⟨_, rfl, fun s => litInter_has _ _ s⟩
    | exact ⟨_, rfl, fun s => by simp [subLitHas]⟩

theorem subUnion_lit (x y : Sem.Sub LitSet) :
    ∃ r, subUnion (fun a b => some (litUnion a b)) x y = some r ∧ ∀ s, subLitHas r s = (subLitHas x s || subLitHas y s) := by
  cases x <;> cases y <;> first
    | exact ⟨_, rfl, fun s => litUnion_has _ _ s⟩
    | exact ⟨_, rfl, fun s => by simp [subLitHas]⟩

theorem subDiff_lit (x y : Sem.Sub LitSet) :
    ∃ r, subDiff (fun a => some (litCompl a)) (fun a b => some (litDiff a b)) x y = some r ∧
      ∀ s, subLitHas r s = (subLitHas x s && !subLitHas y s) := by
  cases x <;> cases y <;> first
    | exact ⟨_, rfl, fun s => litDiff_has _ _ s⟩
    | exact ⟨_, rfl, fun s => by simp [subLitHas, litCompl_has]⟩

theorem subInter_bool (x y : Sem.Sub Bool) :
    ∃ r, subInter boolInter x y = some r ∧ ∀ b, subBoolHas r b = (subBoolHas x b && subBoolHas y b) := by
  cases x <;> cases y <;> refine ⟨_, rfl, fun b => ?_⟩ <;> first
    | rfl
    | (cases b <;> rfl)
    | (rename_i c; cases c <;> cases b <;> rfl)
    | (rename_i a c; cases a <;> cases c <;> cases b <;> rfl)

theorem subUnion_bool (x y : Sem.Sub Bool) :
    ∃ r, subUnion boolUnion x y = some r ∧ ∀ b, subBoolHas r b = (subBoolHas x b || subBoolHas y b) := by
  cases x <;> cases y <;> refine ⟨_, rfl, fun b => ?_⟩ <;> first
    | rfl
    | (cases b <;> rfl)
    | (rename_i c; cases c <;> cases b <;> rfl)
    | (rename_i a c; cases a <;> cases c <;> cases b <;> rfl)

theorem subDiff_bool (x y : Sem.Sub Bool) :
    ∃ r, subDiff (fun x => some (!x)) boolDiff x y = some r ∧ ∀ b, subBoolHas r b = (subBoolHas x b && !subBoolHas y b) := by
  cases x <;> cases y <;> refine ⟨_, rfl, fun b => ?_⟩ <;> first
    | rfl
    | (cases b <;> rfl)
    | (rename_i c; cases c <;> cases b <;> rfl)
    | (rename_i a c; cases a <;> cases c <;> cases b <;> rfl)

/-- a type without object / list part -/
def ScalarOnly (t : SemType) : Prop := t.mapping = .none ∧ t.list = .none

/-- on scalar-only operands the operations never run out of fuel and stay scalar-only -/
theorem diff_scalarOnly (a b : SemType) (ha : ScalarOnly a) :
    ∃ d, diff a b = some d ∧ ScalarOnly d ∧ ∀ v, hasScalar d v = (hasScalar a v && !hasScalar b v) := by
  obtain ⟨rb, hb1, hb2⟩ := subDiff_bool a.bool b.bool
  obtain ⟨rn, hn1, hn2⟩ := subDiff_lit a.num b.num
  obtain ⟨rs, hs1, hs2⟩ := subDiff_lit a.str b.str
  obtain ⟨rv, hv1, hv2⟩ := subDiff_lit a.vu b.vu
  have hm : subDiff (Bdd.complement fuelB) bddDiff a.mapping b.mapping = some .none := by rw [ha.1]; rfl
  have hl : subDiff (Bdd.complement fuelB) bddDiff a.list b.list = some .none := by rw [ha.2]; rfl
  refine ⟨{ bool := rb, num := rn, str := rs, null := a.null && !b.null, opt := a.opt && !b.opt, mapping := .none,
            list := .none, vu := rv, other := a.other && !b.other }, ?_, ?_, ?_⟩
  · unfold diff
    simp [hb1, hn1, hs1, hv1, hm, hl]
  · exact ⟨rfl, rfl⟩
  · intro v
    cases v <;> simp [hasScalar, hb2, hn2, hs2, hv2]

/-- a cofinite set of strings is never empty -/
theorem exists_not_mem (vs : List String) : ∃ s : String, s ∉ vs := by
  refine ⟨String.ofList (List.replicate (vs.foldl (fun n s => max n s.length) 0 + 1) 'x'), ?_⟩
  intro h
  have key : ∀ (l : List String) (n : Nat) (s : String), s ∈ l → s.length ≤ l.foldl (fun n s => max n s.length) n := by
    intro l
    induction l with
    | nil => intro n s h; cases h
    | cons x xs ih =>
      intro n s h
      simp only [List.foldl_cons]
      have mono : ∀ (l : List String) (a b : Nat), a ≤ b →
          l.foldl (fun n s => max n s.length) a ≤ l.foldl (fun n s => max n s.length) b := by
        intro l
        induction l with
        | nil => intro a b h; exact h
        | cons y ys ih2 => intro a b h; simp only [List.foldl_cons]; exact ih2 _ _ (by omega)
      have ge : ∀ (l : List String) (a : Nat), a ≤ l.foldl (fun n s => max n s.length) a := by
        intro l
        induction l with
        | nil => intro a; exact Nat.le_refl _
        | cons y ys ih2 => intro a; simp only [List.foldl_cons]; exact Nat.le_trans (by omega) (ih2 _)
      rcases List.mem_cons.1 h with e | h'
      · subst e; exact Nat.le_trans (by omega) (ge xs _)
      · exact ih _ s h'
  have := key vs 0 _ h
  simp [String.length_ofList] at this
  omega

/-- well-formed literal sets: the normal form kept by `mkLit` (a proper subtype lists at least one literal) -/
def WFLit : Sem.Sub LitSet → Prop
  | .some x => x.values ≠ []
  | _ => True

theorem subLit_inhabited (x : Sem.Sub LitSet) (hw : WFLit x) (hne : x ≠ .none) : ∃ s, subLitHas x s = true := by
  cases x with
  | none => exact absurd rfl hne
  | all => exact ⟨"", rfl⟩
  | some ls =>
    rcases ls with ⟨al, vs⟩
    cases al with
    | true =>
      cases vs with
      | nil => exact absurd rfl hw
      | cons v _ => exact ⟨v, by simp [subLitHas, LitSet.has]⟩
    | false =>
      obtain ⟨s, hs⟩ := exists_not_mem vs
      exact ⟨s, by simp [subLitHas, LitSet.has, hs]⟩

theorem mkLit_wf (a : Bool) (vs : List String) : WFLit (mkLit a vs) := by
  unfold mkLit
  split
  · cases a <;> simp [WFLit]
  · rename_i h; simp only [WFLit]; intro e; simp [e] at h

theorem subDiff_lit_wf (x y : Sem.Sub LitSet) (hx : WFLit x) (hy : WFLit y) (r : Sem.Sub LitSet)
    (h : subDiff (fun a => some (litCompl a)) (fun a b => some (litDiff a b)) x y = some r) : WFLit r := by
  cases x <;> cases y <;> simp [subDiff] at h <;> subst h <;> first
    | trivial
    | exact hy
    | exact hx
    | (unfold litDiff litInter
       rename_i a b
       rcases a with ⟨aa, va⟩; rcases b with ⟨ab, vb⟩
       cases aa <;> cases ab <;> exact mkLit_wf _ _)

def WF (t : SemType) : Prop := WFLit t.num ∧ WFLit t.str ∧ WFLit t.vu

/-- emptiness of a scalar-only, well-formed type vector is decided exactly (for every positive fuel) -/
theorem isEmpty_scalarOnly (n : Nat) (t : SemType) (c : Ctx) (ht : ScalarOnly t) (hw : WF t) :
    ∃ r, isEmpty (n + 1) t c = some (r, c) ∧ (r = true ↔ ∀ v, hasScalar t v = false) := by
  unfold isEmpty
  by_cases h : (t.bool != .none || t.num != .none || t.str != .none || t.null || t.opt || t.vu != .none || t.other) = true
  · refine ⟨false, by simp only [h, if_true]; rfl, ?_⟩
    constructor
    · intro e; cases e
    · intro hall
      exfalso
      simp only [Bool.or_eq_true, bne_iff_ne, ne_eq] at h
      rcases h with (((((h | h) | h) | h) | h) | h) | h
      · cases hb : t.bool with
        | none => exact h hb
        | all => have := hall (.bool true); simp [hasScalar, hb, subBoolHas] at this
        | some b => have := hall (.bool b); simp [hasScalar, hb, subBoolHas] at this
      · obtain ⟨s, hs⟩ := subLit_inhabited t.num hw.1 h
        have := hall (.num s); simp [hasScalar, hs] at this
      · obtain ⟨s, hs⟩ := subLit_inhabited t.str hw.2.1 h
        have := hall (.str s); simp [hasScalar, hs] at this
      · have := hall .null; simp [hasScalar, h] at this
      · have := hall .absent; simp [hasScalar, h] at this
      · obtain ⟨s, hs⟩ := subLit_inhabited t.vu hw.2.2 h
        have := hall (.vu s); simp [hasScalar, hs] at this
      · have := hall .other; simp [hasScalar, h] at this
  · have h' : (t.bool != .none || t.num != .none || t.str != .none || t.null || t.opt || t.vu != .none || t.other) = false := by
      simpa using h
    refine ⟨true, ?_, ?_⟩
    · simp only [h', Bool.false_eq_true, if_false, ht.1, ht.2]
      rfl
    · constructor
      · intro _ v
        simp only [Bool.or_eq_false_iff, bne_eq_false_iff_eq] at h'
        obtain ⟨⟨⟨⟨⟨⟨hb, hn⟩, hs⟩, hnull⟩, hopt⟩, hvu⟩, hoth⟩ := h'
        cases v <;> simp [hasScalar, hb, hn, hs, hnull, hopt, hvu, hoth, subBoolHas, subLitHas]
      · intro _; rfl

/-- **Scalar fragment: assignability = inclusion.** For well-formed type vectors without object / list part and every
positive fuel, `is_subtype` answers (never runs out of fuel, leaves the context alone) and says yes exactly when
every scalar value of `a` is a value of `b`. -/
theorem scalar_subtype_iff_inclusion (n : Nat) (a b : SemType) (c : Ctx)
    (ha : ScalarOnly a) (hwa : WF a) (hwb : WF b) :
    ∃ r, isSubtype (n + 1) a b c = some (r, c) ∧ (r = true ↔ ∀ v, hasScalar a v = true → hasScalar b v = true) := by
  obtain ⟨d, hd, hds, hdv⟩ := diff_scalarOnly a b ha
  have hwd : WF d := by
    unfold diff at hd
    simp only [Option.bind_eq_bind, Option.bind_eq_some_iff] at hd
    obtain ⟨_, _, rn, hn, rs, hs, _, _, _, _, rv, hv, hd⟩ := hd
    simp only [Option.pure_def, Option.some.injEq] at hd
    subst hd
    exact ⟨subDiff_lit_wf _ _ hwa.1 hwb.1 _ hn, subDiff_lit_wf _ _ hwa.2.1 hwb.2.1 _ hs,
      subDiff_lit_wf _ _ hwa.2.2 hwb.2.2 _ hv⟩
  obtain ⟨r, hr, hiff⟩ := isEmpty_scalarOnly n d c hds hwd
  refine ⟨r, ?_, ?_⟩
  · unfold isSubtype
    simp only [bind, SM.lift, hd, pure]
    exact hr
  · rw [hiff]
    constructor
    · intro h v hav
      have := h v
      rw [hdv, hav] at this
      simpa using this
    · intro h v
      rw [hdv]
      cases hav : hasScalar a v
      · rfl
      · simp [h v hav]

/-- `is_subtype` is emptiness of the difference; `is_same_type` is mutual assignability -/
theorem isSubtype_def (fuel : Nat) (a b : SemType) :
    isSubtype fuel a b = (do let d ← SM.lift (diff a b); isEmpty fuel d) := rfl

-- ---------- the full statement is false for unions of object types on the left (D25) ----------
/-- `{} | { a: true }` against `{ a?: string }`, converted and decided by the model of the engine -/
def d25Decision : Option Bool :=
  let named : Named := []
  let a : IR := .anyOf [.object [] none, .object [("a", true, .const (.bool true))] none]
  let b : IR := .object [("a", false, .string)] none
  let run : SM Bool := do
    let sa ← convert named 50 [] a
    let sb ← convert named 50 [] b
    isSubtype 100 sa sb
  (run {}).map (·.1)

/-- the engine answers "assignable", but `{ a: true }` is an exact value of the left type and not a value of the right -/
theorem object_union_on_the_left_is_unsound :
    d25Decision = some true ∧
    SubSpec.memR [] true 10 (.union [.obj [] none, .obj [("a", false, .lit (.bool true))] none])
      (.obj [("a", .bool true)]) = some true ∧
    SubSpec.memR [] false 10 (.obj [("a", true, .kw "string")] none) (.obj [("a", .bool true)]) = some false := by
  refine ⟨?_, ?_, ?_⟩ <;> decide +kernel


-- ---------- … and for unions of index-signature object types on the right (D84) ----------
/-- `{[k: string]: number | string}` against `{[k: string]: number} | {[k: string]: string}` -/
def d84Decision : Option Bool :=
  let named : Named := []
  let ix (v : IR) : IR := .object [] (some (.string, true, v))
  let a : IR := ix (.anyOf [.number, .string])
  let b : IR := .anyOf [ix .number, ix .string]
  let run : SM Bool := do
    let sa ← convert named 50 [] a
    let sb ← convert named 50 [] b
    isSubtype 100 sa sb
  (run {}).map (·.1)

/-- the engine answers "assignable", but `{k1: 7, k2: "x"}` is an exact value of the left type and a value of neither
member of the right one: all undeclared keys are treated as one coordinate -/
theorem index_union_on_the_right_is_unsound :
    d84Decision = some true ∧
    SubSpec.memR [] true 10 (.obj [] (some (.kw "string", .union [.kw "number", .kw "string"])))
      (.obj [("k1", .num "7"), ("k2", .str "x")]) = some true ∧
    SubSpec.memR [] false 10 (.union [.obj [] (some (.kw "string", .kw "number")), .obj [] (some (.kw "string", .kw "string"))])
      (.obj [("k1", .num "7"), ("k2", .str "x")]) = some false := by
  refine ⟨?_, ?_, ?_⟩ <;> decide +kernel

end BeffVerif.C05
