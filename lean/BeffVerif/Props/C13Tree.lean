import Std.Data.String.ToNat
import BeffVerif.Model.Hash256
import BeffVerif.Model.Validate
import BeffVerif.Lemmas.Sort
import BeffVerif.Lemmas.Pairwise2
import BeffVerif.Props.C13Inj
/-!
# C13 — the Runtype-level encoding omits nothing a validator depends on (closed types)

`Model/Hash256.h256` is the token stream `hash256()` writes for a Runtype tree. This file proves, for trees without
named references (`Good`, which also records what the JavaScript objects guarantee: distinct property names, distinct
discriminator tags, constants that are `Const` values, and that a template's description determines the template):

* the stream is self-delimiting: `ts1 ++ r1 = ts2 ++ r2 → ts1 = ts2 ∧ r1 = r2` (so a parent can be split into its
  children unambiguously), and
* two trees with the same stream accept the same values (`SemEq`): **validators that disagree on a value have
  different token streams**, hence — `C13Inj.tokens_injective` — different byte streams, hence different digests unless
  SHA-256 itself collides.

Named references (cycle offsets) are covered by the correspondence and by the pair search of the check, not by a
theorem (DESIGN.md §5 C13).
-/
namespace BeffVerif.C13T
open BeffVerif RT Sha JsVal

/-! ## general lemmas -/

theorem natTok_inj {a b : Nat} (h : natTok a = natTok b) : a = b := by
  unfold natTok at h
  injection h with h
  exact Nat.repr_injective h

/-- two results agree when they are both answers -/
def Agree (r1 r2 : Res Bool) : Prop := ∀ b1 b2, r1 = .ok b1 → r2 = .ok b2 → b1 = b2

/-- the two validators never give different answers (fuel exhaustion is not an answer) -/
def SemEq (env1 env2 : Env) (rt1 rt2 : RT) : Prop :=
  ∀ strict m1 m2 x, Agree (validate env1 strict m1 rt1 x) (validate env2 strict m2 rt2 x)

theorem agree_ok {a b : Bool} (h : a = b) : Agree (.ok a) (.ok b) := by
  intro b1 b2 h1 h2
  injection h1 with h1; injection h2 with h2
  rw [← h1, ← h2, h]

theorem allShort_true {α : Type} {f : α → Res Bool} : ∀ {l : List α},
    allShort f l = .ok true ↔ ∀ x ∈ l, f x = .ok true := by
  intro l
  induction l with
  | nil => simp [allShort]
  | cons y ys ih =>
    rw [allShort]
    constructor
    · intro h
      cases hy : f y with
      | ok b =>
        cases b with
        | true =>
          rw [hy] at h
          intro x hx
          rcases List.mem_cons.1 hx with e | hx
          · rw [e]; exact hy
          · exact ih.1 h x hx
        | false => rw [hy] at h; cases h
      | throw c => rw [hy] at h; cases h
      | nofuel => rw [hy] at h; cases h
    · intro h
      rw [h y (by simp)]
      exact ih.2 (fun x hx => h x (List.mem_cons_of_mem _ hx))

theorem allShort_false {α : Type} {f : α → Res Bool} : ∀ {l : List α},
    allShort f l = .ok false → ∃ x ∈ l, f x = .ok false := by
  intro l
  induction l with
  | nil => intro h; simp [allShort] at h
  | cons y ys ih =>
    intro h
    rw [allShort] at h
    cases hy : f y with
    | ok b =>
      cases b with
      | true =>
        rw [hy] at h
        obtain ⟨x, hx, hfx⟩ := ih h
        exact ⟨x, List.mem_cons_of_mem _ hx, hfx⟩
      | false => exact ⟨y, by simp, hy⟩
    | throw c => rw [hy] at h; cases h
    | nofuel => rw [hy] at h; cases h

theorem anyShort_false {α : Type} {f : α → Res Bool} : ∀ {l : List α},
    anyShort f l = .ok false ↔ ∀ x ∈ l, f x = .ok false := by
  intro l
  induction l with
  | nil => simp [anyShort]
  | cons y ys ih =>
    rw [anyShort]
    constructor
    · intro h
      cases hy : f y with
      | ok b =>
        cases b with
        | false =>
          rw [hy] at h
          intro x hx
          rcases List.mem_cons.1 hx with e | hx
          · rw [e]; exact hy
          · exact ih.1 h x hx
        | true => rw [hy] at h; cases h
      | throw c => rw [hy] at h; cases h
      | nofuel => rw [hy] at h; cases h
    · intro h
      rw [h y (by simp)]
      exact ih.2 (fun x hx => h x (List.mem_cons_of_mem _ hx))

theorem anyShort_true {α : Type} {f : α → Res Bool} : ∀ {l : List α},
    anyShort f l = .ok true → ∃ x ∈ l, f x = .ok true := by
  intro l
  induction l with
  | nil => intro h; simp [anyShort] at h
  | cons y ys ih =>
    intro h
    rw [anyShort] at h
    cases hy : f y with
    | ok b =>
      cases b with
      | false =>
        rw [hy] at h
        obtain ⟨x, hx, hfx⟩ := ih h
        exact ⟨x, List.mem_cons_of_mem _ hx, hfx⟩
      | true => exact ⟨y, by simp, hy⟩
    | throw c => rw [hy] at h; cases h
    | nofuel => rw [hy] at h; cases h

/-- a conjunction over two lists whose elements can be paired both ways with agreeing results -/
theorem allShort_agree {α β : Type} {f : α → Res Bool} {g : β → Res Bool} {l1 : List α} {l2 : List β}
    (h12 : ∀ x ∈ l1, ∃ y ∈ l2, Agree (f x) (g y)) (h21 : ∀ y ∈ l2, ∃ x ∈ l1, Agree (f x) (g y)) :
    Agree (allShort f l1) (allShort g l2) := by
  intro b1 b2 h1 h2
  cases b1 <;> cases b2
  · rfl
  · obtain ⟨x, hx, hfx⟩ := allShort_false h1
    obtain ⟨y, hy, hag⟩ := h12 x hx
    exact hag _ _ hfx (allShort_true.1 h2 y hy)
  · obtain ⟨y, hy, hgy⟩ := allShort_false h2
    obtain ⟨x, hx, hag⟩ := h21 y hy
    exact hag _ _ (allShort_true.1 h1 x hx) hgy
  · rfl

theorem anyShort_agree {α β : Type} {f : α → Res Bool} {g : β → Res Bool} {l1 : List α} {l2 : List β}
    (h12 : ∀ x ∈ l1, ∃ y ∈ l2, Agree (f x) (g y)) (h21 : ∀ y ∈ l2, ∃ x ∈ l1, Agree (f x) (g y)) :
    Agree (anyShort f l1) (anyShort g l2) := by
  intro b1 b2 h1 h2
  cases b1 <;> cases b2
  · rfl
  · obtain ⟨y, hy, hgy⟩ := anyShort_true h2
    obtain ⟨x, hx, hag⟩ := h21 y hy
    exact hag _ _ (anyShort_false.1 h1 x hx) hgy
  · obtain ⟨x, hx, hfx⟩ := anyShort_true h1
    obtain ⟨y, hy, hag⟩ := h12 x hx
    exact hag _ _ hfx (anyShort_false.1 h2 y hy)
  · rfl

/-! ## encoders that can be told apart from what follows them -/

/-- `e1`, `e2` write self-delimiting streams, and equal streams imply `P` -/
def PF (e1 e2 : Nat → Option (List Tok)) (P : Prop) : Prop :=
  ∀ p1 p2 ts1 ts2 r1 r2, e1 p1 = some ts1 → e2 p2 = some ts2 → ts1 ++ r1 = ts2 ++ r2 → ts1 = ts2 ∧ r1 = r2 ∧ P

theorem PF_mono {e1 e2 : Nat → Option (List Tok)} {P Q : Prop} (h : PF e1 e2 P) (hpq : P → Q) : PF e1 e2 Q := by
  intro p1 p2 ts1 ts2 r1 r2 h1 h2 he
  obtain ⟨a, b, c⟩ := h p1 p2 ts1 ts2 r1 r2 h1 h2 he
  exact ⟨a, b, hpq c⟩

theorem PF_const {l1 l2 : List Tok} (hl : l1.length = l2.length) :
    PF (fun _ => some l1) (fun _ => some l2) (l1 = l2) := by
  intro p1 p2 ts1 ts2 r1 r2 h1 h2 he
  injection h1 with h1; injection h2 with h2
  subst h1; subst h2
  obtain ⟨a, b⟩ := List.append_inj he hl
  exact ⟨a, b, a⟩

theorem PF_pre {l1 l2 : List Tok} {e1 e2 : Nat → Option (List Tok)} {P : Prop} (hl : l1.length = l2.length)
    (h : PF e1 e2 P) : PF (pre l1 e1) (pre l2 e2) (l1 = l2 ∧ P) := by
  intro p1 p2 ts1 ts2 r1 r2 h1 h2 he
  unfold pre at h1 h2
  cases ha : e1 (p1 + bytesLen l1) with
  | none => rw [ha] at h1; cases h1
  | some a =>
    cases hb : e2 (p2 + bytesLen l2) with
    | none => rw [hb] at h2; cases h2
    | some b =>
      rw [ha] at h1; rw [hb] at h2
      injection h1 with h1; injection h2 with h2
      subst h1; subst h2
      rw [List.append_assoc, List.append_assoc] at he
      obtain ⟨hl', hrest⟩ := List.append_inj he hl
      obtain ⟨x, y, z⟩ := h _ _ _ _ _ _ ha hb hrest
      subst hl'; subst x
      exact ⟨rfl, y, rfl, z⟩

theorem PF_andThen {f1 f2 g1 g2 : Nat → Option (List Tok)} {P Q : Prop} (hf : PF f1 f2 P) (hg : PF g1 g2 Q) :
    PF (andThen f1 g1) (andThen f2 g2) (P ∧ Q) := by
  intro p1 p2 ts1 ts2 r1 r2 h1 h2 he
  unfold andThen at h1 h2
  cases ha : f1 p1 with
  | none => rw [ha] at h1; cases h1
  | some a =>
    cases hb : f2 p2 with
    | none => rw [hb] at h2; cases h2
    | some b =>
      simp only [ha] at h1; simp only [hb] at h2
      cases hc : g1 (p1 + bytesLen a) with
      | none => simp only [hc] at h1; cases h1
      | some c =>
        cases hd : g2 (p2 + bytesLen b) with
        | none => simp only [hd] at h2; cases h2
        | some d =>
          simp only [hc] at h1; simp only [hd] at h2
          injection h1 with h1; injection h2 with h2
          subst h1; subst h2
          rw [List.append_assoc, List.append_assoc] at he
          obtain ⟨x, y, z⟩ := hf _ _ _ _ _ _ ha hb he
          subst x
          obtain ⟨x', y', z'⟩ := hg _ _ _ _ _ _ hc hd y
          subst x'
          exact ⟨rfl, y', z, z'⟩

theorem PF_seqT {α β : Type} {f : α → Nat → Option (List Tok)} {g : β → Nat → Option (List Tok)}
    {P : α → β → Prop} : ∀ (xs : List α) (ys : List β), xs.length = ys.length →
    (∀ x ∈ xs, ∀ y ∈ ys, PF (f x) (g y) (P x y)) → PF (seqT f xs) (seqT g ys) (Pairwise2 P xs ys) := by
  intro xs
  induction xs with
  | nil =>
    intro ys hl _
    cases ys with
    | nil =>
      intro p1 p2 ts1 ts2 r1 r2 h1 h2 he
      simp only [seqT] at h1 h2
      injection h1 with h1; injection h2 with h2
      subst h1; subst h2
      exact ⟨rfl, he, trivial⟩
    | cons y ys => simp at hl
  | cons x xs ih =>
    intro ys hl hP
    cases ys with
    | nil => simp at hl
    | cons y ys =>
      have hl' : xs.length = ys.length := by simpa using hl
      have hrec := ih ys hl' (fun a ha b hb => hP a (List.mem_cons_of_mem _ ha) b (List.mem_cons_of_mem _ hb))
      have hxy := hP x (by simp) y (by simp)
      intro p1 p2 ts1 ts2 r1 r2 h1 h2 he
      simp only [seqT] at h1 h2
      cases ha : f x p1 with
      | none => rw [ha] at h1; cases h1
      | some a =>
        cases hb : g y p2 with
        | none => rw [hb] at h2; cases h2
        | some b =>
          simp only [ha] at h1; simp only [hb] at h2
          cases hc : seqT f xs (p1 + bytesLen a) with
          | none => simp only [hc] at h1; cases h1
          | some c =>
            cases hd : seqT g ys (p2 + bytesLen b) with
            | none => simp only [hd] at h2; cases h2
            | some d =>
              simp only [hc] at h1; simp only [hd] at h2
              injection h1 with h1; injection h2 with h2
              subst h1; subst h2
              rw [List.append_assoc, List.append_assoc] at he
              obtain ⟨u, v, w⟩ := hxy _ _ _ _ _ _ ha hb he
              subst u
              obtain ⟨u', v', w'⟩ := hrec _ _ _ _ _ _ hc hd v
              subst u'
              exact ⟨rfl, v', w, w'⟩


/-! ## the trees the theorem speaks about -/

/-- `Const = string | number | boolean | null` -/
def isConst : JsVal → Bool
  | .null | .str _ | .num _ | .bool _ => true
  | _ => false

/-- closed Runtype trees as the JavaScript objects can be: no named reference, distinct property names and distinct
discriminator tags (they are keys of a record), `AnyOfConsts` members that are `Const` values -/
inductive Good : RT → Prop
  | typeof (t : String) : Good (.typeof t)
  | any : Good .any
  | nullish (d : String) : Good (.nullish d)
  | never : Good .never
  | const (v : JsVal) : Good (.const v)
  | regex (tpl : Tpl) (d : String) : Good (.regex tpl d)
  | date : Good .date
  | bigint : Good .bigint
  | typed (c : String) : Good (.typed c)
  | strfmt (fs : List String) : Good (.strfmt fs)
  | numfmt (fs : List String) : Good (.numfmt fs)
  | consts (vs : List JsVal) : (∀ v ∈ vs, isConst v = true) → Good (.consts vs)
  | tuple (ps : List RT) (rest : Option RT) : (∀ t ∈ ps, Good t) → (∀ r, rest = some r → Good r) → Good (.tuple ps rest)
  | allOf (ts : List RT) : (∀ t ∈ ts, Good t) → Good (.allOf ts)
  | anyOf (ts : List RT) : (∀ t ∈ ts, Good t) → Good (.anyOf ts)
  | array (t : RT) : Good t → Good (.array t)
  | map (k v : RT) : Good k → Good v → Good (.map k v)
  | set (t : RT) : Good t → Good (.set t)
  | disc (schemas : List RT) (key : String) (mapping sm : List (String × RT)) :
      (mapping.map (·.1)).Nodup → (∀ p ∈ mapping, Good p.2) → (∀ t ∈ schemas, Good t) →
      Good (.disc schemas key mapping sm)
  | optional (t : RT) : Good t → Good (.optional t)
  | object (props : List (String × RT)) (ix : List (RT × RT)) :
      (props.map (·.1)).Nodup → (∀ p ∈ props, Good p.2) → (∀ p ∈ ix, Good p.1) → (∀ p ∈ ix, Good p.2) →
      Good (.object props ix)
  | described (d : String) (t : RT) : Good t → Good (.described d t)

/-- what the JavaScript regular expression engine guarantees and the model cannot prove about itself: the source text
of the expression decides what it matches -/
def SourceDeterminesMatch : Prop :=
  ∀ t1 t2 : Tpl, regexSource t1 = regexSource t2 → ∀ s, Tpl.test t1 s = Tpl.test t2 s


/-! ## congruence of `validate` (semantic half) -/

theorem agree_nofuel_l (r : Res Bool) : Agree .nofuel r := by intro b1 b2 h; cases h
theorem agree_nofuel_r (r : Res Bool) : Agree r .nofuel := by intro b1 b2 _ h; cases h
theorem agree_throw_l (c : String) (r : Res Bool) : Agree (.throw c) r := by intro b1 b2 h; cases h
theorem agree_throw_r (c : String) (r : Res Bool) : Agree r (.throw c) := by intro b1 b2 _ h; cases h

theorem agree_seq : ∀ {a1 a2 k1 k2 : Res Bool}, Agree a1 a2 → Agree k1 k2 →
    Agree (match a1 with | .ok true => k1 | r => r) (match a2 with | .ok true => k2 | r => r) := by
  intro a1 a2 k1 k2 ha hk
  cases a1 with
  | nofuel => exact agree_nofuel_l _
  | throw c => exact agree_throw_l c _
  | ok b1 =>
    cases a2 with
    | nofuel => exact agree_nofuel_r _
    | throw c => exact agree_throw_r c _
    | ok b2 =>
      have hb : b1 = b2 := ha b1 b2 rfl rfl
      subst hb
      cases b1
      · exact agree_ok rfl
      · exact hk

theorem validate_zero (env : Env) (strict : Bool) (rt : RT) (x : JsVal) : validate env strict 0 rt x = .nofuel := by
  rw [validate]

theorem sem_intro {env1 env2 : Env} {rt1 rt2 : RT}
    (h : ∀ strict m1 m2 x, Agree (validate env1 strict (m1+1) rt1 x) (validate env2 strict (m2+1) rt2 x)) :
    SemEq env1 env2 rt1 rt2 := by
  intro strict m1 m2 x
  cases m1 with
  | zero => rw [validate_zero]; exact agree_nofuel_l _
  | succ m1 =>
    cases m2 with
    | zero => rw [validate_zero env2]; exact agree_nofuel_r _
    | succ m2 => exact h strict m1 m2 x

theorem sem_described_l {env1 env2 : Env} {d : String} {t1 rt2 : RT} (h : SemEq env1 env2 t1 rt2) :
    SemEq env1 env2 (.described d t1) rt2 := by
  intro strict m1 m2 x
  cases m1 with
  | zero => rw [validate_zero]; exact agree_nofuel_l _
  | succ m1 => rw [validate]; exact h strict m1 m2 x

theorem sem_described_r {env1 env2 : Env} {d : String} {rt1 t2 : RT} (h : SemEq env1 env2 rt1 t2) :
    SemEq env1 env2 rt1 (.described d t2) := by
  intro strict m1 m2 x
  cases m2 with
  | zero => rw [validate_zero env2]; exact agree_nofuel_r _
  | succ m2 => rw [validate.eq_def env2]; exact h strict m1 m2 x

theorem sem_array {env1 env2 : Env} {t1 t2 : RT} (h : SemEq env1 env2 t1 t2) :
    SemEq env1 env2 (.array t1) (.array t2) := by
  apply sem_intro
  intro strict m1 m2 x
  simp only [validate]
  cases x with
  | arr items => exact allShort_agree (fun y hy => ⟨y, hy, h strict m1 m2 y⟩) (fun y hy => ⟨y, hy, h strict m1 m2 y⟩)
  | _ => exact agree_ok rfl


/-- a conjunction over element-wise agreeing lists -/
theorem allShort_agree_p2 {α β : Type} {f : α → Res Bool} {g : β → Res Bool} {l1 : List α} {l2 : List β}
    (h : Pairwise2 (fun x y => Agree (f x) (g y)) l1 l2) : Agree (allShort f l1) (allShort g l2) :=
  allShort_agree (pairwise2_left h) (pairwise2_right h)

theorem anyShort_agree_p2 {α β : Type} {f : α → Res Bool} {g : β → Res Bool} {l1 : List α} {l2 : List β}
    (h : Pairwise2 (fun x y => Agree (f x) (g y)) l1 l2) : Agree (anyShort f l1) (anyShort g l2) :=
  anyShort_agree (pairwise2_left h) (pairwise2_right h)

/-! ### one lemma per constructor -/
section sem
variable {env1 env2 : Env}

theorem sem_set {t1 t2 : RT} (h : SemEq env1 env2 t1 t2) : SemEq env1 env2 (.set t1) (.set t2) := by
  apply sem_intro
  intro strict m1 m2 x
  simp only [validate]
  cases x with
  | set items => exact allShort_agree (fun y hy => ⟨y, hy, h strict m1 m2 y⟩) (fun y hy => ⟨y, hy, h strict m1 m2 y⟩)
  | _ => exact agree_ok rfl

theorem sem_optional {t1 t2 : RT} (h : SemEq env1 env2 t1 t2) : SemEq env1 env2 (.optional t1) (.optional t2) := by
  apply sem_intro
  intro strict m1 m2 x
  simp only [validate]
  split
  · exact agree_ok rfl
  · exact h strict m1 m2 x

theorem sem_map {k1 k2 v1 v2 : RT} (hk : SemEq env1 env2 k1 k2) (hv : SemEq env1 env2 v1 v2) :
    SemEq env1 env2 (.map k1 v1) (.map k2 v2) := by
  apply sem_intro
  intro strict m1 m2 x
  simp only [validate]
  cases x with
  | map es =>
    apply allShort_agree
    · intro e he; exact ⟨e, he, agree_seq (hk strict m1 m2 e.1) (hv strict m1 m2 e.2)⟩
    · intro e he; exact ⟨e, he, agree_seq (hk strict m1 m2 e.1) (hv strict m1 m2 e.2)⟩
  | _ => exact agree_ok rfl

theorem sem_allOf {ts1 ts2 : List RT} (h : Pairwise2 (SemEq env1 env2) ts1 ts2) :
    SemEq env1 env2 (.allOf ts1) (.allOf ts2) := by
  apply sem_intro
  intro strict m1 m2 x
  simp only [validate]
  apply allShort_agree_p2
  refine pairwise2_mono ?_ h
  intro a b hab
  split
  · exact hab strict m1 m2 x
  · exact agree_ok rfl

theorem sem_anyOf {ts1 ts2 : List RT} (h : Pairwise2 (SemEq env1 env2) ts1 ts2) :
    SemEq env1 env2 (.anyOf ts1) (.anyOf ts2) := by
  apply sem_intro
  intro strict m1 m2 x
  simp only [validate]
  apply anyShort_agree_p2
  exact pairwise2_mono (fun a b hab => hab strict m1 m2 x) h

/-- the rest elements of two tuples: both absent, or both present and equivalent -/
def RestRel (env1 env2 : Env) : Option RT → Option RT → Prop
  | none, none => True
  | some a, some b => SemEq env1 env2 a b
  | _, _ => False

theorem sem_tuple {ps1 ps2 : List RT} {r1 r2 : Option RT} (hp : Pairwise2 (SemEq env1 env2) ps1 ps2)
    (hr : RestRel env1 env2 r1 r2) : SemEq env1 env2 (.tuple ps1 r1) (.tuple ps2 r2) := by
  apply sem_intro
  intro strict m1 m2 x
  simp only [validate]
  have hl := pairwise2_length hp
  cases x with
  | arr items =>
    simp only
    rw [← hl]
    apply agree_seq
    · apply allShort_agree_p2
      refine pairwise2_mono ?_ (pairwise2_zip ps1 ps2 (List.range ps1.length) hp)
      intro a b hab
      rw [hab.2]
      exact hab.1 strict m1 m2 _
    · cases r1 with
      | none => cases r2 with
        | none => exact agree_ok rfl
        | some b => exact absurd hr (by simp [RestRel])
      | some a => cases r2 with
        | none => exact absurd hr (by simp [RestRel])
        | some b =>
          simp only [RestRel] at hr
          exact allShort_agree (fun y hy => ⟨y, hy, hr strict m1 m2 y⟩) (fun y hy => ⟨y, hy, hr strict m1 m2 y⟩)
  | _ => exact agree_ok rfl

end sem


/-! ### leaves -/
section leaves
variable {env1 env2 : Env}

theorem sem_const {v1 v2 : JsVal} {t : List Tok} (h1 : constToks v1 = some t) (h2 : constToks v2 = some t) :
    SemEq env1 env2 (.const v1) (.const v2) := by
  apply sem_intro
  intro strict m1 m2 x
  simp only [validate]
  apply agree_ok
  cases v1 <;> cases v2 <;> simp [constToks] at h1 h2 <;> first
    | rfl
    | (subst h1; simp_all [JsVal.isNullish])
    | (obtain ⟨ha, hb⟩ := h1; subst ha; simp_all [JsVal.isNullish])


theorem constToks_pf {v1 v2 : JsVal} {c1 c2 r1 r2 : List Tok} (h1 : constToks v1 = some c1) (h2 : constToks v2 = some c2)
    (he : c1 ++ r1 = c2 ++ r2) : c1 = c2 ∧ r1 = r2 := by
  cases v1 <;> cases v2 <;> simp [constToks] at h1 h2 <;> (subst h1; subst h2; simp_all)

theorem constToks_inj {v1 v2 : JsVal} {c : List Tok} (hc1 : isConst v1 = true) (hc2 : isConst v2 = true)
    (h1 : constToks v1 = some c) (h2 : constToks v2 = some c) : v1 = v2 := by
  cases v1 <;> cases v2 <;> simp [constToks, isConst] at h1 h2 hc1 hc2 <;> (subst h1; simp_all)

theorem mapMO_length {α β : Type} {f : α → Option β} : ∀ {l : List α} {t : List β}, mapMO f l = some t → t.length = l.length := by
  intro l
  induction l with
  | nil => intro t h; simp [mapMO] at h; subst h; rfl
  | cons x xs ih =>
    intro t h
    simp only [mapMO] at h
    cases hx : f x with
    | none => simp [hx] at h
    | some y =>
      cases hxs : mapMO f xs with
      | none => simp [hx, hxs] at h
      | some ys => simp [hx, hxs] at h; subst h; simp [ih hxs]

/-- the encodings of two constant lists of the same length can be told apart from what follows them, and equal
encodings mean equal lists -/
theorem consts_pf : ∀ (l1 l2 : List JsVal) (t1 t2 : List (List Tok)) (r1 r2 : List Tok), l1.length = l2.length →
    (∀ v ∈ l1, isConst v = true) → (∀ v ∈ l2, isConst v = true) →
    mapMO constToks l1 = some t1 → mapMO constToks l2 = some t2 → t1.flatten ++ r1 = t2.flatten ++ r2 →
    l1 = l2 ∧ r1 = r2 := by
  intro l1
  induction l1 with
  | nil =>
    intro l2 t1 t2 r1 r2 hl _ _ h1 h2 he
    cases l2 with
    | nil => simp [mapMO] at h1 h2; subst h1; subst h2; simpa using he
    | cons y ys => simp at hl
  | cons x xs ih =>
    intro l2 t1 t2 r1 r2 hl hc1 hc2 h1 h2 he
    cases l2 with
    | nil => simp at hl
    | cons y ys =>
      simp only [mapMO] at h1 h2
      cases hx : constToks x with
      | none => simp [hx] at h1
      | some cx =>
        cases hy : constToks y with
        | none => simp [hy] at h2
        | some cy =>
          cases hxs : mapMO constToks xs with
          | none => simp [hx, hxs] at h1
          | some txs =>
            cases hys : mapMO constToks ys with
            | none => simp [hy, hys] at h2
            | some tys =>
              simp [hx, hxs] at h1; simp [hy, hys] at h2
              subst h1; subst h2
              simp only [List.flatten_cons, List.append_assoc] at he
              obtain ⟨hc, hrest⟩ := constToks_pf hx hy he
              subst hc
              have hxy : x = y := constToks_inj (hc1 x (by simp)) (hc2 y (by simp)) hx hy
              subst hxy
              obtain ⟨hl', hr⟩ := ih ys txs tys r1 r2 (by simpa using hl)
                (fun v hv => hc1 v (List.mem_cons_of_mem _ hv)) (fun v hv => hc2 v (List.mem_cons_of_mem _ hv)) hxs hys hrest
              exact ⟨by rw [hl'], hr⟩

theorem sortedConsts_perm (vs : List JsVal) : (sortedConsts vs).Perm vs := C10.sortBy_perm _ vs

theorem sem_consts {vs1 vs2 : List JsVal} (h : (sortedConsts vs1) = (sortedConsts vs2)) :
    SemEq env1 env2 (.consts vs1) (.consts vs2) := by
  have hp : vs1.Perm vs2 := ((sortedConsts_perm vs1).symm.trans (h ▸ List.Perm.refl _)).trans (sortedConsts_perm vs2)
  apply sem_intro
  intro strict m1 m2 x
  simp only [validate]
  apply agree_ok
  rw [hp.any_eq, hp.any_eq]

theorem fmtAll_true {f : String → Option Bool} : ∀ {l : List String}, fmtAll f l = true ↔ ∀ n ∈ l, f n = some true := by
  intro l
  induction l with
  | nil => simp [fmtAll]
  | cons n ns ih =>
    simp only [fmtAll]
    cases hn : f n with
    | none => simp [hn]
    | some b => cases b <;> simp [hn, ih]

theorem fmtAll_perm {f : String → Option Bool} {l1 l2 : List String} (hp : l1.Perm l2) : fmtAll f l1 = fmtAll f l2 := by
  cases h1 : fmtAll f l1 <;> cases h2 : fmtAll f l2 <;> try rfl
  · exact absurd (fmtAll_true.2 (fun n hn => fmtAll_true.1 h2 n (hp.mem_iff.1 hn))) (by simp [h1])
  · exact absurd (fmtAll_true.2 (fun n hn => fmtAll_true.1 h1 n (hp.mem_iff.2 hn))) (by simp [h2])

theorem sortStrings_perm (l : List String) : (JsVal.sortStrings l).Perm l := C10.sortBy_perm _ l

theorem sem_strfmt {fs1 fs2 : List String} (h : JsVal.sortStrings fs1 = JsVal.sortStrings fs2) :
    SemEq env1 env2 (.strfmt fs1) (.strfmt fs2) := by
  have hp : fs1.Perm fs2 := ((sortStrings_perm fs1).symm.trans (h ▸ List.Perm.refl _)).trans (sortStrings_perm fs2)
  apply sem_intro
  intro strict m1 m2 x
  simp only [validate]
  apply agree_ok
  cases x <;> first | rfl | exact fmtAll_perm hp

theorem sem_numfmt {fs1 fs2 : List String} (h : JsVal.sortStrings fs1 = JsVal.sortStrings fs2) :
    SemEq env1 env2 (.numfmt fs1) (.numfmt fs2) := by
  have hp : fs1.Perm fs2 := ((sortStrings_perm fs1).symm.trans (h ▸ List.Perm.refl _)).trans (sortStrings_perm fs2)
  apply sem_intro
  intro strict m1 m2 x
  simp only [validate]
  apply agree_ok
  cases x <;> first | rfl | exact fmtAll_perm hp

theorem sem_regex (hre : SourceDeterminesMatch) {t1 t2 : Tpl} {d1 d2 : String} (h : regexSource t1 = regexSource t2) :
    SemEq env1 env2 (.regex t1 d1) (.regex t2 d2) := by
  apply sem_intro
  intro strict m1 m2 x
  simp only [validate]
  apply agree_ok
  cases x <;> first | rfl | exact hre t1 t2 h _

/-- a leaf whose validation does not depend on the environment agrees with itself -/
theorem sem_leaf {rt : RT} (h : ∀ (env env' : Env) strict m m' x, validate env strict (m+1) rt x = validate env' strict (m'+1) rt x)
    (hok : ∀ (env : Env) strict m x, ∃ b, validate env strict (m+1) rt x = .ok b) : SemEq env1 env2 rt rt := by
  apply sem_intro
  intro strict m1 m2 x
  obtain ⟨b, hb⟩ := hok env1 strict m1 x
  rw [← h env1 env2 strict m1 m2 x, hb]
  exact agree_ok rfl

end leaves

/-! ### records: objects and discriminated unions -/
section records
variable {env1 env2 : Env}

theorem sortedProps_perm (l : List (String × RT)) : (sortedProps l).Perm l := C10.sortBy_perm _ l

/-- in a list with distinct keys, "the first entry with key k" is the same for every permutation -/
theorem find_key_perm {l1 l2 : List (String × RT)} (hp : l1.Perm l2) (hd : (l1.map (·.1)).Nodup) (k : String) :
    l1.find? (fun p => p.1 == k) = l2.find? (fun p => p.1 == k) := by
  induction hp with
  | nil => rfl
  | cons x _ ih =>
    simp only [List.find?_cons]
    split
    · rfl
    · exact ih (List.nodup_cons.1 hd).2
  | swap x y l =>
    simp only [List.find?_cons]
    have hxy : y.1 ≠ x.1 := by
      intro e
      simp only [List.map_cons, List.nodup_cons, List.mem_cons, List.mem_map, not_or] at hd
      exact hd.1.1 e
    by_cases h1 : x.1 == k <;> by_cases h2 : y.1 == k <;> simp [h1, h2]
    have e1 : x.1 = k := by simpa using h1
    have e2 : y.1 = k := by simpa using h2
    exact absurd (e2.trans e1.symm) hxy
  | trans h12 _ ih1 ih2 =>
    rw [ih1 hd, ih2 ((h12.map (·.1)).nodup_iff.1 hd)]

/-- entries found by key in two element-wise related lists are related -/
theorem find_key_p2 {R : RT → RT → Prop} (k : String) : ∀ {l1 l2 : List (String × RT)},
    Pairwise2 (fun p q => p.1 = q.1 ∧ R p.2 q.2) l1 l2 →
    (match l1.find? (fun p => p.1 == k), l2.find? (fun p => p.1 == k) with
      | none, none => True
      | some p, some q => R p.2 q.2
      | _, _ => False) := by
  intro l1
  induction l1 with
  | nil => intro l2 h; cases l2 with
    | nil => simp
    | cons y ys => exact absurd h (by simp [Pairwise2])
  | cons x xs ih => intro l2 h; cases l2 with
    | nil => exact absurd h (by simp [Pairwise2])
    | cons y ys =>
      simp only [Pairwise2] at h
      simp only [List.find?_cons]
      rw [← h.1.1]
      by_cases hk : x.1 == k
      · simp only [hk]; exact h.1.2
      · simp only [hk]; exact ih h.2

theorem sem_disc {ss1 ss2 : List RT} {key : String} {m1 m2 sm1 sm2 : List (String × RT)}
    (hn1 : (m1.map (·.1)).Nodup) (hn2 : (m2.map (·.1)).Nodup)
    (hp : Pairwise2 (fun p q => p.1 = q.1 ∧ SemEq env1 env2 p.2 q.2) (sortedProps m1) (sortedProps m2)) :
    SemEq env1 env2 (.disc ss1 key m1 sm1) (.disc ss2 key m2 sm2) := by
  apply sem_intro
  intro strict n1 n2 x
  simp only [validate]
  split
  · exact agree_ok rfl
  · split
    · exact agree_ok rfl
    · -- the lookups agree
      have key_rel : ∀ k : String,
          (match m1.find? (fun p => p.1 == k), m2.find? (fun p => p.1 == k) with
            | none, none => True
            | some p, some q => SemEq env1 env2 p.2 q.2
            | _, _ => False) := by
        intro k
        rw [← find_key_perm (sortedProps_perm m1) ((sortedProps_perm m1).map (·.1) |>.nodup_iff.2 hn1) k,
            ← find_key_perm (sortedProps_perm m2) ((sortedProps_perm m2).map (·.1) |>.nodup_iff.2 hn2) k]
        exact find_key_p2 k hp
      cases hd : x.getProp key with
      | str k =>
        simp only [lookupMapping]
        have := key_rel k
        cases h1 : m1.find? (fun p => p.1 == k) <;> cases h2 : m2.find? (fun p => p.1 == k) <;> simp only [h1, h2] at this
        · exact agree_ok rfl
        · exact this strict n1 n2 x
      | _ => simp only [lookupMapping]; exact agree_ok rfl

theorem sem_object {props1 props2 : List (String × RT)} {ix1 ix2 : List (RT × RT)}
    (hp : Pairwise2 (fun p q => p.1 = q.1 ∧ SemEq env1 env2 p.2 q.2) (sortedProps props1) (sortedProps props2))
    (hi : Pairwise2 (fun (p q : RT × RT) => SemEq env1 env2 p.1 q.1 ∧ SemEq env1 env2 p.2 q.2) ix1 ix2) :
    SemEq env1 env2 (.object props1 ix1) (.object props2 ix2) := by
  have h12 : ∀ p ∈ props1, ∃ q ∈ props2, p.1 = q.1 ∧ SemEq env1 env2 p.2 q.2 := by
    intro p hp1
    obtain ⟨q, hq, hr⟩ := pairwise2_left hp p ((sortedProps_perm props1).mem_iff.2 hp1)
    exact ⟨q, (sortedProps_perm props2).mem_iff.1 hq, hr⟩
  have h21 : ∀ q ∈ props2, ∃ p ∈ props1, p.1 = q.1 ∧ SemEq env1 env2 p.2 q.2 := by
    intro q hq2
    obtain ⟨p, hp1, hr⟩ := pairwise2_right hp q ((sortedProps_perm props2).mem_iff.2 hq2)
    exact ⟨p, (sortedProps_perm props1).mem_iff.1 hp1, hr⟩
  have hkeys : ∀ k : String, (props1.map (·.1)).contains k = (props2.map (·.1)).contains k := by
    intro k
    rw [Bool.eq_iff_iff]
    simp only [List.contains_iff_mem, List.mem_map]
    constructor
    · rintro ⟨p, hp1, rfl⟩
      obtain ⟨q, hq, hr⟩ := h12 p hp1
      exact ⟨q, hq, hr.1.symm⟩
    · rintro ⟨q, hq, rfl⟩
      obtain ⟨p, hp1, hr⟩ := h21 q hq
      exact ⟨p, hp1, hr.1⟩
  apply sem_intro
  intro strict n1 n2 x
  simp only [validate]
  split
  · exact agree_ok rfl
  · apply agree_seq
    · apply allShort_agree
      · intro p hp1
        obtain ⟨q, hq, hr⟩ := h12 p hp1
        exact ⟨q, hq, by rw [hr.1]; exact hr.2 strict n1 n2 _⟩
      · intro q hq
        obtain ⟨p, hp1, hr⟩ := h21 q hq
        exact ⟨p, hp1, by rw [hr.1]; exact hr.2 strict n1 n2 _⟩
    · have hfilter : x.ownKeys.filter (fun k => !(props1.map (·.1)).contains k) =
          x.ownKeys.filter (fun k => !(props2.map (·.1)).contains k) := by
        apply List.filter_congr
        intro k _
        rw [hkeys k]
      have hlen := pairwise2_length hi
      simp only [hfilter, hlen]
      split
      · apply allShort_agree
        · intro k hk
          refine ⟨k, hk, ?_⟩
          simp only [indexedAccepts]
          apply anyShort_agree_p2
          exact pairwise2_mono (fun a b hab => agree_seq (hab.1 strict n1 n2 _) (hab.2 strict n1 n2 _)) hi
        · intro k hk
          refine ⟨k, hk, ?_⟩
          simp only [indexedAccepts]
          apply anyShort_agree_p2
          exact pairwise2_mono (fun a b hab => agree_seq (hab.1 strict n1 n2 _) (hab.2 strict n1 n2 _)) hi
      · split <;> exact agree_ok rfl

end records

/-! ## the syntactic half: splitting a stream into the children's streams -/

theorem PF_pre' {l1 l2 : List Tok} {e1 e2 : Nat → Option (List Tok)} {P : Prop} (hl : l1.length = l2.length)
    (h : l1 = l2 → PF e1 e2 P) : PF (pre l1 e1) (pre l2 e2) (l1 = l2 ∧ P) := by
  intro p1 p2 ts1 ts2 r1 r2 h1 h2 he
  unfold pre at h1 h2
  cases ha : e1 (p1 + bytesLen l1) with
  | none => rw [ha] at h1; cases h1
  | some a =>
    cases hb : e2 (p2 + bytesLen l2) with
    | none => rw [hb] at h2; cases h2
    | some b =>
      rw [ha] at h1; rw [hb] at h2
      injection h1 with h1; injection h2 with h2
      subst h1; subst h2
      rw [List.append_assoc, List.append_assoc] at he
      obtain ⟨hl', hrest⟩ := List.append_inj he hl
      obtain ⟨x, y, z⟩ := h hl' _ _ _ _ _ _ ha hb hrest
      subst hl'; subst x
      exact ⟨rfl, y, rfl, z⟩

theorem PF_andThen' {f1 f2 g1 g2 : Nat → Option (List Tok)} {P Q : Prop} (hf : PF f1 f2 P) (hg : P → PF g1 g2 Q) :
    PF (andThen f1 g1) (andThen f2 g2) (P ∧ Q) := by
  intro p1 p2 ts1 ts2 r1 r2 h1 h2 he
  unfold andThen at h1 h2
  cases ha : f1 p1 with
  | none => rw [ha] at h1; cases h1
  | some a =>
    cases hb : f2 p2 with
    | none => rw [hb] at h2; cases h2
    | some b =>
      simp only [ha] at h1; simp only [hb] at h2
      cases hc : g1 (p1 + bytesLen a) with
      | none => simp only [hc] at h1; cases h1
      | some c =>
        cases hd : g2 (p2 + bytesLen b) with
        | none => simp only [hd] at h2; cases h2
        | some d =>
          simp only [hc] at h1; simp only [hd] at h2
          injection h1 with h1; injection h2 with h2
          subst h1; subst h2
          rw [List.append_assoc, List.append_assoc] at he
          obtain ⟨x, y, z⟩ := hf _ _ _ _ _ _ ha hb he
          subst x
          obtain ⟨x', y', z'⟩ := hg z _ _ _ _ _ _ hc hd y
          subst x'
          exact ⟨rfl, y', z, z'⟩

/-- two encoders whose streams start with different tokens -/
theorem PF_head_ne {e1 e2 : Nat → Option (List Tok)} {a b : Tok} {P : Prop}
    (h1 : ∀ p ts, e1 p = some ts → ∃ tl, ts = a :: tl) (h2 : ∀ p ts, e2 p = some ts → ∃ tl, ts = b :: tl) (hne : a ≠ b) :
    PF e1 e2 P := by
  intro p1 p2 ts1 ts2 r1 r2 ha hb he
  obtain ⟨t1, e⟩ := h1 _ _ ha
  obtain ⟨t2, e'⟩ := h2 _ _ hb
  subst e; subst e'
  simp only [List.cons_append] at he
  injection he with hh _
  exact absurd hh hne

theorem pre_head {t : Tok} {l : List Tok} {f : Nat → Option (List Tok)} {p : Nat} {ts : List Tok}
    (h : pre (t :: l) f p = some ts) : ∃ tl, ts = t :: tl := by
  unfold pre at h
  cases hf : f (p + bytesLen (t :: l)) with
  | none => rw [hf] at h; cases h
  | some x => rw [hf] at h; injection h with h; exact ⟨l ++ x, by rw [← h]; rfl⟩

def tagOf : RT → String
  | .typeof _ => "typeof" | .any => "any" | .nullish _ => "nullish" | .never => "never" | .const _ => "const"
  | .regex _ _ => "regex" | .date => "date" | .bigint => "bigint" | .typed _ => "typedArray"
  | .strfmt _ => "stringWithFormat" | .numfmt _ => "numberWithFormat" | .consts _ => "anyOfConsts"
  | .tuple _ _ => "tuple" | .allOf _ => "allOf" | .anyOf _ => "anyOf" | .array _ => "array" | .map _ _ => "map"
  | .set _ => "set" | .disc _ _ _ _ => "anyOfDiscriminated" | .optional _ => "optionalField" | .object _ _ => "object"
  | .ref _ => "" | .described _ _ => ""

def structural : RT → Bool
  | .ref _ | .described _ _ => false
  | _ => true

/-- every node that writes anything starts with its own tag -/
theorem h256_head {env : Env} {n : Nat} {rt : RT} {act : List (String × Nat)} {p : Nat} {ts : List Tok}
    (hs : structural rt = true) (h : h256 env (n+1) rt act p = some ts) : ∃ tl, ts = .tag (tagOf rt) :: tl := by
  cases rt <;> simp only [structural] at hs <;> simp only [h256] at h
  all_goals first
    | (injection h with h; exact ⟨_, h.symm⟩)
    | exact pre_head h
    | (cases hc : constToks _ with
        | none => rw [hc] at h; cases h
        | some c => rw [hc] at h; injection h with h; exact ⟨_, h.symm⟩)
    | (cases hc : mapMO constToks _ with
        | none => rw [hc] at h; cases h
        | some c => rw [hc] at h; injection h with h; exact ⟨_, h.symm⟩)
    | cases hs

theorem pf_of_tag_ne {env1 env2 : Env} {n1 n2 : Nat} {rt1 rt2 : RT} {act1 act2 : List (String × Nat)} {P : Prop}
    (hs1 : structural rt1 = true) (hs2 : structural rt2 = true) (hne : tagOf rt1 ≠ tagOf rt2) :
    PF (h256 env1 (n1+1) rt1 act1) (h256 env2 (n2+1) rt2 act2) P :=
  PF_head_ne (fun _ _ h => h256_head hs1 h) (fun _ _ h => h256_head hs2 h) (fun e => hne (by injection e))


/-! ## one lemma per constructor: equal streams, equal behaviour -/

/-- what the induction provides for the children of a node -/
def Claim (env1 env2 : Env) (n1 n2 : Nat) : Prop :=
  ∀ rt1 rt2 act1 act2, Good rt1 → Good rt2 →
    PF (h256 env1 n1 rt1 act1) (h256 env2 n2 rt2 act2) (SemEq env1 env2 rt1 rt2)

section diag
variable {env1 env2 : Env} {n1 n2 : Nat} {act1 act2 : List (String × Nat)}

theorem pf_described_l {d : String} {t rt2 : RT} (ih : Claim env1 env2 n1 (n2+1)) (hg1 : Good t) (hg2 : Good rt2) :
    PF (h256 env1 (n1+1) (.described d t) act1) (h256 env2 (n2+1) rt2 act2) (SemEq env1 env2 (.described d t) rt2) := by
  have e : h256 env1 (n1+1) (.described d t) act1 = h256 env1 n1 t act1 := by funext p; simp only [h256]
  rw [e]
  exact PF_mono (ih t rt2 act1 act2 hg1 hg2) sem_described_l

theorem pf_described_r {d : String} {rt1 t : RT} (ih : Claim env1 env2 (n1+1) n2) (hg1 : Good rt1) (hg2 : Good t) :
    PF (h256 env1 (n1+1) rt1 act1) (h256 env2 (n2+1) (.described d t) act2) (SemEq env1 env2 rt1 (.described d t)) := by
  have e : h256 env2 (n2+1) (.described d t) act2 = h256 env2 n2 t act2 := by funext p; simp only [h256]
  rw [e]
  exact PF_mono (ih rt1 t act1 act2 hg1 hg2) sem_described_r

theorem pf_array {t1 t2 : RT} (ih : Claim env1 env2 n1 n2) (hg1 : Good t1) (hg2 : Good t2) :
    PF (h256 env1 (n1+1) (.array t1) act1) (h256 env2 (n2+1) (.array t2) act2) (SemEq env1 env2 (.array t1) (.array t2)) := by
  have e1 : h256 env1 (n1+1) (.array t1) act1 = pre [.tag "array"] (h256 env1 n1 t1 act1) := by funext p; simp only [h256]
  have e2 : h256 env2 (n2+1) (.array t2) act2 = pre [.tag "array"] (h256 env2 n2 t2 act2) := by funext p; simp only [h256]
  rw [e1, e2]
  exact PF_mono (PF_pre rfl (ih t1 t2 act1 act2 hg1 hg2)) (fun h => sem_array h.2)

theorem pf_set {t1 t2 : RT} (ih : Claim env1 env2 n1 n2) (hg1 : Good t1) (hg2 : Good t2) :
    PF (h256 env1 (n1+1) (.set t1) act1) (h256 env2 (n2+1) (.set t2) act2) (SemEq env1 env2 (.set t1) (.set t2)) := by
  have e1 : h256 env1 (n1+1) (.set t1) act1 = pre [.tag "set"] (h256 env1 n1 t1 act1) := by funext p; simp only [h256]
  have e2 : h256 env2 (n2+1) (.set t2) act2 = pre [.tag "set"] (h256 env2 n2 t2 act2) := by funext p; simp only [h256]
  rw [e1, e2]
  exact PF_mono (PF_pre rfl (ih t1 t2 act1 act2 hg1 hg2)) (fun h => sem_set h.2)

theorem pf_optional {t1 t2 : RT} (ih : Claim env1 env2 n1 n2) (hg1 : Good t1) (hg2 : Good t2) :
    PF (h256 env1 (n1+1) (.optional t1) act1) (h256 env2 (n2+1) (.optional t2) act2)
      (SemEq env1 env2 (.optional t1) (.optional t2)) := by
  have e1 : h256 env1 (n1+1) (.optional t1) act1 = pre [.tag "optionalField"] (h256 env1 n1 t1 act1) := by
    funext p; simp only [h256]
  have e2 : h256 env2 (n2+1) (.optional t2) act2 = pre [.tag "optionalField"] (h256 env2 n2 t2 act2) := by
    funext p; simp only [h256]
  rw [e1, e2]
  exact PF_mono (PF_pre rfl (ih t1 t2 act1 act2 hg1 hg2)) (fun h => sem_optional h.2)

theorem pf_map {k1 k2 v1 v2 : RT} (ih : Claim env1 env2 n1 n2) (hk1 : Good k1) (hv1 : Good v1) (hk2 : Good k2) (hv2 : Good v2) :
    PF (h256 env1 (n1+1) (.map k1 v1) act1) (h256 env2 (n2+1) (.map k2 v2) act2)
      (SemEq env1 env2 (.map k1 v1) (.map k2 v2)) := by
  have e1 : h256 env1 (n1+1) (.map k1 v1) act1 = pre [.tag "map"] (andThen (h256 env1 n1 k1 act1) (h256 env1 n1 v1 act1)) := by
    funext p; simp only [h256]
  have e2 : h256 env2 (n2+1) (.map k2 v2) act2 = pre [.tag "map"] (andThen (h256 env2 n2 k2 act2) (h256 env2 n2 v2 act2)) := by
    funext p; simp only [h256]
  rw [e1, e2]
  exact PF_mono (PF_pre rfl (PF_andThen (ih k1 k2 act1 act2 hk1 hk2) (ih v1 v2 act1 act2 hv1 hv2)))
    (fun h => sem_map h.2.1 h.2.2)


theorem pf_leaf {rt1 rt2 : RT} {l1 l2 : List Tok} (e1 : h256 env1 (n1+1) rt1 act1 = fun _ => some l1)
    (e2 : h256 env2 (n2+1) rt2 act2 = fun _ => some l2) (hl : l1.length = l2.length)
    (hs : l1 = l2 → SemEq env1 env2 rt1 rt2) :
    PF (h256 env1 (n1+1) rt1 act1) (h256 env2 (n2+1) rt2 act2) (SemEq env1 env2 rt1 rt2) := by
  rw [e1, e2]
  exact PF_mono (PF_const hl) hs

theorem seq_good {α : Type} {P : α → Prop} {l : List α} (h : ∀ x ∈ l, P x) : ∀ x ∈ l, P x := h

theorem pf_children (ih : Claim env1 env2 n1 n2) {ts1 ts2 : List RT} (hl : ts1.length = ts2.length)
    (hg1 : ∀ t ∈ ts1, Good t) (hg2 : ∀ t ∈ ts2, Good t) :
    PF (seqT (fun t p => h256 env1 n1 t act1 p) ts1) (seqT (fun t p => h256 env2 n2 t act2 p) ts2)
      (Pairwise2 (SemEq env1 env2) ts1 ts2) :=
  PF_seqT ts1 ts2 hl (fun x hx y hy => ih x y act1 act2 (hg1 x hx) (hg2 y hy))

theorem two_tok_inj {a b c d : Tok} (h : [a, b] = [c, d]) : b = d := by
  injection h with _ h; injection h

theorem pf_allOf {ts1 ts2 : List RT} (ih : Claim env1 env2 n1 n2) (hg1 : ∀ t ∈ ts1, Good t) (hg2 : ∀ t ∈ ts2, Good t) :
    PF (h256 env1 (n1+1) (.allOf ts1) act1) (h256 env2 (n2+1) (.allOf ts2) act2)
      (SemEq env1 env2 (.allOf ts1) (.allOf ts2)) := by
  have e1 : h256 env1 (n1+1) (.allOf ts1) act1 =
      pre [.tag "allOf", natTok ts1.length] (seqT (fun t p => h256 env1 n1 t act1 p) ts1) := by funext p; simp only [h256]
  have e2 : h256 env2 (n2+1) (.allOf ts2) act2 =
      pre [.tag "allOf", natTok ts2.length] (seqT (fun t p => h256 env2 n2 t act2 p) ts2) := by funext p; simp only [h256]
  rw [e1, e2]
  refine PF_mono (PF_pre' rfl (fun hl => pf_children ih (natTok_inj (two_tok_inj hl)) hg1 hg2)) (fun h => sem_allOf h.2)

theorem pf_anyOf {ts1 ts2 : List RT} (ih : Claim env1 env2 n1 n2) (hg1 : ∀ t ∈ ts1, Good t) (hg2 : ∀ t ∈ ts2, Good t) :
    PF (h256 env1 (n1+1) (.anyOf ts1) act1) (h256 env2 (n2+1) (.anyOf ts2) act2)
      (SemEq env1 env2 (.anyOf ts1) (.anyOf ts2)) := by
  have e1 : h256 env1 (n1+1) (.anyOf ts1) act1 =
      pre [.tag "anyOf", natTok ts1.length] (seqT (fun t p => h256 env1 n1 t act1 p) ts1) := by funext p; simp only [h256]
  have e2 : h256 env2 (n2+1) (.anyOf ts2) act2 =
      pre [.tag "anyOf", natTok ts2.length] (seqT (fun t p => h256 env2 n2 t act2 p) ts2) := by funext p; simp only [h256]
  rw [e1, e2]
  refine PF_mono (PF_pre' rfl (fun hl => pf_children ih (natTok_inj (two_tok_inj hl)) hg1 hg2)) (fun h => sem_anyOf h.2)

/-- the rest marker of a tuple -/
def restEnc (env : Env) (n : Nat) (act : List (String × Nat)) : Option RT → Nat → Option (List Tok)
  | none => fun _ => some [.tag "noRest"]
  | some r => pre [.tag "rest"] (fun p => h256 env n r act p)

theorem pf_rest (ih : Claim env1 env2 n1 n2) {r1 r2 : Option RT} (hg1 : ∀ r, r1 = some r → Good r)
    (hg2 : ∀ r, r2 = some r → Good r) :
    PF (restEnc env1 n1 act1 r1) (restEnc env2 n2 act2 r2) (RestRel env1 env2 r1 r2) := by
  cases r1 with
  | none => cases r2 with
    | none => exact PF_mono (PF_const rfl) (fun _ => trivial)
    | some b =>
      exact PF_head_ne (a := .tag "noRest") (b := .tag "rest")
        (fun _ ts h => by simp only [restEnc] at h; injection h with h; exact ⟨[], h.symm⟩)
        (fun _ ts h => pre_head h) (by decide)
  | some a => cases r2 with
    | none =>
      exact PF_head_ne (a := .tag "rest") (b := .tag "noRest")
        (fun _ ts h => pre_head h)
        (fun _ ts h => by simp only [restEnc] at h; injection h with h; exact ⟨[], h.symm⟩) (by decide)
    | some b =>
      exact PF_mono (PF_pre rfl (ih a b act1 act2 (hg1 a rfl) (hg2 b rfl))) (fun h => h.2)

theorem pf_tuple {ps1 ps2 : List RT} {r1 r2 : Option RT} (ih : Claim env1 env2 n1 n2)
    (hp1 : ∀ t ∈ ps1, Good t) (hr1 : ∀ r, r1 = some r → Good r) (hp2 : ∀ t ∈ ps2, Good t) (hr2 : ∀ r, r2 = some r → Good r) :
    PF (h256 env1 (n1+1) (.tuple ps1 r1) act1) (h256 env2 (n2+1) (.tuple ps2 r2) act2)
      (SemEq env1 env2 (.tuple ps1 r1) (.tuple ps2 r2)) := by
  have e1 : h256 env1 (n1+1) (.tuple ps1 r1) act1 =
      pre [.tag "tuple", natTok ps1.length] (andThen (seqT (fun t p => h256 env1 n1 t act1 p) ps1) (restEnc env1 n1 act1 r1)) := by
    funext p; cases r1 <;> simp only [h256, restEnc]
  have e2 : h256 env2 (n2+1) (.tuple ps2 r2) act2 =
      pre [.tag "tuple", natTok ps2.length] (andThen (seqT (fun t p => h256 env2 n2 t act2 p) ps2) (restEnc env2 n2 act2 r2)) := by
    funext p; cases r2 <;> simp only [h256, restEnc]
  rw [e1, e2]
  refine PF_mono (PF_pre' rfl (fun hl =>
    PF_andThen (pf_children ih (natTok_inj (two_tok_inj hl)) hp1 hp2) (pf_rest ih hr1 hr2))) (fun h => sem_tuple h.2.1 h.2.2)


theorem sortedProps_length (l : List (String × RT)) : (sortedProps l).length = l.length := (sortedProps_perm l).length_eq

theorem sortedProps_good {l : List (String × RT)} (h : ∀ p ∈ l, Good p.2) : ∀ p ∈ sortedProps l, Good p.2 :=
  fun p hp => h p ((sortedProps_perm l).mem_iff.1 hp)

/-- one declared property: key, optionality flag, value -/
def propEnc (env : Env) (n : Nat) (act : List (String × Nat)) (p : String × RT) : Nat → Option (List Tok) :=
  pre [.str p.1, .bool (isOptionalField p.2)] (fun q => h256 env n p.2 act q)

/-- one index signature: key type, value type -/
def ixEnc (env : Env) (n : Nat) (act : List (String × Nat)) (p : RT × RT) : Nat → Option (List Tok) :=
  andThen (fun q => h256 env n p.1 act q) (fun q => h256 env n p.2 act q)

theorem pf_prop (ih : Claim env1 env2 n1 n2) {x y : String × RT} (hx : Good x.2) (hy : Good y.2) :
    PF (propEnc env1 n1 act1 x) (propEnc env2 n2 act2 y) (x.1 = y.1 ∧ SemEq env1 env2 x.2 y.2) := by
  unfold propEnc
  refine PF_mono (PF_pre rfl (ih x.2 y.2 act1 act2 hx hy)) ?_
  intro h
  refine ⟨?_, h.2⟩
  have := h.1
  injection this with h1 _
  injection h1

theorem pf_object {props1 props2 : List (String × RT)} {ix1 ix2 : List (RT × RT)} (ih : Claim env1 env2 n1 n2)
    (hp1 : ∀ p ∈ props1, Good p.2) (hk1 : ∀ p ∈ ix1, Good p.1) (hv1 : ∀ p ∈ ix1, Good p.2)
    (hp2 : ∀ p ∈ props2, Good p.2) (hk2 : ∀ p ∈ ix2, Good p.1) (hv2 : ∀ p ∈ ix2, Good p.2) :
    PF (h256 env1 (n1+1) (.object props1 ix1) act1) (h256 env2 (n2+1) (.object props2 ix2) act2)
      (SemEq env1 env2 (.object props1 ix1) (.object props2 ix2)) := by
  have e1 : h256 env1 (n1+1) (.object props1 ix1) act1 =
      pre [.tag "object", natTok props1.length]
        (andThen (seqT (propEnc env1 n1 act1) (sortedProps props1)) (pre [natTok ix1.length] (seqT (ixEnc env1 n1 act1) ix1))) := by
    funext p; simp only [h256]; rfl
  have e2 : h256 env2 (n2+1) (.object props2 ix2) act2 =
      pre [.tag "object", natTok props2.length]
        (andThen (seqT (propEnc env2 n2 act2) (sortedProps props2)) (pre [natTok ix2.length] (seqT (ixEnc env2 n2 act2) ix2))) := by
    funext p; simp only [h256]; rfl
  rw [e1, e2]
  refine PF_mono (PF_pre' rfl (fun hl => PF_andThen
    (PF_seqT (sortedProps props1) (sortedProps props2)
      (by rw [sortedProps_length, sortedProps_length]; exact natTok_inj (two_tok_inj hl))
      (fun x hx y hy => pf_prop ih (sortedProps_good hp1 x hx) (sortedProps_good hp2 y hy)))
    (PF_pre' rfl (fun hl2 => PF_seqT ix1 ix2 (natTok_inj (by injection hl2))
      (fun x hx y hy => PF_andThen (ih x.1 y.1 act1 act2 (hk1 x hx) (hk2 y hy)) (ih x.2 y.2 act1 act2 (hv1 x hx) (hv2 y hy))))))) ?_
  intro h
  exact sem_object h.2.1 h.2.2.2

/-- one entry of a discriminator mapping: tag value, variant -/
def caseEnc (env : Env) (n : Nat) (act : List (String × Nat)) (p : String × RT) : Nat → Option (List Tok) :=
  pre [.str p.1] (fun q => h256 env n p.2 act q)

theorem pf_case (ih : Claim env1 env2 n1 n2) {x y : String × RT} (hx : Good x.2) (hy : Good y.2) :
    PF (caseEnc env1 n1 act1 x) (caseEnc env2 n2 act2 y) (x.1 = y.1 ∧ SemEq env1 env2 x.2 y.2) := by
  unfold caseEnc
  refine PF_mono (PF_pre rfl (ih x.2 y.2 act1 act2 hx hy)) ?_
  intro h
  refine ⟨?_, h.2⟩
  have := h.1
  injection this with h1 _
  injection h1

theorem pf_disc {ss1 ss2 : List RT} {key1 key2 : String} {m1 m2 sm1 sm2 : List (String × RT)} (ih : Claim env1 env2 n1 n2)
    (hn1 : (m1.map (·.1)).Nodup) (hm1 : ∀ p ∈ m1, Good p.2) (hs1 : ∀ t ∈ ss1, Good t)
    (hn2 : (m2.map (·.1)).Nodup) (hm2 : ∀ p ∈ m2, Good p.2) (hs2 : ∀ t ∈ ss2, Good t) :
    PF (h256 env1 (n1+1) (.disc ss1 key1 m1 sm1) act1) (h256 env2 (n2+1) (.disc ss2 key2 m2 sm2) act2)
      (SemEq env1 env2 (.disc ss1 key1 m1 sm1) (.disc ss2 key2 m2 sm2)) := by
  have e1 : h256 env1 (n1+1) (.disc ss1 key1 m1 sm1) act1 =
      pre [.tag "anyOfDiscriminated", .str key1, natTok ss1.length]
        (andThen (seqT (fun t p => h256 env1 n1 t act1 p) ss1)
          (pre [natTok m1.length] (seqT (caseEnc env1 n1 act1) (sortedProps m1)))) := by
    funext p; simp only [h256]; rfl
  have e2 : h256 env2 (n2+1) (.disc ss2 key2 m2 sm2) act2 =
      pre [.tag "anyOfDiscriminated", .str key2, natTok ss2.length]
        (andThen (seqT (fun t p => h256 env2 n2 t act2 p) ss2)
          (pre [natTok m2.length] (seqT (caseEnc env2 n2 act2) (sortedProps m2)))) := by
    funext p; simp only [h256]; rfl
  rw [e1, e2]
  refine PF_mono (PF_pre' rfl (fun hl => PF_andThen
    (pf_children ih (natTok_inj (by injection hl with _ h; injection h with _ h; injection h)) hs1 hs2)
    (PF_pre' rfl (fun hl2 => PF_seqT (sortedProps m1) (sortedProps m2)
      (by rw [sortedProps_length, sortedProps_length]; exact natTok_inj (by injection hl2))
      (fun x hx y hy => pf_case ih (sortedProps_good hm1 x hx) (sortedProps_good hm2 y hy)))))) ?_
  intro h
  have hkey : key1 = key2 := by
    have := h.1
    injection this with _ h'; injection h' with h'' _; injection h''
  subst hkey
  exact sem_disc hn1 hn2 h.2.2.2


theorem pf_const {v1 v2 : JsVal} :
    PF (h256 env1 (n1+1) (.const v1) act1) (h256 env2 (n2+1) (.const v2) act2) (SemEq env1 env2 (.const v1) (.const v2)) := by
  intro p1 p2 ts1 ts2 r1 r2 h1 h2 he
  simp only [h256] at h1 h2
  cases hc1 : constToks v1 with
  | none => rw [hc1] at h1; cases h1
  | some c1 =>
    cases hc2 : constToks v2 with
    | none => rw [hc2] at h2; cases h2
    | some c2 =>
      rw [hc1] at h1; rw [hc2] at h2
      injection h1 with h1; injection h2 with h2
      subst h1; subst h2
      simp only [List.cons_append] at he
      injection he with _ he
      obtain ⟨hc, hr⟩ := constToks_pf hc1 hc2 he
      subst hc
      exact ⟨rfl, hr, sem_const hc1 hc2⟩

theorem map_str_inj : ∀ {l1 l2 : List String}, l1.map Tok.str = l2.map Tok.str → l1 = l2 := by
  intro l1
  induction l1 with
  | nil => intro l2 h; cases l2 with
    | nil => rfl
    | cons y ys => simp at h
  | cons x xs ih => intro l2 h; cases l2 with
    | nil => simp at h
    | cons y ys =>
      simp only [List.map_cons, List.cons.injEq] at h
      injection h.1 with hxy
      rw [hxy, ih h.2]

theorem fmt_stream {fs1 fs2 : List String} {r1 r2 : List Tok} {T : String}
    (he : (Tok.tag T :: natTok fs1.length :: (JsVal.sortStrings fs1).map Tok.str) ++ r1 =
          (Tok.tag T :: natTok fs2.length :: (JsVal.sortStrings fs2).map Tok.str) ++ r2) :
    JsVal.sortStrings fs1 = JsVal.sortStrings fs2 ∧ r1 = r2 := by
  simp only [List.cons_append] at he
  injection he with _ he
  injection he with hn he
  have hlen : fs1.length = fs2.length := natTok_inj hn
  have hl : ((JsVal.sortStrings fs1).map Tok.str).length = ((JsVal.sortStrings fs2).map Tok.str).length := by
    rw [List.length_map, List.length_map, (sortStrings_perm fs1).length_eq, (sortStrings_perm fs2).length_eq, hlen]
  obtain ⟨hm, hr⟩ := List.append_inj he hl
  exact ⟨map_str_inj hm, hr⟩

theorem pf_strfmt {fs1 fs2 : List String} :
    PF (h256 env1 (n1+1) (.strfmt fs1) act1) (h256 env2 (n2+1) (.strfmt fs2) act2)
      (SemEq env1 env2 (.strfmt fs1) (.strfmt fs2)) := by
  intro p1 p2 ts1 ts2 r1 r2 h1 h2 he
  simp only [h256] at h1 h2
  injection h1 with h1; injection h2 with h2
  subst h1; subst h2
  obtain ⟨hs, hr⟩ := fmt_stream he
  have hlen : fs1.length = fs2.length := by
    rw [← (sortStrings_perm fs1).length_eq, ← (sortStrings_perm fs2).length_eq, hs]
  exact ⟨by rw [hs, hlen], hr, sem_strfmt hs⟩

theorem pf_numfmt {fs1 fs2 : List String} :
    PF (h256 env1 (n1+1) (.numfmt fs1) act1) (h256 env2 (n2+1) (.numfmt fs2) act2)
      (SemEq env1 env2 (.numfmt fs1) (.numfmt fs2)) := by
  intro p1 p2 ts1 ts2 r1 r2 h1 h2 he
  simp only [h256] at h1 h2
  injection h1 with h1; injection h2 with h2
  subst h1; subst h2
  obtain ⟨hs, hr⟩ := fmt_stream he
  have hlen : fs1.length = fs2.length := by
    rw [← (sortStrings_perm fs1).length_eq, ← (sortStrings_perm fs2).length_eq, hs]
  exact ⟨by rw [hs, hlen], hr, sem_numfmt hs⟩

theorem pf_consts {vs1 vs2 : List JsVal} (hc1 : ∀ v ∈ vs1, isConst v = true) (hc2 : ∀ v ∈ vs2, isConst v = true) :
    PF (h256 env1 (n1+1) (.consts vs1) act1) (h256 env2 (n2+1) (.consts vs2) act2)
      (SemEq env1 env2 (.consts vs1) (.consts vs2)) := by
  intro p1 p2 ts1 ts2 r1 r2 h1 h2 he
  simp only [h256] at h1 h2
  cases hm1 : mapMO constToks (sortedConsts vs1) with
  | none => rw [hm1] at h1; cases h1
  | some t1 =>
    cases hm2 : mapMO constToks (sortedConsts vs2) with
    | none => rw [hm2] at h2; cases h2
    | some t2 =>
      rw [hm1] at h1; rw [hm2] at h2
      injection h1 with h1; injection h2 with h2
      subst h1; subst h2
      simp only [List.cons_append] at he
      injection he with _ he
      injection he with hn he
      have hlen : vs1.length = vs2.length := natTok_inj hn
      have hl : (sortedConsts vs1).length = (sortedConsts vs2).length := by
        rw [(sortedConsts_perm vs1).length_eq, (sortedConsts_perm vs2).length_eq, hlen]
      obtain ⟨hs, hr⟩ := consts_pf _ _ _ _ _ _ hl
        (fun v hv => hc1 v ((sortedConsts_perm vs1).mem_iff.1 hv)) (fun v hv => hc2 v ((sortedConsts_perm vs2).mem_iff.1 hv)) hm1 hm2 he
      have ht : t1 = t2 := by rw [hs] at hm1; rw [hm1] at hm2; injection hm2
      exact ⟨by rw [ht, hlen], hr, sem_consts hs⟩

theorem pf_regex (hre : SourceDeterminesMatch) {t1 t2 : Tpl} {d1 d2 : String} :
    PF (h256 env1 (n1+1) (.regex t1 d1) act1) (h256 env2 (n2+1) (.regex t2 d2) act2)
      (SemEq env1 env2 (.regex t1 d1) (.regex t2 d2)) := by
  refine pf_leaf (l1 := [.tag "regex", .str (regexSource t1), .str ""]) (l2 := [.tag "regex", .str (regexSource t2), .str ""])
    (by funext p; simp only [h256]) (by funext p; simp only [h256]) rfl ?_
  intro h
  injection h with _ h; injection h with h _; injection h with h
  exact sem_regex hre h

end diag

/-! ## the theorem -/

theorem h256_injective_closed (hre : SourceDeterminesMatch) (env1 env2 : Env) : ∀ n1 n2, Claim env1 env2 n1 n2 := by
  intro n1
  induction n1 with
  | zero => intro n2 rt1 rt2 act1 act2 _ _ p1 p2 ts1 ts2 r1 r2 h1; simp [h256] at h1
  | succ n1 ih1 =>
    intro n2
    induction n2 with
    | zero => intro rt1 rt2 act1 act2 _ _ p1 p2 ts1 ts2 r1 r2 _ h2; simp [h256] at h2
    | succ n2 ih2 =>
      intro rt1 rt2 act1 act2 hg1 hg2
      have ih := ih1 n2
      cases hg1 with
      | described d t hg => exact pf_described_l (ih1 (n2+1)) hg hg2
      | typeof t =>
        cases hg2 with
        | described d' t' hg' => exact pf_described_r ih2 (.typeof t) hg'
        | typeof t' =>
          refine pf_leaf (l1 := [.tag "typeof", .str t]) (l2 := [.tag "typeof", .str t'])
            (by funext p; simp only [h256]) (by funext p; simp only [h256]) rfl ?_
          intro h; injection h with _ h; injection h with h _; injection h with h; subst h
          exact sem_leaf (fun _ _ _ _ _ _ => by simp only [validate]) (fun _ _ _ _ => ⟨_, by simp only [validate]; rfl⟩)
        | _ => exact pf_of_tag_ne rfl rfl (by simp [tagOf])
      | any =>
        cases hg2 with
        | described d' t' hg' => exact pf_described_r ih2 .any hg'
        | any =>
          exact pf_leaf (l1 := [.tag "any"]) (l2 := [.tag "any"]) (by funext p; simp only [h256]) (by funext p; simp only [h256]) rfl
            (fun _ => sem_leaf (fun _ _ _ _ _ _ => by simp only [validate]) (fun _ _ _ _ => ⟨_, by simp only [validate]; rfl⟩))
        | _ => exact pf_of_tag_ne rfl rfl (by simp [tagOf])
      | nullish d1 =>
        cases hg2 with
        | described d' t' hg' => exact pf_described_r ih2 (.nullish d1) hg'
        | nullish d2 =>
          refine pf_leaf (l1 := [.tag "nullish"]) (l2 := [.tag "nullish"]) (by funext p; simp only [h256]) (by funext p; simp only [h256]) rfl ?_
          intro _
          apply sem_intro
          intro strict m1 m2 x
          simp only [validate]
          exact agree_ok rfl
        | _ => exact pf_of_tag_ne rfl rfl (by simp [tagOf])
      | never =>
        cases hg2 with
        | described d' t' hg' => exact pf_described_r ih2 .never hg'
        | never =>
          exact pf_leaf (l1 := [.tag "never"]) (l2 := [.tag "never"]) (by funext p; simp only [h256]) (by funext p; simp only [h256]) rfl
            (fun _ => sem_leaf (fun _ _ _ _ _ _ => by simp only [validate]) (fun _ _ _ _ => ⟨_, by simp only [validate]; rfl⟩))
        | _ => exact pf_of_tag_ne rfl rfl (by simp [tagOf])
      | const v =>
        cases hg2 with
        | described d' t' hg' => exact pf_described_r ih2 (.const v) hg'
        | const v' => exact pf_const
        | _ => exact pf_of_tag_ne rfl rfl (by simp [tagOf])
      | regex tpl d =>
        cases hg2 with
        | described d' t' hg' => exact pf_described_r ih2 (.regex tpl d) hg'
        | regex tpl' d2 => exact pf_regex hre
        | _ => exact pf_of_tag_ne rfl rfl (by simp [tagOf])
      | date =>
        cases hg2 with
        | described d' t' hg' => exact pf_described_r ih2 .date hg'
        | date =>
          exact pf_leaf (l1 := [.tag "date"]) (l2 := [.tag "date"]) (by funext p; simp only [h256]) (by funext p; simp only [h256]) rfl
            (fun _ => sem_leaf (fun _ _ _ _ _ _ => by simp only [validate]) (fun _ _ _ _ => ⟨_, by simp only [validate]; rfl⟩))
        | _ => exact pf_of_tag_ne rfl rfl (by simp [tagOf])
      | bigint =>
        cases hg2 with
        | described d' t' hg' => exact pf_described_r ih2 .bigint hg'
        | bigint =>
          exact pf_leaf (l1 := [.tag "bigint"]) (l2 := [.tag "bigint"]) (by funext p; simp only [h256]) (by funext p; simp only [h256]) rfl
            (fun _ => sem_leaf (fun _ _ _ _ _ _ => by simp only [validate]) (fun _ _ _ _ => ⟨_, by simp only [validate]; rfl⟩))
        | _ => exact pf_of_tag_ne rfl rfl (by simp [tagOf])
      | typed c =>
        cases hg2 with
        | described d' t' hg' => exact pf_described_r ih2 (.typed c) hg'
        | typed c' =>
          refine pf_leaf (l1 := [.tag "typedArray", .str c]) (l2 := [.tag "typedArray", .str c'])
            (by funext p; simp only [h256]) (by funext p; simp only [h256]) rfl ?_
          intro h; injection h with _ h; injection h with h _; injection h with h; subst h
          exact sem_leaf (fun _ _ _ _ _ _ => by simp only [validate]) (fun _ _ _ _ => ⟨_, by simp only [validate]; rfl⟩)
        | _ => exact pf_of_tag_ne rfl rfl (by simp [tagOf])
      | strfmt fs =>
        cases hg2 with
        | described d' t' hg' => exact pf_described_r ih2 (.strfmt fs) hg'
        | strfmt fs' => exact pf_strfmt
        | _ => exact pf_of_tag_ne rfl rfl (by simp [tagOf])
      | numfmt fs =>
        cases hg2 with
        | described d' t' hg' => exact pf_described_r ih2 (.numfmt fs) hg'
        | numfmt fs' => exact pf_numfmt
        | _ => exact pf_of_tag_ne rfl rfl (by simp [tagOf])
      | consts vs hc =>
        cases hg2 with
        | described d' t' hg' => exact pf_described_r ih2 (.consts vs hc) hg'
        | consts vs' hc' => exact pf_consts hc hc'
        | _ => exact pf_of_tag_ne rfl rfl (by simp [tagOf])
      | tuple ps rest hp hr =>
        cases hg2 with
        | described d' t' hg' => exact pf_described_r ih2 (.tuple ps rest hp hr) hg'
        | tuple ps' rest' hp' hr' => exact pf_tuple ih hp hr hp' hr'
        | _ => exact pf_of_tag_ne rfl rfl (by simp [tagOf])
      | allOf ts hts =>
        cases hg2 with
        | described d' t' hg' => exact pf_described_r ih2 (.allOf ts hts) hg'
        | allOf ts' hts' => exact pf_allOf ih hts hts'
        | _ => exact pf_of_tag_ne rfl rfl (by simp [tagOf])
      | anyOf ts hts =>
        cases hg2 with
        | described d' t' hg' => exact pf_described_r ih2 (.anyOf ts hts) hg'
        | anyOf ts' hts' => exact pf_anyOf ih hts hts'
        | _ => exact pf_of_tag_ne rfl rfl (by simp [tagOf])
      | array t hg =>
        cases hg2 with
        | described d' t' hg' => exact pf_described_r ih2 (.array t hg) hg'
        | array t' hg' => exact pf_array ih hg hg'
        | _ => exact pf_of_tag_ne rfl rfl (by simp [tagOf])
      | map k v hk hv =>
        cases hg2 with
        | described d' t' hg' => exact pf_described_r ih2 (.map k v hk hv) hg'
        | map k' v' hk' hv' => exact pf_map ih hk hv hk' hv'
        | _ => exact pf_of_tag_ne rfl rfl (by simp [tagOf])
      | set t hg =>
        cases hg2 with
        | described d' t' hg' => exact pf_described_r ih2 (.set t hg) hg'
        | set t' hg' => exact pf_set ih hg hg'
        | _ => exact pf_of_tag_ne rfl rfl (by simp [tagOf])
      | disc ss key m sm hn hm hs =>
        cases hg2 with
        | described d' t' hg' => exact pf_described_r ih2 (.disc ss key m sm hn hm hs) hg'
        | disc ss' key' m' sm' hn' hm' hs' => exact pf_disc ih hn hm hs hn' hm' hs'
        | _ => exact pf_of_tag_ne rfl rfl (by simp [tagOf])
      | optional t hg =>
        cases hg2 with
        | described d' t' hg' => exact pf_described_r ih2 (.optional t hg) hg'
        | optional t' hg' => exact pf_optional ih hg hg'
        | _ => exact pf_of_tag_ne rfl rfl (by simp [tagOf])
      | object props ix hn hp hk hv =>
        cases hg2 with
        | described d' t' hg' => exact pf_described_r ih2 (.object props ix hn hp hk hv) hg'
        | object props' ix' hn' hp' hk' hv' => exact pf_object ih hp hk hv hp' hk' hv'
        | _ => exact pf_of_tag_ne rfl rfl (by simp [tagOf])


/-- **Closed validators with the same token stream accept the same values.** -/
theorem same_stream_same_behaviour (hre : SourceDeterminesMatch) {env1 env2 : Env} {rt1 rt2 : RT}
    (hg1 : Good rt1) (hg2 : Good rt2) {ts : List Tok}
    (h1 : hash256Toks env1 rt1 = some ts) (h2 : hash256Toks env2 rt2 = some ts) : SemEq env1 env2 rt1 rt2 := by
  unfold hash256Toks at h1 h2
  cases ha : h256 env1 h256Fuel rt1 [] (bytesLen rootToks) with
  | none => rw [ha] at h1; cases h1
  | some a =>
    cases hb : h256 env2 h256Fuel rt2 [] (bytesLen rootToks) with
    | none => rw [hb] at h2; cases h2
    | some b =>
      rw [ha] at h1; rw [hb] at h2
      injection h1 with h1; injection h2 with h2
      have hab : a ++ [] = b ++ [] := by
        have := h1.trans h2.symm
        simpa using List.append_cancel_left this
      exact (h256_injective_closed hre env1 env2 h256Fuel h256Fuel rt1 rt2 [] [] hg1 hg2 _ _ _ _ _ _ ha hb hab).2.2

/-- **Two validators that disagree on any value have different token streams** (closed types) … -/
theorem different_behaviour_different_stream (hre : SourceDeterminesMatch) {env1 env2 : Env} {rt1 rt2 : RT}
    (hg1 : Good rt1) (hg2 : Good rt2) {ts1 ts2 : List Tok}
    (h1 : hash256Toks env1 rt1 = some ts1) (h2 : hash256Toks env2 rt2 = some ts2)
    {strict : Bool} {m1 m2 : Nat} {x : JsVal} {b1 b2 : Bool}
    (hv1 : validate env1 strict m1 rt1 x = .ok b1) (hv2 : validate env2 strict m2 rt2 x = .ok b2) (hne : b1 ≠ b2) :
    ts1 ≠ ts2 := by
  intro e
  subst e
  exact hne (same_stream_same_behaviour hre hg1 hg2 h1 h2 strict m1 m2 x b1 b2 hv1 hv2)

/-- … hence different byte streams handed to SHA-256 (all payloads below 2³² bytes): whatever collision is left is a
collision of SHA-256 itself. -/
theorem different_behaviour_different_bytes (hre : SourceDeterminesMatch) {env1 env2 : Env} {rt1 rt2 : RT}
    (hg1 : Good rt1) (hg2 : Good rt2) {ts1 ts2 : List Tok}
    (h1 : hash256Toks env1 rt1 = some ts1) (h2 : hash256Toks env2 rt2 = some ts2)
    (v1 : ∀ t ∈ ts1, C13.Tok.Valid t) (v2 : ∀ t ∈ ts2, C13.Tok.Valid t)
    {strict : Bool} {m1 m2 : Nat} {x : JsVal} {b1 b2 : Bool}
    (hv1 : validate env1 strict m1 rt1 x = .ok b1) (hv2 : validate env2 strict m2 rt2 x = .ok b2) (hne : b1 ≠ b2) :
    encodeToks ts1 ≠ encodeToks ts2 :=
  fun e => different_behaviour_different_stream hre hg1 hg2 h1 h2 hv1 hv2 hne (C13.tokens_injective ts1 ts2 v1 v2 e)

/-! ### non-vacuity -/

private def exT : RT :=
  .object [("b", .optional (.typeof "number")), ("a", .anyOf [.typeof "string", .nullish "null"])]
    [(.typeof "string", .array (.const (.str "x")))]

/-- a non-trivial tree meets the hypotheses: it is `Good`, its stream exists, and it accepts / rejects values -/
example : Good exT ∧ (hash256Toks [] exT).isSome = true ∧
    validate [] false 10 exT (.obj [("a", .str "s")]) = .ok true ∧ validate [] false 10 exT (.obj [("a", .num "1")]) = .ok false := by
  refine ⟨?_, by decide +kernel, by decide +kernel, by decide +kernel⟩
  refine .object _ _ (by decide) ?_ ?_ ?_
  · intro p hp
    simp only [List.mem_cons, List.mem_nil_iff, or_false] at hp
    rcases hp with rfl | rfl
    · exact .optional _ (.typeof _)
    · refine .anyOf _ ?_
      intro t ht
      simp only [List.mem_cons, List.mem_nil_iff, or_false] at ht
      rcases ht with rfl | rfl
      · exact .typeof _
      · exact .nullish _
  · intro p hp
    simp only [List.mem_cons, List.mem_nil_iff, or_false] at hp
    subst hp; exact .typeof _
  · intro p hp
    simp only [List.mem_cons, List.mem_nil_iff, or_false] at hp
    subst hp; exact .array _ (.const _)

/-- the optionality flag is part of the stream (the field the round-3 seed dropped): `{a: string}` and `{a?: string}`
have different streams -/
example : hash256Toks [] (.object [("a", .typeof "string")] []) ≠ hash256Toks [] (.object [("a", .optional (.typeof "string"))] []) := by
  decide +kernel

end BeffVerif.C13T
