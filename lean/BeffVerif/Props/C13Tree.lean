import Std.Data.String.ToNat
import BeffVerif.Model.Hash256
import BeffVerif.Model.Validate
/-!
# C13 — the Runtype-level encoding omits nothing a validator depends on (closed types)

`Model/Hash256.h256` is the token stream `hash256()` writes for a Runtype tree. This file proves, for trees without
named references (`Good`, which also records what the JavaScript objects guarantee: distinct property names, distinct
discriminator tags, constants that are `Const` values, and that a template's description determines the template):

* the stream is self-delimiting: `ts1 ++ r1 = ts2 ++ r2 → ts1 = ts2 ∧ r1 = r2` (so a parent can be split into its
  children unambiguously), and
* two trees with the same stream accept the same values (`SemEq`): **validators that disagree on a value have
  different token streams**, hence — `C13Inj.tokens_injective` — different byte streams, hence different digests unless
  SHA-256 itself collides.

Named references (cycle offsets) are covered by the correspondence and by the pair search of the check, not by a
theorem (DESIGN.md §5 C13).
-/
namespace BeffVerif.C13T
open BeffVerif RT Sha JsVal

/-! ## general lemmas -/

theorem natTok_inj {a b : Nat} (h : natTok a = natTok b) : a = b := by
  unfold natTok at h
  injection h with h
  exact Nat.repr_injective h

/-- two results agree when they are both answers -/
def Agree (r1 r2 : Res Bool) : Prop := ∀ b1 b2, r1 = .ok b1 → r2 = .ok b2 → b1 = b2

/-- the two validators never give different answers (fuel exhaustion is not an answer) -/
def SemEq (env1 env2 : Env) (rt1 rt2 : RT) : Prop :=
  ∀ strict m1 m2 x, Agree (validate env1 strict m1 rt1 x) (validate env2 strict m2 rt2 x)

theorem agree_ok {a b : Bool} (h : a = b) : Agree (.ok a) (.ok b) := by
  intro b1 b2 h1 h2
  injection h1 with h1; injection h2 with h2
  rw [← h1, ← h2, h]

theorem allShort_true {α : Type} {f : α → Res Bool} : ∀ {l : List α},
    allShort f l = .ok true ↔ ∀ x ∈ l, f x = .ok true := by
  intro l
  induction l with
  | nil => simp [allShort]
  | cons y ys ih =>
    rw [allShort]
    constructor
    · intro h
      cases hy : f y with
      | ok b =>
        cases b with
        | true =>
          rw [hy] at h
          intro x hx
          rcases List.mem_cons.1 hx with e | hx
          · rw [e]; exact hy
          · exact ih.1 h x hx
        | false => rw [hy] at h; cases h
      | throw c => rw [hy] at h; cases h
      | nofuel => rw [hy] at h; cases h
    · intro h
      rw [h y (by simp)]
      exact ih.2 (fun x hx => h x (List.mem_cons_of_mem _ hx))

theorem allShort_false {α : Type} {f : α → Res Bool} : ∀ {l : List α},
    allShort f l = .ok false → ∃ x ∈ l, f x = .ok false := by
  intro l
  induction l with
  | nil => intro h; simp [allShort] at h
  | cons y ys ih =>
    intro h
    rw [allShort] at h
    cases hy : f y with
    | ok b =>
      cases b with
      | true =>
        rw [hy] at h
        obtain ⟨x, hx, hfx⟩ := ih h
        exact ⟨x, List.mem_cons_of_mem _ hx, hfx⟩
      | false => exact ⟨y, by simp, hy⟩
    | throw c => rw [hy] at h; cases h
    | nofuel => rw [hy] at h; cases h

theorem anyShort_false {α : Type} {f : α → Res Bool} : ∀ {l : List α},
    anyShort f l = .ok false ↔ ∀ x ∈ l, f x = .ok false := by
  intro l
  induction l with
  | nil => simp [anyShort]
  | cons y ys ih =>
    rw [anyShort]
    constructor
    · intro h
      cases hy : f y with
      | ok b =>
        cases b with
        | false =>
          rw [hy] at h
          intro x hx
          rcases List.mem_cons.1 hx with e | hx
          · rw [e]; exact hy
          · exact ih.1 h x hx
        | true => rw [hy] at h; cases h
      | throw c => rw [hy] at h; cases h
      | nofuel => rw [hy] at h; cases h
    · intro h
      rw [h y (by simp)]
      exact ih.2 (fun x hx => h x (List.mem_cons_of_mem _ hx))

theorem anyShort_true {α : Type} {f : α → Res Bool} : ∀ {l : List α},
    anyShort f l = .ok true → ∃ x ∈ l, f x = .ok true := by
  intro l
  induction l with
  | nil => intro h; simp [anyShort] at h
  | cons y ys ih =>
    intro h
    rw [anyShort] at h
    cases hy : f y with
    | ok b =>
      cases b with
      | false =>
        rw [hy] at h
        obtain ⟨x, hx, hfx⟩ := ih h
        exact ⟨x, List.mem_cons_of_mem _ hx, hfx⟩
      | true => exact ⟨y, by simp, hy⟩
    | throw c => rw [hy] at h; cases h
    | nofuel => rw [hy] at h; cases h

/-- a conjunction over two lists whose elements can be paired both ways with agreeing results -/
theorem allShort_agree {α β : Type} {f : α → Res Bool} {g : β → Res Bool} {l1 : List α} {l2 : List β}
    (h12 : ∀ x ∈ l1, ∃ y ∈ l2, Agree (f x) (g y)) (h21 : ∀ y ∈ l2, ∃ x ∈ l1, Agree (f x) (g y)) :
    Agree (allShort f l1) (allShort g l2) := by
  intro b1 b2 h1 h2
  cases b1 <;> cases b2
  · rfl
  · obtain ⟨x, hx, hfx⟩ := allShort_false h1
    obtain ⟨y, hy, hag⟩ := h12 x hx
    exact hag _ _ hfx (allShort_true.1 h2 y hy)
  · obtain ⟨y, hy, hgy⟩ := allShort_false h2
    obtain ⟨x, hx, hag⟩ := h21 y hy
    exact hag _ _ (allShort_true.1 h1 x hx) hgy
  · rfl

theorem anyShort_agree {α β : Type} {f : α → Res Bool} {g : β → Res Bool} {l1 : List α} {l2 : List β}
    (h12 : ∀ x ∈ l1, ∃ y ∈ l2, Agree (f x) (g y)) (h21 : ∀ y ∈ l2, ∃ x ∈ l1, Agree (f x) (g y)) :
    Agree (anyShort f l1) (anyShort g l2) := by
  intro b1 b2 h1 h2
  cases b1 <;> cases b2
  · rfl
  · obtain ⟨y, hy, hgy⟩ := anyShort_true h2
    obtain ⟨x, hx, hag⟩ := h21 y hy
    exact hag _ _ (anyShort_false.1 h1 x hx) hgy
  · obtain ⟨x, hx, hfx⟩ := anyShort_true h1
    obtain ⟨y, hy, hag⟩ := h12 x hx
    exact hag _ _ hfx (anyShort_false.1 h2 y hy)
  · rfl

/-! ## encoders that can be told apart from what follows them -/

/-- `e1`, `e2` write self-delimiting streams, and equal streams imply `P` -/
def PF (e1 e2 : Nat → Option (List Tok)) (P : Prop) : Prop :=
  ∀ p1 p2 ts1 ts2 r1 r2, e1 p1 = some ts1 → e2 p2 = some ts2 → ts1 ++ r1 = ts2 ++ r2 → ts1 = ts2 ∧ r1 = r2 ∧ P

theorem PF_mono {e1 e2 : Nat → Option (List Tok)} {P Q : Prop} (h : PF e1 e2 P) (hpq : P → Q) : PF e1 e2 Q := by
  intro p1 p2 ts1 ts2 r1 r2 h1 h2 he
  obtain ⟨a, b, c⟩ := h p1 p2 ts1 ts2 r1 r2 h1 h2 he
  exact ⟨a, b, hpq c⟩

theorem PF_const {l1 l2 : List Tok} (hl : l1.length = l2.length) :
    PF (fun _ => some l1) (fun _ => some l2) (l1 = l2) := by
  intro p1 p2 ts1 ts2 r1 r2 h1 h2 he
  injection h1 with h1; injection h2 with h2
  subst h1; subst h2
  obtain ⟨a, b⟩ := List.append_inj he hl
  exact ⟨a, b, a⟩

theorem PF_pre {l1 l2 : List Tok} {e1 e2 : Nat → Option (List Tok)} {P : Prop} (hl : l1.length = l2.length)
    (h : PF e1 e2 P) : PF (pre l1 e1) (pre l2 e2) (l1 = l2 ∧ P) := by
  intro p1 p2 ts1 ts2 r1 r2 h1 h2 he
  unfold pre at h1 h2
  cases ha : e1 (p1 + bytesLen l1) with
  | none => rw [ha] at h1; cases h1
  | some a =>
    cases hb : e2 (p2 + bytesLen l2) with
    | none => rw [hb] at h2; cases h2
    | some b =>
      rw [ha] at h1; rw [hb] at h2
      injection h1 with h1; injection h2 with h2
      subst h1; subst h2
      rw [List.append_assoc, List.append_assoc] at he
      obtain ⟨hl', hrest⟩ := List.append_inj he hl
      obtain ⟨x, y, z⟩ := h _ _ _ _ _ _ ha hb hrest
      subst hl'; subst x
      exact ⟨rfl, y, rfl, z⟩

theorem PF_andThen {f1 f2 g1 g2 : Nat → Option (List Tok)} {P Q : Prop} (hf : PF f1 f2 P) (hg : PF g1 g2 Q) :
    PF (andThen f1 g1) (andThen f2 g2) (P ∧ Q) := by
  intro p1 p2 ts1 ts2 r1 r2 h1 h2 he
  unfold andThen at h1 h2
  cases ha : f1 p1 with
  | none => rw [ha] at h1; cases h1
  | some a =>
    cases hb : f2 p2 with
    | none => rw [hb] at h2; cases h2
    | some b =>
      simp only [ha] at h1; simp only [hb] at h2
      cases hc : g1 (p1 + bytesLen a) with
      | none => simp only [hc] at h1; cases h1
      | some c =>
        cases hd : g2 (p2 + bytesLen b) with
        | none => simp only [hd] at h2; cases h2
        | some d =>
          simp only [hc] at h1; simp only [hd] at h2
          injection h1 with h1; injection h2 with h2
          subst h1; subst h2
          rw [List.append_assoc, List.append_assoc] at he
          obtain ⟨x, y, z⟩ := hf _ _ _ _ _ _ ha hb he
          subst x
          obtain ⟨x', y', z'⟩ := hg _ _ _ _ _ _ hc hd y
          subst x'
          exact ⟨rfl, y', z, z'⟩

/-- element-wise relation of two lists of the same length -/
def Pairwise2 {α β : Type} (P : α → β → Prop) : List α → List β → Prop
  | [], [] => True
  | x :: xs, y :: ys => P x y ∧ Pairwise2 P xs ys
  | _, _ => False

theorem PF_seqT {α β : Type} {f : α → Nat → Option (List Tok)} {g : β → Nat → Option (List Tok)}
    {P : α → β → Prop} : ∀ (xs : List α) (ys : List β), xs.length = ys.length →
    (∀ x ∈ xs, ∀ y ∈ ys, PF (f x) (g y) (P x y)) → PF (seqT f xs) (seqT g ys) (Pairwise2 P xs ys) := by
  intro xs
  induction xs with
  | nil =>
    intro ys hl _
    cases ys with
    | nil =>
      intro p1 p2 ts1 ts2 r1 r2 h1 h2 he
      simp only [seqT] at h1 h2
      injection h1 with h1; injection h2 with h2
      subst h1; subst h2
      exact ⟨rfl, he, trivial⟩
    | cons y ys => simp at hl
  | cons x xs ih =>
    intro ys hl hP
    cases ys with
    | nil => simp at hl
    | cons y ys =>
      have hl' : xs.length = ys.length := by simpa using hl
      have hrec := ih ys hl' (fun a ha b hb => hP a (List.mem_cons_of_mem _ ha) b (List.mem_cons_of_mem _ hb))
      have hxy := hP x (by simp) y (by simp)
      intro p1 p2 ts1 ts2 r1 r2 h1 h2 he
      simp only [seqT] at h1 h2
      cases ha : f x p1 with
      | none => rw [ha] at h1; cases h1
      | some a =>
        cases hb : g y p2 with
        | none => rw [hb] at h2; cases h2
        | some b =>
          simp only [ha] at h1; simp only [hb] at h2
          cases hc : seqT f xs (p1 + bytesLen a) with
          | none => simp only [hc] at h1; cases h1
          | some c =>
            cases hd : seqT g ys (p2 + bytesLen b) with
            | none => simp only [hd] at h2; cases h2
            | some d =>
              simp only [hc] at h1; simp only [hd] at h2
              injection h1 with h1; injection h2 with h2
              subst h1; subst h2
              rw [List.append_assoc, List.append_assoc] at he
              obtain ⟨u, v, w⟩ := hxy _ _ _ _ _ _ ha hb he
              subst u
              obtain ⟨u', v', w'⟩ := hrec _ _ _ _ _ _ hc hd v
              subst u'
              exact ⟨rfl, v', w, w'⟩

end BeffVerif.C13T
