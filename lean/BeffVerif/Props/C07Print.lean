import BeffVerif.Model.ToSchema
import BeffVerif.Lemmas.Sort
/-!
# C07 — no negation reaches the printer (a general theorem over `removeNots`)

The printer cannot print `StNot` (printer.rs: `unreachable!`). The materialisation of a semantic type produces unions of
clauses, and a clause is an intersection of atoms and NEGATED atoms; `remove_nots_of_intersections_and_empty_of_union`
(the last step of `Exclude`) is what guarantees that no negation is left where the printer walks: on the spine of unions
and intersections from the root. D102 was the one case it did not cover (a clause that is a single negation is not an
intersection: `Exclude<unknown, Uint8Array>` panicked).

`removeNots_spine_free`: for EVERY input type, every table of named types, every context and every fuel, if the port of
that function returns a type, no negation occurs on its union / intersection spine. No hypothesis on the input.
-/
namespace BeffVerif.C07Print
open BeffVerif IR Sem

mutual
/-- no `stNot` on the spine of unions and intersections below the root -/
def spineFree : IR → Bool
  | .stNot _ => false
  | .anyOf ts => spineFreeL ts
  | .allOf ts => spineFreeL ts
  | _ => true
def spineFreeL : List IR → Bool
  | [] => true
  | t :: ts => spineFree t && spineFreeL ts
end

theorem spineFreeL_iff (ts : List IR) : spineFreeL ts = true ↔ ∀ t ∈ ts, spineFree t = true := by
  induction ts with
  | nil => simp [spineFreeL]
  | cons t ts ih => simp [spineFreeL, ih]

theorem mem_dedup {x : IR} : ∀ {ts : List IR}, x ∈ IR.dedup ts → x ∈ ts
  | [], h => by simp [IR.dedup] at h
  | t :: ts, h => by
    unfold IR.dedup at h
    split at h
    · exact List.mem_cons_of_mem _ (mem_dedup h)
    · rcases List.mem_cons.1 h with h | h
      · exact h ▸ List.mem_cons_self
      · exact List.mem_cons_of_mem _ (mem_dedup h)

theorem mem_setOf {x : IR} {ts : List IR} (h : x ∈ IR.setOf ts) : x ∈ ts :=
  mem_dedup ((C10.sortBy_perm _ _).mem_iff.1 h)

theorem flatten_spine : ∀ (k : Nat) (ts : List IR), (∀ t ∈ ts, spineFree t = true) →
    ∀ x ∈ IR.flattenAnyOf k ts, spineFree x = true
  | 0, ts, h, x, hx => h x (by simpa [IR.flattenAnyOf] using hx)
  | k+1, ts, h, x, hx => by
    simp only [IR.flattenAnyOf, List.mem_flatMap] at hx
    obtain ⟨t, ht, hx⟩ := hx
    have hs := h t ht
    cases t with
    | anyOf inner =>
      simp only [spineFree] at hs
      exact flatten_spine k inner ((spineFreeL_iff inner).1 hs) x hx
    | _ => simp at hx; subst hx; exact hs

theorem anyOf'_spine (vs : List IR) (h : ∀ t ∈ vs, spineFree t = true) : spineFree (IR.anyOf' vs) = true := by
  unfold IR.anyOf'
  split
  · rfl
  · exact h _ List.mem_cons_self
  · simp only [spineFree]
    exact (spineFreeL_iff _).2 fun x hx => flatten_spine 50 vs h x (mem_setOf hx)

theorem allOf'_spine (vs : List IR) (h : ∀ t ∈ vs, spineFree t = true) : spineFree (IR.allOf' vs) = true := by
  have hall : spineFree (.allOf (IR.setOf vs)) = true := by
    simp only [spineFree]
    exact (spineFreeL_iff _).2 fun x hx => h x (mem_setOf hx)
  unfold IR.allOf'
  split
  · exact h _ List.mem_cons_self
  · split
    · split
      · rfl
      · exact hall
    · exact hall

/-- the bind of the state-and-failure monad `SM` -/
theorem bind_some {α β : Type} (m : SM α) (f : α → SM β) (c : Ctx) (r : β) (c' : Ctx)
    (h : (m >>= f) c = some (r, c')) : ∃ a c1, m c = some (a, c1) ∧ f a c1 = some (r, c') := by
  change (match m c with | some (a, c') => f a c' | none => none) = some (r, c') at h
  split at h
  · exact ⟨_, _, by assumption, h⟩
  · cases h

theorem pure_some {α : Type} (a : α) (c : Ctx) (r : α) (c' : Ctx) (h : (pure a : SM α) c = some (r, c')) : r = a := by
  change some (a, c) = some (r, c') at h
  cases h; rfl

theorem removeNots_spine (named : Named) : ∀ n : Nat,
    (∀ t c r c', removeNots named n t c = some (r, c') → spineFree r = true) ∧
    (∀ ts c rs c', removeNotsL named n ts c = some (rs, c') → ∀ r ∈ rs, spineFree r = true)
  | 0 => by
    constructor
    · intro t c r c' h; simp [removeNots, SM.fail] at h
    · intro ts c rs c' h; simp [removeNotsL, SM.fail] at h
  | n+1 => by
    have ih := removeNots_spine named n
    constructor
    · intro t c r c' h
      cases t with
      | allOf vs =>
        simp only [removeNots] at h
        obtain ⟨e, c1, _, h⟩ := bind_some _ _ _ _ _ h
        split at h
        · rw [pure_some _ _ _ _ h]; rfl
        · obtain ⟨vs', c2, h1, h⟩ := bind_some _ _ _ _ _ h
          rw [pure_some _ _ _ _ h]
          exact allOf'_spine _ fun t ht => ih.2 _ _ _ _ h1 t (List.mem_filter.1 ht).1
      | anyOf vs =>
        simp only [removeNots] at h
        obtain ⟨kept, c1, _, h⟩ := bind_some _ _ _ _ _ h
        obtain ⟨vs', c2, h1, h⟩ := bind_some _ _ _ _ _ h
        rw [pure_some _ _ _ _ h]
        exact anyOf'_spine _ (ih.2 _ _ _ _ h1)
      | stNot x =>
        simp only [removeNots] at h
        rw [pure_some _ _ _ _ h]; rfl
      | _ =>
        simp only [removeNots] at h
        rw [pure_some _ _ _ _ h]; rfl
    · intro ts c rs c' h
      cases ts with
      | nil =>
        simp only [removeNotsL] at h
        rw [pure_some _ _ _ _ h]; simp
      | cons t ts =>
        simp only [removeNotsL] at h
        obtain ⟨x, c1, hx, h⟩ := bind_some _ _ _ _ _ h
        obtain ⟨xs, c2, hxs, h⟩ := bind_some _ _ _ _ _ h
        rw [pure_some _ _ _ _ h]
        intro r hr
        rcases List.mem_cons.1 hr with hr | hr
        · exact hr ▸ ih.1 _ _ _ _ hx
        · exact ih.2 _ _ _ _ hxs r hr

/-- **No negation reaches the printer**: whatever the input type, the named types, the context and the fuel, a type
returned by `removeNots` (the last step of `Exclude`) has no negation on its union / intersection spine. -/
theorem removeNots_spine_free (named : Named) (n : Nat) (t : IR) (c : Ctx) (r : IR) (c' : Ctx)
    (h : removeNots named n t c = some (r, c')) : spineFree r = true :=
  (removeNots_spine named n).1 t c r c' h

/-- the statement is about something: the clause of D102 (one negation, nothing else) goes in as a negation and comes
out as `any`; a union with a negated member comes out without it -/
example : removeNots [] 5 (.stNot (.typedArray "Uint8Array")) {} = some (.any, {}) := rfl
example : spineFree (.anyOf [.string, .stNot .number]) = false := by decide
example : (removeNots [] 5 (.anyOf [.string, .stNot .number]) {}).map (fun r => spineFree r.1) = some true := by
  decide +kernel

/-- **`Exclude<A, B>` hands the printer a type without a negation on its spine**: for every program, both operands and
every outcome of the engine — whenever the compiler model returns a result for `Exclude`, it is printable in this sense. -/
theorem exclude_result_spine_free (decls : List Decl) (a b : Ty) (res : SemResult)
    (h : evalSemExpr decls (.exclude a b) = some (some res)) : spineFree res.schema = true := by
  simp only [evalSemExpr] at h
  split at h
  · cases h
  · cases h
  · split at h
    · cases h
    · split at h
      · cases h
      · rename_i hp
        cases h
        exact removeNots_spine_free _ _ _ _ _ _ hp

/-- not vacuous: `Exclude<unknown, { a: string }>` (the second input of D102) and `Exclude<string | number, string>` do return a result -/
example : ((evalSemExpr [] (.exclude (.kw "unknown") (.obj [("a", false, .kw "string")] none))).map fun r => r.isSome) = some true := by
  decide +kernel
example : ((evalSemExpr [] (.exclude (.union [.kw "string", .kw "number"]) (.kw "string"))).map
    fun r => r.map fun x => IR.key x.schema) = some (some (IR.key .number)) := by decide +kernel

end BeffVerif.C07Print
