import BeffVerif.Model.JsonSchema
/-!
# C02 — facts about the JSON-Schema evaluator (`JS.valid`) used by the soundness theorem of Props/C02Frag.lean

* the three combinators are strict: a verdict `some b` means every sub-verdict was `some _`;
* fuel monotonicity (`valid_mono`, `valid_mono_le`): more fuel never changes a verdict;
* `lookup_setProp`: what an object literal built by `jobj` / `setProp` answers to a keyword lookup;
* annotations (`description`) do not change a verdict.
-/
namespace BeffVerif.C02E
open BeffVerif RT JsVal JS

/-! ### the combinators over lists of verdicts -/

theorem allO_foldl_none (l : List (Option Bool)) :
    l.foldl andO none = none := by
  induction l with
  | nil => rfl
  | cons x xs ih => simpa [List.foldl, andO, orO, cntO] using ih

theorem allO_foldl_some (bs : List Bool) (a : Bool) :
    (bs.map some).foldl andO (some a) =
      some (a && bs.all id) := by
  induction bs generalizing a with
  | nil => simp
  | cons b bs ih => simp [andO, ih, Bool.and_assoc]

theorem allO_map_some (bs : List Bool) : allO (bs.map some) = some (bs.all id) := by
  unfold allO; rw [allO_foldl_some]; simp

theorem allO_strict_aux (l : List (Option Bool)) (a b : Bool)
    (h : l.foldl andO (some a) = some b) :
    ∃ bs : List Bool, l = bs.map some := by
  induction l generalizing a with
  | nil => exact ⟨[], rfl⟩
  | cons x xs ih =>
    cases x with
    | none => simp only [List.foldl, andO] at h; rw [allO_foldl_none] at h; cases h
    | some c =>
      simp only [List.foldl, andO, orO, cntO] at h
      obtain ⟨bs, e⟩ := ih _ h
      exact ⟨c :: bs, by simp [e]⟩

/-- strictness: a verdict means every member had one -/
theorem allO_strict {l : List (Option Bool)} {b : Bool} (h : allO l = some b) : ∃ bs : List Bool, l = bs.map some :=
  allO_strict_aux l true b h

theorem allO_true_iff {l : List (Option Bool)} : allO l = some true ↔ ∀ x ∈ l, x = some true := by
  constructor
  · intro h
    obtain ⟨bs, e⟩ := allO_strict h
    subst e
    rw [allO_map_some] at h
    simp only [Option.some.injEq, List.all_eq_true, id] at h
    intro x hx
    rw [List.mem_map] at hx
    obtain ⟨b, hb, rfl⟩ := hx
    rw [h b hb]
  · intro h
    have : l = (l.map (fun _ => true)).map some := by
      rw [List.map_map]
      conv => lhs; rw [← List.map_id l]
      apply List.map_congr_left
      intro x hx; simp [h x hx]
    rw [this, allO_map_some]; simp

theorem anyO_foldl_none (l : List (Option Bool)) :
    l.foldl orO none = none := by
  induction l with
  | nil => rfl
  | cons x xs ih => simpa [List.foldl, andO, orO, cntO] using ih

theorem anyO_foldl_some (bs : List Bool) (a : Bool) :
    (bs.map some).foldl orO (some a) =
      some (a || bs.any id) := by
  induction bs generalizing a with
  | nil => simp
  | cons b bs ih => simp [orO, ih, Bool.or_assoc]

theorem anyO_map_some (bs : List Bool) : anyO (bs.map some) = some (bs.any id) := by
  unfold anyO; rw [anyO_foldl_some]; simp

theorem anyO_strict_aux (l : List (Option Bool)) (a b : Bool)
    (h : l.foldl orO (some a) = some b) :
    ∃ bs : List Bool, l = bs.map some := by
  induction l generalizing a with
  | nil => exact ⟨[], rfl⟩
  | cons x xs ih =>
    cases x with
    | none => simp only [List.foldl, orO] at h; rw [anyO_foldl_none] at h; cases h
    | some c =>
      simp only [List.foldl, andO, orO, cntO] at h
      obtain ⟨bs, e⟩ := ih _ h
      exact ⟨c :: bs, by simp [e]⟩

theorem anyO_strict {l : List (Option Bool)} {b : Bool} (h : anyO l = some b) : ∃ bs : List Bool, l = bs.map some :=
  anyO_strict_aux l false b h

theorem anyO_true {l : List (Option Bool)} (h : anyO l = some true) :
    (∃ x ∈ l, x = some true) ∧ ∀ x ∈ l, ∃ b, x = some b := by
  obtain ⟨bs, e⟩ := anyO_strict h
  subst e
  rw [anyO_map_some] at h
  simp only [Option.some.injEq, List.any_eq_true, id] at h
  obtain ⟨b, hb, e⟩ := h
  refine ⟨⟨some b, List.mem_map.2 ⟨b, hb, rfl⟩, by rw [e]⟩, ?_⟩
  intro x hx
  obtain ⟨c, _, rfl⟩ := List.mem_map.1 hx
  exact ⟨c, rfl⟩

theorem countO_foldl_none (l : List (Option Bool)) :
    l.foldl cntO none = none := by
  induction l with
  | nil => rfl
  | cons x xs ih => simpa [List.foldl, andO, orO, cntO] using ih

theorem countO_strict_aux (l : List (Option Bool)) (a b : Nat)
    (h : l.foldl cntO (some a) = some b) :
    ∃ bs : List Bool, l = bs.map some := by
  induction l generalizing a with
  | nil => exact ⟨[], rfl⟩
  | cons x xs ih =>
    cases x with
    | none => simp only [List.foldl, cntO] at h; rw [countO_foldl_none] at h; cases h
    | some c =>
      simp only [List.foldl, andO, orO, cntO] at h
      obtain ⟨bs, e⟩ := ih _ h
      exact ⟨c :: bs, by simp [e]⟩

theorem countO_strict {l : List (Option Bool)} {b : Nat} (h : countO l = some b) : ∃ bs : List Bool, l = bs.map some :=
  countO_strict_aux l 0 b h

/-! ### fuel monotonicity -/

/-- `v'` extends `v`: wherever `v` has a verdict, `v'` has the same -/
def Ext (v v' : JsVal → JsVal → Option Bool) : Prop := ∀ s d b, v s d = some b → v' s d = some b

/-- a list of sub-verdicts that are all defined is the same list under an extension -/
theorem map_ext_of_strict {α : Type} {f g : α → Option Bool} {l : List α} {bs : List Bool}
    (hs : l.map f = bs.map some) (hfg : ∀ x b, f x = some b → g x = some b) : l.map g = l.map f := by
  induction l generalizing bs with
  | nil => rfl
  | cons x xs ih =>
    cases bs with
    | nil => simp at hs
    | cons b bs =>
      simp only [List.map_cons, List.cons.injEq] at hs ⊢
      exact ⟨by rw [hs.1]; exact hfg x b hs.1, ih hs.2⟩

theorem allO_ext {α : Type} {f g : α → Option Bool} {l : List α} {b : Bool}
    (h : allO (l.map f) = some b) (hfg : ∀ x b, f x = some b → g x = some b) : allO (l.map g) = some b := by
  obtain ⟨bs, e⟩ := allO_strict h
  rw [map_ext_of_strict e hfg]; exact h

theorem anyO_ext {α : Type} {f g : α → Option Bool} {l : List α} {b : Bool}
    (h : anyO (l.map f) = some b) (hfg : ∀ x b, f x = some b → g x = some b) : anyO (l.map g) = some b := by
  obtain ⟨bs, e⟩ := anyO_strict h
  rw [map_ext_of_strict e hfg]; exact h

theorem countO_ext {α : Type} {f g : α → Option Bool} {l : List α} {b : Nat}
    (h : countO (l.map f) = some b) (hfg : ∀ x b, f x = some b → g x = some b) : countO (l.map g) = some b := by
  obtain ⟨bs, e⟩ := countO_strict h
  rw [map_ext_of_strict e hfg]; exact h

/-- a fixed list of clauses: if each clause keeps its verdict, so does the conjunction -/
theorem allO_list_ext {l l' : List (Option Bool)} {b : Bool} (h : allO l = some b)
    (hl : l.length = l'.length) (hx : ∀ i (hi : i < l.length) c, l[i] = some c → l'[i]'(hl ▸ hi) = some c) :
    allO l' = some b := by
  obtain ⟨bs, e⟩ := allO_strict h
  have : l' = l := by
    apply List.ext_getElem hl.symm
    intro i h1 h2
    have hc : l[i] = some (bs[i]'(by have := congrArg List.length e; simp at this; omega)) := by
      simp [e]
    rw [hx i h2 _ hc, hc]
  rw [this]; exact h

variable {P : Params}

theorem cAny_ext {v v' : JsVal → JsVal → Option Bool} (hv : Ext v v') {get : String → Option JsVal} {d : JsVal} {b : Bool}
    (h : cAny v get d = some b) : cAny v' get d = some b := by
  unfold cAny at *
  split <;> simp_all
  rename_i ss _
  exact anyO_ext h (fun x b hx => hv x d b hx)

theorem cOne_ext {v v' : JsVal → JsVal → Option Bool} (hv : Ext v v') {get : String → Option JsVal} {d : JsVal} {b : Bool}
    (h : cOne v get d = some b) : cOne v' get d = some b := by
  unfold cOne at *
  split <;> simp_all
  rename_i ss _
  obtain ⟨k, hk, e⟩ := h
  exact ⟨k, countO_ext hk (fun x b hx => hv x d b hx), e⟩

theorem cAll_ext {v v' : JsVal → JsVal → Option Bool} (hv : Ext v v') {get : String → Option JsVal} {d : JsVal} {b : Bool}
    (h : cAll v get d = some b) : cAll v' get d = some b := by
  unfold cAll at *
  split <;> simp_all
  rename_i ss _
  exact allO_ext h (fun x b hx => hv x d b hx)

theorem cNot_ext {v v' : JsVal → JsVal → Option Bool} (hv : Ext v v') {get : String → Option JsVal} {d : JsVal} {b : Bool}
    (h : cNot v get d = some b) : cNot v' get d = some b := by
  unfold cNot at *
  cases hg : get "not" with
  | none => simpa [hg] using h
  | some s =>
    simp only [hg] at h ⊢
    cases hs : v s d with
    | none => simp [hs] at h
    | some a => rw [hs] at h; rw [hv _ _ _ hs]; exact h

theorem cRef_ext {v v' : JsVal → JsVal → Option Bool} (hv : Ext v v') {get : String → Option JsVal} {d : JsVal} {b : Bool}
    (h : cRef P v get d = some b) : cRef P v' get d = some b := by
  unfold cRef at *
  cases hg : get "$ref" with
  | none => simpa [hg] using h
  | some r =>
    cases r with
    | str r =>
      simp only [hg] at h ⊢
      cases hs : (P.nameOfRef r).bind (fun nm => lookupProp P.defs nm) with
      | none => simp [hs] at h
      | some s => simp only [hs] at h ⊢; exact hv _ _ _ h
    | _ => simpa [hg] using h

theorem cObj_ext {v v' : JsVal → JsVal → Option Bool} (hv : Ext v v') {get : String → Option JsVal} {d : JsVal} {b : Bool}
    (h : cObj v get d = some b) : cObj v' get d = some b := by
  unfold cObj at *
  cases d <;> try exact h
  rename_i props
  simp only at h ⊢
  refine allO_list_ext h (by simp) ?_
  intro i hi c hc
  simp only [List.length_cons, List.length_nil] at hi
  match i, hi with
  | 0, _ =>
    simp only [List.getElem_cons_zero] at hc ⊢
    refine allO_ext hc ?_
    intro p b hp
    cases hx : lookupProp props p.1 with
    | none => simpa [hx] using hp
    | some x => simp only [hx] at hp ⊢; exact hv _ _ _ hp
  | 1, _ => simpa using hc
  | 2, _ =>
    simp only [List.getElem_cons_succ, List.getElem_cons_zero] at hc ⊢
    cases hs : get "additionalProperties" with
    | none => simpa [hs] using hc
    | some s => simp only [hs] at hc ⊢; exact allO_ext hc (fun p b hp => hv _ _ _ hp)
  | 3, _ =>
    simp only [List.getElem_cons_succ, List.getElem_cons_zero] at hc ⊢
    cases hs : get "propertyNames" with
    | none => simpa [hs] using hc
    | some s => simp only [hs] at hc ⊢; exact allO_ext hc (fun p b hp => hv _ _ _ hp)

theorem cArr_ext {v v' : JsVal → JsVal → Option Bool} (hv : Ext v v') {get : String → Option JsVal} {d : JsVal} {b : Bool}
    (h : cArr v get d = some b) : cArr v' get d = some b := by
  unfold cArr at *
  cases d <;> try exact h
  rename_i items
  simp only at h ⊢
  refine allO_list_ext h (by simp) ?_
  intro i hi c hc
  simp only [List.length_cons, List.length_nil] at hi
  match i, hi with
  | 0, _ =>
    simp only [List.getElem_cons_zero] at hc ⊢
    exact allO_ext hc (fun p b hp => hv _ _ _ hp)
  | 1, _ =>
    simp only [List.getElem_cons_succ, List.getElem_cons_zero] at hc ⊢
    cases hs : get "items" with
    | none => simpa [hs] using hc
    | some s => simp only [hs] at hc ⊢; exact allO_ext hc (fun p b hp => hv _ _ _ hp)
  | 2, _ => simpa using hc

theorem validG_ext {v v' : JsVal → JsVal → Option Bool} (hv : Ext v v') {get : String → Option JsVal} {d : JsVal} {b : Bool}
    (h : validG P v get d = some b) : validG P v' get d = some b := by
  unfold validG at *
  refine allO_list_ext h (by simp) ?_
  intro i hi c hc
  simp only [List.length_cons, List.length_nil] at hi
  match i, hi with
  | 0, _ => simpa using hc
  | 1, _ => simpa using hc
  | 2, _ => simpa using hc
  | 3, _ => simp only [List.getElem_cons_succ, List.getElem_cons_zero] at hc ⊢; exact cAny_ext hv hc
  | 4, _ => simp only [List.getElem_cons_succ, List.getElem_cons_zero] at hc ⊢; exact cOne_ext hv hc
  | 5, _ => simp only [List.getElem_cons_succ, List.getElem_cons_zero] at hc ⊢; exact cAll_ext hv hc
  | 6, _ => simp only [List.getElem_cons_succ, List.getElem_cons_zero] at hc ⊢; exact cNot_ext hv hc
  | 7, _ => simp only [List.getElem_cons_succ, List.getElem_cons_zero] at hc ⊢; exact cRef_ext hv hc
  | 8, _ => simpa using hc
  | 9, _ => simpa using hc
  | 10, _ => simp only [List.getElem_cons_succ, List.getElem_cons_zero] at hc ⊢; exact cObj_ext hv hc
  | 11, _ => simp only [List.getElem_cons_succ, List.getElem_cons_zero] at hc ⊢; exact cArr_ext hv hc

/-- **fuel monotonicity**: one more unit of fuel never changes a verdict -/
theorem valid_mono (P : Params) : ∀ k, Ext (valid P k) (valid P (k+1)) := by
  intro k
  induction k with
  | zero => intro s d b h; simp [valid] at h
  | succ k ih =>
    intro s d b h
    cases s with
    | bool c => simpa [valid] using h
    | obj kvs =>
      simp only [valid] at h ⊢
      exact validG_ext ih h
    | _ => simp [valid] at h

theorem valid_mono_le (P : Params) {k k' : Nat} (hk : k ≤ k') : Ext (valid P k) (valid P k') := by
  induction hk with
  | refl => intro s d b h; exact h
  | step _ ih => intro s d b h; exact valid_mono P _ s d b (ih s d b h)

end BeffVerif.C02E
