import BeffVerif.Props.C02Complete
/-!
# C11 — strict mode rejects exactly the values that carry undeclared keys, on the structural fragment

`noExtra` says declaratively what "no key beyond those the type declares, at every object position" means: through
arrays and tuples position by position, through an optional wrapper unless the value is nullish, through a reference to its
target, and for a union through a branch that matches (a member that accepts the value in default mode and leaves no key
undeclared). `strict_iff_default_and_noExtra`: for every type of the fragment (`C02F.frag`) and every value, the validator
accepts with `disallowExtraProperties` exactly when it accepts in default mode and `noExtra` holds.
-/
namespace BeffVerif.C11F
open BeffVerif RT JsVal C02F

def noExtra (env : Env) : Nat → RT → JsVal → Bool
  | 0, _, _ => true
  | n+1, rt, d =>
    match rt with
    | .described _ t => noExtra env n t d
    | .array t => (match d with | .arr xs => xs.all (noExtra env n t) | _ => true)
    | .tuple pre rest => (match d with
      | .arr xs => (pre.zip (List.range pre.length)).all (fun p => noExtra env n p.1 (xs.getD p.2 .undef)) &&
          (match rest with | some r => (xs.drop pre.length).all (noExtra env n r) | none => true)
      | _ => true)
    | .anyOf ts => ts.any (fun t => validate env false n t d == .ok true && noExtra env n t d)
    | .optional t => d.isNullish || noExtra env n t d
    | .object props _ => (d.ownKeys.all (fun k => (props.map (·.1)).contains k)) && props.all (fun p => noExtra env n p.2 (d.getProp p.1))
    | .ref name => (match env.lookup name with | some t => noExtra env n t d | none => true)
    | _ => true

theorem allShort_of_all {α : Type} {f : α → Res Bool} {l : List α} (h : ∀ x ∈ l, f x = .ok true) : allShort f l = .ok true := by
  induction l with
  | nil => rfl
  | cons x xs ih =>
    simp only [allShort, h x List.mem_cons_self]
    exact ih (fun y hy => h y (List.mem_cons_of_mem _ hy))

/-- on lists whose elements all answer without throwing, `allShort` is the conjunction -/
theorem allShort_iff {α : Type} {f : α → Res Bool} {l : List α} : allShort f l = .ok true ↔ ∀ x ∈ l, f x = .ok true :=
  ⟨allShort_true, allShort_of_all⟩

theorem anyShort_of_mem {α : Type} {f : α → Res Bool} {l : List α} (hans : ∀ x ∈ l, ∃ b, f x = .ok b)
    (h : ∃ x ∈ l, f x = .ok true) : anyShort f l = .ok true := by
  induction l with
  | nil => obtain ⟨x, hx, _⟩ := h; cases hx
  | cons y ys ih =>
    simp only [anyShort]
    obtain ⟨b, hb⟩ := hans y List.mem_cons_self
    rw [hb]
    cases b with
    | true => rfl
    | false =>
      simp only
      obtain ⟨x, hx, e⟩ := h
      rcases List.mem_cons.1 hx with rfl | hx
      · rw [hb] at e; cases e
      · exact ih (fun z hz => hans z (List.mem_cons_of_mem _ hz)) ⟨x, hx, e⟩

/-- the validator of a fragment type never throws (every reference resolves) -/
theorem frag_no_throw (env : Env) : ∀ n seen rt, frag env n seen rt = true → ∀ m strict d c, validate env strict m rt d ≠ .throw c := by
  intro n
  induction n with
  | zero => intro seen rt h; simp [frag] at h
  | succ n ih =>
    intro seen rt h m strict d c
    cases m with
    | zero => simp [validate]
    | succ m =>
      cases rt with
      | described x t => simp only [frag] at h; simp only [validate]; exact ih seen t h m strict d c
      | typeof t => simp [validate]
      | any => simp [validate]
      | nullish _ => simp [validate]
      | never => simp [validate]
      | const v => simp [validate]
      | consts vs => simp [validate]
      | array t =>
        simp only [frag] at h
        simp only [validate]
        cases d with
        | arr xs => exact allShort_nt (fun x _ c => ih seen t h m strict x c) c
        | _ => simp
      | tuple pre rest =>
        simp only [frag, Bool.and_eq_true, List.all_eq_true] at h
        simp only [validate]
        cases d with
        | arr xs =>
          simp only
          have hA := allShort_nt (f := fun (p : RT × Nat) => validate env strict m p.1 (xs.getD p.2 .undef))
            (l := pre.zip (List.range pre.length)) (fun q hq c => ih seen q.1 (h.1 q.1 (List.of_mem_zip hq).1) m strict _ c)
          revert hA
          generalize allShort (fun (p : RT × Nat) => validate env strict m p.1 (xs.getD p.2 .undef)) (pre.zip (List.range pre.length)) = B
          intro hA
          cases B with
          | ok b =>
            cases b with
            | false => simp
            | true =>
              cases rest with
              | none => simp
              | some r => exact allShort_nt (fun x _ c => ih seen r h.2 m strict x c) c
          | throw c' => exact absurd rfl (hA c')
          | nofuel => simp
        | _ => simp
      | anyOf ts =>
        simp only [frag, List.all_eq_true] at h
        simp only [validate]
        exact anyShort_nt (fun t ht c => ih seen t (h t ht) m strict d c) c
      | optional t =>
        simp only [frag] at h
        simp only [validate]
        split
        · simp
        · exact ih seen t h m strict d c
      | object props ix =>
        simp only [frag, Bool.and_eq_true, List.all_eq_true, Bool.not_eq_true'] at h
        obtain ⟨⟨hix, _⟩, hprops⟩ := h
        have hix' : ix = [] := by cases ix <;> simp_all
        subst hix'
        simp only [validate]
        split
        · simp
        · have hA := allShort_nt (f := fun (p : String × RT) => validate env strict m p.2 (d.getProp p.1)) (l := props)
            (fun p hp c => ih seen p.2 (hprops p hp).2 m strict _ c)
          revert hA
          generalize allShort (fun (p : String × RT) => validate env strict m p.2 (d.getProp p.1)) props = B
          intro hA
          cases B with
          | ok b => cases b <;> simp <;> split <;> simp
          | throw c' => exact absurd rfl (hA c')
          | nofuel => simp
      | ref name =>
        simp only [frag, Bool.and_eq_true] at h
        simp only [validate]
        cases hl : env.lookup name with
        | none => rw [hl] at h; cases h.2
        | some t =>
          rw [hl] at h
          exact ih (name :: seen) t h.2 m strict d c
      | _ => simp [frag] at h

/-- the validator of a fragment type answers `ok b` at the fuel of the fragment check -/
theorem frag_answers (env : Env) {n : Nat} {seen : List String} {rt : RT} (hf : frag env n seen rt = true) (strict : Bool) (d : JsVal) :
    ∃ b, validate env strict n rt d = .ok b := by
  cases hv : validate env strict n rt d with
  | ok b => exact ⟨b, rfl⟩
  | nofuel => exact absurd hv (validate_frag_answers env n seen rt hf n (Nat.le_refl _) strict d)
  | throw c => exact absurd hv (frag_no_throw env n seen rt hf n strict d c)

theorem filter_length_zero_iff {l : List String} {p : String → Bool} :
    ((l.filter (fun k => !p k)).length == 0) = true ↔ l.all p = true := by
  simp only [beq_iff_eq, List.length_eq_zero_iff, List.filter_eq_nil_iff, List.all_eq_true]
  constructor
  · intro h k hk; have := h k hk; simpa using this
  · intro h k hk; simp [h k hk]

/-- when the tuple validator says yes -/
theorem tuple_ok_iff (env : Env) (strict : Bool) (n : Nat) (pre : List RT) (rest : Option RT) (xs : List JsVal) :
    validate env strict (n+1) (.tuple pre rest) (.arr xs) = .ok true ↔
      (∀ q ∈ pre.zip (List.range pre.length), validate env strict n q.1 (xs.getD q.2 .undef) = .ok true) ∧
      (∀ r, rest = some r → ∀ x ∈ xs.drop pre.length, validate env strict n r x = .ok true) ∧
      (rest = none → xs.length ≤ pre.length) := by
  simp only [validate]
  rw [← allShort_iff]
  generalize allShort (fun (p : RT × Nat) => validate env strict n p.1 (xs.getD p.2 .undef)) (pre.zip (List.range pre.length)) = B
  cases B with
  | ok b =>
    cases b with
    | false => simp
    | true =>
      cases rest with
      | none => simp
      | some r => simp [allShort_iff]
  | throw c => simp
  | nofuel => simp

/-- when the validator of a closed object type says yes -/
theorem object_ok_iff (env : Env) (strict : Bool) (n : Nat) (props : List (String × RT)) (d : JsVal) :
    validate env strict (n+1) (.object props []) d = .ok true ↔
      (d.isObjectLike && !d.isArray) = true ∧
      (∀ p ∈ props, validate env strict n p.2 (d.getProp p.1) = .ok true) ∧
      (strict = true → d.ownKeys.all (fun k => (props.map (·.1)).contains k) = true) := by
  simp only [validate]
  rw [← allShort_iff]
  cases ho : (d.isObjectLike && !d.isArray) with
  | false => simp
  | true =>
    simp only [Bool.not_true, Bool.false_eq_true, if_false, true_and]
    generalize allShort (fun (p : String × RT) => validate env strict n p.2 (d.getProp p.1)) props = B
    cases B with
    | ok b =>
      cases b with
      | false => simp
      | true =>
        cases strict with
        | false => simp
        | true => simp [filter_length_zero_iff]
    | throw c => simp
    | nofuel => simp

/-- **C11 on the structural fragment**: strict acceptance = default acceptance and no undeclared key at any object
position (through arrays, tuples, optional wrappers, references, and the union branch that matches) -/
theorem strict_iff_default_and_noExtra (env : Env) : ∀ n seen rt, frag env n seen rt = true → ∀ d,
    (validate env true n rt d = .ok true ↔ (validate env false n rt d = .ok true ∧ noExtra env n rt d = true)) := by
  intro n
  induction n with
  | zero => intro seen rt h; simp [frag] at h
  | succ n ih =>
    intro seen rt h d
    cases rt with
    | described x t => simp only [frag] at h; simp only [validate, noExtra]; exact ih seen t h d
    | typeof t => simp [validate, noExtra]
    | any => simp [validate, noExtra]
    | nullish _ => simp [validate, noExtra]
    | never => simp [validate, noExtra]
    | const v => simp [validate, noExtra]
    | consts vs => simp [validate, noExtra]
    | array t =>
      simp only [frag] at h
      simp only [validate, noExtra]
      cases d with
      | arr xs =>
        simp only [allShort_iff, List.all_eq_true]
        constructor
        · intro hs
          exact ⟨fun x hx => ((ih seen t h x).1 (hs x hx)).1, fun x hx => ((ih seen t h x).1 (hs x hx)).2⟩
        · intro ⟨h1, h2⟩ x hx
          exact (ih seen t h x).2 ⟨h1 x hx, h2 x hx⟩
      | _ => simp
    | tuple pre rest =>
      simp only [frag, Bool.and_eq_true, List.all_eq_true] at h
      cases d with
      | arr xs =>
        rw [tuple_ok_iff, tuple_ok_iff]
        simp only [noExtra, Bool.and_eq_true, List.all_eq_true]
        have hpre : ∀ q ∈ pre.zip (List.range pre.length), (validate env true n q.1 (xs.getD q.2 .undef) = .ok true ↔
            validate env false n q.1 (xs.getD q.2 .undef) = .ok true ∧ noExtra env n q.1 (xs.getD q.2 .undef) = true) :=
          fun q hq => ih seen q.1 (h.1 q.1 (List.of_mem_zip hq).1) _
        cases rest with
        | none =>
          constructor
          · intro ⟨h1, h2, h3⟩
            exact ⟨⟨fun q hq => ((hpre q hq).1 (h1 q hq)).1, ⟨(fun r hr => nomatch hr), h3⟩⟩, ⟨fun q hq => ((hpre q hq).1 (h1 q hq)).2, rfl⟩⟩
          · intro ⟨⟨h1, _, h3⟩, h4, _⟩
            exact ⟨fun q hq => (hpre q hq).2 ⟨h1 q hq, h4 q hq⟩, ⟨(fun r hr => nomatch hr), h3⟩⟩
        | some r =>
          simp only [List.all_eq_true]
          constructor
          · intro ⟨h1, h2, h3⟩
            refine ⟨⟨fun q hq => ((hpre q hq).1 (h1 q hq)).1, fun r' hr x hx => ?_, h3⟩, fun q hq => ((hpre q hq).1 (h1 q hq)).2, fun x hx => ?_⟩
            · cases hr; exact ((ih seen r h.2 x).1 (h2 r rfl x hx)).1
            · exact ((ih seen r h.2 x).1 (h2 r rfl x hx)).2
          · intro ⟨⟨h1, h2, h3⟩, h4, h5⟩
            refine ⟨fun q hq => (hpre q hq).2 ⟨h1 q hq, h4 q hq⟩, fun r' hr x hx => ?_, h3⟩
            cases hr
            exact (ih seen r h.2 x).2 ⟨h2 r rfl x hx, h5 x hx⟩
      | _ => simp [validate, noExtra]
    | anyOf ts =>
      simp only [frag, List.all_eq_true] at h
      simp only [validate, noExtra, List.any_eq_true, Bool.and_eq_true, beq_iff_eq]
      constructor
      · intro hs
        obtain ⟨t, ht, e⟩ := anyShort_true hs
        have := (ih seen t (h t ht) d).1 e
        exact ⟨anyShort_of_mem (fun x hx => frag_answers env (h x hx) false d) ⟨t, ht, this.1⟩, t, ht, this.1, this.2⟩
      · intro ⟨_, t, ht, h1, h2⟩
        exact anyShort_of_mem (fun x hx => frag_answers env (h x hx) true d) ⟨t, ht, (ih seen t (h t ht) d).2 ⟨h1, h2⟩⟩
    | optional t =>
      simp only [frag] at h
      simp only [validate, noExtra]
      cases hn : d.isNullish with
      | true => simp
      | false => simp only [Bool.false_eq_true, if_false, Bool.false_or]; exact ih seen t h d
    | object props ix =>
      simp only [frag, Bool.and_eq_true, List.all_eq_true, Bool.not_eq_true'] at h
      obtain ⟨⟨hix, _⟩, hprops⟩ := h
      have hix' : ix = [] := by cases ix <;> simp_all
      subst hix'
      rw [object_ok_iff, object_ok_iff]
      simp only [noExtra, Bool.and_eq_true, List.all_eq_true, forall_const, Bool.false_eq_true, false_imp_iff, and_true]
      have hp : ∀ p ∈ props, (validate env true n p.2 (d.getProp p.1) = .ok true ↔
          validate env false n p.2 (d.getProp p.1) = .ok true ∧ noExtra env n p.2 (d.getProp p.1) = true) :=
        fun p hp' => ih seen p.2 (hprops p hp').2 _
      constructor
      · intro ⟨h0, h1, h2⟩
        exact ⟨⟨h0, fun p hp' => ((hp p hp').1 (h1 p hp')).1⟩, h2, fun p hp' => ((hp p hp').1 (h1 p hp')).2⟩
      · intro ⟨⟨h0, h1⟩, h2, h3⟩
        exact ⟨h0, fun p hp' => (hp p hp').2 ⟨h1 p hp', h3 p hp'⟩, h2⟩
    | ref name =>
      simp only [frag, Bool.and_eq_true] at h
      simp only [validate, noExtra]
      cases hl : env.lookup name with
      | none => rw [hl] at h; cases h.2
      | some t =>
        rw [hl] at h
        exact ih (name :: seen) t h.2 d
    | _ => simp [frag] at h

/-- the statement for a closed type and any validator fuel at least the depth of the type -/
theorem strict_exactly_undeclared_keys (env : Env) (n : Nat) (rt : RT) (hf : frag env n [] rt = true) (m : Nat) (hm : n ≤ m) (d : JsVal) :
    validate env true m rt d = .ok true ↔ (validate env false m rt d = .ok true ∧ noExtra env n rt d = true) := by
  rw [validate_frag_stable env n [] rt hf m hm true d, validate_frag_stable env n [] rt hf m hm false d]
  exact strict_iff_default_and_noExtra env n [] rt hf d

/-- non-vacuity on the example type of Props/C02Sound.lean: a member is accepted in both modes; with a key nobody declares,
two levels down, it is accepted in default mode only, and `noExtra` is what tells the two apart -/
theorem strict_example :
    validate exEnv true 10 exRT exDoc = .ok true ∧ noExtra exEnv 10 exRT exDoc = true ∧
    (let bad : JsVal := .obj [("from", .obj [("x", .num "1"), ("zz", .num "0")]), ("to", .obj [("x", .num "2")]), ("kind", .str "b"),
        ("tags", .arr []), ("pair", .arr [.str "p"])]
     validate exEnv false 10 exRT bad = .ok true ∧ validate exEnv true 10 exRT bad = .ok false ∧ noExtra exEnv 10 exRT bad = false) := by
  refine ⟨by decide +kernel, by decide +kernel, by decide +kernel⟩

end BeffVerif.C11F
