import BeffVerif.Props.C02Sound
/-!
# C02 — completeness of the flat schema on the structural fragment (the converse of Props/C02Sound.lean)
-/
namespace BeffVerif.C02F
open BeffVerif RT JsVal JS C02E

/-! ### verdicts that exist, and verdicts that are `true` -/

theorem allO_defined_of {l : List (Option Bool)} (h : ∀ x ∈ l, ∃ b, x = some b) : ∃ b, allO l = some b := by
  have e : l = (l.map (fun x => x.getD false)).map some := by
    rw [List.map_map]
    conv => lhs; rw [← List.map_id l]
    apply List.map_congr_left
    intro x hx
    obtain ⟨b, hb⟩ := h x hx
    simp [hb]
  exact ⟨_, by rw [e, allO_map_some]⟩

theorem allO_map_defined {α : Type} {l : List α} {f : α → Option Bool} (h : ∀ x ∈ l, ∃ b, f x = some b) :
    ∃ b, allO (l.map f) = some b :=
  allO_defined_of (fun y hy => by obtain ⟨x, hx, rfl⟩ := List.mem_map.1 hy; exact h x hx)

theorem allO_map_true {α : Type} {l : List α} {f : α → Option Bool} (h : ∀ x ∈ l, f x = some true) :
    allO (l.map f) = some true :=
  allO_true_iff.2 (fun y hy => by obtain ⟨x, hx, rfl⟩ := List.mem_map.1 hy; exact h x hx)

/-- verdicts of finitely many (schema, value) pairs, found at various fuels, are found at a common one -/
theorem common_fuel2 (P : Params) (Q : JsVal → JsVal → Bool → Prop) :
    ∀ (l : List (JsVal × JsVal)), (∀ p ∈ l, ∃ k b, valid P k p.1 p.2 = some b ∧ Q p.1 p.2 b) →
      ∃ K, 1 ≤ K ∧ ∀ p ∈ l, ∃ b, valid P K p.1 p.2 = some b ∧ Q p.1 p.2 b := by
  intro l
  induction l with
  | nil => intro _; exact ⟨1, Nat.le_refl _, by simp⟩
  | cons x xs ih =>
    intro h
    obtain ⟨K, hK1, hK⟩ := ih (fun v hv => h v (List.mem_cons_of_mem _ hv))
    obtain ⟨k, b, hb, hq⟩ := h x List.mem_cons_self
    refine ⟨max K k, Nat.le_trans hK1 (Nat.le_max_left _ _), ?_⟩
    intro v hv
    rcases List.mem_cons.1 hv with rfl | hv
    · exact ⟨b, valid_mono_le P (Nat.le_max_right _ _) _ _ _ hb, hq⟩
    · obtain ⟨b', hb', hq'⟩ := hK v hv
      exact ⟨b', valid_mono_le P (Nat.le_max_left _ _) _ _ _ hb', hq'⟩

/-! ### introduction lemmas, shape by shape -/

theorem valid_array_intro {P : Params} {k : Nat} {s : JsVal} {items : List JsVal}
    (h : ∀ x ∈ items, valid P k s x = some true) :
    valid P (k+1) (jobj [("type", .str "array"), ("items", s)]) (.arr items) = some true := by
  rw [valid_jobj]
  simp only [List.foldl]
  generalize hg : lookupProp (setProp (setProp [] "type" (.str "array")) "items" s) = get
  have g1 : ∀ k', get k' = if k' = "items" then some s else if k' = "type" then some (.str "array") else none := by
    intro k'; rw [← hg, lookup_setProp, lookup_setProp, lookupProp_nil]
  simp only [validG, cType, cConst, cEnum, cAny, cOne, cAll, cNot, cRef, cPattern, cFormat, cObj, cArr, declaredOf, prefixOf, g1]
  simp
  rw [allO_true_iff]
  simp only [List.mem_cons, List.mem_nil_iff, or_false, forall_eq_or_imp, forall_eq, typeOk, true_and, and_true]
  rw [allO_true_iff]
  simp only [List.mem_cons, List.mem_nil_iff, or_false, forall_eq_or_imp, forall_eq, true_and, and_true]
  exact ⟨rfl, allO_map_true h⟩

theorem valid_tuple_intro {P : Params} {k : Nat} {ps : List JsVal} {items : JsVal} {n : Nat} {xs : List JsVal}
    (h1 : ∀ p ∈ ps.zip xs, valid P k p.1 p.2 = some true) (h2 : ∀ x ∈ xs.drop ps.length, valid P k items x = some true)
    (h3 : n ≤ xs.length) :
    valid P (k+1) (jobj ([("type", JsVal.str "array")] ++ (if ps.length > 0 then [("prefixItems", JsVal.arr ps)] else []) ++
      [("items", items), ("minItems", JsVal.num (natToCanon n))])) (.arr xs) = some true := by
  rw [valid_jobj]
  by_cases hp : ps.length > 0
  · simp only [hp, if_true, List.cons_append, List.nil_append, List.foldl]
    generalize hg : lookupProp (setProp (setProp (setProp (setProp [] "type" (.str "array")) "prefixItems" (.arr ps)) "items" items)
      "minItems" (.num (natToCanon n))) = get
    have g1 : ∀ k', get k' = if k' = "minItems" then some (.num (natToCanon n)) else if k' = "items" then some items
        else if k' = "prefixItems" then some (.arr ps) else if k' = "type" then some (.str "array") else none := by
      intro k'; rw [← hg, lookup_setProp, lookup_setProp, lookup_setProp, lookup_setProp, lookupProp_nil]
    simp only [validG, cType, cConst, cEnum, cAny, cOne, cAll, cNot, cRef, cPattern, cFormat, cObj, cArr, declaredOf, prefixOf, g1]
    simp
    rw [allO_true_iff]
    simp only [List.mem_cons, List.mem_nil_iff, or_false, forall_eq_or_imp, forall_eq, typeOk, true_and, and_true]
    rw [allO_true_iff]
    simp only [List.mem_cons, List.mem_nil_iff, or_false, forall_eq_or_imp, forall_eq, true_and, and_true]
    refine ⟨allO_map_true h1, (by rw [← List.map_drop]; exact allO_map_true h2), ?_⟩
    rw [parseNat_canon]; simpa using h3
  · have hnil : ps = [] := by
      cases ps with
      | nil => rfl
      | cons _ _ => simp at hp
    subst hnil
    simp only [List.length_nil, Nat.lt_irrefl, if_false, List.cons_append, List.nil_append, List.append_nil, List.foldl]
    generalize hg : lookupProp (setProp (setProp (setProp [] "type" (.str "array")) "items" items)
      "minItems" (.num (natToCanon n))) = get
    have g1 : ∀ k', get k' = if k' = "minItems" then some (.num (natToCanon n)) else if k' = "items" then some items
        else if k' = "type" then some (.str "array") else none := by
      intro k'; rw [← hg, lookup_setProp, lookup_setProp, lookup_setProp, lookupProp_nil]
    simp only [validG, cType, cConst, cEnum, cAny, cOne, cAll, cNot, cRef, cPattern, cFormat, cObj, cArr, declaredOf, prefixOf, g1]
    simp
    rw [allO_true_iff]
    simp only [List.mem_cons, List.mem_nil_iff, or_false, forall_eq_or_imp, forall_eq, typeOk, true_and, and_true]
    rw [allO_true_iff]
    simp only [List.mem_cons, List.mem_nil_iff, or_false, forall_eq_or_imp, forall_eq, true_and, and_true]
    refine ⟨rfl, allO_map_true (by simpa using h2), ?_⟩
    rw [parseNat_canon]; simpa using h3

theorem valid_object_intro {P : Params} {k : Nat} {ps : List (String × JsVal)} {required : List String} {dprops : List (String × JsVal)}
    (h1 : ∀ p ∈ ps, ∀ x, lookupProp dprops p.1 = some x → valid P k p.2 x = some true)
    (h2 : ∀ r ∈ required, (lookupProp dprops r).isSome = true)
    (h3 : ∀ q ∈ dprops, ps.any (fun p => p.1 == q.1) = true) :
    valid P (k+1) (jobj ([("type", JsVal.str "object"), ("properties", JsVal.obj ps)] ++
      (if required.length > 0 then [("required", JsVal.arr (required.map JsVal.str))] else []) ++
      [("additionalProperties", JsVal.bool false)])) (.obj dprops) = some true := by
  rw [valid_jobj]
  have key : ∀ (get : String → Option JsVal), get "type" = some (.str "object") → get "properties" = some (.obj ps) →
      get "additionalProperties" = some (.bool false) →
      (∀ k' ∈ ["const", "enum", "anyOf", "oneOf", "allOf", "not", "$ref", "format", "propertyNames", "pattern"], get k' = none) →
      (get "required" = some (.arr (required.map JsVal.str)) ∨ get "required" = none) →
      validG P (valid P k) get (.obj dprops) = some true := by
    intro get g1 g2 g3 g4 g5
    have e1 := g4 "const" (by simp)
    have e2 := g4 "enum" (by simp)
    have e3 := g4 "anyOf" (by simp)
    have e4 := g4 "oneOf" (by simp)
    have e5 := g4 "allOf" (by simp)
    have e6 := g4 "not" (by simp)
    have e7 := g4 "$ref" (by simp)
    have e8 := g4 "format" (by simp)
    have e9 := g4 "propertyNames" (by simp)
    have e10 := g4 "pattern" (by simp)
    simp only [validG, cType, cConst, cEnum, cAny, cOne, cAll, cNot, cRef, cPattern, cFormat, cObj, cArr, declaredOf, g1, g2, g3,
      e1, e2, e3, e4, e5, e6, e7, e8, e9, e10]
    rw [allO_true_iff]
    simp only [List.mem_cons, List.mem_nil_iff, or_false, forall_eq_or_imp, forall_eq, typeOk, true_and, and_true]
    rw [allO_true_iff]
    simp only [List.mem_cons, List.mem_nil_iff, or_false, forall_eq_or_imp, forall_eq, true_and, and_true]
    refine ⟨?_, ?_, ?_⟩
    · apply allO_map_true
      intro p hp
      cases hx : lookupProp dprops p.1 with
      | none => rfl
      | some x => simp only; exact h1 p hp x hx
    · rcases g5 with g5 | g5
      · rw [g5]
        simp only [Option.some.injEq, List.all_eq_true]
        intro r hr
        obtain ⟨r', hr', rfl⟩ := List.mem_map.1 hr
        simpa using h2 r' hr'
      · rw [g5]
    · have : List.filter (fun p => !(ps.any (fun q => q.1 == p.1))) dprops = [] := by
        rw [List.filter_eq_nil_iff]
        intro q hq
        simp [h3 q hq]
      rw [this]; rfl
  by_cases hr : required.length > 0
  · simp only [hr, if_true, List.cons_append, List.nil_append, List.foldl]
    refine key _ ?_ ?_ ?_ ?_ (Or.inl ?_) <;> simp [lookup_setProp, lookupProp_nil]
  · simp only [hr, if_false, List.cons_append, List.nil_append, List.append_nil, List.foldl]
    refine key _ ?_ ?_ ?_ ?_ (Or.inr ?_) <;> simp [lookup_setProp, lookupProp_nil]

/-! ### `removeNullUnionBranch`, the other direction: the result answers wherever the schema did, and the same off `null` -/

theorem rnb_def (P : Params) : ∀ n s r, pureS n s = true → removeNullUnionBranch n s = some r →
    ∀ k d b, valid P k s d = some b → ∃ k' b', valid P k' r d = some b' ∧ (typeOk "null" d = false → b' = b) := by
  intro n
  induction n with
  | zero => intro s r _ h; simp [removeNullUnionBranch] at h
  | succ n ih =>
    intro s r hp hr k d b hv
    cases s with
    | obj kvs =>
      cases ha : lookupProp kvs "anyOf" with
      | none =>
        simp only [pureS, ha] at hp
        have ho : lookupProp kvs "oneOf" = none := by simpa using hp
        simp [removeNullUnionBranch, ha, ho] at hr
      | some a =>
        cases a with
        | arr vs =>
          have hp0 := hp
          simp only [pureS, ha, Bool.and_eq_true, List.all_eq_true] at hp
          obtain ⟨_, hvs⟩ := hp
          simp only [removeNullUnionBranch, ha, Option.isSome_some, if_true] at hr
          split at hr
          · cases hr
          cases k with
          | zero => simp [valid] at hv
          | succ k0 =>
            rw [valid_pure_anyOf P ha hp0] at hv
            obtain ⟨hdef, hT, hF⟩ := anyO_map_spec hv
            -- every non-null variant: its normalized form answers, and the same off null
            have stepA : ∀ v ∈ vs, isNullDef v = false → ∃ k' b', valid P k' ((removeNullUnionBranch n v).getD v) d = some b' ∧
                (typeOk "null" d = false → valid P k0 v d = some b') := by
              intro v hv' hnv
              obtain ⟨bv, hbv⟩ := hdef v hv'
              have hpv : pureS n v = true := by simpa [hnv] using hvs v hv'
              cases hrv : removeNullUnionBranch n v with
              | none => exact ⟨k0, bv, by simpa using hbv, fun _ => hbv⟩
              | some x =>
                obtain ⟨k', b', h1, h2⟩ := ih v x hpv hrv k0 d bv hbv
                exact ⟨k', b', by simpa using h1, fun hn => by rw [hbv, h2 hn]⟩
            -- null variants answer `false` off null
            have nullF : ∀ v ∈ vs, isNullDef v = true → typeOk "null" d = false → valid P k0 v d = some false := by
              intro v hv' hnv hn
              have hs : nullSimple v = true := by simpa [hnv] using hvs v hv'
              obtain ⟨bv, hbv⟩ := hdef v hv'
              cases k0 with
              | zero => simp [valid] at hbv
              | succ k1 => rw [valid_nullSimple P hnv hs, hn]
            split at hr
            · rename_i x hx
              simp only [Option.some.injEq] at hr
              subst hr
              have hone : ∃ v0, vs.filter (fun v => !isNullDef v) = [v0] ∧ x = (removeNullUnionBranch n v0).getD v0 := by
                cases hf : vs.filter (fun v => !isNullDef v) with
                | nil => rw [hf] at hx; simp at hx
                | cons v0 rest =>
                  rw [hf] at hx
                  cases rest with
                  | nil => simp only [List.map_cons, List.map_nil, List.cons.injEq, and_true] at hx; exact ⟨v0, rfl, hx.symm⟩
                  | cons _ _ => simp at hx
              obtain ⟨v0, hf, rfl⟩ := hone
              have hv0 : v0 ∈ vs ∧ isNullDef v0 = false := by
                have : v0 ∈ vs.filter (fun v => !isNullDef v) := by rw [hf]; simp
                have := List.mem_filter.1 this
                exact ⟨this.1, by simpa using this.2⟩
              have hmem : ∀ v ∈ vs, isNullDef v = false → v = v0 := by
                intro v hv' hnv
                have : v ∈ vs.filter (fun v => !isNullDef v) := List.mem_filter.2 ⟨hv', by simp [hnv]⟩
                rw [hf] at this
                simpa using this
              obtain ⟨k', b', h1, h2⟩ := stepA v0 hv0.1 hv0.2
              refine ⟨k', b', h1, ?_⟩
              intro hn
              -- off null the union is decided by its only non-null variant
              have hv0' := h2 hn
              cases b with
              | true =>
                obtain ⟨v, hvm, e⟩ := hT rfl
                cases hnv : isNullDef v with
                | true => rw [nullF v hvm hnv hn] at e; cases e
                | false => rw [hmem v hvm hnv, hv0'] at e; exact Option.some.inj e
              | false =>
                cases b' with
                | false => rfl
                | true => exact (hF v0 hv0.1 hv0').symm
            · simp only [Option.some.injEq] at hr
              subst hr
              -- the normalized variants at a common fuel
              have hall : ∀ v ∈ vs.filter (fun v => !isNullDef v), ∃ k' b', valid P k' ((removeNullUnionBranch n v).getD v) d = some b' ∧
                  (typeOk "null" d = false → valid P k0 v d = some b') := by
                intro v hvm
                have := List.mem_filter.1 hvm
                exact stepA v this.1 (by simpa using this.2)
              obtain ⟨K, hK1, hK⟩ := common_fuel P d
                (fun x b' => ∃ v ∈ vs, isNullDef v = false ∧ x = (removeNullUnionBranch n v).getD v ∧ (typeOk "null" d = false → valid P k0 v d = some b'))
                ((vs.filter (fun v => !isNullDef v)).map (fun v => (removeNullUnionBranch n v).getD v)) (by
                  intro x hx
                  obtain ⟨v, hvm, rfl⟩ := List.mem_map.1 hx
                  obtain ⟨k', b', h1, h2⟩ := hall v hvm
                  have := List.mem_filter.1 hvm
                  exact ⟨k', b', h1, v, this.1, by simpa using this.2, rfl, h2⟩)
              obtain ⟨T, hTdef⟩ := anyO_defined (l := (vs.filter (fun v => !isNullDef v)).map (fun v => (removeNullUnionBranch n v).getD v))
                (f := fun s' => valid P K s' d) (fun x hx => by obtain ⟨b', e, _⟩ := hK x hx; exact ⟨b', e⟩)
              have hval : valid P (K+1) (.obj (setProp kvs "anyOf" (.arr ((vs.filter (fun v => !isNullDef v)).map (fun v => (removeNullUnionBranch n v).getD v))))) d = some T := by
                show validG P (valid P K) (lookupProp (setProp kvs "anyOf" _)) d = some T
                rw [validG_anyOf (ss := (vs.filter (fun v => !isNullDef v)).map (fun v => (removeNullUnionBranch n v).getD v))]
                · exact hTdef
                · intro key hk
                  rw [lookup_setProp]
                  by_cases e : key = "anyOf"
                  · simp [e]
                  · simp only [e, if_false]
                    simp only [pureS, ha, Bool.and_eq_true, List.all_eq_true] at hp0
                    simpa using hp0.1 key (mem_vkeys_filter hk e)
              refine ⟨K + 1, T, hval, ?_⟩
              intro hn
              obtain ⟨_, hT1, hT2⟩ := anyO_map_spec hTdef
              cases T with
              | true =>
                obtain ⟨x, hx, ex⟩ := hT1 rfl
                obtain ⟨b', e', v, hv', hnv, rfl, hlink⟩ := hK x hx
                rw [ex] at e'
                have : b' = true := (Option.some.inj e').symm
                subst this
                exact (hF v hv' (hlink hn)).symm
              | false =>
                cases b with
                | false => rfl
                | true =>
                  exfalso
                  obtain ⟨v, hvm, e⟩ := hT rfl
                  cases hnv : isNullDef v with
                  | true => rw [nullF v hvm hnv hn] at e; cases e
                  | false =>
                    have hx : (removeNullUnionBranch n v).getD v ∈ (vs.filter (fun v => !isNullDef v)).map (fun v => (removeNullUnionBranch n v).getD v) :=
                      List.mem_map.2 ⟨v, List.mem_filter.2 ⟨hvm, by simp [hnv]⟩, rfl⟩
                    obtain ⟨b', e', v', hv', hnv', hxe, hlink⟩ := hK _ hx
                    -- the verdict of the normalized variant at K is the verdict of `v` off null
                    obtain ⟨k1, b1, h1, h2⟩ := stepA v hvm hnv
                    have hb1 : b1 = true := by
                      have := h2 hn; rw [e] at this; exact (Option.some.inj this).symm
                    subst hb1
                    have hK' := valid_mono_le P (Nat.le_max_left K k1) _ _ _ e'
                    have hk1' := valid_mono_le P (Nat.le_max_right K k1) _ _ _ h1
                    rw [hK'] at hk1'
                    have : b' = true := Option.some.inj hk1'
                    subst this
                    have := hT2 _ hx e'
                    cases this
        | _ => simp [pureS, ha] at hp
    | _ => simp [removeNullUnionBranch] at hr

/-! ### every verdict exists: the three composite shapes -/

theorem valid_array_defined {P : Params} {k : Nat} {s d : JsVal}
    (h : ∀ items, d = .arr items → ∀ x ∈ items, ∃ b, valid P k s x = some b) :
    (valid P (k+1) (jobj [("type", .str "array"), ("items", s)]) d).isSome = true := by
  rw [valid_jobj]
  simp only [List.foldl]
  generalize hg : lookupProp (setProp (setProp [] "type" (.str "array")) "items" s) = get
  have g1 : ∀ k', get k' = if k' = "items" then some s else if k' = "type" then some (.str "array") else none := by
    intro k'; rw [← hg, lookup_setProp, lookup_setProp, lookupProp_nil]
  simp only [validG, cType, cConst, cEnum, cAny, cOne, cAll, cNot, cRef, cPattern, cFormat, cObj, cArr, declaredOf, prefixOf, g1]
  cases d with
  | arr items =>
    obtain ⟨b, hb⟩ := allO_map_defined (f := fun x => valid P k s x) (h items rfl)
    simp
    simp only [hb]
    simp [allO, andO]
  | _ => simp [allO, andO]

theorem valid_tuple_defined {P : Params} {k : Nat} {ps : List JsVal} {items : JsVal} {n : Nat} {d : JsVal}
    (h1 : ∀ xs, d = .arr xs → ∀ p ∈ ps.zip xs, ∃ b, valid P k p.1 p.2 = some b)
    (h2 : ∀ xs, d = .arr xs → ∀ x ∈ xs.drop ps.length, ∃ b, valid P k items x = some b) :
    (valid P (k+1) (jobj ([("type", JsVal.str "array")] ++ (if ps.length > 0 then [("prefixItems", JsVal.arr ps)] else []) ++
      [("items", items), ("minItems", JsVal.num (natToCanon n))])) d).isSome = true := by
  rw [valid_jobj]
  by_cases hp : ps.length > 0
  · simp only [hp, if_true, List.cons_append, List.nil_append, List.foldl]
    generalize hg : lookupProp (setProp (setProp (setProp (setProp [] "type" (.str "array")) "prefixItems" (.arr ps)) "items" items)
      "minItems" (.num (natToCanon n))) = get
    have g1 : ∀ k', get k' = if k' = "minItems" then some (.num (natToCanon n)) else if k' = "items" then some items
        else if k' = "prefixItems" then some (.arr ps) else if k' = "type" then some (.str "array") else none := by
      intro k'; rw [← hg, lookup_setProp, lookup_setProp, lookup_setProp, lookup_setProp, lookupProp_nil]
    simp only [validG, cType, cConst, cEnum, cAny, cOne, cAll, cNot, cRef, cPattern, cFormat, cObj, cArr, declaredOf, prefixOf, g1]
    cases d with
    | arr xs =>
      obtain ⟨b1, hb1⟩ := allO_map_defined (f := fun (p : JsVal × JsVal) => valid P k p.1 p.2) (h1 xs rfl)
      obtain ⟨b2, hb2⟩ := allO_map_defined (f := fun x => valid P k items x) (h2 xs rfl)
      simp
      rw [List.map_drop] at hb2
      simp only [hb1, hb2]
      simp [allO, andO]
    | _ => simp; simp [allO, andO, typeOk]
  · have hnil : ps = [] := by
      cases ps with
      | nil => rfl
      | cons _ _ => simp at hp
    subst hnil
    simp only [List.length_nil, Nat.lt_irrefl, if_false, List.cons_append, List.nil_append, List.append_nil, List.foldl]
    generalize hg : lookupProp (setProp (setProp (setProp [] "type" (.str "array")) "items" items)
      "minItems" (.num (natToCanon n))) = get
    have g1 : ∀ k', get k' = if k' = "minItems" then some (.num (natToCanon n)) else if k' = "items" then some items
        else if k' = "type" then some (.str "array") else none := by
      intro k'; rw [← hg, lookup_setProp, lookup_setProp, lookup_setProp, lookupProp_nil]
    simp only [validG, cType, cConst, cEnum, cAny, cOne, cAll, cNot, cRef, cPattern, cFormat, cObj, cArr, declaredOf, prefixOf, g1]
    cases d with
    | arr xs =>
      obtain ⟨b2, hb2⟩ := allO_map_defined (f := fun x => valid P k items x) (by simpa using h2 xs rfl)
      simp
      simp only [hb2]
      simp [allO, andO]
    | _ => simp; simp [allO, andO, typeOk]

theorem valid_false_eq (P : Params) (k : Nat) (d : JsVal) : valid P (k+1) (.bool false) d = some false := rfl

theorem allO_isSome_of {l : List (Option Bool)} (h : ∀ x ∈ l, x.isSome = true) : (allO l).isSome = true := by
  obtain ⟨b, hb⟩ := allO_defined_of (l := l) (fun x hx => by
    have := h x hx
    cases x with
    | none => cases this
    | some c => exact ⟨c, rfl⟩)
  rw [hb]; rfl

theorem allO_map_isSome {α : Type} {l : List α} {f : α → Option Bool} (h : ∀ x ∈ l, (f x).isSome = true) :
    (allO (l.map f)).isSome = true :=
  allO_isSome_of (fun y hy => by obtain ⟨x, hx, rfl⟩ := List.mem_map.1 hy; exact h x hx)

/-- the object clause of a closed object schema answers when the declared properties that are present do -/
theorem cObj_closed_defined {v : JsVal → JsVal → Option Bool} {get : String → Option JsVal} {ps : List (String × JsVal)} {dprops : List (String × JsVal)}
    (g2 : get "properties" = some (.obj ps)) (g3 : get "additionalProperties" = some (.bool false)) (g9 : get "propertyNames" = none)
    (hv : ∀ x, v (.bool false) x = some false)
    (h1 : ∀ p ∈ ps, ∀ x, lookupProp dprops p.1 = some x → (v p.2 x).isSome = true) :
    (cObj v get (.obj dprops)).isSome = true := by
  simp only [cObj, declaredOf, g2, g3, g9]
  apply allO_isSome_of
  intro x hx
  simp only [List.mem_cons, List.mem_nil_iff, or_false] at hx
  rcases hx with rfl | rfl | rfl | rfl
  · apply allO_map_isSome
    intro p hp
    cases hx : lookupProp dprops p.1 with
    | none => rfl
    | some x => simp only; exact h1 p hp x hx
  · cases get "required" with
    | none => rfl
    | some r => cases r <;> rfl
  · apply allO_map_isSome
    intro p _
    rw [hv]; rfl
  · rfl

theorem valid_object_defined {P : Params} {k : Nat} {ps : List (String × JsVal)} {required : List String} {d : JsVal}
    (h1 : ∀ dprops, d = .obj dprops → ∀ p ∈ ps, ∀ x, lookupProp dprops p.1 = some x → (valid P (k+1) p.2 x).isSome = true) :
    (valid P (k+2) (jobj ([("type", JsVal.str "object"), ("properties", JsVal.obj ps)] ++
      (if required.length > 0 then [("required", JsVal.arr (required.map JsVal.str))] else []) ++
      [("additionalProperties", JsVal.bool false)])) d).isSome = true := by
  rw [valid_jobj]
  have key : ∀ (get : String → Option JsVal), get "type" = some (.str "object") → get "properties" = some (.obj ps) →
      get "additionalProperties" = some (.bool false) →
      (∀ k' ∈ ["const", "enum", "anyOf", "oneOf", "allOf", "not", "$ref", "format", "propertyNames", "pattern", "prefixItems", "items", "minItems"], get k' = none) →
      (validG P (valid P (k+1)) get d).isSome = true := by
    intro get g1 g2 g3 g4
    have e1 := g4 "const" (by simp)
    have e2 := g4 "enum" (by simp)
    have e3 := g4 "anyOf" (by simp)
    have e4 := g4 "oneOf" (by simp)
    have e5 := g4 "allOf" (by simp)
    have e6 := g4 "not" (by simp)
    have e7 := g4 "$ref" (by simp)
    have e8 := g4 "format" (by simp)
    have e9 := g4 "propertyNames" (by simp)
    have e10 := g4 "pattern" (by simp)
    have e11 := g4 "prefixItems" (by simp)
    have e12 := g4 "items" (by simp)
    have e13 := g4 "minItems" (by simp)
    unfold validG
    apply allO_isSome_of
    intro x hx
    simp only [List.mem_cons, List.mem_nil_iff, or_false] at hx
    rcases hx with rfl | rfl | rfl | rfl | rfl | rfl | rfl | rfl | rfl | rfl | rfl | rfl
    · simp [cType, g1]
    · simp [cConst, e1]
    · simp [cEnum, e2]
    · simp [cAny, e3]
    · simp [cOne, e4]
    · simp [cAll, e5]
    · simp [cNot, e6]
    · simp [cRef, e7]
    · simp [cPattern, e10]
    · simp [cFormat, e8]
    · cases d with
      | obj dprops => exact cObj_closed_defined g2 g3 e9 (fun x => rfl) (h1 dprops rfl)
      | _ => simp [cObj]
    · cases d <;> simp [cArr, prefixOf, e11, e12, e13, allO, andO]
  by_cases hr : required.length > 0
  · simp only [hr, if_true, List.cons_append, List.nil_append, List.foldl]
    refine key _ ?_ ?_ ?_ ?_ <;> simp [lookup_setProp, lookupProp_nil]
  · simp only [hr, if_false, List.cons_append, List.nil_append, List.append_nil, List.foldl]
    refine key _ ?_ ?_ ?_ ?_ <;> simp [lookup_setProp, lookupProp_nil]

/-! ### every verdict exists on the schemas of the fragment -/

def Total (P : Params) (s : JsVal) : Prop := ∀ d, ∃ k b, valid P k s d = some b

theorem total_annotate {P : Params} {s : JsVal} (desc : Option String) (h : Total P s) : Total P (annotate desc s) := by
  intro d; obtain ⟨k, b, e⟩ := h d; exact ⟨k, b, by rw [valid_annotate]; exact e⟩

theorem exists_of_isSome {o : Option Bool} (h : o.isSome = true) : ∃ b, o = some b := by
  cases o with
  | none => cases h
  | some b => exact ⟨b, rfl⟩

theorem mem_setProp' {l : List (String × JsVal)} {k : String} {v : JsVal} {p : String × JsVal} (h : p ∈ setProp l k v) :
    p = (k, v) ∨ p ∈ l := by
  unfold setProp at h
  split at h
  · rw [List.mem_map] at h
    obtain ⟨q, hq, e⟩ := h
    split at e
    · exact Or.inl e.symm
    · exact Or.inr (e ▸ hq)
  · split at h
    · simp only [List.mem_append, List.mem_cons, List.mem_nil_iff, or_false] at h
      rcases h with (h | h) | h
      · exact Or.inr ((List.takeWhile_sublist _).subset h)
      · exact Or.inl h
      · exact Or.inr ((List.dropWhile_sublist _).subset h)
    · simp only [List.mem_append, List.mem_cons, List.mem_nil_iff, or_false] at h
      rcases h with h | h
      · exact Or.inr h
      · exact Or.inl h

/-- where the stored property schemas come from -/
theorem propsS_mem (go : RT → SCtx → SRes JsVal) :
    ∀ (props : List (String × RT)) (ps0 : List (String × JsVal)) (opt0 : List String) (c : SCtx)
      (ps : List (String × JsVal)) (opt : List String) (c1 : SCtx),
      propsS go props (ps0, opt0) c = .ok (ps, opt) c1 →
      ∀ q ∈ ps, q ∈ ps0 ∨ ∃ p ∈ props, ∃ raw c' c'', go p.2 c' = .ok raw c'' ∧ q = (p.1, (removeNullUnionBranch 50 raw).getD raw) := by
  intro props
  induction props with
  | nil =>
    intro ps0 opt0 c ps opt c1 h q hq
    simp only [propsS, SRes.ok.injEq, Prod.mk.injEq] at h
    obtain ⟨⟨rfl, _⟩, _⟩ := h
    exact Or.inl hq
  | cons p rest ih =>
    intro ps0 opt0 c ps opt c1 h q hq
    simp only [propsS] at h
    cases hg : go p.2 c with
    | throw e => rw [hg] at h; cases h
    | nofuel => rw [hg] at h; cases h
    | ok raw c' =>
      rw [hg] at h
      simp only at h
      have key : ∀ (stored : JsVal) (opt0' : List String), propsS go rest (setProp ps0 p.1 stored, opt0') c' = .ok (ps, opt) c1 →
          stored = (removeNullUnionBranch 50 raw).getD raw →
          q ∈ ps0 ∨ ∃ p' ∈ p :: rest, ∃ raw c' c'', go p'.2 c' = .ok raw c'' ∧ q = (p'.1, (removeNullUnionBranch 50 raw).getD raw) := by
        intro stored opt0' hrest hst
        rcases ih _ _ _ _ _ _ hrest q hq with h1 | ⟨p', hp', r', d1, d2, e1, e2⟩
        · rcases mem_setProp' h1 with h2 | h2
          · exact Or.inr ⟨p, List.mem_cons_self, raw, c, c', hg, by rw [h2, hst]⟩
          · exact Or.inl h2
        · exact Or.inr ⟨p', List.mem_cons_of_mem _ hp', r', d1, d2, e1, e2⟩
      cases hr : removeNullUnionBranch 50 raw with
      | some rw' => rw [hr] at h; exact key rw' _ h (by simp [hr])
      | none => rw [hr] at h; exact key raw _ h (by simp [hr])

theorem total_core (P : Params) (env : Env) : ∀ n seen rt desc c s c', frag env n seen rt = true →
    schema env flat n rt desc seen c = .ok s c' → Total P s := by
  intro n
  induction n with
  | zero => intro seen rt desc c s c' h; simp [frag] at h
  | succ n ih =>
    intro seen rt desc c s c' hf hs
    cases rt with
    | described d t =>
      simp only [frag] at hf
      simp only [schema] at hs
      exact ih seen t (some d) c s c' hf hs
    | typeof t =>
      simp only [schema, SRes.ok.injEq] at hs
      obtain ⟨rfl, _⟩ := hs
      exact total_annotate _ (fun d => ⟨1, _, valid_type_eq P 0 t d⟩)
    | any =>
      simp only [schema, SRes.ok.injEq] at hs
      obtain ⟨rfl, _⟩ := hs
      exact total_annotate _ (fun d => ⟨1, _, valid_empty' P 0 d⟩)
    | nullish x =>
      simp only [schema, SRes.ok.injEq] at hs
      obtain ⟨rfl, _⟩ := hs
      exact total_annotate _ (fun d => ⟨1, _, valid_type_eq P 0 "null" d⟩)
    | never =>
      simp only [schema, SRes.ok.injEq] at hs
      obtain ⟨rfl, _⟩ := hs
      exact total_annotate _ (fun d => ⟨2, _, valid_never_eq P 0 d⟩)
    | const v =>
      simp only [schema, flat, Bool.false_eq_true, if_false, SRes.ok.injEq] at hs
      obtain ⟨rfl, _⟩ := hs
      exact total_annotate _ (fun d => ⟨1, _, valid_const_eq P 0 _ d⟩)
    | consts vs =>
      simp only [schema] at hs
      split at hs
      · simp only [SRes.ok.injEq] at hs
        obtain ⟨rfl, _⟩ := hs
        exact total_annotate _ (fun d => ⟨1, _, valid_type_enum_eq P 0 _ vs d⟩)
      · simp only [SRes.ok.injEq] at hs
        obtain ⟨rfl, _⟩ := hs
        exact total_annotate _ (fun d => ⟨1, _, valid_enum_eq P 0 vs d⟩)
    | ref name =>
      simp only [frag, Bool.and_eq_true, Bool.not_eq_true'] at hf
      obtain ⟨hseen, hlk⟩ := hf
      cases hl : env.lookup name with
      | none => rw [hl] at hlk; cases hlk
      | some t =>
        rw [hl] at hlk
        simp only [schema, hl, flat, Bool.false_eq_true, if_false] at hs
        have hseen' : seen.contains name = false := hseen
        rw [hseen'] at hs
        simp only [Bool.false_eq_true, if_false] at hs
        cases hr : schema env ⟨false, "", []⟩ n t none (name :: seen) c with
        | ok s0 c0 =>
          rw [hr] at hs
          simp only [SRes.ok.injEq] at hs
          obtain ⟨rfl, _⟩ := hs
          exact total_annotate _ (ih (name :: seen) t none c s0 c0 hlk hr)
        | throw e => rw [hr] at hs; cases hs
        | nofuel => rw [hr] at hs; cases hs
    | array t =>
      simp only [frag] at hf
      simp only [schema] at hs
      cases hr : schema env flat n t none seen c with
      | throw e => rw [hr] at hs; cases hs
      | nofuel => rw [hr] at hs; cases hs
      | ok s0 c0 =>
        rw [hr] at hs
        simp only [SRes.ok.injEq] at hs
        obtain ⟨rfl, _⟩ := hs
        have g := ih seen t none c s0 c0 hf hr
        apply total_annotate
        intro d
        have hK : ∃ K, ∀ items, d = .arr items → ∀ x ∈ items, ∃ b, valid P K s0 x = some b := by
          cases d with
          | arr items =>
            obtain ⟨K, _, hK⟩ := common_fuel2 P (fun _ _ _ => True) (items.map (fun x => (s0, x))) (fun p hp => by
              obtain ⟨x, _, rfl⟩ := List.mem_map.1 hp
              obtain ⟨k, b, e⟩ := g x
              exact ⟨k, b, e, trivial⟩)
            refine ⟨K, fun items' e x hx => ?_⟩
            cases e
            obtain ⟨b, e, _⟩ := hK (s0, x) (List.mem_map.2 ⟨x, hx, rfl⟩)
            exact ⟨b, e⟩
          | _ => exact ⟨0, fun items' e => by cases e⟩
        obtain ⟨K, hK⟩ := hK
        obtain ⟨b, hb⟩ := exists_of_isSome (valid_array_defined (P := P) (k := K) (s := s0) (d := d) hK)
        exact ⟨K + 1, b, hb⟩
    | optional t =>
      simp only [frag] at hf
      simp only [schema] at hs
      cases hr : schema env flat n t none seen c with
      | throw e => rw [hr] at hs; cases hs
      | nofuel => rw [hr] at hs; cases hs
      | ok s0 c0 =>
        rw [hr] at hs
        simp only [SRes.ok.injEq] at hs
        obtain ⟨rfl, _⟩ := hs
        have g := ih seen t none c s0 c0 hf hr
        intro d
        obtain ⟨K, _, hK⟩ := common_fuel P d (fun _ _ => True) [s0, jobj [("type", .str "null")]] (fun v hv => by
          simp only [List.mem_cons, List.mem_nil_iff, or_false] at hv
          rcases hv with rfl | rfl
          · obtain ⟨k, b, e⟩ := g d; exact ⟨k, b, e, trivial⟩
          · exact ⟨1, _, valid_type_eq P 0 "null" d, trivial⟩)
        obtain ⟨b, hb⟩ := anyO_defined (l := [s0, jobj [("type", .str "null")]]) (f := fun s => valid P K s d) (fun x hx => by
          obtain ⟨b, e, _⟩ := hK x hx; exact ⟨b, e⟩)
        exact ⟨K + 1, b, by rw [valid_anyOf_eq]; exact hb⟩
    | anyOf ts =>
      simp only [frag, List.all_eq_true] at hf
      simp only [schema] at hs
      cases hr : seqS (fun t c => schema env flat n t none seen c) ts c with
      | throw e => rw [hr] at hs; cases hs
      | nofuel => rw [hr] at hs; cases hs
      | ok ss c0 =>
        rw [hr] at hs
        simp only [SRes.ok.injEq] at hs
        obtain ⟨rfl, _⟩ := hs
        obtain ⟨hlen, hz⟩ := seqS_spec _ ts c ss c0 hr
        apply total_annotate
        intro d
        obtain ⟨K, _, hK⟩ := common_fuel P d (fun _ _ => True) ss (fun s hs' => by
          obtain ⟨t, ht⟩ := exists_left_of_mem_zip_right (l := ts) hlen hs'
          obtain ⟨c1, c2, e⟩ := hz _ ht
          obtain ⟨k, b, e'⟩ := ih seen t none c1 s c2 (hf t (List.of_mem_zip ht).1) e d
          exact ⟨k, b, e', trivial⟩)
        obtain ⟨b, hb⟩ := anyO_defined (l := ss) (f := fun s => valid P K s d) (fun x hx => by
          obtain ⟨b, e, _⟩ := hK x hx; exact ⟨b, e⟩)
        exact ⟨K + 1, b, by rw [valid_anyOf_eq]; exact hb⟩
    | tuple pre rest =>
      simp only [frag, Bool.and_eq_true, List.all_eq_true] at hf
      obtain ⟨hfpre, hfrest⟩ := hf
      simp only [schema] at hs
      cases hr : seqS (fun t c => schema env flat n t none seen c) pre c with
      | throw e => rw [hr] at hs; cases hs
      | nofuel => rw [hr] at hs; cases hs
      | ok ps c1 =>
        rw [hr] at hs
        simp only at hs
        obtain ⟨hlen, hz⟩ := seqS_spec _ pre c ps c1 hr
        have gz : ∀ s' ∈ ps, Total P s' := by
          intro s' hs'
          obtain ⟨t, ht⟩ := exists_left_of_mem_zip_right (l := pre) hlen hs'
          obtain ⟨d1, d2, e⟩ := hz _ ht
          exact ih seen t none d1 s' d2 (hfpre t (List.of_mem_zip ht).1) e
        have hrest : ∃ (items : JsVal) (_c2 : SCtx), s = annotate desc (jobj ([("type", JsVal.str "array")] ++ (if ps.length > 0 then [("prefixItems", JsVal.arr ps)] else []) ++
              [("items", items), ("minItems", JsVal.num (natToCanon pre.length))])) ∧ Total P items := by
          cases rest with
          | some r =>
            simp only at hs hfrest
            cases hi : schema env flat n r none seen c1 with
            | throw e => rw [hi] at hs; cases hs
            | nofuel => rw [hi] at hs; cases hs
            | ok items c2 =>
              rw [hi] at hs
              simp only [SRes.ok.injEq] at hs
              exact ⟨items, c2, hs.1.symm, ih seen r none c1 items c2 hfrest hi⟩
          | none =>
            simp only [SRes.ok.injEq] at hs
            exact ⟨.bool false, c1, hs.1.symm, fun d => ⟨1, false, rfl⟩⟩
        obtain ⟨items, c2, rfl, gi⟩ := hrest
        apply total_annotate
        intro d
        have hK : ∃ K, (∀ xs, d = .arr xs → ∀ p ∈ ps.zip xs, ∃ b, valid P K p.1 p.2 = some b) ∧
            (∀ xs, d = .arr xs → ∀ x ∈ xs.drop ps.length, ∃ b, valid P K items x = some b) := by
          cases d with
          | arr xs =>
            obtain ⟨K, _, hK⟩ := common_fuel2 P (fun _ _ _ => True) (ps.zip xs ++ (xs.drop ps.length).map (fun x => (items, x))) (fun p hp => by
              rcases List.mem_append.1 hp with hp | hp
              · obtain ⟨k, b, e⟩ := gz p.1 (List.of_mem_zip hp).1 p.2
                exact ⟨k, b, e, trivial⟩
              · obtain ⟨x, _, rfl⟩ := List.mem_map.1 hp
                obtain ⟨k, b, e⟩ := gi x
                exact ⟨k, b, e, trivial⟩)
            refine ⟨K, ?_, ?_⟩
            · intro xs' e p hp
              cases e
              obtain ⟨b, e, _⟩ := hK p (List.mem_append.2 (Or.inl hp))
              exact ⟨b, e⟩
            · intro xs' e x hx
              cases e
              obtain ⟨b, e, _⟩ := hK (items, x) (List.mem_append.2 (Or.inr (List.mem_map.2 ⟨x, hx, rfl⟩)))
              exact ⟨b, e⟩
          | _ => exact ⟨0, ⟨(fun xs e => by cases e), (fun xs e => by cases e)⟩⟩
        obtain ⟨K, hK1, hK2⟩ := hK
        obtain ⟨b, hb⟩ := exists_of_isSome (valid_tuple_defined (P := P) (k := K) (ps := ps) (items := items) (n := pre.length) (d := d) hK1 hK2)
        exact ⟨K + 1, b, hb⟩
    | object props ix =>
      simp only [frag, Bool.and_eq_true, List.all_eq_true, Bool.not_eq_true'] at hf
      obtain ⟨⟨hix, hnd⟩, hprops⟩ := hf
      have hix' : ix = [] := by cases ix <;> simp_all
      subst hix'
      simp only [schema] at hs
      cases hr : propsS (fun t c => schema env flat n t none seen c) props ([], []) c with
      | throw e => rw [hr] at hs; cases hs
      | nofuel => rw [hr] at hs; cases hs
      | ok acc c1 =>
        obtain ⟨ps, opt⟩ := acc
        rw [hr] at hs
        simp only [indexS, List.length_nil, beq_self_eq_true, if_true, SRes.ok.injEq] at hs
        obtain ⟨rfl, _⟩ := hs
        -- the stored property schemas answer everywhere
        have gps : ∀ q ∈ ps, Total P q.2 := by
          intro q hq
          rcases propsS_mem _ props [] [] c ps opt c1 hr q hq with h0 | ⟨p, hp, raw, d1, d2, e1, e2⟩
          · cases h0
          · have graw : Total P raw := ih seen p.2 none d1 raw d2 (hprops p hp).2 e1
            have gpure := (good_core P env n seen p.2 none d1 raw d2 (hprops p hp).2 e1).gs.pure 50
            subst e2
            cases hrr : removeNullUnionBranch 50 raw with
            | none => simpa using graw
            | some rw' =>
              simp only [Option.getD_some]
              intro d
              obtain ⟨k, b, e⟩ := graw d
              obtain ⟨k', b', e', _⟩ := rnb_def P 50 raw rw' gpure hrr k d b e
              exact ⟨k', b', e'⟩
        apply total_annotate
        intro d
        have hK : ∃ K, ∀ dprops, d = .obj dprops → ∀ p ∈ ps, ∀ x, lookupProp dprops p.1 = some x → (valid P (K+1) p.2 x).isSome = true := by
          cases d with
          | obj dprops =>
            obtain ⟨K, hK1, hK⟩ := common_fuel2 P (fun _ _ _ => True)
              (ps.filterMap (fun p => (lookupProp dprops p.1).map (fun x => (p.2, x)))) (fun pr hpr => by
                obtain ⟨p, hp, e⟩ := List.mem_filterMap.1 hpr
                cases hx : lookupProp dprops p.1 with
                | none => rw [hx] at e; cases e
                | some x =>
                  rw [hx] at e
                  simp only [Option.map_some, Option.some.injEq] at e
                  subst e
                  obtain ⟨k, b, e'⟩ := gps p hp x
                  exact ⟨k, b, e', trivial⟩)
            refine ⟨K, fun dprops' e p hp x hx => ?_⟩
            cases e
            obtain ⟨b, e', _⟩ := hK (p.2, x) (List.mem_filterMap.2 ⟨p, hp, by rw [hx]; rfl⟩)
            rw [valid_mono P K _ _ _ e']; rfl
          | _ => exact ⟨0, fun dprops e => by cases e⟩
        obtain ⟨K, hK⟩ := hK
        obtain ⟨b, hb⟩ := exists_of_isSome (valid_object_defined (P := P) (k := K) (ps := ps)
          (required := List.filter (fun k => !opt.contains k) (List.map (fun x => x.fst) props)) (d := d) hK)
        exact ⟨K + 2, b, hb⟩
    | _ => simp [frag] at hf

/-! ### the validator side of completeness -/

theorem allShort_true {α : Type} {f : α → Res Bool} {l : List α} (h : allShort f l = .ok true) : ∀ x ∈ l, f x = .ok true := by
  induction l with
  | nil => intro x hx; cases hx
  | cons y ys ih =>
    simp only [allShort] at h
    cases hy : f y with
    | ok b =>
      cases b with
      | true =>
        rw [hy] at h
        intro x hx
        rcases List.mem_cons.1 hx with rfl | hx
        · exact hy
        · exact ih h x hx
      | false => rw [hy] at h; cases h
    | throw c => rw [hy] at h; cases h
    | nofuel => rw [hy] at h; cases h

theorem anyShort_true {α : Type} {f : α → Res Bool} {l : List α} (h : anyShort f l = .ok true) : ∃ x ∈ l, f x = .ok true := by
  induction l with
  | nil => simp [anyShort] at h
  | cons y ys ih =>
    simp only [anyShort] at h
    cases hy : f y with
    | ok b =>
      cases b with
      | true => exact ⟨y, List.mem_cons_self, hy⟩
      | false =>
        rw [hy] at h
        obtain ⟨x, hx, e⟩ := ih h
        exact ⟨x, List.mem_cons_of_mem _ hx, e⟩
    | throw c => rw [hy] at h; cases h
    | nofuel => rw [hy] at h; cases h

/-- the answers of the validator of a fragment type do not depend on the fuel, once there is enough -/
theorem validate_frag_stable (env : Env) : ∀ n seen rt, frag env n seen rt = true →
    ∀ m, n ≤ m → ∀ strict d, validate env strict m rt d = validate env strict n rt d := by
  intro n
  induction n with
  | zero => intro seen rt h; simp [frag] at h
  | succ n ih =>
    intro seen rt h m hm strict d
    cases m with
    | zero => omega
    | succ m =>
      have hm' : n ≤ m := by omega
      cases rt with
      | described x t => simp only [frag] at h; simp only [validate]; exact ih seen t h m hm' strict d
      | typeof t => simp [validate]
      | any => simp [validate]
      | nullish _ => simp [validate]
      | never => simp [validate]
      | const v => simp [validate]
      | consts vs => simp [validate]
      | array t =>
        simp only [frag] at h
        simp only [validate]
        cases d with
        | arr xs => exact allShort_congr (fun x _ => ih seen t h m hm' strict x)
        | _ => rfl
      | tuple pre rest =>
        simp only [frag, Bool.and_eq_true, List.all_eq_true] at h
        simp only [validate]
        cases d with
        | arr xs =>
          simp only
          rw [allShort_congr (f := fun (p : RT × Nat) => validate env strict m p.1 (xs.getD p.2 .undef))
            (g := fun (p : RT × Nat) => validate env strict n p.1 (xs.getD p.2 .undef))
            (fun q hq => ih seen q.1 (h.1 q.1 (List.of_mem_zip hq).1) m hm' strict _)]
          cases rest with
          | none => rfl
          | some r =>
            simp only
            rw [allShort_congr (f := fun x => validate env strict m r x) (g := fun x => validate env strict n r x)
              (l := List.drop pre.length xs) (fun x _ => ih seen r h.2 m hm' strict x)]
        | _ => rfl
      | anyOf ts =>
        simp only [frag, List.all_eq_true] at h
        simp only [validate]
        exact anyShort_congr (fun t ht => ih seen t (h t ht) m hm' strict d)
      | optional t =>
        simp only [frag] at h
        simp only [validate]
        split
        · rfl
        · exact ih seen t h m hm' strict d
      | object props ix =>
        simp only [frag, Bool.and_eq_true, List.all_eq_true, Bool.not_eq_true'] at h
        obtain ⟨⟨hix, _⟩, hprops⟩ := h
        simp only [validate]
        rw [allShort_congr (f := fun (p : String × RT) => validate env strict m p.2 (d.getProp p.1))
          (g := fun (p : String × RT) => validate env strict n p.2 (d.getProp p.1))
          (fun p hp => ih seen p.2 (hprops p hp).2 m hm' strict _)]
        have hix' : ix = [] := by cases ix <;> simp_all
        subst hix'
        rfl
      | ref name =>
        simp only [frag, Bool.and_eq_true] at h
        simp only [validate]
        cases hl : env.lookup name with
        | none => rfl
        | some t =>
          rw [hl] at h
          exact ih (name :: seen) t h.2 m hm' strict d
      | _ => simp [frag] at h

/-! ### null-free documents, and the fragment of the converse -/

/-- JSON documents without `null` (and without `undefined`) at any depth -/
inductive NF : JsVal → Prop
  | bool (b : Bool) : NF (.bool b)
  | num (c : String) : NF (.num c)
  | str (s : String) : NF (.str s)
  | arr (xs : List JsVal) : (∀ x, x ∈ xs → NF x) → NF (.arr xs)
  | obj (ps : List (String × JsVal)) : (∀ p, p ∈ ps → NF p.2) → NF (.obj ps)

theorem NF.not_nullish {d : JsVal} (h : NF d) : d.isNullish = false := by cases h <;> rfl
theorem NF.not_null {d : JsVal} (h : NF d) : typeOk "null" d = false := by cases h <;> rfl

/-- the extra condition of the converse (the deviations D48 / S6 are outside it): a property that is not an optional
wrapper, and every tuple element, has a type that REJECTS `undefined` — then "the key is missing" and "the slot is
missing" cannot be accepted by reading `undefined` -/
def rejU (env : Env) : Nat → List String → RT → Bool
  | 0, _, _ => true
  | n+1, seen, rt =>
    match rt with
    | .described _ t => rejU env n seen t
    | .array t => rejU env n seen t
    | .tuple pre rest => pre.all (fun t => rejU env n seen t && decide (validate env true n t .undef = .ok false)) &&
        (match rest with | some r => rejU env n seen r | none => true)
    | .anyOf ts => ts.all (rejU env n seen)
    | .optional t => rejU env n seen t
    | .object props _ => props.all (fun p => rejU env n seen p.2 && (isOptionalRT p.2 || decide (validate env true n p.2 .undef = .ok false)))
    | .ref name => (match env.lookup name with | some t => rejU env n (name :: seen) t | none => true)
    | _ => true

theorem strict_jsonEq {v d : JsVal} (hp : primConst v = true) (hn : v.isNullish = false) (h : strictEqPrim d v = true) :
    jsonEq 50 v d = true := by
  cases v <;> simp [primConst, JsVal.isNullish] at hp hn <;> cases d <;> simp [jsonEq, strictEqPrim] at h ⊢
  · exact h.symm
  · rename_i a b
    unfold numStrictEq at h
    unfold numSameValueZero
    split at h
    · cases h
    · simp only [beq_iff_eq] at h ⊢; exact h.symm
  · exact h.symm

theorem svz_jsonEq {v d : JsVal} (hp : primConst v = true) (h : sameValueZeroPrim v d = true) : jsonEq 50 v d = true := by
  cases v <;> simp [primConst] at hp <;> cases d <;> simp [jsonEq, sameValueZeroPrim, strictEqPrim] at h ⊢ <;> exact h

theorem svz_typeOk {v d : JsVal} {tp : String} (hp : primConst v = true) (ht : typeofOfConst v = some tp)
    (h : sameValueZeroPrim v d = true) : typeOk tp d = true := by
  cases v <;> simp [primConst, typeofOfConst] at hp ht <;> subst ht <;> cases d <;> simp [sameValueZeroPrim, strictEqPrim, typeOk] at h ⊢

/-- the list of optional names only grows, and every optional wrapper is in it -/
theorem propsS_opt (go : RT → SCtx → SRes JsVal) :
    ∀ (props : List (String × RT)) (ps0 : List (String × JsVal)) (opt0 : List String) (c : SCtx)
      (ps : List (String × JsVal)) (opt : List String) (c1 : SCtx),
      propsS go props (ps0, opt0) c = .ok (ps, opt) c1 →
      (∀ k ∈ opt0, k ∈ opt) ∧ (∀ p ∈ props, isOptionalRT p.2 = true → p.1 ∈ opt) := by
  intro props
  induction props with
  | nil =>
    intro ps0 opt0 c ps opt c1 h
    simp only [propsS, SRes.ok.injEq, Prod.mk.injEq] at h
    obtain ⟨⟨_, rfl⟩, _⟩ := h
    exact ⟨fun k hk => hk, by simp⟩
  | cons p rest ih =>
    intro ps0 opt0 c ps opt c1 h
    simp only [propsS] at h
    cases hg : go p.2 c with
    | throw e => rw [hg] at h; cases h
    | nofuel => rw [hg] at h; cases h
    | ok raw c' =>
      rw [hg] at h
      simp only at h
      cases hr : removeNullUnionBranch 50 raw with
      | some rw' =>
        rw [hr] at h
        obtain ⟨i1, i2⟩ := ih _ _ _ _ _ _ h
        refine ⟨fun k hk => i1 k (List.mem_append.2 (Or.inl hk)), ?_⟩
        intro q hq ho
        rcases List.mem_cons.1 hq with rfl | hq
        · exact i1 _ (List.mem_append.2 (Or.inr (by simp)))
        · exact i2 q hq ho
      | none =>
        rw [hr] at h
        obtain ⟨i1, i2⟩ := ih _ _ _ _ _ _ h
        refine ⟨fun k hk => i1 k (by split <;> simp [hk]), ?_⟩
        intro q hq ho
        rcases List.mem_cons.1 hq with rfl | hq
        · exact i1 _ (by rw [if_pos ho]; simp)
        · exact i2 q hq ho

/-! ### the converse theorem -/

theorem complete_annotate {P : Params} {s d : JsVal} (desc : Option String) (h : ∃ k, valid P k s d = some true) :
    ∃ k, valid P k (annotate desc s) d = some true := by
  obtain ⟨k, e⟩ := h; exact ⟨k, by rw [valid_annotate]; exact e⟩

theorem typeofOfConst_congr {v h : JsVal} {tp : String} (hv : primConst v = true) (hj : jsTypeof v = jsTypeof h)
    (ht : typeofOfConst h = some tp) : typeofOfConst v = some tp := by
  cases h <;> simp [typeofOfConst] at ht <;> subst ht <;> cases v <;> simp [primConst, jsTypeof, JsVal.typeOf, typeofOfConst] at hv hj ⊢

/-- verdicts `true` of finitely many (schema, value) pairs are found at a common fuel -/
theorem common_true (P : Params) (l : List (JsVal × JsVal)) (h : ∀ p ∈ l, ∃ k, valid P k p.1 p.2 = some true) :
    ∃ K, 1 ≤ K ∧ ∀ p ∈ l, valid P K p.1 p.2 = some true := by
  obtain ⟨K, hK1, hK⟩ := common_fuel2 P (fun _ _ b => b = true) l (fun p hp => by
    obtain ⟨k, e⟩ := h p hp; exact ⟨k, true, e, rfl⟩)
  exact ⟨K, hK1, fun p hp => by obtain ⟨b, e, rfl⟩ := hK p hp; exact e⟩

theorem complete_core (P : Params) (env : Env) : ∀ n seen rt desc c s c', frag env n seen rt = true → rejU env n seen rt = true →
    schema env flat n rt desc seen c = .ok s c' → ∀ d, NF d → validate env true n rt d = .ok true →
    ∃ k, valid P k s d = some true := by
  intro n
  induction n with
  | zero => intro seen rt desc c s c' h; simp [frag] at h
  | succ n ih =>
    intro seen rt desc c s c' hf hu hs d hd hv
    cases rt with
    | described x t =>
      simp only [frag] at hf
      simp only [rejU] at hu
      simp only [schema] at hs
      simp only [validate] at hv
      exact ih seen t (some x) c s c' hf hu hs d hd hv
    | typeof t =>
      simp only [schema, SRes.ok.injEq] at hs
      obtain ⟨rfl, _⟩ := hs
      apply complete_annotate
      refine ⟨1, ?_⟩
      rw [valid_type_eq]
      simp only [validate, Res.ok.injEq, beq_iff_eq] at hv
      simp only [frag, Bool.or_eq_true, beq_iff_eq] at hf
      rcases hf with (h | h) | h <;> subst h <;> cases d <;> simp [JsVal.typeOf, typeOk] at hv ⊢
    | any =>
      simp only [schema, SRes.ok.injEq] at hs
      obtain ⟨rfl, _⟩ := hs
      exact complete_annotate _ ⟨1, valid_empty' P 0 d⟩
    | nullish x =>
      simp only [validate, Res.ok.injEq] at hv
      rw [hd.not_nullish] at hv; cases hv
    | never => simp [validate] at hv
    | const v =>
      simp only [frag, Bool.or_eq_true] at hf
      simp only [schema, flat, Bool.false_eq_true, if_false, SRes.ok.injEq] at hs
      obtain ⟨rfl, _⟩ := hs
      apply complete_annotate
      simp only [validate, Res.ok.injEq] at hv
      cases hn : v.isNullish with
      | true => rw [hn] at hv; simp only [if_true] at hv; rw [hd.not_nullish] at hv; cases hv
      | false =>
        rw [hn] at hv
        simp only [Bool.false_eq_true, if_false] at hv ⊢
        have hp : primConst v = true := by
          rcases hf with h | h
          · exact h
          · rw [hn] at h; cases h
        exact ⟨1, by rw [valid_const_eq, strict_jsonEq hp hn hv]⟩
    | consts vs =>
      simp only [frag, List.all_eq_true] at hf
      simp only [validate, Res.ok.injEq] at hv
      rw [hd.not_nullish] at hv
      simp only [Bool.false_and, Bool.false_or, List.any_eq_true] at hv
      obtain ⟨v, hvm, hsv⟩ := hv
      have hany : vs.any (fun c => jsonEq 50 c d) = true := List.any_eq_true.2 ⟨v, hvm, svz_jsonEq (hf v hvm) hsv⟩
      simp only [schema] at hs
      split at hs
      · rename_i tp htp
        simp only [SRes.ok.injEq] at hs
        obtain ⟨rfl, _⟩ := hs
        apply complete_annotate
        refine ⟨1, ?_⟩
        rw [valid_type_enum_eq, hany]
        split at htp
        · rename_i hsingle
          simp only [Bool.and_eq_true, List.all_eq_true, beq_iff_eq] at hsingle
          have := typeofOfConst_congr (hf v hvm) (hsingle.2 v hvm) htp
          rw [svz_typeOk (hf v hvm) this hsv]; rfl
        · cases htp
      · simp only [SRes.ok.injEq] at hs
        obtain ⟨rfl, _⟩ := hs
        exact complete_annotate _ ⟨1, by rw [valid_enum_eq, hany]⟩
    | ref name =>
      simp only [frag, Bool.and_eq_true, Bool.not_eq_true'] at hf
      obtain ⟨hseen, hlk⟩ := hf
      cases hl : env.lookup name with
      | none => rw [hl] at hlk; cases hlk
      | some t =>
        rw [hl] at hlk
        simp only [rejU, hl] at hu
        simp only [validate, hl] at hv
        simp only [schema, hl, flat, Bool.false_eq_true, if_false] at hs
        have hseen' : seen.contains name = false := hseen
        rw [hseen'] at hs
        simp only [Bool.false_eq_true, if_false] at hs
        cases hr : schema env ⟨false, "", []⟩ n t none (name :: seen) c with
        | ok s0 c0 =>
          rw [hr] at hs
          simp only [SRes.ok.injEq] at hs
          obtain ⟨rfl, _⟩ := hs
          exact complete_annotate _ (ih (name :: seen) t none c s0 c0 hlk hu hr d hd hv)
        | throw e => rw [hr] at hs; cases hs
        | nofuel => rw [hr] at hs; cases hs
    | array t =>
      simp only [frag] at hf
      simp only [rejU] at hu
      simp only [schema] at hs
      cases hr : schema env flat n t none seen c with
      | throw e => rw [hr] at hs; cases hs
      | nofuel => rw [hr] at hs; cases hs
      | ok s0 c0 =>
        rw [hr] at hs
        simp only [SRes.ok.injEq] at hs
        obtain ⟨rfl, _⟩ := hs
        apply complete_annotate
        simp only [validate] at hv
        cases hd with
        | arr items hitems =>
          simp only at hv
          have hall := allShort_true hv
          obtain ⟨K, _, hK⟩ := common_true P (items.map (fun x => (s0, x))) (fun p hp => by
            obtain ⟨x, hx, rfl⟩ := List.mem_map.1 hp
            exact ih seen t none c s0 c0 hf hu hr x (hitems x hx) (hall x hx))
          exact ⟨K + 1, valid_array_intro (fun x hx => hK (s0, x) (List.mem_map.2 ⟨x, hx, rfl⟩))⟩
        | _ => simp at hv
    | optional t =>
      simp only [frag] at hf
      simp only [rejU] at hu
      simp only [schema] at hs
      cases hr : schema env flat n t none seen c with
      | throw e => rw [hr] at hs; cases hs
      | nofuel => rw [hr] at hs; cases hs
      | ok s0 c0 =>
        rw [hr] at hs
        simp only [SRes.ok.injEq] at hs
        obtain ⟨rfl, _⟩ := hs
        simp only [validate, hd.not_nullish, Bool.false_eq_true, if_false] at hv
        obtain ⟨k, hk⟩ := ih seen t none c s0 c0 hf hu hr d hd hv
        refine ⟨max k 1 + 1, ?_⟩
        rw [valid_anyOf_eq]
        apply anyO_eq_of
        · intro x hx
          simp only [List.mem_cons, List.mem_nil_iff, or_false] at hx
          rcases hx with rfl | rfl
          · exact ⟨true, valid_mono_le P (Nat.le_max_left _ _) _ _ _ hk⟩
          · exact ⟨_, valid_mono_le P (Nat.le_max_right k 1) _ _ _ (valid_type_eq P 0 "null" d)⟩
        · intro _
          exact ⟨s0, by simp, valid_mono_le P (Nat.le_max_left _ _) _ _ _ hk⟩
        · intro _ _ _; rfl
    | anyOf ts =>
      simp only [frag, List.all_eq_true] at hf
      simp only [rejU, List.all_eq_true] at hu
      simp only [schema] at hs
      cases hr : seqS (fun t c => schema env flat n t none seen c) ts c with
      | throw e => rw [hr] at hs; cases hs
      | nofuel => rw [hr] at hs; cases hs
      | ok ss c0 =>
        rw [hr] at hs
        simp only [SRes.ok.injEq] at hs
        obtain ⟨rfl, _⟩ := hs
        obtain ⟨hlen, hz⟩ := seqS_spec _ ts c ss c0 hr
        apply complete_annotate
        simp only [validate] at hv
        obtain ⟨t, ht, hvt⟩ := anyShort_true hv
        obtain ⟨st, hst⟩ := exists_right_of_mem_zip_left (r := ss) hlen ht
        obtain ⟨d1, d2, e⟩ := hz _ hst
        obtain ⟨k0, hk0⟩ := ih seen t none d1 st d2 (hf t ht) (hu t ht) e d hd hvt
        obtain ⟨K, _, hK⟩ := common_fuel P d (fun s' b => s' = st → b = true) ss (fun s' hs' => by
          by_cases hse : s' = st
          · subst hse; exact ⟨k0, true, hk0, fun _ => rfl⟩
          · obtain ⟨t', ht'⟩ := exists_left_of_mem_zip_right (l := ts) hlen hs'
            obtain ⟨e1, e2, e'⟩ := hz _ ht'
            obtain ⟨k, b, hb⟩ := total_core P env n seen t' none e1 s' e2 (hf t' (List.of_mem_zip ht').1) e' d
            exact ⟨k, b, hb, fun h => absurd h hse⟩)
        refine ⟨K + 1, ?_⟩
        rw [valid_anyOf_eq]
        apply anyO_eq_of
        · intro x hx
          obtain ⟨b, hb, _⟩ := hK x hx
          exact ⟨b, hb⟩
        · intro _
          obtain ⟨b, hb, hq⟩ := hK st (List.of_mem_zip hst).2
          exact ⟨st, (List.of_mem_zip hst).2, by rw [hb, hq rfl]⟩
        · intro _ _ _; rfl
    | tuple pre rest =>
      simp only [frag, Bool.and_eq_true, List.all_eq_true] at hf
      obtain ⟨hfpre, hfrest⟩ := hf
      simp only [rejU, Bool.and_eq_true, List.all_eq_true, decide_eq_true_eq] at hu
      obtain ⟨hupre, hurest⟩ := hu
      simp only [schema] at hs
      cases hr : seqS (fun t c => schema env flat n t none seen c) pre c with
      | throw e => rw [hr] at hs; cases hs
      | nofuel => rw [hr] at hs; cases hs
      | ok ps c1 =>
        rw [hr] at hs
        simp only at hs
        obtain ⟨hlen, hz⟩ := seqS_spec _ pre c ps c1 hr
        simp only [validate] at hv
        cases hd with
        | arr xs hxs =>
          simp only at hv
          -- the prefix positions are accepted one by one
          have hA : allShort (fun (p : RT × Nat) => validate env true n p.1 (xs.getD p.2 .undef)) (pre.zip (List.range pre.length)) = .ok true := by
            revert hv
            generalize allShort (fun (p : RT × Nat) => validate env true n p.1 (xs.getD p.2 .undef)) (pre.zip (List.range pre.length)) = B
            intro hv
            cases B with
            | ok b => cases b with
              | true => rfl
              | false => cases hv
            | throw c => cases hv
            | nofuel => cases hv
          rw [hA] at hv
          simp only at hv
          have hpos := allShort_true hA
          -- no slot is missing: a missing slot reads `undefined`, which every element type rejects
          have hlenxs : pre.length ≤ xs.length := by
            apply Classical.byContradiction
            intro hlt
            have hi : xs.length < pre.length := by omega
            have hm : (pre[xs.length], xs.length) ∈ pre.zip (List.range pre.length) := by
              rw [List.mem_iff_getElem]
              exact ⟨xs.length, by rw [List.length_zip, List.length_range]; omega, by simp⟩
            have h1 := hpos _ hm
            have e3 : xs.getD xs.length .undef = .undef := by simp [List.getD]
            simp only [e3] at h1
            have h2 := (hupre _ (List.getElem_mem hi)).2
            rw [h1] at h2; cases h2
          have hrestS : ∃ (items : JsVal) (_c2 : SCtx), s = annotate desc (jobj ([("type", JsVal.str "array")] ++ (if ps.length > 0 then [("prefixItems", JsVal.arr ps)] else []) ++
                [("items", items), ("minItems", JsVal.num (natToCanon pre.length))])) ∧
              (∀ x ∈ xs.drop pre.length, ∃ k, valid P k items x = some true) := by
            cases rest with
            | some r =>
              simp only at hs hfrest hurest hv
              cases hi : schema env flat n r none seen c1 with
              | throw e => rw [hi] at hs; cases hs
              | nofuel => rw [hi] at hs; cases hs
              | ok items c2 =>
                rw [hi] at hs
                simp only [SRes.ok.injEq] at hs
                refine ⟨items, c2, hs.1.symm, ?_⟩
                intro x hx
                exact ih seen r none c1 items c2 hfrest hurest hi x (hxs x ((List.drop_sublist _ _).subset hx)) (allShort_true hv x hx)
            | none =>
              simp only [SRes.ok.injEq] at hs
              refine ⟨.bool false, c1, hs.1.symm, ?_⟩
              intro x hx
              simp only [Res.ok.injEq, Bool.not_eq_true', decide_eq_false_iff_not] at hv
              have : xs.drop pre.length = [] := by
                apply List.drop_eq_nil_of_le; omega
              rw [this] at hx; cases hx
          obtain ⟨items, c2, rfl, hitems⟩ := hrestS
          apply complete_annotate
          obtain ⟨K, _, hK⟩ := common_true P (ps.zip xs ++ (xs.drop pre.length).map (fun x => (items, x))) (fun p hp => by
            rcases List.mem_append.1 hp with hp | hp
            · obtain ⟨i, hi, e⟩ := List.mem_iff_getElem.1 hp
              rw [List.length_zip] at hi
              have hi1 : i < ps.length := by omega
              have hi2 : i < xs.length := by omega
              have hi3 : i < pre.length := hlen ▸ hi1
              have ep : p = (ps[i], xs[i]) := by rw [← e]; simp
              subst ep
              have hz1 : (pre[i], ps[i]) ∈ pre.zip ps := by
                rw [List.mem_iff_getElem]
                exact ⟨i, by rw [List.length_zip]; omega, by simp⟩
              obtain ⟨d1, d2, e'⟩ := hz _ hz1
              have hm : (pre[i], i) ∈ pre.zip (List.range pre.length) := by
                rw [List.mem_iff_getElem]
                exact ⟨i, by rw [List.length_zip, List.length_range]; omega, by simp⟩
              have h1 := hpos _ hm
              have e3 : xs.getD i .undef = xs[i] := by simp [List.getD, hi2]
              simp only [e3] at h1
              exact ih seen pre[i] none d1 ps[i] d2 (hfpre _ (List.getElem_mem hi3)) (hupre _ (List.getElem_mem hi3)).1 e' xs[i] (hxs _ (List.getElem_mem hi2)) h1
            · obtain ⟨x, hx, rfl⟩ := List.mem_map.1 hp
              exact hitems x hx)
          refine ⟨K + 1, valid_tuple_intro ?_ ?_ hlenxs⟩
          · intro p hp; exact hK p (List.mem_append.2 (Or.inl hp))
          · intro x hx
            exact hK (items, x) (List.mem_append.2 (Or.inr (List.mem_map.2 ⟨x, by rw [← hlen]; exact hx, rfl⟩)))
        | _ => simp at hv
    | object props ix =>
      simp only [frag, Bool.and_eq_true, List.all_eq_true, Bool.not_eq_true'] at hf
      obtain ⟨⟨hix, hnd⟩, hprops⟩ := hf
      have hix' : ix = [] := by cases ix <;> simp_all
      subst hix'
      simp only [rejU, List.all_eq_true, Bool.and_eq_true, Bool.or_eq_true, decide_eq_true_eq] at hu
      simp only [schema] at hs
      cases hr : propsS (fun t c => schema env flat n t none seen c) props ([], []) c with
      | throw e => rw [hr] at hs; cases hs
      | nofuel => rw [hr] at hs; cases hs
      | ok acc c1 =>
        obtain ⟨ps, opt⟩ := acc
        rw [hr] at hs
        simp only [indexS, List.length_nil, beq_self_eq_true, if_true, SRes.ok.injEq] at hs
        obtain ⟨rfl, _⟩ := hs
        obtain ⟨sp1, sp2, sp3⟩ := propsS_spec _ props [] [] c ps opt c1 hr hnd
        obtain ⟨_, so⟩ := propsS_opt _ props [] [] c ps opt c1 hr
        have sm := propsS_mem _ props [] [] c ps opt c1 hr
        apply complete_annotate
        simp only [validate] at hv
        cases hd with
        | obj dprops hdp =>
          have hobj : (!((JsVal.obj dprops).isObjectLike && !(JsVal.obj dprops).isArray)) = false := by
            simp [JsVal.isObjectLike, JsVal.typeOf, JsVal.isArray]
          rw [hobj] at hv
          simp only [Bool.false_eq_true, if_false] at hv
          have hA : allShort (fun (p : String × RT) => validate env true n p.2 ((JsVal.obj dprops).getProp p.1)) props = .ok true := by
            revert hv
            generalize allShort (fun (p : String × RT) => validate env true n p.2 ((JsVal.obj dprops).getProp p.1)) props = B
            intro hv
            cases B with
            | ok b => cases b with
              | true => rfl
              | false => cases hv
            | throw c => cases hv
            | nofuel => cases hv
          rw [hA] at hv
          simp only [List.length_nil, Nat.lt_irrefl, decide_false, Bool.false_eq_true, if_false, if_true, Res.ok.injEq, beq_iff_eq, List.length_eq_zero_iff] at hv
          have hpos := allShort_true hA
          -- the declared properties the document has
          have h1 : ∀ q ∈ ps, ∀ x, lookupProp dprops q.1 = some x → ∃ k, valid P k q.2 x = some true := by
            intro q hq x hx
            rcases sm q hq with h0 | ⟨p, hp, raw, d1, d2, e1, e2⟩
            · cases h0
            · subst e2
              have hk : protoNamedKey p.1 = false := (hprops p hp).1
              have hval := hpos p hp
              rw [getProp_obj hk] at hval
              simp only at hx
              rw [hx] at hval
              simp only [Option.getD_some] at hval
              have hnf : NF x := hdp (p.1, x) (lookupProp_mem hx)
              obtain ⟨k, hk'⟩ := ih seen p.2 none d1 raw d2 (hprops p hp).2 (hu p hp).1 e1 x hnf hval
              cases hrr : removeNullUnionBranch 50 raw with
              | none => exact ⟨k, by simpa using hk'⟩
              | some rw' =>
                have gpure := (good_core P env n seen p.2 none d1 raw d2 (hprops p hp).2 e1).gs.pure 50
                obtain ⟨k', b', e', hb'⟩ := rnb_def P 50 raw rw' gpure hrr k x true hk'
                exact ⟨k', by rw [Option.getD_some, e', hb' hnf.not_null]⟩
          -- a required property is there
          have h2 : ∀ r ∈ List.filter (fun k => !opt.contains k) (List.map (fun x => x.fst) props), (lookupProp dprops r).isSome = true := by
            intro r hr'
            obtain ⟨hrm, hro⟩ := List.mem_filter.1 hr'
            obtain ⟨p, hp, rfl⟩ := List.mem_map.1 hrm
            cases hx : lookupProp dprops p.1 with
            | some _ => rfl
            | none =>
              exfalso
              have hk : protoNamedKey p.1 = false := (hprops p hp).1
              have hval := hpos p hp
              rw [getProp_obj hk, hx] at hval
              simp only [Option.getD_none] at hval
              rcases (hu p hp).2 with ho | hrej
              · have := so p hp ho
                simp only [Bool.not_eq_true', List.contains_eq_mem, decide_eq_false_iff_not] at hro
                exact hro this
              · rw [hval] at hrej; cases hrej
          -- no undeclared key
          have h3 : ∀ q ∈ dprops, ps.any (fun p => p.1 == q.1) = true := by
            intro q hq
            have hqk : q.1 ∈ List.map (fun x => x.fst) props := by
              apply Classical.byContradiction
              intro hno
              have : q.1 ∈ List.filter (fun k => !(List.map (fun x => x.fst) props).contains k) (JsVal.obj dprops).ownKeys := by
                rw [List.mem_filter]
                exact ⟨by simp only [JsVal.ownKeys]; exact List.mem_map.2 ⟨q, hq, rfl⟩, by simpa using hno⟩
              rw [hv] at this; cases this
            obtain ⟨p, hp, e⟩ := List.mem_map.1 hqk
            obtain ⟨raw, _, _, _, hl, _⟩ := sp1 p hp
            cases hb : ps.any (fun p' => p'.1 == q.1) with
            | true => rfl
            | false =>
              have := lookupProp_none_iff.2 hb
              rw [← e, hl] at this; cases this
          obtain ⟨K, _, hK⟩ := common_true P (ps.filterMap (fun q => (lookupProp dprops q.1).map (fun x => (q.2, x)))) (fun pr hpr => by
            obtain ⟨q, hq, e⟩ := List.mem_filterMap.1 hpr
            cases hx : lookupProp dprops q.1 with
            | none => rw [hx] at e; cases e
            | some x =>
              rw [hx] at e
              simp only [Option.map_some, Option.some.injEq] at e
              subst e
              exact h1 q hq x hx)
          refine ⟨K + 1, valid_object_intro ?_ h2 h3⟩
          intro q hq x hx
          exact hK (q.2, x) (List.mem_filterMap.2 ⟨q, hq, by rw [hx]; rfl⟩)
        | _ => simp [JsVal.isObjectLike, JsVal.typeOf, JsVal.isArray] at hv
    | _ => simp [frag] at hf

/-- **C02, the converse on the structural fragment.** Every null-free JSON document that the validator accepts with
`disallowExtraProperties` (an exact member of the type) is valid against the schema flat `schema()` prints — for the types
of the fragment in which a property that is not an optional wrapper, and every tuple element, has a type that rejects
`undefined` (`rejU`: outside it lie the recorded deviation D48 — `{ a: unknown }` accepts `{}` where the schema requires
`a` — and its tuple counterpart). `m` is any validator fuel at least the depth `n` of the type. -/
theorem schema_complete_frag (P : Params) (env : Env) (n : Nat) (rt : RT) (c : SCtx) (s : JsVal) (c' : SCtx)
    (hf : frag env n [] rt = true) (hu : rejU env n [] rt = true) (hs : schema env flat n rt none [] c = .ok s c')
    (d : JsVal) (hd : NF d) (m : Nat) (hm : n ≤ m) (hv : validate env true m rt d = .ok true) :
    ∃ k, valid P k s d = some true :=
  complete_core P env n [] rt none c s c' hf hu hs d hd (by rw [← validate_frag_stable env n [] rt hf m hm true d]; exact hv)

/-- every verdict exists on the schemas of the fragment: the evaluator never runs dry on them, whatever the document -/
theorem schema_total_frag (P : Params) (env : Env) (n : Nat) (rt : RT) (c : SCtx) (s : JsVal) (c' : SCtx)
    (hf : frag env n [] rt = true) (hs : schema env flat n rt none [] c = .ok s c') (d : JsVal) :
    ∃ k b, valid P k s d = some b :=
  total_core P env n [] rt none c s c' hf hs d

/-- with `schema_sound_frag`: on null-free documents the schema and the strict validator say the same -/
theorem schema_exact_frag (P : Params) (env : Env) (n : Nat) (rt : RT) (c : SCtx) (s : JsVal) (c' : SCtx)
    (hf : frag env n [] rt = true) (hu : rejU env n [] rt = true) (hs : schema env flat n rt none [] c = .ok s c')
    (d : JsVal) (hd : NF d) (m : Nat) (hm : n ≤ m) :
    (∃ k, valid P k s d = some true) ↔ validate env true m rt d = .ok true :=
  ⟨fun ⟨k, hk⟩ => schema_sound_frag P env n rt c s c' hf hs k d hk m hm true,
   fun hv => schema_complete_frag P env n rt c s c' hf hu hs d hd m hm hv⟩

/-- non-vacuity: the example type of Props/C02Sound.lean meets the extra hypothesis, and its member is null-free -/
theorem fragment_example_converse : rejU exEnv 10 [] exRT = true ∧ NF (.obj [("from", .obj [("x", .num "1")]), ("to", .obj [("x", .num "2"), ("y", .num "3")]),
    ("kind", .str "b"), ("tags", .arr [.str "t"]), ("pair", .arr [.str "p", .bool true])]) := by
  refine ⟨by decide +kernel, ?_⟩
  refine NF.obj _ ?_
  intro p hp
  simp only [List.mem_cons, List.mem_nil_iff, or_false] at hp
  rcases hp with rfl | rfl | rfl | rfl | rfl
  · exact NF.obj _ (by intro q hq; simp only [List.mem_cons, List.mem_nil_iff, or_false] at hq; subst hq; exact NF.num _)
  · exact NF.obj _ (by intro q hq; simp only [List.mem_cons, List.mem_nil_iff, or_false] at hq; rcases hq with rfl | rfl <;> exact NF.num _)
  · exact NF.str _
  · exact NF.arr _ (by intro q hq; simp only [List.mem_cons, List.mem_nil_iff, or_false] at hq; subst hq; exact NF.str _)
  · exact NF.arr _ (by intro q hq; simp only [List.mem_cons, List.mem_nil_iff, or_false] at hq; rcases hq with rfl | rfl; exact NF.str _; exact NF.bool _)

end BeffVerif.C02F
