import BeffVerif.Props.C03Declared
/-!
# C03 — parsing the parsed value again returns it (structural fragment, input key order)

"parsing it again returns an equal value". `parse_idem`: for every type of the structural fragment of
`Props/C03Declared.lean` (no unions, no intersections), every environment, EVERY value and fuel: if the validator accepts `v`
and the parse step returns `d`, the parse step applied to `d` returns `d` — the same list of properties in the same order
at every object position, not merely an equivalent value. The object case needs more than the invariant of
`C03Declared.obj_fold`: the accumulator has distinct keys (`obj_fold_nodup`), none of them an array index, so that setting
its own entries again in order rebuilds it (`rebuild`, `setProp_append`).
-/
namespace BeffVerif.C03S
open BeffVerif RT JsVal C02F C11F

/-- re-applying an elementwise map to its own output, when the map is idempotent on the inputs at hand -/
theorem mapM'_idem {α : Type} (f : α → Res α) : ∀ (xs ys : List α), (∀ x ∈ xs, ∀ y, f x = .ok y → f y = .ok y) →
    mapM' f xs = .ok ys → mapM' f ys = .ok ys
  | [], ys, _, hm => by simp only [mapM'] at hm; cases hm; rfl
  | x :: xs, ys, h, hm => by
    simp only [mapM'] at hm
    cases hx : f x with
    | ok y =>
      rw [hx] at hm
      cases hxs : mapM' f xs with
      | ok ys' =>
        rw [hxs] at hm
        cases hm
        simp only [mapM', h x List.mem_cons_self y hx,
          mapM'_idem f xs ys' (fun x' hx' => h x' (List.mem_cons_of_mem _ hx')) hxs]
      | throw c => rw [hxs] at hm; cases hm
      | nofuel => rw [hxs] at hm; cases hm
    | throw c => rw [hx] at hm; cases hm
    | nofuel => rw [hx] at hm; cases hm

/-- rebuilding an association list with distinct, non-index keys by setting its own entries in order gives it back -/
theorem setProp_append (pre : List (String × JsVal)) (k : String) (y : JsVal)
    (hk : k ∉ pre.map (·.1)) (hi : arrayIndex? k = none) : setProp pre k y = pre ++ [(k, y)] := by
  unfold setProp
  have : pre.any (fun p => p.1 == k) = false := by
    cases h : pre.any (fun p => p.1 == k) with
    | false => rfl
    | true =>
      exfalso; apply hk
      obtain ⟨p, hp, e⟩ := List.any_eq_true.1 h
      exact List.mem_map.2 ⟨p, hp, by simpa using e⟩
  simp [this, hi]
end BeffVerif.C03S
namespace BeffVerif.C03S
open BeffVerif RT JsVal C02F C11F

theorem setProp_keys_nodup (acc : List (String × JsVal)) (k : String) (y : JsVal)
    (hn : (acc.map (·.1)).Nodup) (hi : arrayIndex? k = none) : ((setProp acc k y).map (·.1)).Nodup := by
  by_cases hk : k ∈ acc.map (·.1)
  · unfold setProp
    have : acc.any (fun p => p.1 == k) = true := by
      obtain ⟨p, hp, e⟩ := List.mem_map.1 hk
      exact List.any_eq_true.2 ⟨p, hp, by simp [e]⟩
    simp only [this, if_true]
    have hmap : (acc.map (fun p => if p.1 == k then (k, y) else p)).map (·.1) = acc.map (·.1) := by
      rw [List.map_map]
      apply List.map_congr_left
      intro p _
      simp only [Function.comp]
      split
      · rename_i e; simp at e; simp [e]
      · rfl
    rw [hmap]; exact hn
  · rw [setProp_append acc k y hk hi]
    simp only [List.map_append, List.map_cons, List.map_nil]
    exact List.nodup_append.2 ⟨hn, by simp, by
      intro a ha b hb
      simp only [List.mem_singleton] at hb
      subst hb
      intro e; subst e; exact hk ha⟩

/-- the accumulator of the object branch has distinct keys -/
theorem obj_fold_nodup (props : List (String × RT)) (pf : RT → JsVal → Res JsVal) (v : JsVal)
    (step : List (String × JsVal) → String → Res (List (String × JsVal)))
    (hstep : ∀ acc k acc', step acc k = .ok acc' →
      (∃ t y, parseAV.lookupProp' props k = some t ∧ pf t (v.getProp k) = .ok y ∧ acc' = setProp acc k y) ∨
      (parseAV.lookupProp' props k = none ∧ acc' = acc))
    (hsafe : ∀ k t, parseAV.lookupProp' props k = some t → arrayIndex? k = none) :
    ∀ (ks : List String) (acc0 acc : List (String × JsVal)), (acc0.map (·.1)).Nodup → foldRes step acc0 ks = .ok acc →
      (acc.map (·.1)).Nodup
  | [], acc0, acc, hn, hf => by simp only [foldRes] at hf; cases hf; exact hn
  | k :: ks, acc0, acc, hn, hf => by
    simp only [foldRes] at hf
    cases hs : step acc0 k with
    | ok acc1 =>
      rw [hs] at hf
      simp only at hf
      rcases hstep acc0 k acc1 hs with ⟨t, y, hl, _, e⟩ | ⟨_, e⟩
      · subst e
        exact obj_fold_nodup props pf v step hstep hsafe ks _ acc (setProp_keys_nodup acc0 k y hn (hsafe k t hl)) hf
      · subst e
        exact obj_fold_nodup props pf v step hstep hsafe ks _ acc hn hf
    | throw c => rw [hs] at hf; cases hf
    | nofuel => rw [hs] at hf; cases hf

/-- setting the entries of a list with distinct non-index keys, in order, rebuilds the list -/
theorem rebuild (step : List (String × JsVal) → String → Res (List (String × JsVal))) :
    ∀ (suffix pre : List (String × JsVal)), ((pre ++ suffix).map (·.1)).Nodup →
      (∀ p ∈ suffix, arrayIndex? p.1 = none) →
      (∀ acc' p, p ∈ suffix → step acc' p.1 = .ok (setProp acc' p.1 p.2)) →
      foldRes step pre (suffix.map (·.1)) = .ok (pre ++ suffix)
  | [], pre, _, _, _ => by simp [foldRes]
  | p :: ps, pre, hn, hi, hs => by
    simp only [List.map_cons, foldRes]
    rw [hs pre p List.mem_cons_self]
    simp only
    have hk : p.1 ∉ pre.map (·.1) := by
      intro hmem
      simp only [List.map_append, List.map_cons] at hn
      have := (List.nodup_append.1 hn).2.2 _ hmem p.1 List.mem_cons_self
      exact this rfl
    rw [setProp_append pre p.1 p.2 hk (hi p List.mem_cons_self)]
    have := rebuild step ps (pre ++ [p]) (by simpa using hn) (fun q hq => hi q (List.mem_cons_of_mem _ hq))
      (fun acc' q hq => hs acc' q (List.mem_cons_of_mem _ hq))
    simpa using this
end BeffVerif.C03S
namespace BeffVerif.C03S
open BeffVerif RT JsVal C02F C11F

theorem lookupProp'_mem_pair {props : List (String × RT)} {k : String} {t : RT} (h : parseAV.lookupProp' props k = some t) :
    (k, t) ∈ props := by
  unfold parseAV.lookupProp' at h
  cases hf : props.find? (fun p => p.1 == k) with
  | none => rw [hf] at h; cases h
  | some p =>
    rw [hf] at h
    have hm := List.mem_of_find?_eq_some hf
    have hk := List.find?_some hf
    simp only [beq_iff_eq] at hk
    cases h
    cases p
    simp only at hk
    subst hk
    exact hm

theorem lookupProp_of_mem_nodup : ∀ {l : List (String × JsVal)}, (l.map (·.1)).Nodup → ∀ p ∈ l, lookupProp l p.1 = some p.2
  | [], _, p, hp => by cases hp
  | q :: qs, hn, p, hp => by
    simp only [List.map_cons, List.nodup_cons] at hn
    unfold lookupProp
    simp only [List.find?_cons]
    rcases List.mem_cons.1 hp with e | hp'
    · subst e; simp
    · have hne : (q.1 == p.1) = false := by
        cases hq : (q.1 == p.1) with
        | false => rfl
        | true =>
          exfalso
          have : q.1 = p.1 := by simpa using hq
          exact hn.1 (this ▸ List.mem_map.2 ⟨p, hp', rfl⟩)
      simp only [hne]
      have := lookupProp_of_mem_nodup hn.2 p hp'
      unfold lookupProp at this
      exact this

/-- the nodup lemma with the fold first -/
theorem obj_fold_nodup' (props : List (String × RT)) (pf : RT → JsVal → Res JsVal) (v : JsVal)
    (step : List (String × JsVal) → String → Res (List (String × JsVal))) (acc : List (String × JsVal))
    (hf : foldRes step [] v.ownKeys = .ok acc)
    (hstep : ∀ acc k acc', step acc k = .ok acc' →
      (∃ t y, parseAV.lookupProp' props k = some t ∧ pf t (v.getProp k) = .ok y ∧ acc' = setProp acc k y) ∨
      (parseAV.lookupProp' props k = none ∧ acc' = acc))
    (hsafe : ∀ k t, parseAV.lookupProp' props k = some t → arrayIndex? k = none) : (acc.map (·.1)).Nodup :=
  obj_fold_nodup props pf v step hstep hsafe v.ownKeys [] acc (by simp) hf

theorem mapM'_of_get {α β : Type} (f : α → Res β) : ∀ (xs : List α) (ys : List β), ys.length = xs.length →
    (∀ j (h : j < xs.length), ∃ y, ys[j]? = some y ∧ f xs[j] = .ok y) → mapM' f xs = .ok ys
  | [], ys, hl, _ => by
    have : ys = [] := List.eq_nil_of_length_eq_zero (by simpa using hl)
    subst this; rfl
  | x :: xs, ys, hl, h => by
    cases ys with
    | nil => simp at hl
    | cons y ys' =>
      obtain ⟨y0, h1, h2⟩ := h 0 (by simp)
      simp only [List.getElem?_cons_zero, Option.some.injEq] at h1
      subst h1
      simp only [List.getElem_cons_zero] at h2
      have ih := mapM'_of_get f xs ys' (by simpa using hl) (fun j hj => by
        obtain ⟨y', h1', h2'⟩ := h (j + 1) (by simpa using hj)
        exact ⟨y', by simpa using h1', by simpa using h2'⟩)
      simp only [mapM', h2, ih]

/-- **Parsing the parsed value again returns it** (structural fragment, input key order) -/
theorem parse_idem (env : Env) (henv : ∀ name t, env.lookup name = some t → pfrag t = true) :
    ∀ (n : Nat) (t : RT) (v d : JsVal), pfrag t = true → validate env false n t v = .ok true →
      parseAV env ⟨false, false⟩ n t v = .ok d → parseAV env ⟨false, false⟩ n t d = .ok d
  | 0, _, _, _, _, hv, _ => by cases hv
  | n+1, t, v, d, hf, hv, hp => by
    have ih := parse_idem env henv n
    cases t with
    | described ds t =>
      simp only [pfrag] at hf
      simp only [validate] at hv
      simp only [parseAV] at hp ⊢
      exact ih t v d hf hv hp
    | optional t =>
      simp only [pfrag] at hf
      simp only [validate] at hv
      simp only [parseAV] at hp ⊢
      by_cases hn : v.isNullish = true
      · simp only [hn, if_true] at hp
        cases hp
        simp [hn]
      · simp only [hn, Bool.false_eq_true, if_false] at hp hv
        have hd := ih t v d hf hv hp
        split
        · rfl
        · exact hd
    | ref name =>
      simp only [validate] at hv
      simp only [parseAV] at hp ⊢
      cases hl : env.lookup name with
      | none => rw [hl] at hv; cases hv
      | some t' =>
        rw [hl] at hv hp
        simp only
        exact ih t' v d (henv name t' hl) hv hp
    | array t =>
      simp only [pfrag] at hf
      simp only [validate] at hv
      simp only [parseAV] at hp
      cases v with
      | arr items =>
        simp only at hv hp
        split at hp
        · rename_i rs hm
          cases hp
          simp only [parseAV]
          rw [mapM'_idem _ items rs (fun x hx y hy => ih t x y hf (allShort_true hv x hx) hy) hm]
        · cases hp
        · cases hp
      | _ => cases hv
    | set t =>
      simp only [pfrag] at hf
      simp only [validate] at hv
      simp only [parseAV] at hp
      cases v with
      | set items =>
        simp only at hv hp
        split at hp
        · rename_i rs hm
          cases hp
          simp only [parseAV]
          rw [mapM'_idem _ items rs (fun x hx y hy => ih t x y hf (allShort_true hv x hx) hy) hm]
        · cases hp
        · cases hp
      | _ => cases hv
    | typeof s => simp only [parseAV]
    | any => simp only [parseAV]
    | nullish s => simp only [parseAV]
    | const c => simp only [parseAV]
    | consts cs => simp only [parseAV]
    | regex tp ds => simp only [parseAV]
    | date => simp only [parseAV]
    | bigint => simp only [parseAV]
    | typed c => simp only [parseAV]
    | strfmt fs => simp only [parseAV]
    | numfmt fs => simp only [parseAV]
    | never => simp [pfrag] at hf
    | allOf ts => simp [pfrag] at hf
    | anyOf ts => simp [pfrag] at hf
    | disc a b c e => simp [pfrag] at hf
    | map kt vt =>
      simp only [pfrag, Bool.and_eq_true] at hf
      simp only [validate] at hv
      simp only [parseAV] at hp
      cases v with
      | map es =>
        simp only at hv hp
        split at hp
        · rename_i rs hm
          cases hp
          simp only [parseAV]
          rw [mapM'_idem _ es rs ?_ hm]
          intro e he y hy
          have hve := allShort_true hv e he
          split at hy
          · rename_i k' hpk
            split at hy
            · rename_i v' hpv
              cases hy
              have hk : validate env false n kt e.1 = .ok true := by
                cases hk' : validate env false n kt e.1 with
                | ok b =>
                  cases b with
                  | true => rfl
                  | false => rw [hk'] at hve; cases hve
                | throw c => rw [hk'] at hve; cases hve
                | nofuel => rw [hk'] at hve; cases hve
              rw [hk] at hve
              simp only at hve
              simp only [ih kt e.1 k' hf.1 hk hpk, ih vt e.2 v' hf.2 hve hpv]
            · cases hy
            · cases hy
          · cases hy
          · cases hy
        · cases hp
        · cases hp
      | _ => cases hv
    | tuple pre rest =>
      have hfp : pfragL pre = true ∧ (∀ r, rest = some r → pfrag r = true) := by
        cases rest with
        | none => simp only [pfrag, Bool.and_eq_true] at hf; exact ⟨hf.1, fun r e => by cases e⟩
        | some r0 => simp only [pfrag, Bool.and_eq_true] at hf; exact ⟨hf.1, fun r e => by cases e; exact hf.2⟩
      simp only [validate] at hv
      simp only [parseAV] at hp
      cases v with
      | arr items =>
        simp only at hv hp
        split at hp
        · rename_i ps hm
          have hheads : allShort (fun (p : RT × Nat) => validate env false n p.1 (items.getD p.2 .undef))
              (pre.zip (List.range pre.length)) = .ok true := by
            cases hh : allShort (fun (p : RT × Nat) => validate env false n p.1 (items.getD p.2 .undef))
                (pre.zip (List.range pre.length)) with
            | ok b =>
              cases b with
              | true => rfl
              | false => rw [hh] at hv; cases hv
            | throw c => rw [hh] at hv; cases hv
            | nofuel => rw [hh] at hv; cases hv
          have hlen : ps.length = pre.length := by
            rw [mapM'_length _ _ _ hm]; simp
          -- parsing the fixed positions of any list that starts with `ps` gives `ps` again
          have hfix : ∀ D : List JsVal, (∀ j, j < pre.length → D[j]? = ps[j]?) →
              mapM' (fun (p : RT × Nat) => parseAV env ⟨false, false⟩ n p.1 (D.getD p.2 .undef)) (pre.zip (List.range pre.length)) = .ok ps := by
            intro D hD
            apply mapM'_of_get
            · simp [hlen]
            · intro j hj
              have hj' : j < pre.length := by simpa using hj
              obtain ⟨y, hy1, hy2⟩ := mapM'_get _ _ _ hm j hj
              refine ⟨y, hy1, ?_⟩
              have hz : (pre.zip (List.range pre.length))[j] = (pre[j], j) := by simp
              rw [hz] at hy2 ⊢
              have hDj : D.getD j .undef = y := by
                rw [List.getD_eq_getElem?_getD, hD j hj', hy1]; rfl
              simp only [hDj]
              have hmemz : (pre[j], j) ∈ pre.zip (List.range pre.length) := by
                rw [← hz]; exact List.getElem_mem _
              exact ih pre[j] _ y (pfragL_mem hfp.1 _ (List.getElem_mem _)) (allShort_true hheads _ hmemz) hy2
          simp only [hheads] at hv
          cases rest with
          | none =>
            simp only at hp hv
            cases hp
            simp only [parseAV]
            rw [hfix ps fun j _ => rfl]
          | some r =>
            simp only at hp hv
            split at hp
            · rename_i rs hmr
              cases hp
              simp only [parseAV]
              rw [hfix (ps ++ rs) fun j hj => by rw [List.getElem?_append_left (by omega)]]
              simp only
              have hdrop : (ps ++ rs).drop pre.length = rs := by
                rw [← hlen]; simp
              rw [hdrop, mapM'_idem _ _ rs (fun x hx y hy => ih r x y (hfp.2 r rfl) (allShort_true hv x hx) hy) hmr]
            · cases hp
            · cases hp
        · cases hp
        · cases hp
      | _ => cases hv
    | object props ix =>
      simp only [pfrag, Bool.and_eq_true] at hf
      obtain ⟨⟨hix, hnd⟩, hpp⟩ := hf
      have hix' : ix = [] := by simpa using hix
      subst hix'
      simp only [validate] at hv
      simp only [parseAV] at hp
      have hobj : (v.isObjectLike && !v.isArray) = true := by
        cases h : (v.isObjectLike && !v.isArray) with
        | true => rfl
        | false => simp [h] at hv
      simp only [hobj, Bool.not_true, Bool.false_eq_true, if_false] at hv
      have hprops : allShort (fun (p : String × RT) => validate env false n p.2 (v.getProp p.1)) props = .ok true := by
        cases hh : allShort (fun (p : String × RT) => validate env false n p.2 (v.getProp p.1)) props with
        | ok b =>
          cases b with
          | true => rfl
          | false => rw [hh] at hv; cases hv
        | throw c => rw [hh] at hv; cases hv
        | nofuel => rw [hh] at hv; cases hv
      simp only [Bool.not_false, if_true] at hp
      split at hp
      · rename_i acc hfold
        cases hp
        have hsafe : ∀ k t, parseAV.lookupProp' props k = some t → arrayIndex? k = none := by
          intro k t hl
          have hs := (pfragP_mem hpp _ (lookupProp'_mem_pair hl)).1
          simp only [safeKey, Bool.and_eq_true, Option.isNone_iff_eq_none] at hs
          exact hs.2
        have key := obj_fold' props (parseAV env ⟨false, false⟩ n) v _ acc hfold
        obtain ⟨hinv, _⟩ := key (by
            intro acc k acc' h
            split at h
            · rename_i t hl
              split at h
              · rename_i y hpy
                cases h
                exact Or.inl ⟨t, y, hl, hpy, rfl⟩
              · cases h
              · cases h
            · rename_i hl
              simp only [parseIndexedKey] at h
              cases h
              exact Or.inr ⟨hl, rfl⟩)
        have key2 := obj_fold_nodup' props (parseAV env ⟨false, false⟩ n) v _ acc hfold
        have hnod := key2 (by
            intro acc k acc' h
            split at h
            · rename_i t hl
              split at h
              · rename_i y hpy
                cases h
                exact Or.inl ⟨t, y, hl, hpy, rfl⟩
              · cases h
              · cases h
            · rename_i hl
              simp only [parseIndexedKey] at h
              cases h
              exact Or.inr ⟨hl, rfl⟩) hsafe
        simp only [parseAV, Bool.not_false, if_true, ownKeys]
        rw [rebuild _ acc [] (by simpa using hnod) ?_ ?_]
        · rfl
        · intro p hp'
          obtain ⟨_, t, hl, _⟩ := hinv p.1 p.2 (lookupProp_of_mem_nodup hnod p hp')
          exact hsafe _ _ hl
        · intro acc' p hp'
          have hlk := lookupProp_of_mem_nodup hnod p hp'
          obtain ⟨_, t, hl, hpy⟩ := hinv p.1 p.2 hlk
          have hmem := lookupProp'_mem_pair hl
          have hvp := allShort_true hprops _ hmem
          have hidem := ih t _ p.2 (pfragP_mem hpp _ hmem).2 hvp hpy
          have hget : (JsVal.obj acc).getProp p.1 = p.2 := by simp [getProp, getOwn?, hlk]
          simp only [hl, hget, hidem]
      · cases hp
      · cases hp

/-- on the example of `C03Declared` (a recursive type, surplus keys at three places): the parsed value, and the second parse -/
def exParsed : JsVal := .obj [("id", .str "a"), ("kids", .arr [.obj [("id", .str "b"), ("tags", .map [])]]),
  ("tags", .map [(.obj [("k", .str "x")], .num "2")])]
example : parseAV exEnv ⟨false, false⟩ 10 (.ref "Node") exVal = .ok exParsed := by rfl
example : parseAV exEnv ⟨false, false⟩ 10 (.ref "Node") exParsed = .ok exParsed := by rfl

end BeffVerif.C03S
