import Std.Data.String.ToNat
import BeffVerif.Model.ToSchema
/-!
# C07 — helper types introduced for recursion are defined exactly once

The materialisation of a semantic type (`Sem.toSchema` and the five functions it is mutually recursive with: the port of
`to_schema.rs`) names the types it meets again while converting them `RecursiveGenerated<n>`, with `n` drawn from a counter
that the frontend threads from one materialisation to the next. `claims`: each of the six functions — for every fuel,
operand, context and state in which it returns — only ever ADDS definitions, under generated names whose numbers lie strictly
above the counter it started from and at most at the counter it leaves (`Ext`; the relation composes through the monadic
glue: `spec_bind`, `spec_mapM`, `spec_filterMapM` over a `LawfulMonad` instance for the state monad of the port). Hence
`helper_names_defined_once`: the helper definitions `semtype_to_runtype` hands to code generation carry pairwise different
names, all of the form `RecursiveGenerated<k>` with `counter < k ≤ counter'`; and `helper_names_disjoint`: two
materialisations in a row never share a helper name. (That a DECLARED type may not carry such a name either is the repaired
D107, at the level of the printer. Non-vacuity: `C07.recursive_result_keeps_its_definition`, a materialisation whose result
refers to a helper.)
-/
namespace BeffVerif.C07N
open BeffVerif Sem

def gen (k : Nat) : String := "RecursiveGenerated" ++ toString k

theorem gen_inj {a b : Nat} (h : gen a = gen b) : a = b := by
  unfold gen at h
  have h1 : ("RecursiveGenerated" ++ toString a).toList = ("RecursiveGenerated" ++ toString b).toList := by rw [h]
  simp only [String.toList_append] at h1
  have h2 := List.append_cancel_left h1
  have h3 : toString a = toString b := String.toList_inj.1 h2
  exact Nat.repr_injective h3

instance : LawfulMonad TM := LawfulMonad.mk' TM
  (id_map := by
    intro α x
    funext c s
    show (match x c s with | some (a, c', s') => some (id a, c', s') | none => none) = x c s
    cases x c s with
    | none => rfl
    | some r => obtain ⟨a, c', s'⟩ := r; rfl)
  (pure_bind := by intro α β x f; rfl)
  (bind_assoc := by
    intro α β γ x f g
    funext c s
    show (match (match x c s with | some (a, c', s') => f a c' s' | none => none) with
      | some (b, c', s') => g b c' s' | none => none) =
      (match x c s with | some (a, c', s') => (match f a c' s' with | some (b, c'', s'') => g b c'' s'' | none => none) | none => none)
    cases x c s with
    | none => rfl
    | some r => obtain ⟨a, c', s'⟩ := r; rfl)

/-- `s'` extends `s` by helper definitions under fresh generated names -/
def Ext (s s' : Schemer) : Prop :=
  s.counter ≤ s'.counter ∧ ∃ added : List (Nat × IR), s'.validators = s.validators ++ added.map (fun p => (gen p.1, p.2)) ∧
    (added.map (·.1)).Nodup ∧ ∀ k ∈ added.map (·.1), s.counter < k ∧ k ≤ s'.counter

theorem ext_same {s s' : Schemer} (h1 : s'.counter = s.counter) (h2 : s'.validators = s.validators) : Ext s s' :=
  ⟨by omega, [], by simp [h2], by simp, by simp⟩

theorem ext_refl (s : Schemer) : Ext s s := ext_same rfl rfl

theorem ext_trans {s1 s2 s3 : Schemer} (h12 : Ext s1 s2) (h23 : Ext s2 s3) : Ext s1 s3 := by
  obtain ⟨c12, a1, v1, n1, r1⟩ := h12
  obtain ⟨c23, a2, v2, n2, r2⟩ := h23
  refine ⟨by omega, a1 ++ a2, by rw [v2, v1, List.map_append, List.append_assoc], ?_, ?_⟩
  · rw [List.map_append, List.nodup_append]
    refine ⟨n1, n2, ?_⟩
    intro x hx y hy hxy
    have := r1 x hx; have := r2 y hy
    omega
  · intro k hk
    rw [List.map_append, List.mem_append] at hk
    rcases hk with hk | hk
    · have := r1 k hk; omega
    · have := r2 k hk; omega

def Spec {α : Type} (m : TM α) : Prop := ∀ c s a c' s', m c s = some (a, c', s') → Ext s s'

theorem spec_pure {α : Type} (a : α) : Spec (pure a : TM α) := by
  intro c s a' c' s' h
  have : some (a, c, s) = some (a', c', s') := h
  injection this with this
  injection this with _ this
  injection this with _ this
  subst this
  exact ext_refl s

theorem spec_bind {α β : Type} {m : TM α} {f : α → TM β} (hm : Spec m) (hf : ∀ a, Spec (f a)) : Spec (m >>= f) := by
  intro c s b c' s' h
  have h' : (match m c s with | some (a, c1, s1) => f a c1 s1 | none => none) = some (b, c', s') := h
  cases e : m c s with
  | none => rw [e] at h'; cases h'
  | some r =>
    obtain ⟨a, c1, s1⟩ := r
    rw [e] at h'
    exact ext_trans (hm c s a c1 s1 e) (hf a c1 s1 b c' s' h')

theorem spec_fail {α : Type} : Spec (TM.fail : TM α) := by intro c s a c' s' h; cases h
theorem spec_ctx : Spec TM.ctx := by
  intro c s a c' s' h
  have : some (c, c, s) = some (a, c', s') := h
  injection this with this; injection this with _ this; injection this with _ this; subst this; exact ext_refl s
theorem spec_get : Spec TM.get := by
  intro c s a c' s' h
  have : some (s, c, s) = some (a, c', s') := h
  injection this with this; injection this with _ this; injection this with _ this; subst this; exact ext_refl s
theorem spec_modify {f : Schemer → Schemer} (hf : ∀ s, Ext s (f s)) : Spec (TM.modify f) := by
  intro c s a c' s' h
  have : some ((), c, f s) = some (a, c', s') := h
  injection this with this; injection this with _ this; injection this with _ this; subst this; exact hf s
theorem spec_liftSM {α : Type} (m : SM α) : Spec (TM.liftSM m) := by
  intro c s a c' s' h
  unfold TM.liftSM at h
  split at h
  · injection h with h; injection h with _ h; injection h with _ h; subst h; exact ext_refl s
  · cases h
theorem spec_liftOpt {α : Type} (o : Option α) : Spec (TM.liftOpt o) := by
  cases o with
  | none => exact spec_fail
  | some a => exact spec_pure a

theorem spec_mapM {α β : Type} {f : α → TM β} : ∀ (xs : List α), (∀ x ∈ xs, Spec (f x)) → Spec (xs.mapM f) := by
  intro xs
  induction xs with
  | nil => intro _; rw [List.mapM_nil]; exact spec_pure _
  | cons x xs ih =>
    intro h
    rw [List.mapM_cons]
    exact spec_bind (h x (by simp)) (fun a => spec_bind (ih (fun y hy => h y (by simp [hy]))) (fun b => spec_pure _))

theorem spec_filterMapM {α β : Type} {f : α → TM (Option β)} : ∀ (xs : List α), (∀ x ∈ xs, Spec (f x)) → Spec (xs.filterMapM f) := by
  intro xs
  induction xs with
  | nil => intro _; rw [List.filterMapM_nil]; exact spec_pure _
  | cons x xs ih =>
    intro h
    rw [List.filterMapM_cons]
    refine spec_bind (h x (by simp)) (fun a => ?_)
    have ih' := ih (fun y hy => h y (by simp [hy]))
    cases a with
    | none => exact ih'
    | some b => exact spec_bind ih' (fun r => spec_pure _)

theorem tm_bind_apply {α β : Type} (m : TM α) (f : α → TM β) (c : Ctx) (s : Schemer) :
    (m >>= f) c s = match m c s with | some (a, c1, s1) => f a c1 s1 | none => none := rfl
theorem tm_pure_apply {α : Type} (a : α) (c : Ctx) (s : Schemer) : (pure a : TM α) c s = some (a, c, s) := rfl

theorem spec_toSchema {n : Nat} (hsub : ∀ ty, Spec (toSchemaNoCache n ty)) (ty : SemType) : Spec (toSchema (n + 1) ty none) := by
  intro c s a c' s' h
  simp only [toSchema, tm_bind_apply, tm_pure_apply, TM.get, TM.modify] at h
  generalize List.find? (fun e => e.fst == ty) s.memo = fr at h
  rcases fr with _ | ⟨t0, nm, _ | schema0⟩
  · -- a new type: reserve the name, convert, define
    simp only [tm_bind_apply, tm_pure_apply, TM.modify] at h
    split at h
    · rename_i schema c1 s1 e1
      injection h with h; injection h with _ h; injection h with _ h; subst h
      have hext := hsub ty _ _ schema c1 s1 e1
      obtain ⟨hc, added, hv, hn, hr⟩ := hext
      simp only at hc hv hr
      unfold Ext
      refine And.intro ?_ (Exists.intro (added ++ [(s.counter + 1, schema)]) (And.intro ?_ (And.intro ?_ ?_)))
      · show s.counter ≤ s1.counter
        omega
      · dsimp only
        rw [hv, List.map_append, List.append_assoc]
        rfl
      · rw [List.map_append, List.nodup_append]
        refine ⟨hn, by simp, ?_⟩
        intro x hx y hy hxy
        simp only [List.map_cons, List.map_nil, List.mem_cons, List.mem_nil_iff, or_false] at hy
        have := hr x hx
        omega
      · intro k hk
        rw [List.map_append, List.mem_append] at hk
        show s.counter < k ∧ k ≤ s1.counter
        rcases hk with hk | hk
        · have := hr k hk; omega
        · simp only [List.map_cons, List.map_nil, List.mem_cons, List.mem_nil_iff, or_false] at hk
          omega
    · cases h
  · -- a type under conversion: a recursive reference
    simp only [tm_bind_apply, tm_pure_apply, TM.modify] at h
    injection h with h; injection h with _ h; injection h with _ h; subst h
    exact ⟨by simp, [], by simp, by simp, by simp⟩
  · -- memo hit with a schema
    simp only [tm_pure_apply] at h
    injection h with h; injection h with _ h; injection h with _ h; subst h
    exact ⟨by simp, [], by simp, by simp, by simp⟩

theorem spec_noCache {n : Nat} (hm : ∀ b, Spec (mappingToSchema n b)) (hl : ∀ b, Spec (listToSchema n b)) (ty : SemType) :
    Spec (toSchemaNoCache (n + 1) ty) := by
  unfold toSchemaNoCache
  split
  · exact spec_pure _
  · dsimp only
    have tail : ∀ (f : List IR → TM IR), (∀ l, Spec (f l)) → Spec (match ty.list with
        | Sub.some b => do let x ← listToSchema n b; let lists ← pure [x]; f lists
        | _ => do let lists ← pure []; f lists) := by
      intro f hf
      split
      · exact spec_bind (hl _) (fun x => spec_bind (spec_pure _) (fun lists => hf _))
      · exact spec_bind (spec_pure _) (fun lists => hf _)
    split
    · exact spec_bind (hm _) (fun x => spec_bind (spec_pure _) (fun maps => tail _ (fun l => spec_pure _)))
    · exact spec_bind (spec_pure _) (fun maps => tail _ (fun l => spec_pure _))

theorem spec_mapping {n : Nat} (ha : ∀ i, Spec (mappingAtomSchema n i)) (b : Bdd) : Spec (mappingToSchema (n + 1) b) := by
  unfold mappingToSchema
  refine spec_bind (spec_filterMapM _ (fun conj _ => ?_)) (fun _ => spec_pure _)
  refine spec_bind (spec_liftOpt _) (fun cb => spec_bind (spec_liftSM _) (fun e => ?_))
  split
  · exact spec_pure _
  · refine spec_bind (spec_mapM _ (fun a _ => ha _)) (fun pos => spec_bind (spec_mapM _ (fun a _ => ?_)) (fun neg => spec_pure _))
    exact spec_bind (ha _) (fun _ => spec_pure _)

theorem spec_list {n : Nat} (ha : ∀ i, Spec (listAtomSchema n i)) (b : Bdd) : Spec (listToSchema (n + 1) b) := by
  unfold listToSchema
  refine spec_bind (spec_filterMapM _ (fun conj _ => ?_)) (fun _ => spec_pure _)
  refine spec_bind (spec_liftOpt _) (fun cb => spec_bind (spec_liftSM _) (fun e => ?_))
  split
  · exact spec_pure _
  · refine spec_bind (spec_mapM _ (fun a _ => ha _)) (fun pos => spec_bind (spec_mapM _ (fun a _ => ?_)) (fun neg => spec_pure _))
    exact spec_bind (ha _) (fun _ => spec_pure _)

theorem spec_mappingAtom {n : Nat} (ht : ∀ ty, Spec (toSchema n ty none)) (i : Nat) : Spec (mappingAtomSchema (n + 1) i) := by
  unfold mappingAtomSchema
  refine spec_bind spec_ctx (fun c => ?_)
  split
  · refine spec_bind (spec_mapM _ (fun kv _ => ?_)) (fun vs => ?_)
    · exact spec_bind (ht _) (fun _ => spec_pure _)
    · dsimp only
      split
      · exact spec_bind (ht _) (fun _ => spec_bind (spec_pure _) (fun _ => spec_pure _))
      · exact spec_bind (spec_pure _) (fun _ => spec_pure _)
  · exact spec_fail

theorem spec_listAtom {n : Nat} (ht : ∀ ty, Spec (toSchema n ty none)) (i : Nat) : Spec (listAtomSchema (n + 1) i) := by
  unfold listAtomSchema
  refine spec_bind spec_ctx (fun c => ?_)
  split
  · split
    · split
      · exact spec_pure _
      · exact spec_bind (ht _) (fun _ => spec_pure _)
    · refine spec_bind (spec_mapM _ (fun t _ => ht _)) (fun pre => ?_)
      dsimp only
      split
      · exact spec_bind (spec_pure _) (fun _ => spec_pure _)
      · exact spec_bind (ht _) (fun _ => spec_bind (spec_pure _) (fun _ => spec_pure _))
  · exact spec_fail

/-- every conversion function only ever ADDS helper definitions, under generated names whose numbers lie above the
counter it started from: by induction on the fuel, jointly for the six mutually recursive functions -/
theorem claims : ∀ n, (∀ ty, Spec (toSchema n ty none)) ∧ (∀ ty, Spec (toSchemaNoCache n ty)) ∧
    (∀ b, Spec (mappingToSchema n b)) ∧ (∀ i, Spec (mappingAtomSchema n i)) ∧ (∀ b, Spec (listToSchema n b)) ∧
    (∀ i, Spec (listAtomSchema n i)) := by
  intro n
  induction n with
  | zero =>
    refine ⟨fun ty => ?_, fun ty => ?_, fun b => ?_, fun i => ?_, fun b => ?_, fun i => ?_⟩
    · unfold toSchema; exact spec_fail
    · unfold toSchemaNoCache; exact spec_fail
    · unfold mappingToSchema; exact spec_fail
    · unfold mappingAtomSchema; exact spec_fail
    · unfold listToSchema; exact spec_fail
    · unfold listAtomSchema; exact spec_fail
  | succ n ih =>
    obtain ⟨h1, h2, h3, h4, h5, h6⟩ := ih
    exact ⟨spec_toSchema h2, spec_noCache h3 h5, spec_mapping h4, spec_mappingAtom h1, spec_list h6, spec_listAtom h1⟩

theorem nodup_map_of_inj {α β : Type} {f : α → β} (hf : ∀ a b, f a = f b → a = b) : ∀ {l : List α}, l.Nodup → (l.map f).Nodup := by
  intro l
  induction l with
  | nil => intro _; simp
  | cons x xs ih =>
    intro h
    rw [List.nodup_cons] at h
    rw [List.map_cons, List.nodup_cons]
    refine ⟨?_, ih h.2⟩
    intro hm
    rw [List.mem_map] at hm
    obtain ⟨y, hy, e⟩ := hm
    exact h.1 (hf _ _ e ▸ hy)

/-- the names of a list of definitions -/
def names (l : List (String × IR)) : List String := l.map (·.1)

/-- **C07 (helper names)**: the helper types a materialisation introduces for recursion are defined exactly once, under
generated names numbered above the counter the call started from and up to the counter it returns -/
theorem helper_names_defined_once (fuel : Nat) (ty : SemType) (counter : Nat) (c : Ctx) (head : IR) (tail : List (String × IR))
    (counter' : Nat) (c' : Ctx) (h : semtypeToRuntype fuel ty counter c = some ((head, tail, counter'), c')) :
    (names tail).Nodup ∧ counter ≤ counter' ∧ ∀ nm ∈ names tail, ∃ k, counter < k ∧ k ≤ counter' ∧ nm = gen k := by
  unfold semtypeToRuntype at h
  split at h
  · cases h
  · injection h with h
    simp only [Prod.mk.injEq] at h
    obtain ⟨⟨_, ht, hc⟩, _⟩ := h
    subst ht; subst hc
    exact ⟨by simp [names], Nat.le_refl _, fun nm hnm => by simp [names] at hnm⟩
  · rename_i c1 _
    cases fuel with
    | zero => simp [toSchema, TM.fail] at h
    | succ n =>
      simp only [toSchema, tm_bind_apply, tm_pure_apply, TM.get, TM.modify, List.find?_nil, List.nil_append] at h
      split at h
      · cases h
      · rename_i schema c2 s2 e2
        split at e2
        · rename_i schema' c3 s3 e3
          injection e2 with e2
          simp only [Prod.mk.injEq] at e2
          obtain ⟨_, _, hs2⟩ := e2
          injection h with h
          simp only [Prod.mk.injEq] at h
          obtain ⟨⟨_, htail, hcnt⟩, _⟩ := h
          have hext := (claims n).2.1 ty _ _ schema' c3 s3 e3
          obtain ⟨hc, added, hv, hn, hr⟩ := hext
          simp only [List.nil_append] at hc hv hr
          -- all definitions: those added below, then the head under the reserved name
          have hvals : s2.validators = (added ++ [(counter + 1, schema')]).map (fun p => (gen p.1, p.2)) := by
            rw [← hs2]
            simp only [hv, List.map_append, List.map_cons, List.map_nil]
            rfl
          have hidx : ((added ++ [(counter + 1, schema')]).map (·.1)).Nodup := by
            rw [List.map_append, List.nodup_append]
            refine ⟨hn, by simp, ?_⟩
            intro x hx y hy hxy
            simp only [List.map_cons, List.map_nil, List.mem_cons, List.mem_nil_iff, or_false] at hy
            have := hr x hx
            omega
          have hcnt2 : s2.counter = s3.counter := by rw [← hs2]
          have hrange : ∀ k ∈ (added ++ [(counter + 1, schema')]).map (·.1), counter < k ∧ k ≤ s2.counter := by
            intro k hk
            rw [List.map_append, List.mem_append] at hk
            rcases hk with hk | hk
            · have := hr k hk; omega
            · simp only [List.map_cons, List.map_nil, List.mem_cons, List.mem_nil_iff, or_false] at hk
              omega
          have hnames : names s2.validators = ((added ++ [(counter + 1, schema')]).map (·.1)).map gen := by
            rw [hvals]; simp [names, List.map_map, Function.comp_def]
          have hnd : (names s2.validators).Nodup := by
            rw [hnames]
            exact nodup_map_of_inj (fun a b hab => gen_inj hab) hidx
          subst htail; subst hcnt
          refine ⟨?_, by omega, ?_⟩
          · exact List.Nodup.sublist (List.Sublist.map _ List.filter_sublist) hnd
          · intro nm hnm
            have hmem : nm ∈ names s2.validators := (List.Sublist.map _ List.filter_sublist).subset hnm
            rw [hnames, List.mem_map] at hmem
            obtain ⟨k, hk, rfl⟩ := hmem
            exact ⟨k, (hrange k hk).1, (hrange k hk).2, rfl⟩
        · cases e2

/-- two materialisations one after the other (the second starts from the counter the first returned) introduce different
helper names -/
theorem helper_names_disjoint {fuel1 fuel2 : Nat} {ty1 ty2 : SemType} {k0 k1 k2 : Nat} {c0 c1 c1' c2 : Ctx} {h1 h2 : IR}
    {t1 t2 : List (String × IR)} (e1 : semtypeToRuntype fuel1 ty1 k0 c0 = some ((h1, t1, k1), c1))
    (e2 : semtypeToRuntype fuel2 ty2 k1 c1' = some ((h2, t2, k2), c2)) : ∀ nm, nm ∈ names t1 → nm ∈ names t2 → False := by
  intro nm m1 m2
  obtain ⟨a, _, ha, ea⟩ := (helper_names_defined_once _ _ _ _ _ _ _ _ e1).2.2 nm m1
  obtain ⟨b, hb, _, eb⟩ := (helper_names_defined_once _ _ _ _ _ _ _ _ e2).2.2 nm m2
  have := gen_inj (ea.symm.trans eb)
  omega

end BeffVerif.C07N
