import BeffVerif.Model.Totality
import BeffVerif.Model.TsCore
/-!
# C04 — compilation is total: code or located diagnostics, never a panic or a hang

What Lean can carry here: (1) the regenerated inventory of panic-capable / looping sites is completely classified;
(2) the location computation is total and stays inside the file for every in-range position; (3) the model of the
compiler is total by construction and answers `diags` (never a crash class) on the modelled error kinds.
Panics, stack overflows and hangs of the REAL compiler are exhibited only by the search (see the check).
-/
namespace BeffVerif.C04
open BeffVerif Totality

/-- every panic!/unreachable!/expect/unwrap/assert/loop site of beff-core and beff-wasm (non-test code) of the CURRENT
tree is classified; a new or rewritten site breaks this obligation. -/
theorem inventory_classified : inventoryOk = true := by decide +kernel

theorem classification_not_stale : noStale = true := by decide +kernel

/-- line numbers are at least 1 and never exceed 1 + the number of newlines of the file, for EVERY position -/
theorem charPos_line_in_file (src : String) (pos : Nat) :
    1 ≤ (charPos src pos).1 ∧ (charPos src pos).1 ≤ 1 + (src.toUTF8.toList.filter (· == 10)).length := by
  unfold charPos
  constructor
  · simp
  · simp only []
    have : ((src.toUTF8.toList.take (pos - 1)).filter (· == 10)).length ≤ (src.toUTF8.toList.filter (· == 10)).length :=
      List.Sublist.length_le ((List.take_sublist _ _).filter _)
    omega

/-- positions are monotone: a later byte position is never on an earlier line -/
theorem charPos_line_mono (src : String) (p q : Nat) (h : p ≤ q) : (charPos src p).1 ≤ (charPos src q).1 := by
  unfold charPos
  simp only []
  have hsub : (src.toUTF8.toList.take (p - 1)).Sublist (src.toUTF8.toList.take (q - 1)) :=
    List.take_sublist_take_left (by omega)
  have := List.Sublist.length_le (hsub.filter (· == 10))
  omega

/-- the column never exceeds the number of bytes before the position -/
theorem charPos_col_bounded (src : String) (pos : Nat) : (charPos src pos).2 ≤ pos - 1 := by
  unfold charPos
  simp only []
  calc _ ≤ ((src.toUTF8.toList.take (pos - 1)).reverse.takeWhile (· != 10)).length := List.length_filter_le _ _
    _ ≤ (src.toUTF8.toList.take (pos - 1)).reverse.length := List.Sublist.length_le (List.takeWhile_sublist _)
    _ ≤ pos - 1 := by simp [List.length_take]; omega

/-- the compiler model never crashes: on every program it returns code, a diagnostic class, or reports its own fuel
exhaustion (it has no panic outcome) -/
theorem model_outcome_total (p : Prog) (fuel : Nat) :
    (∃ env ps, compile p fuel = .ok env ps) ∨ (∃ m, compile p fuel = .diags m) ∨ compile p fuel = .nofuel := by
  cases h : compile p fuel with
  | ok env ps => exact Or.inl ⟨env, ps, rfl⟩
  | diags m => exact Or.inr (Or.inl ⟨m, rfl⟩)
  | nofuel => exact Or.inr (Or.inr rfl)

/-- modelled error kinds produce a diagnostic, not code: witnesses -/
theorem modelled_errors_are_diagnostics :
    (match compile ⟨[], [("X", .ref "Missing" [])]⟩ with | .diags _ => true | _ => false) = true ∧
    (match compile ⟨[], [("X", .bi "Partial" [.kw "string"])]⟩ with | .diags _ => true | _ => false) = true ∧
    (match compile ⟨[], [("X", .kw "symbol")]⟩ with | .diags _ => true | _ => false) = true ∧
    (match compile ⟨[.alias "A" [] (.kw "string")], [("X", .ref "A" [.kw "number"])]⟩ with | .diags _ => true | _ => false) = true := by
  decide +kernel

/-- location witnesses (multi-byte characters count as one column) -/
example : spanToLoc "type A = é;\ntype B = 1;" 14 18 = ((2, 0), (2, 4)) := by decide +kernel
example : spanToLoc "ab\ncd" 0 0 = ((1, 0), (2, 2)) := by decide +kernel

end BeffVerif.C04
