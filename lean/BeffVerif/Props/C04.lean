import BeffVerif.Model.Totality
import BeffVerif.Model.TsCore
/-!
# C04 — compilation is total: code or located diagnostics, never a panic or a hang

What Lean can carry here: (1) the regenerated inventory of panic-capable / looping sites is completely classified;
(2) the location computation is total and stays inside the file for every in-range position; (3) the model of the
compiler is total by construction and answers `diags` (never a crash class) on the modelled error kinds.
Panics, stack overflows and hangs of the REAL compiler are exhibited only by the search (see the check).
-/
namespace BeffVerif.C04
open BeffVerif Totality

/-- every panic!/unreachable!/expect/unwrap/assert/loop site of beff-core and beff-wasm (non-test code) of the CURRENT
tree is classified; a new or rewritten site breaks this obligation. -/
theorem inventory_classified : inventoryOk = true := by decide +kernel

theorem classification_not_stale : noStale = true := by decide +kernel

/-- line numbers are at least 1 and never exceed 1 + the number of newlines of the file, for EVERY position -/
theorem charPos_line_in_file (src : String) (pos : Nat) :
    1 ≤ (charPos src pos).1 ∧ (charPos src pos).1 ≤ 1 + (src.toUTF8.toList.filter (· == 10)).length := by
  unfold charPos
  constructor
  · simp
  · simp only []
    have : ((src.toUTF8.toList.take (pos - 1)).filter (· == 10)).length ≤ (src.toUTF8.toList.filter (· == 10)).length :=
      List.Sublist.length_le ((List.take_sublist _ _).filter _)
    omega

/-- positions are monotone: a later byte position is never on an earlier line -/
theorem charPos_line_mono (src : String) (p q : Nat) (h : p ≤ q) : (charPos src p).1 ≤ (charPos src q).1 := by
  unfold charPos
  simp only []
  have hsub : (src.toUTF8.toList.take (p - 1)).Sublist (src.toUTF8.toList.take (q - 1)) :=
    List.take_sublist_take_left (by omega)
  have := List.Sublist.length_le (hsub.filter (· == 10))
  omega

theorem units_append (a b : List UInt8) : units (a ++ b) = units a + units b := by
  simp [units, List.filter_append]; omega

theorem units_le (bs : List UInt8) : units bs ≤ 2 * bs.length := by
  have h1 := List.length_filter_le (fun b => !isContinuation b) bs
  have h2 := List.length_filter_le isLead4 bs
  unfold units; omega

/-- the column never exceeds twice the number of bytes before the position (a 4-byte character is two units) -/
theorem charPos_col_bounded (src : String) (pos : Nat) : (charPos src pos).2 ≤ 2 * (pos - 1) := by
  unfold charPos
  simp only []
  calc _ ≤ 2 * ((src.toUTF8.toList.take (pos - 1)).reverse.takeWhile (· != 10)).length := units_le _
    _ ≤ 2 * (src.toUTF8.toList.take (pos - 1)).reverse.length :=
        Nat.mul_le_mul_left 2 (List.Sublist.length_le (List.takeWhile_sublist _))
    _ ≤ 2 * (pos - 1) := by simp [List.length_take]; omega

/-- **the column lies within its line**: for EVERY file and position, the column is at most the width, in UTF-16 units, of the
line the position is on (the bytes from the last newline before the position to the next newline after it) -/
theorem charPos_col_in_line (src : String) (pos : Nat) :
    (charPos src pos).2 ≤ units (((src.toUTF8.toList.take (pos - 1)).reverse.takeWhile (· != 10)).reverse ++
      (src.toUTF8.toList.drop (pos - 1)).takeWhile (· != 10)) := by
  unfold charPos
  simp only [units_append]
  have : units ((src.toUTF8.toList.take (pos - 1)).reverse.takeWhile (· != 10)).reverse =
      units ((src.toUTF8.toList.take (pos - 1)).reverse.takeWhile (· != 10)) := by
    simp [units, List.filter_reverse]
  omega

/-- the compiler model never crashes: on every program it returns code, a diagnostic class, or reports its own fuel
exhaustion (it has no panic outcome) -/
theorem model_outcome_total (p : Prog) (fuel : Nat) :
    (∃ env ps, compile p fuel = .ok env ps) ∨ (∃ m, compile p fuel = .diags m) ∨ compile p fuel = .nofuel := by
  cases h : compile p fuel with
  | ok env ps => exact Or.inl ⟨env, ps, rfl⟩
  | diags m => exact Or.inr (Or.inl ⟨m, rfl⟩)
  | nofuel => exact Or.inr (Or.inr rfl)

/-- modelled error kinds produce a diagnostic, not code: witnesses -/
theorem modelled_errors_are_diagnostics :
    (match compile ⟨[], [("X", .ref "Missing" [])]⟩ with | .diags _ => true | _ => false) = true ∧
    (match compile ⟨[], [("X", .bi "Partial" [.kw "string"])]⟩ with | .diags _ => true | _ => false) = true ∧
    (match compile ⟨[], [("X", .kw "symbol")]⟩ with | .diags _ => true | _ => false) = true ∧
    (match compile ⟨[.alias "A" [] (.kw "string")], [("X", .ref "A" [.kw "number"])]⟩ with | .diags _ => true | _ => false) = true := by
  decide +kernel

/-- location witnesses (a character of the basic plane counts as one column, an emoji as two) -/
example : spanToLoc "/* 😀 */ type A = Ghost;" 21 26 = ((1, 18), (1, 23)) := by decide +kernel
example : spanToLoc "type A = é;\ntype B = 1;" 14 18 = ((2, 0), (2, 4)) := by decide +kernel
example : spanToLoc "ab\ncd" 0 0 = ((1, 0), (2, 2)) := by decide +kernel

end BeffVerif.C04
