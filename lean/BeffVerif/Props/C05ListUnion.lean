import BeffVerif.Props.C05Tuple
/-!
# C05 — fixed-length lists against a UNION of fixed-length lists: `fixed_length_list_inhabited` is exact

The list analogue of `Props/C05Union.lean`. `list_inhabited` looks at one length at a time; at a given length the positive
list and the applicable negative lists are lists of types of that length, and `fixed_length_list_inhabited` searches a value
of the positive one outside ALL the negative ones. `fixed_many`: for positions that are inhabited scalar types, any number of
negative lists of the same length (well-formed types), every context and every fuel ≥ 1 + their number, the search answers,
leaves the context alone, and says "inhabited" exactly when such a value exists (`Witness`). It is a backtracking search:
the value may have to leave the first negative list at one position and the second at a LATER one
(`[boolean, boolean]` against `[true, true] | [false, boolean]`: `[true, false]`), which is what the seeded change C05-r8
(no backtracking) loses; here it is `sem_step_l`: a value of `s` outside `nt` leaves it at some position `i`, where it lies in
`s[i] \ nt[i]`, so the search continues from `s` with position `i` narrowed (`fixed_fold_gen`, induction on the negative lists).
-/
namespace BeffVerif.C05ListUnion
open BeffVerif Sem C05 C05Flat C05Tuple Bdd

/-- a list of scalar values lies in a list of types, position by position (the lengths are those of the types) -/
def inAll (ts : List SemType) (vs : List Scalar) : Prop :=
  ∀ k, k < ts.length → hasScalar (ts.getD k never) (vs.getD k .absent) = true

/-- there is a value of `s` (position by position) outside every one of `negs` -/
def Witness (s : List SemType) (negs : List (List SemType)) : Prop :=
  ∃ vs : List Scalar, vs.length = s.length ∧ inAll s vs ∧ ∀ nt ∈ negs, ¬ inAll nt vs

theorem good_getD (s : List SemType) (hs : ∀ t ∈ s, Good t) (i : Nat) : Good (s.getD i never) := by
  rw [List.getD_eq_getElem?_getD]
  cases hg : s[i]? with
  | none => exact good_never
  | some t => exact hs t (List.mem_of_getElem? hg)

theorem wf_getD (nt : List SemType) (hnt : ∀ t ∈ nt, WF t) (i : Nat) : WF (nt.getD i never) := by
  rw [List.getD_eq_getElem?_getD]
  cases hg : nt[i]? with
  | none => exact good_never.2
  | some t => exact hnt t (List.mem_of_getElem? hg)

/-- the positional search of `fixed_length_list_inhabited`, with whatever the remaining negative lists are -/
theorem fixed_fold_gen (m : Nat) (s nt : List SemType) (rest : List (List SemType)) (c : Ctx)
    (hs : ∀ t ∈ s, Good t) (hnt : ∀ t ∈ nt, WF t)
    (hemp : ∀ d, Good d → ∃ e, isEmpty m d c = some (e, c) ∧ (e = false ↔ Inh d))
    (hinner : ∀ i d, i < s.length → Good d → Inh d → ∃ r, fixedLenInhabited m (s.set i d) rest c = some (r, c) ∧
      (r = true ↔ Witness (s.set i d) rest)) :
    ∀ (idxs : List Nat) (acc : Bool), (∀ i ∈ idxs, i < s.length) →
    ∃ r, idxs.foldlM (fun (acc : Bool) (i : Nat) =>
        if acc then (pure true : SM Bool) else do
          let d ← SM.lift (Sem.diff (s.getD i never) (nt.getD i never))
          if ← isEmpty m d then pure false
          else fixedLenInhabited m (s.set i d) rest) acc c = some (r, c) ∧
      (r = true ↔ acc = true ∨ ∃ i ∈ idxs, ∃ d, Sem.diff (s.getD i never) (nt.getD i never) = some d ∧ Inh d ∧ Witness (s.set i d) rest) := by
  intro idxs
  induction idxs with
  | nil => intro acc _; exact ⟨acc, rfl, by simp⟩
  | cons i is ih =>
    intro acc hidx
    have hi : i < s.length := hidx i List.mem_cons_self
    have hidx' : ∀ j ∈ is, j < s.length := fun j hj => hidx j (List.mem_cons_of_mem _ hj)
    rw [List.foldlM_cons]
    cases acc with
    | true =>
      obtain ⟨r, hr, hiff⟩ := ih true hidx'
      refine ⟨r, ?_, by simpa using hiff⟩
      rw [sm_bind_of _ _ c c true (by rfl)]
      exact hr
    | false =>
      obtain ⟨d, hd, hdg, hdv⟩ := diff_good _ _ (good_getD s hs i) (wf_getD nt hnt i)
      obtain ⟨e, he, heiff⟩ := hemp d hdg
      cases e with
      | true =>
        have hni : ¬ Inh d := fun h => by have := heiff.2 h; cases this
        obtain ⟨r, hr, hiff⟩ := ih false hidx'
        refine ⟨r, ?_, ?_⟩
        · rw [sm_bind_of _ _ c c false ?_]
          · exact hr
          · simp only [Bool.false_eq_true, if_false]
            rw [sm_bind_of _ _ c c d (by rw [hd]; rfl)]
            rw [sm_bind_of _ _ c c true he]
            rfl
        · rw [hiff]
          simp only [Bool.false_eq_true, false_or, List.mem_cons, exists_eq_or_imp]
          constructor
          · intro h; exact Or.inr h
          · rintro (⟨d', hd', hi', _⟩ | h)
            · rw [hd] at hd'; cases hd'; exact absurd hi' hni
            · exact h
      | false =>
        have hin : Inh d := heiff.1 rfl
        obtain ⟨ri, hri, hriff⟩ := hinner i d hi hdg hin
        obtain ⟨r, hr, hiff⟩ := ih ri hidx'
        refine ⟨r, ?_, ?_⟩
        · rw [sm_bind_of _ _ c c ri ?_]
          · exact hr
          · simp only [Bool.false_eq_true, if_false]
            rw [sm_bind_of _ _ c c d (by rw [hd]; rfl)]
            rw [sm_bind_of _ _ c c false he]
            simp only [Bool.false_eq_true, if_false]
            exact hri
        · rw [hiff, hriff]
          simp only [Bool.false_eq_true, false_or, List.mem_cons, exists_eq_or_imp]
          constructor
          · rintro (h | h)
            · exact Or.inl ⟨d, hd, hin, h⟩
            · exact Or.inr h
          · rintro (⟨d', hd', _, hw⟩ | h)
            · rw [hd] at hd'; cases hd'; exact Or.inl hw
            · exact Or.inr h

theorem getD_set (s : List SemType) (i k : Nat) (d : SemType) (hi : i < s.length) :
    (s.set i d).getD k never = if k = i then d else s.getD k never := by
  rw [List.getD_eq_getElem?_getD, List.getD_eq_getElem?_getD, List.getElem?_set]
  by_cases e : i = k
  · subst e; simp [hi]
  · have : ¬ k = i := fun h => e h.symm
    simp [e, this]

theorem mem_set_good (s : List SemType) (i : Nat) (d : SemType) (hs : ∀ t ∈ s, Good t ∧ Inh t) (hd : Good d ∧ Inh d) :
    ∀ t ∈ s.set i d, Good t ∧ Inh t := by
  intro t ht
  rcases List.mem_or_eq_of_mem_set ht with h | h
  · exact hs t h
  · exact h ▸ hd

/-- the decomposition behind the search: a value of `s` outside `nt` leaves it at some position -/
theorem sem_step_l (s nt : List SemType) (rest : List (List SemType))
    (hs : ∀ t ∈ s, Good t) (hnt : ∀ t ∈ nt, WF t) (hl : nt.length = s.length) :
    (∃ i ∈ List.range s.length, ∃ d, Sem.diff (s.getD i never) (nt.getD i never) = some d ∧ Inh d ∧ Witness (s.set i d) rest) ↔
      Witness s (nt :: rest) := by
  have hdiff : ∀ k, ∃ d, Sem.diff (s.getD k never) (nt.getD k never) = some d ∧
      ∀ v, hasScalar d v = (hasScalar (s.getD k never) v && !hasScalar (nt.getD k never) v) := by
    intro k
    obtain ⟨d, hd, _, hdv⟩ := diff_good _ _ (good_getD s hs k) (wf_getD nt hnt k)
    exact ⟨d, hd, hdv⟩
  constructor
  · rintro ⟨i, hi, d, hd, _, vs, hlen, hin, hrest⟩
    have hi' : i < s.length := List.mem_range.1 hi
    obtain ⟨d0, hd0, hdv⟩ := hdiff i
    rw [hd0] at hd; cases hd
    have hvi : hasScalar d (vs.getD i .absent) = true := by
      have := hin i (by simp [hi'])
      rw [getD_set s i i d hi'] at this
      simpa using this
    rw [hdv] at hvi
    simp only [Bool.and_eq_true, Bool.not_eq_true'] at hvi
    refine ⟨vs, by simpa using hlen, ?_, ?_⟩
    · intro k hk
      by_cases e : k = i
      · subst e; exact hvi.1
      · have := hin k (by simpa using hk)
        rw [getD_set s i k d hi'] at this
        simpa [e] using this
    · intro nt' hnt'
      rcases List.mem_cons.1 hnt' with e | hr
      · subst e
        intro hall
        have := hall i (by omega)
        rw [hvi.2] at this; cases this
      · exact hrest nt' hr
  · rintro ⟨vs, hlen, hin, hout⟩
    have hno := hout nt List.mem_cons_self
    have : ∃ k, k < nt.length ∧ hasScalar (nt.getD k never) (vs.getD k .absent) = false := by
      apply Classical.byContradiction
      intro hne
      apply hno
      intro k hk
      cases hb : hasScalar (nt.getD k never) (vs.getD k .absent) with
      | true => rfl
      | false => exact absurd ⟨k, hk, hb⟩ hne
    obtain ⟨k, hk, hkf⟩ := this
    have hk' : k < s.length := by omega
    obtain ⟨d, hd, hdv⟩ := hdiff k
    have hvd : hasScalar d (vs.getD k .absent) = true := by rw [hdv, hin k hk', hkf]; rfl
    refine ⟨k, List.mem_range.2 hk', d, hd, ⟨_, hvd⟩, vs, by simpa using hlen, ?_, ?_⟩
    · intro j hj
      rw [getD_set s k j d hk']
      by_cases e : j = k
      · subst e; simpa using hvd
      · simp only [e, if_false]; exact hin j (by simpa using hj)
    · intro nt' hnt'
      exact hout nt' (List.mem_cons_of_mem _ hnt')

/-- **`fixed_length_list_inhabited` is exact**: lists of inhabited scalar types `s` against any number of lists of the same
length; for every fuel ≥ 1 + their number it answers, leaves the context alone, and says "inhabited" exactly when some value
of `s` (position by position) lies outside every one of the negative lists -/
theorem fixed_many : ∀ (negs : List (List SemType)) (n : Nat) (s : List SemType) (c : Ctx),
    (∀ t ∈ s, Good t ∧ Inh t) → (∀ nt ∈ negs, (∀ t ∈ nt, WF t) ∧ nt.length = s.length) →
    ∃ r, fixedLenInhabited (n + 1 + negs.length) s negs c = some (r, c) ∧ (r = true ↔ Witness s negs)
  | [], n, s, c, hs, _ => by
    refine ⟨true, fixed_nil n s c, ?_⟩
    simp only [true_iff]
    -- one inhabitant per position
    have hw : ∀ k, k < s.length → ∃ v, hasScalar (s.getD k never) v = true := by
      intro k hk
      have : s.getD k never = s[k] := by simp [List.getD_eq_getElem?_getD, hk]
      rw [this]; exact (hs _ (List.getElem_mem hk)).2
    refine ⟨(List.range s.length).map fun k => if hk : k < s.length then Classical.choose (hw k hk) else .absent, by simp, ?_,
      fun nt h => by cases h⟩
    intro k hk
    have : ((List.range s.length).map fun k => if hk : k < s.length then Classical.choose (hw k hk) else Scalar.absent).getD k .absent
        = Classical.choose (hw k hk) := by
      simp [List.getD_eq_getElem?_getD, hk]
    rw [this]; exact Classical.choose_spec (hw k hk)
  | nt :: rest, n, s, c, hs, hN => by
    have hntN := hN nt List.mem_cons_self
    have hm : n + 1 + (nt :: rest).length = (n + 1 + rest.length) + 1 := by simp; omega
    rw [hm]
    have hemp : ∀ d, Good d → ∃ e, isEmpty (n + 1 + rest.length) d c = some (e, c) ∧ (e = false ↔ Inh d) := by
      intro d hd
      have : n + 1 + rest.length = (n + rest.length) + 1 := by omega
      rw [this]; exact isEmpty_good _ d c hd
    have hinner : ∀ i d, i < s.length → Good d → Inh d → ∃ r, fixedLenInhabited (n + 1 + rest.length) (s.set i d) rest c = some (r, c) ∧
        (r = true ↔ Witness (s.set i d) rest) := by
      intro i d _ hdg hdi
      exact fixed_many rest n (s.set i d) c (mem_set_good s i d hs ⟨hdg, hdi⟩)
        (fun nt' h => ⟨(hN nt' (List.mem_cons_of_mem _ h)).1, by simpa using (hN nt' (List.mem_cons_of_mem _ h)).2⟩)
    obtain ⟨r, hr, hiff⟩ := fixed_fold_gen (n + 1 + rest.length) s nt rest c (fun t ht => (hs t ht).1) hntN.1 hemp hinner
      (List.range s.length) false (fun i hi => List.mem_range.1 hi)
    refine ⟨r, ?_, ?_⟩
    · unfold fixedLenInhabited
      exact hr
    · rw [hiff]
      simp only [Bool.false_eq_true, false_or]
      exact sem_step_l s nt rest (fun t ht => (hs t ht).1) hntN.1 hntN.2

-- ---------- the statement is about something ----------
/-- `[boolean, boolean]` against `[true, true] | [false, boolean]`: the witness `[true, false]` leaves the first member at
the second position only (the input of the seeded change C05-r8); against `[true, boolean] | [false, boolean]` nothing is left -/
def bT : SemType := { never with bool := .some true }
def bF : SemType := { never with bool := .some false }
def bB : SemType := { never with bool := .all }
example : ((fixedLenInhabited 3 [bB, bB] [[bT, bT], [bF, bB]] {}).map (·.1)) = some true := by decide +kernel
example : ((fixedLenInhabited 3 [bB, bB] [[bT, bB], [bF, bB]] {}).map (·.1)) = some false := by decide +kernel
end BeffVerif.C05ListUnion
