import BeffVerif.Props.C16Names
/-!
# C16 — every `$ref` of a returned schema and of a stored definition resolves in the final export

`SOK P s`: the JSON value `s`, read as a JSON Schema of the emitted vocabulary, carries at every REFERENCE POSITION — the
string under `$ref`, the strings of `discriminator.mapping` — a string that satisfies `P`. Reference positions are found
by walking the keyword positions that hold sub-schemas (`items`, `additionalProperties`, `propertyNames`, `not`;
`prefixItems`, `anyOf`, `allOf`, `oneOf`; the values of `properties`), so a property that is merely CALLED `$ref`, or a
constant that contains the text, is not mistaken for a reference.

* `schema_refs`: in contextual mode, a print of a reachable runtype that returns, into a context whose stored definitions
  are fine, returns a schema and leaves a context whose reference positions all hold `getRef template N` for a name `N`
  that some reachable runtype mentions (`Mentions`, Props/C16Names) — through `annotateSchema`, `removeNullUnionBranch`,
  `tryMergeAllOfObjectSchemas`, the index-signature shortcuts and the variant loop.
* `returned_refs_resolve`, `definition_refs_resolve`: with `names_complete` — after a history of returning calls over the
  parsers, every reference position of every schema a call returned, and of every definition in the export, names a
  definition of the export. This is the clause "every $ref in any returned schema or definition resolves in the final
  export" of C16 (and the `$ref` clause of C02) for histories in which every call returns.
* `schema_flat_no_refs` / `flat_schema_has_no_ref`: outside contextual mode no reference position is ever written (a named type
  is printed in place, a discriminated union by its variants): the flat `schema()` is self-contained.
The combinator lemmas are stated once, for an arbitrary predicate on reference strings, and used for both modes.
-/
namespace BeffVerif.C16R
open BeffVerif RT JsVal C16O C16N

def singleKeys : List String := ["items", "additionalProperties", "propertyNames", "not"]
def listKeys : List String := ["prefixItems", "anyOf", "allOf", "oneOf"]

inductive SOK (P : String → Prop) : JsVal → Prop
  | nonobj {v : JsVal} : (∀ kvs, v ≠ .obj kvs) → SOK P v
  | obj {kvs : List (String × JsVal)} :
      (∀ s, ("$ref", JsVal.str s) ∈ kvs → P s) →
      (∀ k v, (k, v) ∈ kvs → k ∈ singleKeys → SOK P v) →
      (∀ k xs, (k, JsVal.arr xs) ∈ kvs → k ∈ listKeys → ∀ x ∈ xs, SOK P x) →
      (∀ ps, ("properties", JsVal.obj ps) ∈ kvs → ∀ q ∈ ps, SOK P q.2) →
      (∀ d m, ("discriminator", JsVal.obj d) ∈ kvs → lookupProp d "mapping" = some (.obj m) → ∀ q ∈ m, ∀ s, q.2 = .str s → P s) →
      SOK P (.obj kvs)

/-- one entry of a schema object is fine -/
def PairOK (P : String → Prop) (p : String × JsVal) : Prop :=
  (p.1 = "$ref" → ∀ s, p.2 = .str s → P s) ∧
  (p.1 ∈ singleKeys → SOK P p.2) ∧
  (p.1 ∈ listKeys → ∀ xs, p.2 = .arr xs → ∀ x ∈ xs, SOK P x) ∧
  (p.1 = "properties" → ∀ ps, p.2 = .obj ps → ∀ q ∈ ps, SOK P q.2) ∧
  (p.1 = "discriminator" → ∀ d m, p.2 = .obj d → lookupProp d "mapping" = some (.obj m) → ∀ q ∈ m, ∀ s, q.2 = .str s → P s)

variable {P : String → Prop}

theorem sok_obj_of_pairs {kvs : List (String × JsVal)} (h : ∀ p ∈ kvs, PairOK P p) : SOK P (.obj kvs) := by
  refine .obj ?_ ?_ ?_ ?_ ?_
  · intro s hm; exact (h _ hm).1 rfl s rfl
  · intro k v hm hk; exact (h _ hm).2.1 hk
  · intro k xs hm hk; exact (h _ hm).2.2.1 hk xs rfl
  · intro ps hm; exact (h _ hm).2.2.2.1 rfl ps rfl
  · intro d m hm; exact (h _ hm).2.2.2.2 rfl d m rfl

theorem pairs_of_sok_obj {kvs : List (String × JsVal)} (h : SOK P (.obj kvs)) : ∀ p ∈ kvs, PairOK P p := by
  intro p hp
  cases h with
  | nonobj hn => exact absurd rfl (hn kvs)
  | obj h1 h2 h3 h4 h5 =>
    obtain ⟨k, v⟩ := p
    refine ⟨?_, ?_, ?_, ?_, ?_⟩
    · intro hk s hs; simp only at hk hs; subst hk; subst hs; exact h1 s hp
    · intro hk; exact h2 k v hp hk
    · intro hk xs hs; simp only at hs; subst hs; exact h3 k xs hp hk
    · intro hk ps hs; simp only at hk hs; subst hk; subst hs; exact h4 ps hp
    · intro hk d m hs; simp only at hk hs; subst hk; subst hs; exact h5 d m hp

theorem sok_mono {Q : String → Prop} (hpq : ∀ s, P s → Q s) {v : JsVal} (h : SOK P v) : SOK Q v := by
  induction h with
  | nonobj hn => exact .nonobj hn
  | obj h1 _ _ _ h5 ih2 ih3 ih4 =>
    exact .obj (fun s hm => hpq s (h1 s hm)) ih2 ih3 ih4 (fun d m hm hl q hq s hs => hpq s (h5 d m hm hl q hq s hs))

theorem pairs_setProp {kvs : List (String × JsVal)} {k : String} {v : JsVal} (h : ∀ p ∈ kvs, PairOK P p)
    (hv : PairOK P (k, v)) : ∀ p ∈ setProp kvs k v, PairOK P p := by
  intro p hp
  rcases mem_setProp hp with rfl | hp
  · exact hv
  · exact h p hp

theorem pairs_foldl_setProp (L : List (String × JsVal)) : ∀ (acc : List (String × JsVal)), (∀ p ∈ acc, PairOK P p) →
    (∀ p ∈ L, PairOK P p) → ∀ p ∈ L.foldl (fun acc kv => setProp acc kv.1 kv.2) acc, PairOK P p := by
  induction L with
  | nil => intro acc ha _; exact ha
  | cons x xs ih =>
    intro acc ha hl
    simp only [List.foldl_cons]
    exact ih _ (pairs_setProp ha (hl x (by simp))) (fun p hp => hl p (by simp [hp]))

theorem mem_foldl_setProp (L : List (String × JsVal)) : ∀ (acc : List (String × JsVal)) (p : String × JsVal),
    p ∈ L.foldl (fun acc kv => setProp acc kv.1 kv.2) acc → p ∈ acc ∨ p ∈ L := by
  induction L with
  | nil => intro acc p h; exact Or.inl h
  | cons x xs ih =>
    intro acc p h
    simp only [List.foldl_cons] at h
    rcases ih _ p h with h | h
    · rcases mem_setProp h with rfl | h
      · exact Or.inr (by simp)
      · exact Or.inl h
    · exact Or.inr (by simp [h])

theorem sok_jobj {L : List (String × JsVal)} (h : ∀ p ∈ L, PairOK P p) : SOK P (jobj L) := by
  unfold jobj
  exact sok_obj_of_pairs (pairs_foldl_setProp L [] (fun p hp => by cases hp) h)

/-- an entry under a key that is no keyword with sub-schemas or references -/
theorem pair_plain {k : String} {v : JsVal} (h1 : k ≠ "$ref") (h2 : k ∉ singleKeys) (h3 : k ∉ listKeys) (h4 : k ≠ "properties")
    (h5 : k ≠ "discriminator") : PairOK P (k, v) :=
  ⟨fun e => absurd e h1, fun e => absurd e h2, fun e => absurd e h3, fun e => absurd e h4, fun e => absurd e h5⟩

theorem pair_single {k : String} {v : JsVal} (hk : k ∈ singleKeys) (hv : SOK P v) : PairOK P (k, v) := by
  have h1 : k ≠ "$ref" := by intro e; subst e; simp [singleKeys] at hk
  have h3 : k ∉ listKeys := by
    simp only [singleKeys, List.mem_cons, List.mem_nil_iff, or_false] at hk
    rcases hk with rfl | rfl | rfl | rfl <;> simp [listKeys]
  have h4 : k ≠ "properties" := by intro e; subst e; simp [singleKeys] at hk
  have h5 : k ≠ "discriminator" := by intro e; subst e; simp [singleKeys] at hk
  exact ⟨fun e => absurd e h1, fun _ => hv, fun e => absurd e h3, fun e => absurd e h4, fun e => absurd e h5⟩

theorem pair_list {k : String} {xs : List JsVal} (hk : k ∈ listKeys) (hv : ∀ x ∈ xs, SOK P x) : PairOK P (k, .arr xs) := by
  have h1 : k ≠ "$ref" := by intro e; subst e; simp [listKeys] at hk
  have h2 : k ∉ singleKeys := by
    simp only [listKeys, List.mem_cons, List.mem_nil_iff, or_false] at hk
    rcases hk with rfl | rfl | rfl | rfl <;> simp [singleKeys]
  have h4 : k ≠ "properties" := by intro e; subst e; simp [listKeys] at hk
  have h5 : k ≠ "discriminator" := by intro e; subst e; simp [listKeys] at hk
  refine ⟨fun e => absurd e h1, fun e => absurd e h2, fun _ ys e => ?_, fun e => absurd e h4, fun e => absurd e h5⟩
  injection e with e; subst e; exact hv

theorem pair_properties {ps : List (String × JsVal)} (hv : ∀ q ∈ ps, SOK P q.2) : PairOK P ("properties", .obj ps) := by
  refine ⟨fun e => by simp at e, fun e => by simp [singleKeys] at e, fun e => by simp [listKeys] at e, fun _ qs e => ?_, fun e => by simp at e⟩
  injection e with e; subst e; exact hv

theorem pair_ref {s : String} (h : P s) : PairOK P ("$ref", .str s) := by
  refine ⟨fun _ t e => ?_, fun e => by simp [singleKeys] at e, fun e => by simp [listKeys] at e, fun e => by simp at e, fun e => by simp at e⟩
  injection e with e; subst e; exact h

theorem sok_bool (b : Bool) : SOK P (.bool b) := .nonobj (fun _ e => by cases e)
theorem sok_empty : SOK P (jobj []) := sok_jobj (fun p hp => by cases hp)

/-- `annotateSchema` adds a description only -/
theorem sok_annotate {desc : Option String} {s : JsVal} (h : SOK P s) : SOK P (annotate desc s) := by
  unfold annotate
  split
  · rename_i d kvs
    exact sok_obj_of_pairs (pairs_setProp (pairs_of_sok_obj h) (pair_plain (by decide) (by decide) (by decide) (by decide) (by decide)))
  · exact h

/-! ### `removeNullUnionBranch` -/

theorem lookupProp_mem' {ps : List (String × JsVal)} {k : String} {v : JsVal} (h : lookupProp ps k = some v) : (k, v) ∈ ps := by
  unfold lookupProp at h
  split at h
  · rename_i p hp
    injection h with h
    have := List.find?_some hp
    have e : p.1 = k := by simpa using this
    have hm := List.mem_of_find?_eq_some hp
    rw [← e, ← h]; exact hm
  · cases h

theorem sok_rnb : ∀ (n : Nat) (s r : JsVal), SOK P s → removeNullUnionBranch n s = some r → SOK P r := by
  intro n
  induction n with
  | zero => intro s r _ h; simp [removeNullUnionBranch] at h
  | succ n ih =>
    intro s r hs h
    cases s with
    | obj kvs =>
      simp only [removeNullUnionBranch] at h
      have pairs := pairs_of_sok_obj hs
      split at h
      · cases h
      · rename_i k hk
        have hkl : k ∈ listKeys := by
          split at hk
          · injection hk with hk; subst hk; simp [listKeys]
          · split at hk
            · injection hk with hk; subst hk; simp [listKeys]
            · cases hk
        split at h
        · rename_i variants hv
          split at h
          · cases h
          · have hvar : ∀ x ∈ variants, SOK P x := (pairs _ (lookupProp_mem' hv)).2.2.1 hkl variants rfl
            have hnorm : ∀ x ∈ (variants.filter (fun v => !isNullDef v)).map (fun v => (removeNullUnionBranch n v).getD v), SOK P x := by
              intro x hx
              rw [List.mem_map] at hx
              obtain ⟨y, hy, rfl⟩ := hx
              have hy' := hvar y (List.mem_filter.1 hy).1
              cases e : removeNullUnionBranch n y with
              | none => simpa using hy'
              | some z => simpa using ih y z hy' e
            split at h
            · rename_i x hx
              injection h with h
              subst h
              exact hnorm x (by rw [hx]; simp)
            · injection h with h
              subst h
              exact sok_obj_of_pairs (pairs_setProp pairs (pair_list hkl hnorm))
        · cases h
    | _ => simp [removeNullUnionBranch] at h

/-! ### `tryMergeAllOfObjectSchemas` -/

theorem foldl_opt_inv {α β : Type} (f : Option α → β → Option α) (I : α → Prop) (l : List β)
    (hnone : ∀ b, f none b = none)
    (hf : ∀ a b a', b ∈ l → I a → f (some a) b = some a' → I a') :
    ∀ (init : Option α) (r : α), (∀ a, init = some a → I a) → l.foldl f init = some r → I r := by
  induction l with
  | nil => intro init r hi h; exact hi r h
  | cons b bs ih =>
    intro init r hi h
    simp only [List.foldl_cons] at h
    refine ih (fun a b a' hb => hf a b a' (by simp [hb])) (f init b) r ?_ h
    intro a' ha'
    cases init with
    | none => rw [hnone] at ha'; cases ha'
    | some a => exact hf a b a' (by simp) (hi a rfl) ha'

theorem foldl_none {α β : Type} (f : Option α → β → Option α) (hnone : ∀ b, f none b = none) (l : List β) :
    l.foldl f none = none := by
  induction l with
  | nil => rfl
  | cons b bs ih => simp only [List.foldl_cons, hnone, ih]

theorem sok_merge {schemas : List JsVal} {merged : JsVal} (hs : ∀ x ∈ schemas, SOK P x)
    (h : tryMergeAllOf schemas = some merged) : SOK P merged := by
  unfold tryMergeAllOf at h
  simp only at h
  split at h
  · rename_i props req hfold
    injection h with h
    subst h
    -- invariant of the two folds: every collected property schema is fine
    have inv : ∀ q ∈ props, SOK P q.2 := by
      have := foldl_opt_inv (α := List (String × JsVal) × List String) _ (fun a => ∀ q ∈ a.1, SOK P q.2) schemas
        (by intro b; rfl)
        (by
          intro a s a' hsm ha hstep
          obtain ⟨props0, req0⟩ := a
          cases s with
          | obj kvs =>
            simp only at hstep
            generalize (!_ : Bool) = cnd at hstep
            cases cnd with
            | true => simp at hstep
            | false =>
              simp only [Bool.false_eq_true, if_false] at hstep
              -- inner fold over the properties of `s`
              have hps : ∀ ps, lookupProp kvs "properties" = some (.obj ps) → ∀ q ∈ ps, SOK P q.2 := by
                intro ps hl
                exact (pairs_of_sok_obj (hs _ hsm) _ (lookupProp_mem' hl)).2.2.2.1 rfl ps rfl
              refine foldl_opt_inv (α := List (String × JsVal) × List String) _ (fun a => ∀ q ∈ a.1, SOK P q.2) _
                (by intro b; rfl) ?_ _ a' ?_ hstep
              · intro a p a'' hp ha hst
                obtain ⟨pr, r⟩ := a
                simp only at hst
                have hp2 : SOK P p.2 := by
                  revert hp
                  split
                  · rename_i ps hl; intro hp; exact hps ps hl p hp
                  · intro hp; cases hp
                split at hst
                · split at hst
                  · injection hst with hst; subst hst
                    intro q hq
                    rcases mem_setProp hq with rfl | hq
                    · exact hp2
                    · exact ha q hq
                  · cases hst
                · injection hst with hst; subst hst
                  intro q hq
                  rcases mem_setProp hq with rfl | hq
                  · exact hp2
                  · exact ha q hq
              · intro a e; injection e with e; subst e; exact ha
          | _ => simp at hstep)
        (some ([], [])) (props, req) (by intro a e; injection e with e; subst e; intro q hq; cases hq) hfold
      exact this
    apply sok_jobj
    intro p hp
    simp only [List.mem_append, List.mem_cons, List.mem_nil_iff, or_false] at hp
    rcases hp with ((rfl | hp) | hp) | rfl
    · exact pair_plain (by decide) (by decide) (by decide) (by decide) (by decide)
    · split at hp
      · simp only [List.mem_cons, List.mem_nil_iff, or_false] at hp; subst hp; exact pair_properties inv
      · cases hp
    · split at hp
      · simp only [List.mem_cons, List.mem_nil_iff, or_false] at hp; subst hp
        exact pair_plain (by decide) (by decide) (by decide) (by decide) (by decide)
      · cases hp
    · exact pair_single (by simp [singleKeys]) (sok_bool false)
  · cases h

/-! ### the printer -/

section
variable (env : Env) (o : SOpts) (roots : List RT)

/-- the reference of a name that some reachable runtype mentions -/
def RefOf (s : String) : Prop := ∃ N rt t, CReach env o roots rt ∧ Mentions env o rt N t ∧ s = getRef o.refTemplate N

end

def CtxOK (P : String → Prop) (c : SCtx) : Prop := ∀ p ∈ c.collected, SOK P p.2

def Claim (P : String → Prop) (go : RT → SCtx → SRes JsVal) (t : RT) : Prop :=
  ∀ c s c', go t c = .ok s c' → CtxOK P c → SOK P s ∧ CtxOK P c'

section
variable {env : Env} {o : SOpts} {roots : List RT}

theorem seqS_refs {go : RT → SCtx → SRes JsVal} : ∀ (ts : List RT), (∀ t ∈ ts, Claim P go t) →
    ∀ c ss c', seqS go ts c = .ok ss c' → CtxOK P c → (∀ x ∈ ss, SOK P x) ∧ CtxOK P c' := by
  intro ts
  induction ts with
  | nil =>
    intro _ c ss c' h hi
    simp only [seqS, SRes.ok.injEq] at h
    rw [← h.1, ← h.2]
    exact ⟨fun x hx => (by cases hx), hi⟩
  | cons t ts ih =>
    intro hv c ss c' h hi
    simp only [seqS] at h
    cases e1 : go t c with
    | ok s c1 =>
      rw [e1] at h
      simp only at h
      cases e2 : seqS go ts c1 with
      | ok ss2 c2 =>
        rw [e2] at h
        simp only [SRes.ok.injEq] at h
        rw [← h.1, ← h.2]
        have p1 := hv t (by simp) c s c1 e1 hi
        have p2 := ih (fun x hx => hv x (by simp [hx])) c1 ss2 c2 e2 p1.2
        refine ⟨?_, p2.2⟩
        intro x hx
        rcases List.mem_cons.1 hx with rfl | hx
        · exact p1.1
        · exact p2.1 x hx
      | throw e => rw [e2] at h; simp at h
      | nofuel => rw [e2] at h; simp at h
    | throw e => rw [e1] at h; simp at h
    | nofuel => rw [e1] at h; simp at h

theorem propsS_refs {go : RT → SCtx → SRes JsVal} : ∀ (props : List (String × RT)), (∀ p ∈ props, Claim P go p.2) →
    ∀ acc c r c', propsS go props acc c = .ok r c' → CtxOK P c → (∀ q ∈ acc.1, SOK P q.2) →
      (∀ q ∈ r.1, SOK P q.2) ∧ CtxOK P c' := by
  intro props
  induction props with
  | nil =>
    intro _ acc c r c' h hi ha
    simp only [propsS, SRes.ok.injEq] at h
    rw [← h.1, ← h.2]
    exact ⟨ha, hi⟩
  | cons p rest ih =>
    intro hv acc c r c' h hi ha
    obtain ⟨ps, opt⟩ := acc
    simp only [propsS] at h
    cases e1 : go p.2 c with
    | ok raw c1 =>
      rw [e1] at h
      simp only at h
      have p1 := hv p (by simp) c raw c1 e1 hi
      cases e2 : removeNullUnionBranch 50 raw with
      | some rw' =>
        rw [e2] at h
        simp only at h
        refine ih (fun x hx => hv x (by simp [hx])) _ c1 r c' h p1.2 ?_
        intro q hq
        rcases mem_setProp hq with rfl | hq
        · exact sok_rnb 50 raw rw' p1.1 e2
        · exact ha q hq
      | none =>
        rw [e2] at h
        simp only at h
        refine ih (fun x hx => hv x (by simp [hx])) _ c1 r c' h p1.2 ?_
        intro q hq
        rcases mem_setProp hq with rfl | hq
        · exact p1.1
        · exact ha q hq
    | throw e => rw [e1] at h; simp at h
    | nofuel => rw [e1] at h; simp at h

theorem indexS_refs {go : RT → SCtx → SRes JsVal} : ∀ (ix : List (RT × RT)),
    (∀ p ∈ ix, Claim P go p.1 ∧ Claim P go p.2) →
    ∀ c ss c', indexS go ix c = .ok ss c' → CtxOK P c → (∀ x ∈ ss, SOK P x) ∧ CtxOK P c' := by
  intro ix
  induction ix with
  | nil =>
    intro _ c ss c' h hi
    simp only [indexS, SRes.ok.injEq] at h
    rw [← h.1, ← h.2]
    exact ⟨fun x hx => (by cases hx), hi⟩
  | cons p rest ih =>
    intro hv c ss c' h hi
    simp only [indexS] at h
    cases e1 : go p.1 c with
    | ok ks c1 =>
      rw [e1] at h
      simp only at h
      have p1 := (hv p (by simp)).1 c ks c1 e1 hi
      cases e2 : go p.2 c1 with
      | ok vs c2 =>
        rw [e2] at h
        simp only at h
        have p2 := (hv p (by simp)).2 c1 vs c2 e2 p1.2
        cases e3 : indexS go rest c2 with
        | ok ss3 c3 =>
          rw [e3] at h
          simp only [SRes.ok.injEq] at h
          rw [← h.1, ← h.2]
          have p3 := ih (fun x hx => hv x (by simp [hx])) c2 ss3 c3 e3 p2.2
          refine ⟨?_, p3.2⟩
          intro x hx
          rcases List.mem_cons.1 hx with rfl | hx
          · apply sok_jobj
            intro q hq
            simp only [List.mem_cons, List.mem_nil_iff, or_false] at hq
            rcases hq with rfl | rfl | rfl
            · exact pair_plain (by decide) (by decide) (by decide) (by decide) (by decide)
            · exact pair_single (by simp [singleKeys]) p2.1
            · exact pair_single (by simp [singleKeys]) p1.1
          · exact p3.1 x hx
        | throw e => rw [e3] at h; simp at h
        | nofuel => rw [e3] at h; simp at h
      | throw e => rw [e2] at h; simp at h
      | nofuel => rw [e2] at h; simp at h
    | throw e => rw [e1] at h; simp at h
    | nofuel => rw [e1] at h; simp at h

theorem defineS_refs {go : RT → SCtx → SRes JsVal} {name : String} {target : RT} (hg : Claim P go target)
    {c : SCtx} {u : Unit} {c' : SCtx} (h : defineS go name target c = .ok u c') (hi : CtxOK P c) : CtxOK P c' := by
  unfold defineS at h
  split at h
  · simp only [SRes.ok.injEq] at h; rw [← h.2]; exact hi
  · cases e1 : go target { c with inProgress := c.inProgress ++ [name] } with
    | ok body c2 =>
      rw [e1] at h
      simp only [SRes.ok.injEq] at h
      rw [← h.2]
      have p1 := hg _ body c2 e1 hi
      intro q hq
      rcases mem_setProp hq with rfl | hq
      · exact p1.1
      · exact p1.2 q hq
    | throw e => rw [e1] at h; simp at h
    | nofuel => rw [e1] at h; simp at h

theorem variantsS_refs {go : RT → SCtx → SRes JsVal} {tgt : String × RT → String × Option RT} {template : String} :
    ∀ (sm : List (String × RT)), (∀ kv ∈ sm, ∀ name t, tgt kv = (name, some t) → Claim P go t) →
    ∀ c refs c', variantsS go tgt template sm c = .ok refs c' → CtxOK P c →
      (∀ r ∈ refs, ∃ kv ∈ sm, ∃ name t, tgt kv = (name, some t) ∧ r.2 = getRef template name) ∧ CtxOK P c' := by
  intro sm
  induction sm with
  | nil =>
    intro _ c refs c' h hi
    simp only [variantsS, SRes.ok.injEq] at h
    rw [← h.1, ← h.2]
    exact ⟨fun x hx => (by cases hx), hi⟩
  | cons kv rest ih =>
    intro hv c refs c' h hi
    simp only [variantsS] at h
    split at h
    · simp at h
    · rename_i name target htg
      cases e1 : defineS go name target c with
      | ok u c1 =>
        rw [e1] at h
        simp only at h
        have hi1 := defineS_refs (hv kv (by simp) name target htg) e1 hi
        cases e2 : variantsS go tgt template rest c1 with
        | ok refs2 c2 =>
          rw [e2] at h
          simp only [SRes.ok.injEq] at h
          rw [← h.1, ← h.2]
          have p2 := ih (fun x hx => hv x (by simp [hx])) c1 refs2 c2 e2 hi1
          refine ⟨?_, p2.2⟩
          intro r hr
          rcases List.mem_cons.1 hr with rfl | hr
          · exact ⟨kv, by simp, name, target, htg, rfl⟩
          · obtain ⟨kv', hkv', rest'⟩ := p2.1 r hr
            exact ⟨kv', by simp [hkv'], rest'⟩
        | throw e => rw [e2] at h; simp at h
        | nofuel => rw [e2] at h; simp at h
      | throw e => rw [e1] at h; simp at h
      | nofuel => rw [e1] at h; simp at h

private theorem plainP {k : String} {v : JsVal} (h1 : k ≠ "$ref") (h2 : k ∉ singleKeys) (h3 : k ∉ listKeys) (h4 : k ≠ "properties")
    (h5 : k ≠ "discriminator") : PairOK P (k, v) := pair_plain h1 h2 h3 h4 h5

/-- a schema object made of entries that hold no sub-schema and no reference -/
theorem sok_flat (L : List (String × JsVal)) (h : ∀ p ∈ L, p.1 ∈ ["type", "enum", "const", "pattern", "format"]) :
    SOK P (jobj L) := by
  apply sok_jobj
  intro p hp
  obtain ⟨k, v⟩ := p
  have := h _ hp
  simp only [List.mem_cons, List.mem_nil_iff, or_false] at this
  rcases this with rfl | rfl | rfl | rfl | rfl <;>
    exact pair_plain (by decide) (by decide) (by decide) (by decide) (by decide)

/-- **every reference position of a returned schema and of the definitions stored meanwhile is the reference of a
mentioned name** -/
theorem schema_refs (hc : o.contextual = true) : ∀ (n : Nat) (rt : RT) (desc : Option String)
    (seen : List String) (c : SCtx) (s : JsVal) (c' : SCtx), CReach env o roots rt →
    schema env o n rt desc seen c = .ok s c' → CtxOK (RefOf env o roots) c → SOK (RefOf env o roots) s ∧ CtxOK (RefOf env o roots) c' := by
  intro n
  induction n with
  | zero => intro rt desc seen c s c' _ h; simp [schema] at h
  | succ n ih =>
    intro rt desc seen c s c' hr h hi
    have goC : ∀ t, CReach env o roots t → Claim (RefOf env o roots) (fun t c => schema env o n t none seen c) t :=
      fun t ht c s c' h hi => ih t none seen c s c' ht h hi
    have flat : ∀ (L : List (String × JsVal)), (∀ p ∈ L, p.1 ∈ ["type", "enum", "const", "pattern", "format"]) →
        SRes.ok (annotate desc (jobj L)) c = SRes.ok s c' → SOK (RefOf env o roots) s ∧ CtxOK (RefOf env o roots) c' := by
      intro L hL e
      simp only [SRes.ok.injEq] at e
      rw [← e.1, ← e.2]
      exact ⟨sok_annotate (sok_flat L hL), hi⟩
    cases rt with
    | described dd t =>
      simp only [schema] at h
      exact ih t (some dd) seen c s c' (.kid hr (by simp [ckids])) h hi
    | typeof t => simp only [schema] at h; exact flat _ (by simp) h
    | any => simp only [schema] at h; exact flat _ (by simp) h
    | nullish _ => simp only [schema] at h; exact flat _ (by simp) h
    | never =>
      simp only [schema, SRes.ok.injEq] at h
      rw [← h.1, ← h.2]
      refine ⟨sok_annotate (sok_jobj ?_), hi⟩
      intro p hp
      simp only [List.mem_cons, List.mem_nil_iff, or_false] at hp
      subst hp
      exact pair_single (by simp [singleKeys]) sok_empty
    | regex _ _ => simp only [schema] at h; exact flat _ (by simp) h
    | strfmt _ => simp only [schema] at h; exact flat _ (by simp) h
    | numfmt _ => simp only [schema] at h; exact flat _ (by simp) h
    | date => simp [schema] at h
    | bigint => simp [schema] at h
    | typed _ => simp [schema] at h
    | map _ _ => simp [schema] at h
    | set _ => simp [schema] at h
    | const v =>
      simp only [schema] at h
      split at h <;> exact flat _ (by simp) h
    | consts vs =>
      simp only [schema] at h
      split at h <;> exact flat _ (by simp) h
    | array t =>
      simp only [schema] at h
      cases e1 : schema env o n t none seen c with
      | ok x c1 =>
        rw [e1] at h
        simp only [SRes.ok.injEq] at h
        rw [← h.1, ← h.2]
        have p1 := goC t (.kid hr (by simp [ckids])) c x c1 e1 hi
        refine ⟨sok_annotate (sok_jobj ?_), p1.2⟩
        intro p hp
        simp only [List.mem_cons, List.mem_nil_iff, or_false] at hp
        rcases hp with rfl | rfl
        · exact pair_plain (by decide) (by decide) (by decide) (by decide) (by decide)
        · exact pair_single (by simp [singleKeys]) p1.1
      | throw e => rw [e1] at h; simp at h
      | nofuel => rw [e1] at h; simp at h
    | optional t =>
      simp only [schema] at h
      cases e1 : schema env o n t none seen c with
      | ok x c1 =>
        rw [e1] at h
        simp only [SRes.ok.injEq] at h
        rw [← h.1, ← h.2]
        have p1 := goC t (.kid hr (by simp [ckids])) c x c1 e1 hi
        refine ⟨sok_jobj ?_, p1.2⟩
        intro p hp
        simp only [List.mem_cons, List.mem_nil_iff, or_false] at hp
        subst hp
        refine pair_list (by simp [listKeys]) ?_
        intro y hy
        simp only [List.mem_cons, List.mem_nil_iff, or_false] at hy
        rcases hy with rfl | rfl
        · exact p1.1
        · exact sok_flat _ (by simp)
      | throw e => rw [e1] at h; simp at h
      | nofuel => rw [e1] at h; simp at h
    | anyOf ts =>
      simp only [schema] at h
      cases e1 : seqS (fun t c => schema env o n t none seen c) ts c with
      | ok x c1 =>
        rw [e1] at h
        simp only [SRes.ok.injEq] at h
        rw [← h.1, ← h.2]
        have p1 := seqS_refs ts (fun t ht => goC t (.kid hr (by simp [ckids, ht]))) c x c1 e1 hi
        refine ⟨sok_annotate (sok_jobj ?_), p1.2⟩
        intro p hp
        simp only [List.mem_cons, List.mem_nil_iff, or_false] at hp
        subst hp
        exact pair_list (by simp [listKeys]) p1.1
      | throw e => rw [e1] at h; simp at h
      | nofuel => rw [e1] at h; simp at h
    | allOf ts =>
      simp only [schema] at h
      cases e1 : seqS (fun t c => schema env o n t none seen c) ts c with
      | ok x c1 =>
        rw [e1] at h
        simp only at h
        have p1 := seqS_refs ts (fun t ht => goC t (.kid hr (by simp [ckids, ht]))) c x c1 e1 hi
        split at h
        · rename_i merged hm
          simp only [SRes.ok.injEq] at h
          rw [← h.1, ← h.2]
          exact ⟨sok_annotate (sok_merge p1.1 hm), p1.2⟩
        · simp only [SRes.ok.injEq] at h
          rw [← h.1, ← h.2]
          refine ⟨sok_annotate (sok_jobj ?_), p1.2⟩
          intro p hp
          simp only [List.mem_cons, List.mem_nil_iff, or_false] at hp
          subst hp
          exact pair_list (by simp [listKeys]) p1.1
      | throw e => rw [e1] at h; simp at h
      | nofuel => rw [e1] at h; simp at h
    | tuple pre rest =>
      simp only [schema] at h
      cases e1 : seqS (fun t c => schema env o n t none seen c) pre c with
      | ok x c1 =>
        rw [e1] at h
        simp only at h
        have p1 := seqS_refs pre (fun t ht => goC t (.kid hr (by simp [ckids, ht]))) c x c1 e1 hi
        have build : ∀ (items : JsVal) (c2 : SCtx), SOK (RefOf env o roots) items → CtxOK (RefOf env o roots) c2 →
            SRes.ok (annotate desc (jobj ([("type", JsVal.str "array")] ++ (if x.length > 0 then [("prefixItems", JsVal.arr x)] else []) ++
              [("items", items), ("minItems", JsVal.num (natToCanon pre.length))]))) c2 = SRes.ok s c' →
            SOK (RefOf env o roots) s ∧ CtxOK (RefOf env o roots) c' := by
          intro items c2 hit hc2 e
          simp only [SRes.ok.injEq] at e
          rw [← e.1, ← e.2]
          refine ⟨sok_annotate (sok_jobj ?_), hc2⟩
          intro p hp
          simp only [List.mem_append, List.mem_cons, List.mem_nil_iff, or_false] at hp
          rcases hp with (rfl | hp) | rfl | rfl
          · exact pair_plain (by decide) (by decide) (by decide) (by decide) (by decide)
          · split at hp
            · simp only [List.mem_cons, List.mem_nil_iff, or_false] at hp; subst hp
              exact pair_list (by simp [listKeys]) p1.1
            · cases hp
          · exact pair_single (by simp [singleKeys]) hit
          · exact pair_plain (by decide) (by decide) (by decide) (by decide) (by decide)
        cases rest with
        | none =>
          simp only at h
          exact build _ c1 (sok_bool false) p1.2 h
        | some r =>
          simp only at h
          cases e2 : schema env o n r none seen c1 with
          | ok y c2 =>
            rw [e2] at h
            simp only at h
            have p2 := goC r (.kid hr (by simp [ckids])) c1 y c2 e2 p1.2
            exact build y c2 p2.1 p2.2 h
          | throw e => rw [e2] at h; simp at h
          | nofuel => rw [e2] at h; simp at h
      | throw e => rw [e1] at h; simp at h
      | nofuel => rw [e1] at h; simp at h
    | ref name =>
      simp only [schema, hc, if_true] at h
      cases hl : env.lookup name with
      | none => rw [hl] at h; simp at h
      | some to =>
        rw [hl] at h
        simp only at h
        have tail : ∀ (target : RT) (u : Unit) (c1 : SCtx), namedTarget env o name = some target →
            defineS (fun t c => schema env o n t none seen c) name target c = .ok u c1 →
            SRes.ok (annotate desc (jobj [("$ref", JsVal.str (getRef o.refTemplate name))])) c1 = SRes.ok s c' →
            SOK (RefOf env o roots) s ∧ CtxOK (RefOf env o roots) c' := by
          intro target u c1 hnt e1 e
          have hm : Mentions env o (.ref name) name target := .ref hl hnt
          have hi1 := defineS_refs (goC _ (.target hr hm)) e1 hi
          simp only [SRes.ok.injEq] at e
          rw [← e.1, ← e.2]
          refine ⟨sok_annotate (sok_jobj ?_), hi1⟩
          intro p hp
          simp only [List.mem_cons, List.mem_nil_iff, or_false] at hp
          subst hp
          exact pair_ref ⟨name, _, target, hr, hm, rfl⟩
        cases ho : o.overrides.find? (fun p => p.1 == name) with
        | some p =>
          simp only [ho] at h
          split at h
          · rename_i u c1 e1
            exact tail p.2 u c1 (by unfold namedTarget; rw [ho]) e1 h
          · simp at h
          · simp at h
        | none =>
          simp only [ho] at h
          split at h
          · rename_i u c1 e1
            exact tail to u c1 (by unfold namedTarget; rw [ho]; exact hl) e1 h
          · simp at h
          · simp at h
    | disc schemas key mp sm =>
      simp only [schema, hc, if_true] at h
      cases hh : hash env 200 (.disc schemas key mp sm) [] with
      | none => rw [hh] at h; simp at h
      | some uh =>
        rw [hh] at h
        simp only at h
        cases e1 : variantsS (fun t c => schema env o n t none seen c) (variantTarget env o key uh sm) o.refTemplate sm c with
        | ok x c1 =>
          rw [e1] at h
          simp only [SRes.ok.injEq] at h
          rw [← h.1, ← h.2]
          have p1 := variantsS_refs sm (by
            intro kv hkv name t ht
            have hm : Mentions env o (.disc schemas key mp sm) name t := .variant hh hkv ht
            exact goC t (.target hr hm)) c x c1 e1 hi
          have isref : ∀ r ∈ x, RefOf env o roots r.2 := by
            intro r hr'
            obtain ⟨kv, hkv, name, t, ht, e⟩ := p1.1 r hr'
            exact ⟨name, _, t, hr, .variant hh hkv ht, e⟩
          refine ⟨sok_annotate (sok_jobj ?_), p1.2⟩
          intro p hp
          simp only [List.mem_cons, List.mem_nil_iff, or_false] at hp
          rcases hp with rfl | rfl | rfl
          · exact pair_plain (by decide) (by decide) (by decide) (by decide) (by decide)
          · refine ⟨fun e => by simp at e, fun e => by simp [singleKeys] at e, fun e => by simp [listKeys] at e, fun e => by simp at e, ?_⟩
            intro _ d m ed hl q hq sstr hs
            -- the mapping object was built from the references
            simp only at ed
            unfold jobj at ed
            injection ed with ed
            subst ed
            rcases mem_foldl_setProp _ _ _ (lookupProp_mem' hl) with hm | hm
            · cases hm
            · simp only [List.mem_cons, List.mem_nil_iff, or_false, Prod.mk.injEq] at hm
              rcases hm with ⟨hk, _⟩ | ⟨_, hm⟩
              · exact absurd hk (by decide)
              · injection hm with hm
                subst hm
                rcases mem_foldl_setProp _ _ _ hq with hq | hq
                · cases hq
                · rw [List.mem_map] at hq
                  obtain ⟨r, hr', rfl⟩ := hq
                  simp only at hs
                  injection hs with hs
                  subst hs
                  exact isref r hr'
          · refine pair_list (by simp [listKeys]) ?_
            intro y hy
            rw [List.mem_map] at hy
            obtain ⟨r, hr', rfl⟩ := hy
            apply sok_jobj
            intro p hp
            simp only [List.mem_cons, List.mem_nil_iff, or_false] at hp
            subst hp
            exact pair_ref (isref r hr')
        | throw e => rw [e1] at h; simp at h
        | nofuel => rw [e1] at h; simp at h
    | object props ix =>
      simp only [schema] at h
      cases e1 : propsS (fun t c => schema env o n t none seen c) props ([], []) c with
      | ok x c1 =>
        rw [e1] at h
        obtain ⟨ps, optionalized⟩ := x
        simp only at h
        have p1 := propsS_refs props (fun p hp => goC p.2 (.kid hr (by
          simp only [ckids, List.mem_append, List.mem_map]; exact Or.inl ⟨p, hp, rfl⟩))) ([], []) c _ c1 e1 hi
          (fun q hq => by cases hq)
        cases e2 : indexS (fun t c => schema env o n t none seen c) ix c1 with
        | ok y c2 =>
          rw [e2] at h
          simp only at h
          have p2 := indexS_refs ix (fun p hp => ⟨goC p.1 (.kid hr (by
              simp only [ckids, List.mem_append, List.mem_map]; exact Or.inr (Or.inl ⟨p, hp, rfl⟩))),
            goC p.2 (.kid hr (by simp only [ckids, List.mem_append, List.mem_map]; exact Or.inr (Or.inr ⟨p, hp, rfl⟩)))⟩) c1 y c2 e2 p1.2
          have hbase : ∀ (R : List (String × JsVal)), (∀ p ∈ R, p.1 = "required") →
              ∀ p ∈ ([("type", JsVal.str "object"), ("properties", JsVal.obj ps)] ++ R), PairOK (RefOf env o roots) p := by
            intro R hR p hp
            simp only [List.mem_append, List.mem_cons, List.mem_nil_iff, or_false] at hp
            rcases hp with (rfl | rfl) | hp
            · exact pair_plain (by decide) (by decide) (by decide) (by decide) (by decide)
            · exact pair_properties p1.1
            · obtain ⟨k, v⟩ := p
              have := hR _ hp
              simp only at this
              subst this
              exact pair_plain (by decide) (by decide) (by decide) (by decide) (by decide)
          have hreq : ∀ (req : List String), ∀ p ∈ (if req.length > 0 then [("required", JsVal.arr (req.map JsVal.str))] else []), p.1 = "required" := by
            intro req p hp
            split at hp
            · simp only [List.mem_cons, List.mem_nil_iff, or_false] at hp; subst hp; rfl
            · cases hp
          split at h
          · simp only [SRes.ok.injEq] at h
            rw [← h.1, ← h.2]
            refine ⟨sok_annotate (sok_jobj ?_), p2.2⟩
            intro p hp
            rw [List.mem_append] at hp
            rcases hp with hp | hp
            · exact hbase _ (hreq _) p hp
            · simp only [List.mem_cons, List.mem_nil_iff, or_false] at hp; subst hp
              exact pair_single (by simp [singleKeys]) (sok_bool false)
          · split at h
            · have hhead : SOK (RefOf env o roots) (y.headD .null) := by
                cases y with
                | nil => exact .nonobj (fun _ e => by cases e)
                | cons a _ => exact p2.1 a (by simp)
              split at h
              · simp only [SRes.ok.injEq] at h
                rw [← h.1, ← h.2]
                refine ⟨sok_annotate (sok_jobj ?_), p2.2⟩
                intro p hp
                simp only [List.mem_cons, List.mem_nil_iff, or_false] at hp
                rcases hp with rfl | rfl
                · exact pair_plain (by decide) (by decide) (by decide) (by decide) (by decide)
                · exact pair_single (by simp [singleKeys]) (sok_bool false)
              · rename_i kvs hk
                simp only [SRes.ok.injEq] at h
                rw [← h.1, ← h.2]
                rw [hk] at hhead
                exact ⟨sok_annotate (sok_obj_of_pairs (pairs_setProp (pairs_of_sok_obj hhead)
                  (pair_single (by simp [singleKeys]) (sok_bool true)))), p2.2⟩
              · simp only [SRes.ok.injEq] at h
                rw [← h.1, ← h.2]
                exact ⟨sok_annotate hhead, p2.2⟩
            · simp only [SRes.ok.injEq] at h
              rw [← h.1, ← h.2]
              refine ⟨sok_annotate (sok_jobj ?_), p2.2⟩
              intro p hp
              simp only [List.mem_cons, List.mem_nil_iff, or_false] at hp
              subst hp
              refine pair_list (by simp [listKeys]) ?_
              intro z hz
              rcases List.mem_cons.1 hz with rfl | hz
              · exact sok_jobj (hbase _ (hreq _))
              · exact p2.1 z hz
        | throw e => rw [e2] at h; simp at h
        | nofuel => rw [e2] at h; simp at h
      | throw e => rw [e1] at h; simp at h
      | nofuel => rw [e1] at h; simp at h

/-- no string is a reference -/
abbrev NoRef : String → Prop := fun _ => False

/-- **the flat schema is self-contained**: outside contextual mode no reference position is ever written — a named type is
printed in place, a discriminated union by its variants — so a flat `schema()` that returns has no `$ref` to resolve -/
theorem schema_flat_no_refs (hc : o.contextual = false) : ∀ (n : Nat) (rt : RT) (desc : Option String)
    (seen : List String) (c : SCtx) (s : JsVal) (c' : SCtx),
    schema env o n rt desc seen c = .ok s c' → CtxOK NoRef c → SOK NoRef s ∧ CtxOK NoRef c' := by
  intro n
  induction n with
  | zero => intro rt desc seen c s c' h; simp [schema] at h
  | succ n ih =>
    intro rt desc seen c s c' h hi
    have goC : ∀ t, Claim NoRef (fun t c => schema env o n t none seen c) t :=
      fun t c s c' h hi => ih t none seen c s c' h hi
    have flat : ∀ (L : List (String × JsVal)), (∀ p ∈ L, p.1 ∈ ["type", "enum", "const", "pattern", "format"]) →
        SRes.ok (annotate desc (jobj L)) c = SRes.ok s c' → SOK NoRef s ∧ CtxOK NoRef c' := by
      intro L hL e
      simp only [SRes.ok.injEq] at e
      rw [← e.1, ← e.2]
      exact ⟨sok_annotate (sok_flat L hL), hi⟩
    cases rt with
    | described dd t =>
      simp only [schema] at h
      exact ih t (some dd) seen c s c' h hi
    | typeof t => simp only [schema] at h; exact flat _ (by simp) h
    | any => simp only [schema] at h; exact flat _ (by simp) h
    | nullish _ => simp only [schema] at h; exact flat _ (by simp) h
    | never =>
      simp only [schema, SRes.ok.injEq] at h
      rw [← h.1, ← h.2]
      refine ⟨sok_annotate (sok_jobj ?_), hi⟩
      intro p hp
      simp only [List.mem_cons, List.mem_nil_iff, or_false] at hp
      subst hp
      exact pair_single (by simp [singleKeys]) sok_empty
    | regex _ _ => simp only [schema] at h; exact flat _ (by simp) h
    | strfmt _ => simp only [schema] at h; exact flat _ (by simp) h
    | numfmt _ => simp only [schema] at h; exact flat _ (by simp) h
    | date => simp [schema] at h
    | bigint => simp [schema] at h
    | typed _ => simp [schema] at h
    | map _ _ => simp [schema] at h
    | set _ => simp [schema] at h
    | const v =>
      simp only [schema] at h
      split at h <;> exact flat _ (by simp) h
    | consts vs =>
      simp only [schema] at h
      split at h <;> exact flat _ (by simp) h
    | array t =>
      simp only [schema] at h
      cases e1 : schema env o n t none seen c with
      | ok x c1 =>
        rw [e1] at h
        simp only [SRes.ok.injEq] at h
        rw [← h.1, ← h.2]
        have p1 := goC t c x c1 e1 hi
        refine ⟨sok_annotate (sok_jobj ?_), p1.2⟩
        intro p hp
        simp only [List.mem_cons, List.mem_nil_iff, or_false] at hp
        rcases hp with rfl | rfl
        · exact pair_plain (by decide) (by decide) (by decide) (by decide) (by decide)
        · exact pair_single (by simp [singleKeys]) p1.1
      | throw e => rw [e1] at h; simp at h
      | nofuel => rw [e1] at h; simp at h
    | optional t =>
      simp only [schema] at h
      cases e1 : schema env o n t none seen c with
      | ok x c1 =>
        rw [e1] at h
        simp only [SRes.ok.injEq] at h
        rw [← h.1, ← h.2]
        have p1 := goC t c x c1 e1 hi
        refine ⟨sok_jobj ?_, p1.2⟩
        intro p hp
        simp only [List.mem_cons, List.mem_nil_iff, or_false] at hp
        subst hp
        refine pair_list (by simp [listKeys]) ?_
        intro y hy
        simp only [List.mem_cons, List.mem_nil_iff, or_false] at hy
        rcases hy with rfl | rfl
        · exact p1.1
        · exact sok_flat _ (by simp)
      | throw e => rw [e1] at h; simp at h
      | nofuel => rw [e1] at h; simp at h
    | anyOf ts =>
      simp only [schema] at h
      cases e1 : seqS (fun t c => schema env o n t none seen c) ts c with
      | ok x c1 =>
        rw [e1] at h
        simp only [SRes.ok.injEq] at h
        rw [← h.1, ← h.2]
        have p1 := seqS_refs ts (fun t ht => goC t) c x c1 e1 hi
        refine ⟨sok_annotate (sok_jobj ?_), p1.2⟩
        intro p hp
        simp only [List.mem_cons, List.mem_nil_iff, or_false] at hp
        subst hp
        exact pair_list (by simp [listKeys]) p1.1
      | throw e => rw [e1] at h; simp at h
      | nofuel => rw [e1] at h; simp at h
    | allOf ts =>
      simp only [schema] at h
      cases e1 : seqS (fun t c => schema env o n t none seen c) ts c with
      | ok x c1 =>
        rw [e1] at h
        simp only at h
        have p1 := seqS_refs ts (fun t ht => goC t) c x c1 e1 hi
        split at h
        · rename_i merged hm
          simp only [SRes.ok.injEq] at h
          rw [← h.1, ← h.2]
          exact ⟨sok_annotate (sok_merge p1.1 hm), p1.2⟩
        · simp only [SRes.ok.injEq] at h
          rw [← h.1, ← h.2]
          refine ⟨sok_annotate (sok_jobj ?_), p1.2⟩
          intro p hp
          simp only [List.mem_cons, List.mem_nil_iff, or_false] at hp
          subst hp
          exact pair_list (by simp [listKeys]) p1.1
      | throw e => rw [e1] at h; simp at h
      | nofuel => rw [e1] at h; simp at h
    | tuple pre rest =>
      simp only [schema] at h
      cases e1 : seqS (fun t c => schema env o n t none seen c) pre c with
      | ok x c1 =>
        rw [e1] at h
        simp only at h
        have p1 := seqS_refs pre (fun t ht => goC t) c x c1 e1 hi
        have build : ∀ (items : JsVal) (c2 : SCtx), SOK NoRef items → CtxOK NoRef c2 →
            SRes.ok (annotate desc (jobj ([("type", JsVal.str "array")] ++ (if x.length > 0 then [("prefixItems", JsVal.arr x)] else []) ++
              [("items", items), ("minItems", JsVal.num (natToCanon pre.length))]))) c2 = SRes.ok s c' →
            SOK NoRef s ∧ CtxOK NoRef c' := by
          intro items c2 hit hc2 e
          simp only [SRes.ok.injEq] at e
          rw [← e.1, ← e.2]
          refine ⟨sok_annotate (sok_jobj ?_), hc2⟩
          intro p hp
          simp only [List.mem_append, List.mem_cons, List.mem_nil_iff, or_false] at hp
          rcases hp with (rfl | hp) | rfl | rfl
          · exact pair_plain (by decide) (by decide) (by decide) (by decide) (by decide)
          · split at hp
            · simp only [List.mem_cons, List.mem_nil_iff, or_false] at hp; subst hp
              exact pair_list (by simp [listKeys]) p1.1
            · cases hp
          · exact pair_single (by simp [singleKeys]) hit
          · exact pair_plain (by decide) (by decide) (by decide) (by decide) (by decide)
        cases rest with
        | none =>
          simp only at h
          exact build _ c1 (sok_bool false) p1.2 h
        | some r =>
          simp only at h
          cases e2 : schema env o n r none seen c1 with
          | ok y c2 =>
            rw [e2] at h
            simp only at h
            have p2 := goC r c1 y c2 e2 p1.2
            exact build y c2 p2.1 p2.2 h
          | throw e => rw [e2] at h; simp at h
          | nofuel => rw [e2] at h; simp at h
      | throw e => rw [e1] at h; simp at h
      | nofuel => rw [e1] at h; simp at h
    | ref name =>
      simp only [schema, hc] at h
      cases hl : env.lookup name with
      | none => rw [hl] at h; simp at h
      | some to =>
        rw [hl] at h
        simp only [Bool.false_eq_true, if_false] at h
        split at h
        · simp only [SRes.ok.injEq] at h
          rw [← h.1, ← h.2]
          exact ⟨sok_annotate sok_empty, hi⟩
        · split at h
          · rename_i s1 c1 e1
            simp only [SRes.ok.injEq] at h
            rw [← h.1, ← h.2]
            have p1 := ih to none (name :: seen) c s1 c1 e1 hi
            exact ⟨sok_annotate p1.1, p1.2⟩
          · rename_i r hr'
            cases e1 : schema env o n to none (name :: seen) c with
            | ok a b => exact absurd e1 (hr' a b)
            | throw e => rw [e1] at h; cases h
            | nofuel => rw [e1] at h; cases h
    | disc schemas key mp sm =>
      simp only [schema, hc, Bool.false_eq_true, if_false] at h
      cases e1 : seqS (fun t c => schema env o n t none seen c) schemas c with
      | ok x c1 =>
        rw [e1] at h
        simp only [SRes.ok.injEq] at h
        rw [← h.1, ← h.2]
        have p1 := seqS_refs schemas (fun t _ => goC t) c x c1 e1 hi
        refine ⟨sok_annotate (sok_jobj ?_), p1.2⟩
        intro p hp
        simp only [List.mem_cons, List.mem_nil_iff, or_false] at hp
        rcases hp with rfl | rfl | rfl
        · exact pair_plain (by decide) (by decide) (by decide) (by decide) (by decide)
        · refine ⟨fun e => by simp at e, fun e => by simp [singleKeys] at e, fun e => by simp [listKeys] at e, fun e => by simp at e, ?_⟩
          intro _ d m ed hl
          exfalso
          simp only at ed
          unfold jobj at ed
          injection ed with ed
          subst ed
          rcases mem_foldl_setProp _ _ _ (lookupProp_mem' hl) with hm | hm
          · cases hm
          · simp only [List.mem_cons, List.mem_nil_iff, or_false, Prod.mk.injEq] at hm
            exact absurd hm.1 (by decide)
        · exact pair_list (by simp [listKeys]) p1.1
      | throw e => rw [e1] at h; simp at h
      | nofuel => rw [e1] at h; simp at h
    | object props ix =>
      simp only [schema] at h
      cases e1 : propsS (fun t c => schema env o n t none seen c) props ([], []) c with
      | ok x c1 =>
        rw [e1] at h
        obtain ⟨ps, optionalized⟩ := x
        simp only at h
        have p1 := propsS_refs props (fun p hp => goC p.2) ([], []) c _ c1 e1 hi
          (fun q hq => by cases hq)
        cases e2 : indexS (fun t c => schema env o n t none seen c) ix c1 with
        | ok y c2 =>
          rw [e2] at h
          simp only at h
          have p2 := indexS_refs ix (fun p hp => ⟨goC p.1, goC p.2⟩) c1 y c2 e2 p1.2
          have hbase : ∀ (R : List (String × JsVal)), (∀ p ∈ R, p.1 = "required") →
              ∀ p ∈ ([("type", JsVal.str "object"), ("properties", JsVal.obj ps)] ++ R), PairOK NoRef p := by
            intro R hR p hp
            simp only [List.mem_append, List.mem_cons, List.mem_nil_iff, or_false] at hp
            rcases hp with (rfl | rfl) | hp
            · exact pair_plain (by decide) (by decide) (by decide) (by decide) (by decide)
            · exact pair_properties p1.1
            · obtain ⟨k, v⟩ := p
              have := hR _ hp
              simp only at this
              subst this
              exact pair_plain (by decide) (by decide) (by decide) (by decide) (by decide)
          have hreq : ∀ (req : List String), ∀ p ∈ (if req.length > 0 then [("required", JsVal.arr (req.map JsVal.str))] else []), p.1 = "required" := by
            intro req p hp
            split at hp
            · simp only [List.mem_cons, List.mem_nil_iff, or_false] at hp; subst hp; rfl
            · cases hp
          split at h
          · simp only [SRes.ok.injEq] at h
            rw [← h.1, ← h.2]
            refine ⟨sok_annotate (sok_jobj ?_), p2.2⟩
            intro p hp
            rw [List.mem_append] at hp
            rcases hp with hp | hp
            · exact hbase _ (hreq _) p hp
            · simp only [List.mem_cons, List.mem_nil_iff, or_false] at hp; subst hp
              exact pair_single (by simp [singleKeys]) (sok_bool false)
          · split at h
            · have hhead : SOK NoRef (y.headD .null) := by
                cases y with
                | nil => exact .nonobj (fun _ e => by cases e)
                | cons a _ => exact p2.1 a (by simp)
              split at h
              · simp only [SRes.ok.injEq] at h
                rw [← h.1, ← h.2]
                refine ⟨sok_annotate (sok_jobj ?_), p2.2⟩
                intro p hp
                simp only [List.mem_cons, List.mem_nil_iff, or_false] at hp
                rcases hp with rfl | rfl
                · exact pair_plain (by decide) (by decide) (by decide) (by decide) (by decide)
                · exact pair_single (by simp [singleKeys]) (sok_bool false)
              · rename_i kvs hk
                simp only [SRes.ok.injEq] at h
                rw [← h.1, ← h.2]
                rw [hk] at hhead
                exact ⟨sok_annotate (sok_obj_of_pairs (pairs_setProp (pairs_of_sok_obj hhead)
                  (pair_single (by simp [singleKeys]) (sok_bool true)))), p2.2⟩
              · simp only [SRes.ok.injEq] at h
                rw [← h.1, ← h.2]
                exact ⟨sok_annotate hhead, p2.2⟩
            · simp only [SRes.ok.injEq] at h
              rw [← h.1, ← h.2]
              refine ⟨sok_annotate (sok_jobj ?_), p2.2⟩
              intro p hp
              simp only [List.mem_cons, List.mem_nil_iff, or_false] at hp
              subst hp
              refine pair_list (by simp [listKeys]) ?_
              intro z hz
              rcases List.mem_cons.1 hz with rfl | hz
              · exact sok_jobj (hbase _ (hreq _))
              · exact p2.1 z hz
        | throw e => rw [e2] at h; simp at h
        | nofuel => rw [e2] at h; simp at h
      | throw e => rw [e1] at h; simp at h
      | nofuel => rw [e1] at h; simp at h

/-- … in particular the flat `schema()` of a parser (a fresh, empty context) -/
theorem flat_schema_has_no_ref (hc : o.contextual = false) {n : Nat} {rt : RT} {s : JsVal} {c' : SCtx}
    (h : schema env o n rt none [] ⟨[], []⟩ = .ok s c') : SOK NoRef s :=
  (schema_flat_no_refs hc n rt none [] ⟨[], []⟩ s c' h (fun p hp => by cases hp)).1

end

/-! ## histories -/

/-- the schemas the calls of a history return, in order -/
def returned (env : Env) (o : SOpts) (fuel : Nat) : SCtx → List RT → List JsVal
  | _, [] => []
  | c, t :: ts =>
    match schema env o fuel t none [] c with
    | .ok s c' => s :: returned env o fuel c' ts
    | .throw c' => returned env o fuel { c' with inProgress := [] } ts
    | .nofuel => returned env o fuel c ts

/-- a reference that names a definition of the export -/
def Resolves (o : SOpts) (final : SCtx) (s : String) : Prop := ∃ N, s = getRef o.refTemplate N ∧ final.has N = true

theorem run_refs {env : Env} {o : SOpts} {roots : List RT} (hc : o.contextual = true) (fuel : Nat) :
    ∀ (calls : List RT) (c : SCtx), (∀ t ∈ calls, t ∈ roots) → CtxOK (RefOf env o roots) c → AllOk env o fuel c calls →
      CtxOK (RefOf env o roots) (calls.foldl (printInto env o fuel) c) ∧
      ∀ s ∈ returned env o fuel c calls, SOK (RefOf env o roots) s := by
  intro calls
  induction calls with
  | nil => intro c _ hi _; exact ⟨hi, fun s hs => by cases hs⟩
  | cons t ts ih =>
    intro c hr hi hok
    obtain ⟨s, c1, e1, hok'⟩ := hok
    have p1 := schema_refs (roots := roots) hc fuel t none [] c s c1 (.root (hr t (by simp))) e1 hi
    have hstep : printInto env o fuel c t = c1 := by unfold printInto; rw [e1]
    have p2 := ih c1 (fun x hx => hr x (by simp [hx])) p1.2 hok'
    simp only [List.foldl_cons, hstep]
    refine ⟨p2.1, ?_⟩
    intro s' hs'
    simp only [returned, e1, List.mem_cons] at hs'
    rcases hs' with rfl | hs'
    · exact p1.1
    · exact p2.2 s' hs'

/-- **C16 / C02 (every `$ref` resolves), definitions**: after a history of returning calls, every reference position of every
exported definition names a definition of the export -/
theorem definition_refs_resolve {env : Env} {o : SOpts} (hc : o.contextual = true) (fuel : Nat) (calls : List RT)
    (hF : Functional' env o calls) (hok : AllOk env o fuel ⟨[], []⟩ calls) :
    ∀ p ∈ (runCalls env o fuel calls).collected, SOK (Resolves o (runCalls env o fuel calls)) p.2 := by
  intro p hp
  have h := (run_refs (roots := calls) hc fuel calls ⟨[], []⟩ (fun _ h => h) (fun q hq => by cases hq) hok).1 p hp
  refine sok_mono ?_ h
  rintro s ⟨N, rt, t, hr, hm, e⟩
  exact ⟨N, e, names_complete hc fuel calls hF hok hr hm⟩

/-- **C16 / C02 (every `$ref` resolves), returned schemas**: … and so does every reference position of every schema a call
of the history returned -/
theorem returned_refs_resolve {env : Env} {o : SOpts} (hc : o.contextual = true) (fuel : Nat) (calls : List RT)
    (hF : Functional' env o calls) (hok : AllOk env o fuel ⟨[], []⟩ calls) :
    ∀ s ∈ returned env o fuel ⟨[], []⟩ calls, SOK (Resolves o (runCalls env o fuel calls)) s := by
  intro s hs
  have h := (run_refs (roots := calls) hc fuel calls ⟨[], []⟩ (fun _ h => h) (fun q hq => by cases hq) hok).2 s hs
  refine sok_mono ?_ h
  rintro s ⟨N, rt, t, hr, hm, e⟩
  exact ⟨N, e, names_complete hc fuel calls hF hok hr hm⟩

/-- what `SOK` says at the top of a schema: the string under `$ref` resolves -/
theorem top_ref_resolves {P : String → Prop} {kvs : List (String × JsVal)} {r : String} (h : SOK P (.obj kvs))
    (hr : lookupProp kvs "$ref" = some (.str r)) : P r :=
  (pairs_of_sok_obj h _ (lookupProp_mem' hr)).1 rfl r rfl

private def envT : Env := [("A", .object [("b", .optional (.ref "B"))] []), ("B", .object [("a", .array (.ref "A"))] [])]
private def optsT : SOpts := ⟨true, "#/$defs/{name}", []⟩

/-- non-vacuity: the two mutually recursive types of Props/C16Names, printed one after the other — both calls return, and
there are two returned schemas and two definitions for the theorems to speak about -/
example : (returned envT optsT 50 ⟨[], []⟩ [.ref "A", .ref "B"]).length = 2 ∧
    (runCalls envT optsT 50 [.ref "A", .ref "B"]).collected.length = 2 := by decide +kernel

end BeffVerif.C16R
