import BeffVerif.Model.Sha256
/-!
# C13 — the canonical token encoding is injective (self-delimiting)

`encodeToks` writes one tag byte per token, and for tags / strings / numbers a 4-byte big-endian length followed by
the UTF-8 bytes. For payloads shorter than 2³² bytes (the writer's own limit) two different token streams never have
the same byte stream: whatever collision `hash256` may have comes from SHA-256, not from the encoding.
-/
namespace BeffVerif.C13
open BeffVerif.Sha

theorem size_eq (bs : ByteArray) : bs.size = bs.data.toList.length := by
  cases bs with
  | mk data => rw [Array.length_toList]; rfl

theorem get!_eq (bs : ByteArray) (i : Nat) (h : i < bs.data.toList.length) : bs.get! i = bs.data.toList[i] := by
  cases bs with
  | mk data =>
    have h' : i < data.size := by rw [Array.length_toList] at h; exact h
    show data[i]! = data.toList[i]
    rw [getElem!_pos data i h']
    simp

theorem toList_loop (bs : ByteArray) : ∀ (k i : Nat) (r : List UInt8), bs.size - i = k →
    ByteArray.toList.loop bs i r = r.reverse ++ bs.data.toList.drop i := by
  intro k
  induction k with
  | zero =>
    intro i r h
    rw [ByteArray.toList.loop]
    have hle : ¬ i < bs.size := by omega
    rw [if_neg hle]
    have : bs.data.toList.length ≤ i := by rw [← size_eq]; omega
    rw [List.drop_eq_nil_of_le this, List.append_nil]
  | succ k ih =>
    intro i r h
    rw [ByteArray.toList.loop]
    have hlt : i < bs.size := by omega
    rw [if_pos hlt]
    rw [ih (i + 1) _ (by omega)]
    have hlen : i < bs.data.toList.length := by rw [← size_eq]; exact hlt
    rw [List.drop_eq_getElem_cons hlen, get!_eq bs i hlen]
    simp

theorem toList_eq_data (bs : ByteArray) : bs.toList = bs.data.toList := by
  unfold ByteArray.toList
  rw [toList_loop bs bs.size 0 [] (by omega)]
  rfl

theorem utf8_inj {a b : String} (h : utf8 a = utf8 b) : a = b := by
  unfold utf8 at h
  rw [toList_eq_data, toList_eq_data] at h
  apply String.toByteArray_inj.1
  have : a.toUTF8.data = b.toUTF8.data := Array.toList_inj.1 h
  unfold String.toUTF8 at this
  cases ha : a.toByteArray
  cases hb : b.toByteArray
  simp_all

theorem ofNat_inj256 {a b : Nat} (ha : a < 256) (hb : b < 256) (h : UInt8.ofNat a = UInt8.ofNat b) : a = b := by
  have := congrArg UInt8.toNat h
  simp only [UInt8.toNat_ofNat'] at this
  omega

theorem u32be_length (n : Nat) : (u32be n).length = 4 := rfl

theorem u32be_inj {n m : Nat} (hn : n < 2 ^ 32) (hm : m < 2 ^ 32) (h : u32be n = u32be m) : n = m := by
  unfold u32be at h
  simp only [List.cons.injEq, and_true] at h
  obtain ⟨h3, h2, h1, h0⟩ := h
  have e (x : Nat) : x &&& 255 = x % 256 := Nat.and_two_pow_sub_one_eq_mod x 8
  have lt (x : Nat) : x &&& 255 < 256 := by rw [e]; omega
  have h3' := ofNat_inj256 (lt _) (lt _) h3
  have h2' := ofNat_inj256 (lt _) (lt _) h2
  have h1' := ofNat_inj256 (lt _) (lt _) h1
  have h0' := ofNat_inj256 (lt _) (lt _) h0
  simp only [e, Nat.shiftRight_eq_div_pow] at h3' h2' h1' h0'
  omega

/-- the payload fits the 32-bit length field -/
def Tok.Valid : Tok → Prop
  | .tag s | .str s | .num s => (utf8 s).length < 2 ^ 32
  | _ => True

theorem withLen_prefix_free {s1 s2 : String} {r1 r2 : Bytes} (h1 : (utf8 s1).length < 2 ^ 32)
    (h2 : (utf8 s2).length < 2 ^ 32) (h : withLen s1 ++ r1 = withLen s2 ++ r2) : s1 = s2 ∧ r1 = r2 := by
  unfold withLen at h
  rw [List.append_assoc, List.append_assoc] at h
  obtain ⟨hl, hrest⟩ := List.append_inj h (by rw [u32be_length, u32be_length])
  have hlen := u32be_inj h1 h2 hl
  obtain ⟨hu, hr⟩ := List.append_inj hrest hlen
  exact ⟨utf8_inj hu, hr⟩

/-- no token's encoding is a proper prefix of another's: the next token and the rest are determined -/
theorem tok_prefix_free (t1 t2 : Tok) (r1 r2 : Bytes) (v1 : Tok.Valid t1) (v2 : Tok.Valid t2)
    (h : t1.bytes ++ r1 = t2.bytes ++ r2) : t1 = t2 ∧ r1 = r2 := by
  have tagsNe : ∀ a b : Nat, a < 256 → b < 256 → a ≠ b → UInt8.ofNat a ≠ UInt8.ofNat b :=
    fun a b ha hb hne he => hne (ofNat_inj256 ha hb he)
  cases t1 with
  | tag s1 =>
    cases t2 with
    | tag s2 =>
      simp only [Tok.bytes, List.cons_append, List.cons.injEq, true_and] at h
      obtain ⟨e, r⟩ := withLen_prefix_free v1 v2 h
      exact ⟨by rw [e], r⟩
    | str s2 => simp only [Tok.bytes, List.cons_append, List.cons.injEq] at h; exact absurd h.1 (by decide)
    | num s2 => simp only [Tok.bytes, List.cons_append, List.cons.injEq] at h; exact absurd h.1 (by decide)
    | bool b => cases b <;> (simp only [Tok.bytes, List.cons_append, List.cons.injEq] at h; exact absurd h.1 (by decide))
    | null => simp only [Tok.bytes, List.cons_append, List.cons.injEq] at h; exact absurd h.1 (by decide)
  | str s1 =>
    cases t2 with
    | str s2 =>
      simp only [Tok.bytes, List.cons_append, List.cons.injEq, true_and] at h
      obtain ⟨e, r⟩ := withLen_prefix_free v1 v2 h
      exact ⟨by rw [e], r⟩
    | tag s2 => simp only [Tok.bytes, List.cons_append, List.cons.injEq] at h; exact absurd h.1 (by decide)
    | num s2 => simp only [Tok.bytes, List.cons_append, List.cons.injEq] at h; exact absurd h.1 (by decide)
    | bool b => cases b <;> (simp only [Tok.bytes, List.cons_append, List.cons.injEq] at h; exact absurd h.1 (by decide))
    | null => simp only [Tok.bytes, List.cons_append, List.cons.injEq] at h; exact absurd h.1 (by decide)
  | num s1 =>
    cases t2 with
    | num s2 =>
      simp only [Tok.bytes, List.cons_append, List.cons.injEq, true_and] at h
      obtain ⟨e, r⟩ := withLen_prefix_free v1 v2 h
      exact ⟨by rw [e], r⟩
    | tag s2 => simp only [Tok.bytes, List.cons_append, List.cons.injEq] at h; exact absurd h.1 (by decide)
    | str s2 => simp only [Tok.bytes, List.cons_append, List.cons.injEq] at h; exact absurd h.1 (by decide)
    | bool b => cases b <;> (simp only [Tok.bytes, List.cons_append, List.cons.injEq] at h; exact absurd h.1 (by decide))
    | null => simp only [Tok.bytes, List.cons_append, List.cons.injEq] at h; exact absurd h.1 (by decide)
  | bool b1 =>
    cases t2 with
    | bool b2 =>
      cases b1 <;> cases b2 <;> simp only [Tok.bytes, List.cons_append, List.nil_append, List.cons.injEq] at h <;>
        first
          | exact ⟨rfl, h.2⟩
          | exact absurd h.1 (by decide)
    | tag s2 => cases b1 <;> (simp only [Tok.bytes, List.cons_append, List.cons.injEq] at h; exact absurd h.1 (by decide))
    | str s2 => cases b1 <;> (simp only [Tok.bytes, List.cons_append, List.cons.injEq] at h; exact absurd h.1 (by decide))
    | num s2 => cases b1 <;> (simp only [Tok.bytes, List.cons_append, List.cons.injEq] at h; exact absurd h.1 (by decide))
    | null => cases b1 <;> (simp only [Tok.bytes, List.cons_append, List.cons.injEq] at h; exact absurd h.1 (by decide))
  | null =>
    cases t2 with
    | null => simp only [Tok.bytes, List.cons_append, List.nil_append, List.cons.injEq, true_and] at h; exact ⟨rfl, h⟩
    | tag s2 => simp only [Tok.bytes, List.cons_append, List.cons.injEq] at h; exact absurd h.1 (by decide)
    | str s2 => simp only [Tok.bytes, List.cons_append, List.cons.injEq] at h; exact absurd h.1 (by decide)
    | num s2 => simp only [Tok.bytes, List.cons_append, List.cons.injEq] at h; exact absurd h.1 (by decide)
    | bool b => cases b <;> (simp only [Tok.bytes, List.cons_append, List.cons.injEq] at h; exact absurd h.1 (by decide))

theorem bytes_ne_nil (t : Tok) : t.bytes ≠ [] := by
  cases t <;> try (simp [Tok.bytes])
  rename_i b; cases b <;> simp [Tok.bytes]

theorem encodeToks_cons (t : Tok) (ts : List Tok) : encodeToks (t :: ts) = t.bytes ++ encodeToks ts := by
  simp [encodeToks]

/-- **The token encoding is injective**: two streams of valid tokens with the same bytes are the same stream -/
theorem tokens_injective : ∀ (ts1 ts2 : List Tok), (∀ t ∈ ts1, Tok.Valid t) → (∀ t ∈ ts2, Tok.Valid t) →
    encodeToks ts1 = encodeToks ts2 → ts1 = ts2 := by
  intro ts1
  induction ts1 with
  | nil =>
    intro ts2 _ _ h
    cases ts2 with
    | nil => rfl
    | cons t ts =>
      rw [encodeToks_cons] at h
      have : t.bytes = [] := by
        have := congrArg List.length h
        simp [encodeToks] at this
        exact List.eq_nil_of_length_eq_zero (by omega)
      exact absurd this (bytes_ne_nil t)
  | cons t1 rest1 ih =>
    intro ts2 v1 v2 h
    cases ts2 with
    | nil =>
      rw [encodeToks_cons] at h
      have h' : t1.bytes ++ encodeToks rest1 = [] := by rw [h]; rfl
      exact absurd (List.append_eq_nil_iff.1 h').1 (bytes_ne_nil t1)
    | cons t2 rest2 =>
      rw [encodeToks_cons, encodeToks_cons] at h
      obtain ⟨e, hr⟩ := tok_prefix_free t1 t2 _ _ (v1 t1 (List.mem_cons_self)) (v2 t2 (List.mem_cons_self)) h
      rw [e, ih rest2 (fun t ht => v1 t (List.mem_cons_of_mem _ ht)) (fun t ht => v2 t (List.mem_cons_of_mem _ ht)) hr]

end BeffVerif.C13
