import BeffVerif.Props.C16
import BeffVerif.Props.C16Order
/-!
# C16 — which names a shared printing context ends up defining does not depend on the order of the calls

`Mentions rt N t`: printing `rt` asks (directly, without following a definition) for a definition of `N` with schema
source `t`. `CReach roots rt`: `rt` is met when the parsers `roots` are printed in contextual mode (children, and the
schema sources of mentioned names). For call histories in which every call returns (no exception, fuel left):

* `names_sound`: every defined name is mentioned by a reachable runtype;
* `names_complete`: every name mentioned by a reachable runtype is defined — the depth-first traversal with in-progress
  marks loses nothing: the invariant `WC` says the mentions of a stored name's source are stored or in progress;
* `names_order_independent`: two histories over the same set of parsers define exactly the same names. With
  `export_order_independent` (same definitions): the exported definitions are the same whatever the order of the calls.
-/
namespace BeffVerif.C16N
open BeffVerif RT JsVal C16O

/-- what `schema` recurses into directly in contextual mode (a discriminated union only through its variants' definitions) -/
def ckids : RT → List RT
  | .described _ t => [t]
  | .tuple pre rest => pre ++ (match rest with | some r => [r] | none => [])
  | .allOf ts => ts
  | .anyOf ts => ts
  | .array t => [t]
  | .optional t => [t]
  | .object props ix => props.map (·.2) ++ (ix.map (·.1) ++ ix.map (·.2))
  | _ => []

section
variable (env : Env) (o : SOpts)

inductive Mentions : RT → String → RT → Prop
  | ref {name : String} {to t : RT} : env.lookup name = some to → namedTarget env o name = some t → Mentions (.ref name) name t
  | variant {schemas : List RT} {key : String} {mp sm : List (String × RT)} {uh : Int} {kv : String × RT} {name : String}
      {t : RT} : hash env 200 (.disc schemas key mp sm) [] = some uh → kv ∈ sm →
      variantTarget env o key uh sm kv = (name, some t) → Mentions (.disc schemas key mp sm) name t
  | kid {rt c : RT} {name : String} {t : RT} : c ∈ ckids rt → Mentions c name t → Mentions rt name t

variable (roots : List RT)

inductive CReach : RT → Prop
  | root {t : RT} : t ∈ roots → CReach t
  | kid {rt t : RT} : CReach rt → t ∈ ckids rt → CReach t
  | target {rt : RT} {name : String} {t : RT} : CReach rt → Mentions env o rt name t → CReach t

/-- a name has one schema source among the reachable runtypes -/
def Functional' : Prop :=
  ∀ rt1 rt2 name t1 t2, CReach env o roots rt1 → CReach env o roots rt2 → Mentions env o rt1 name t1 → Mentions env o rt2 name t2 → t1 = t2

/-- the mentions of every stored name's source are stored or in progress -/
def WC (c : SCtx) : Prop :=
  ∀ N, c.has N = true → ∀ rt t, CReach env o roots rt → Mentions env o rt N t →
    ∀ M t', Mentions env o t M t' → c.has M = true ∨ M ∈ c.inProgress

/-- every stored name is mentioned by a reachable runtype -/
def Snd (c : SCtx) : Prop := ∀ N, c.has N = true → ∃ rt t, CReach env o roots rt ∧ Mentions env o rt N t

def Inv (c : SCtx) : Prop := WC env o roots c ∧ Snd env o roots c

/-- what a successful print of something whose mentions are `P` guarantees -/
def Post (c c' : SCtx) (P : String → RT → Prop) : Prop :=
  Inv env o roots c' ∧ c'.inProgress = c.inProgress ∧ (∀ N, c.has N = true → c'.has N = true) ∧
    ∀ N t, P N t → c'.has N = true ∨ N ∈ c.inProgress

def Vis (go : RT → SCtx → SRes JsVal) (t : RT) : Prop :=
  ∀ c s c', go t c = .ok s c' → Inv env o roots c → Post env o roots c c' (Mentions env o t)

end

section
variable {env : Env} {o : SOpts} {roots : List RT}

theorem has_store {c : SCtx} {n m : String} {s : JsVal} (h : (c.store n s).has m = true) : c.has m = true ∨ m = n := by
  unfold SCtx.has SCtx.store at *
  rw [List.any_eq_true] at h
  obtain ⟨p, hp, e⟩ := h
  rcases mem_setProp hp with rfl | hp
  · have e' : n = m := by simpa using e
    exact Or.inr e'.symm
  · exact Or.inl (List.any_eq_true.2 ⟨p, hp, e⟩)

theorem post_refl {c : SCtx} (h : Inv env o roots c) : Post env o roots c c (fun _ _ => False) :=
  ⟨h, rfl, fun _ h => h, fun _ _ f => f.elim⟩

/-- two prints in a row -/
theorem post_trans {c c1 c2 : SCtx} {P Q : String → RT → Prop} (h1 : Post env o roots c c1 P) (h2 : Post env o roots c1 c2 Q) :
    Post env o roots c c2 (fun N t => P N t ∨ Q N t) := by
  obtain ⟨_, ip1, mono1, m1⟩ := h1
  obtain ⟨i2, ip2, mono2, m2⟩ := h2
  refine ⟨i2, ip2.trans ip1, fun N h => mono2 N (mono1 N h), ?_⟩
  intro N t h
  rcases h with h | h
  · rcases m1 N t h with h | h
    · exact Or.inl (mono2 N h)
    · exact Or.inr h
  · rcases m2 N t h with h | h
    · exact Or.inl h
    · exact Or.inr (ip1 ▸ h)

theorem post_mono {c c' : SCtx} {P Q : String → RT → Prop} (h : Post env o roots c c' P) (hq : ∀ N t, Q N t → P N t) :
    Post env o roots c c' Q :=
  ⟨h.1, h.2.1, h.2.2.1, fun N t q => h.2.2.2 N t (hq N t q)⟩

theorem seqS_post {go : RT → SCtx → SRes JsVal} : ∀ (ts : List RT), (∀ t ∈ ts, Vis env o roots go t) →
    ∀ c ss c', seqS go ts c = .ok ss c' → Inv env o roots c → Post env o roots c c' (fun N tt => ∃ t ∈ ts, Mentions env o t N tt) := by
  intro ts
  induction ts with
  | nil =>
    intro _ c ss c' h hi
    simp only [seqS, SRes.ok.injEq] at h
    rw [← h.2]
    exact post_mono (post_refl hi) (fun N t ⟨x, hx, _⟩ => by cases hx)
  | cons t ts ih =>
    intro hv c ss c' h hi
    simp only [seqS] at h
    cases e1 : go t c with
    | ok s c1 =>
      rw [e1] at h
      simp only at h
      cases e2 : seqS go ts c1 with
      | ok ss2 c2 =>
        rw [e2] at h
        simp only [SRes.ok.injEq] at h
        rw [← h.2]
        have p1 := hv t (by simp) c s c1 e1 hi
        have p2 := ih (fun x hx => hv x (by simp [hx])) c1 ss2 c2 e2 p1.1
        refine post_mono (post_trans p1 p2) ?_
        intro N tt ⟨x, hx, hm⟩
        rcases List.mem_cons.1 hx with rfl | hx
        · exact Or.inl hm
        · exact Or.inr ⟨x, hx, hm⟩
      | throw e => rw [e2] at h; simp at h
      | nofuel => rw [e2] at h; simp at h
    | throw e => rw [e1] at h; simp at h
    | nofuel => rw [e1] at h; simp at h

theorem propsS_post {go : RT → SCtx → SRes JsVal} : ∀ (props : List (String × RT)), (∀ p ∈ props, Vis env o roots go p.2) →
    ∀ acc c r c', propsS go props acc c = .ok r c' → Inv env o roots c →
      Post env o roots c c' (fun N tt => ∃ p ∈ props, Mentions env o p.2 N tt) := by
  intro props
  induction props with
  | nil =>
    intro _ acc c r c' h hi
    simp only [propsS, SRes.ok.injEq] at h
    rw [← h.2]
    exact post_mono (post_refl hi) (fun N t ⟨x, hx, _⟩ => by cases hx)
  | cons p rest ih =>
    intro hv acc c r c' h hi
    obtain ⟨ps, opt⟩ := acc
    simp only [propsS] at h
    cases e1 : go p.2 c with
    | ok s c1 =>
      rw [e1] at h
      simp only at h
      have p1 := hv p (by simp) c s c1 e1 hi
      have fin : ∀ acc', propsS go rest acc' c1 = .ok r c' →
          Post env o roots c c' (fun N tt => ∃ q ∈ p :: rest, Mentions env o q.2 N tt) := by
        intro acc' h'
        have p2 := ih (fun x hx => hv x (by simp [hx])) acc' c1 r c' h' p1.1
        refine post_mono (post_trans p1 p2) ?_
        intro N tt ⟨x, hx, hm⟩
        rcases List.mem_cons.1 hx with rfl | hx
        · exact Or.inl hm
        · exact Or.inr ⟨x, hx, hm⟩
      cases hr : removeNullUnionBranch 50 s with
      | some rw' => rw [hr] at h; exact fin _ h
      | none => rw [hr] at h; exact fin _ h
    | throw e => rw [e1] at h; simp at h
    | nofuel => rw [e1] at h; simp at h

theorem indexS_post {go : RT → SCtx → SRes JsVal} : ∀ (ix : List (RT × RT)),
    (∀ p ∈ ix, Vis env o roots go p.1 ∧ Vis env o roots go p.2) →
    ∀ c r c', indexS go ix c = .ok r c' → Inv env o roots c →
      Post env o roots c c' (fun N tt => ∃ p ∈ ix, Mentions env o p.1 N tt ∨ Mentions env o p.2 N tt) := by
  intro ix
  induction ix with
  | nil =>
    intro _ c r c' h hi
    simp only [indexS, SRes.ok.injEq] at h
    rw [← h.2]
    exact post_mono (post_refl hi) (fun N t ⟨x, hx, _⟩ => by cases hx)
  | cons p rest ih =>
    intro hv c r c' h hi
    simp only [indexS] at h
    cases e1 : go p.1 c with
    | ok ks c1 =>
      rw [e1] at h
      simp only at h
      have p1 := (hv p (by simp)).1 c ks c1 e1 hi
      cases e2 : go p.2 c1 with
      | ok vs c2 =>
        rw [e2] at h
        simp only at h
        have p2 := (hv p (by simp)).2 c1 vs c2 e2 p1.1
        cases e3 : indexS go rest c2 with
        | ok ss c3 =>
          rw [e3] at h
          simp only [SRes.ok.injEq] at h
          rw [← h.2]
          have p3 := ih (fun x hx => hv x (by simp [hx])) c2 ss c3 e3 p2.1
          refine post_mono (post_trans (post_trans p1 p2) p3) ?_
          intro N tt ⟨x, hx, hm⟩
          rcases List.mem_cons.1 hx with rfl | hx
          · rcases hm with hm | hm
            · exact Or.inl (Or.inl hm)
            · exact Or.inl (Or.inr hm)
          · exact Or.inr ⟨x, hx, hm⟩
        | throw e => rw [e3] at h; simp at h
        | nofuel => rw [e3] at h; simp at h
      | throw e => rw [e2] at h; simp at h
      | nofuel => rw [e2] at h; simp at h
    | throw e => rw [e1] at h; simp at h
    | nofuel => rw [e1] at h; simp at h

theorem filter_ne_append_self {l : List String} {name : String} (h : name ∉ l) : (l ++ [name]).filter (· != name) = l := by
  rw [List.filter_append]
  have h1 : l.filter (· != name) = l := by
    apply List.filter_eq_self.2
    intro a ha
    simp only [bne_iff_ne, ne_eq]
    intro e
    exact h (e ▸ ha)
  simp [h1]

/-- the "define a name once" protocol: after it, the name is stored or was in progress, and the invariant holds -/
theorem defineS_post (hF : Functional' env o roots) {go : RT → SCtx → SRes JsVal} {node : RT} {name : String} {target : RT}
    (hr : CReach env o roots node) (hm : Mentions env o node name target) (hv : Vis env o roots go target)
    (c : SCtx) (u : Unit) (c' : SCtx) (h : defineS go name target c = .ok u c') (hi : Inv env o roots c) :
    Post env o roots c c' (fun N _ => N = name) := by
  unfold defineS at h
  split at h
  · rename_i hb
    simp only [SRes.ok.injEq] at h
    rw [← h.2]
    refine ⟨hi, rfl, fun _ h => h, ?_⟩
    intro N t e
    subst e
    simp only [Bool.or_eq_true] at hb
    rcases hb with hb | hb
    · exact Or.inl hb
    · exact Or.inr (by simpa using hb)
  · rename_i hb
    have hnb : c.has name = false ∧ name ∉ c.inProgress := by
      simp only [Bool.or_eq_true, not_or, Bool.not_eq_true] at hb
      exact ⟨hb.1, by simpa using hb.2⟩
    cases e1 : go target { c with inProgress := c.inProgress ++ [name] } with
    | ok body c2 =>
      rw [e1] at h
      simp only [SRes.ok.injEq] at h
      -- the context with the mark satisfies the invariant
      have hi1 : Inv env o roots { c with inProgress := c.inProgress ++ [name] } := by
        refine ⟨?_, hi.2⟩
        intro N hN rt t hrt hmt M t' hmm
        rcases hi.1 N hN rt t hrt hmt M t' hmm with h | h
        · exact Or.inl h
        · exact Or.inr (List.mem_append_left _ h)
      obtain ⟨i2, ip2, mono2, m2⟩ := hv _ body c2 e1 hi1
      have hip : (c2.store name body).inProgress = c.inProgress := by
        show c2.inProgress.filter (· != name) = c.inProgress
        rw [ip2]
        exact filter_ne_append_self hnb.2
      rw [← h.2]
      refine ⟨⟨?_, ?_⟩, hip, fun N hN => C16.store_keeps _ _ _ _ (mono2 N hN), ?_⟩
      · -- WC after the store
        intro N hN rt t hrt hmt M t' hmm
        rw [hip]
        have step : c2.has M = true ∨ M ∈ c.inProgress ++ [name] → (c2.store name body).has M = true ∨ M ∈ c.inProgress := by
          intro h
          rcases h with h | h
          · exact Or.inl (C16.store_keeps _ _ _ _ h)
          · rcases List.mem_append.1 h with h | h
            · exact Or.inr h
            · simp only [List.mem_singleton] at h
              subst h
              exact Or.inl (C16.store_defines _ _ _)
        rcases has_store hN with hN2 | hN2
        · have := i2.1 N hN2 rt t hrt hmt M t' hmm
          rw [ip2] at this
          exact step this
        · subst hN2
          have : t = target := hF rt node N t target hrt hr hmt hm
          subst this
          exact step (m2 M t' hmm)
      · -- soundness after the store
        intro N hN
        rcases has_store hN with hN2 | hN2
        · exact i2.2 N hN2
        · subst hN2
          exact ⟨node, target, hr, hm⟩
      · intro N t e
        subst e
        exact Or.inl (C16.store_defines _ _ _)
    | throw e => rw [e1] at h; simp at h
    | nofuel => rw [e1] at h; simp at h

theorem variantsS_post (hF : Functional' env o roots) {go : RT → SCtx → SRes JsVal} {tgt : String × RT → String × Option RT}
    {template : String} {node : RT} (hr : CReach env o roots node) : ∀ (kvs : List (String × RT)),
    (∀ kv ∈ kvs, ∀ name t, tgt kv = (name, some t) → Mentions env o node name t ∧ Vis env o roots go t) →
    ∀ c r c', variantsS go tgt template kvs c = .ok r c' → Inv env o roots c →
      Post env o roots c c' (fun N _ => ∃ kv ∈ kvs, ∃ t, tgt kv = (N, some t)) := by
  intro kvs
  induction kvs with
  | nil =>
    intro _ c r c' h hi
    simp only [variantsS, SRes.ok.injEq] at h
    rw [← h.2]
    exact post_mono (post_refl hi) (fun N t ⟨x, hx, _⟩ => by cases hx)
  | cons kv rest ih =>
    intro hv c r c' h hi
    simp only [variantsS] at h
    cases ht : tgt kv with
    | mk name target =>
      rw [ht] at h
      cases target with
      | none => simp at h
      | some target =>
        simp only at h
        obtain ⟨hm, hvis⟩ := hv kv (by simp) name target ht
        cases e1 : defineS go name target c with
        | ok u c1 =>
          rw [e1] at h
          simp only at h
          have p1 := defineS_post hF hr hm hvis c u c1 e1 hi
          cases e2 : variantsS go tgt template rest c1 with
          | ok refs c2 =>
            rw [e2] at h
            simp only [SRes.ok.injEq] at h
            rw [← h.2]
            have p2 := ih (fun x hx => hv x (by simp [hx])) c1 refs c2 e2 p1.1
            refine post_mono (post_trans p1 p2) ?_
            intro N tt ⟨x, hx, t, hxt⟩
            rcases List.mem_cons.1 hx with rfl | hx
            · left
              rw [ht] at hxt
              simp only [Prod.mk.injEq] at hxt
              exact hxt.1.symm
            · exact Or.inr ⟨x, hx, t, hxt⟩
          | throw e => rw [e2] at h; simp at h
          | nofuel => rw [e2] at h; simp at h
        | throw e => rw [e1] at h; simp at h
        | nofuel => rw [e1] at h; simp at h


theorem post_of_none {c : SCtx} {rt : RT} (hi : Inv env o roots c) (h : ∀ N t, Mentions env o rt N t → False) :
    Post env o roots c c (Mentions env o rt) :=
  post_mono (post_refl hi) (fun N t hm => h N t hm)

/-- **the traversal loses nothing**: a print that returns leaves the invariant, the marks as they were, keeps every stored
name, and has stored (or found in progress) every name the runtype mentions -/
theorem visit (hc : o.contextual = true) (hF : Functional' env o roots) : ∀ (n : Nat) (rt : RT) (desc : Option String)
    (seen : List String) (c : SCtx) (s : JsVal) (c' : SCtx), CReach env o roots rt →
    schema env o n rt desc seen c = .ok s c' → Inv env o roots c → Post env o roots c c' (Mentions env o rt) := by
  intro n
  induction n with
  | zero => intro rt desc seen c s c' _ h; simp [schema] at h
  | succ n ih =>
    intro rt desc seen c s c' hr h hi
    have goV : ∀ t, CReach env o roots t → Vis env o roots (fun t c => schema env o n t none seen c) t :=
      fun t ht c s c' h hi => ih t none seen c s c' ht h hi
    cases rt with
    | described dd t =>
      simp only [schema] at h
      have p := ih t (some dd) seen c s c' (.kid hr (by simp [ckids])) h hi
      refine post_mono p ?_
      intro N tt hm
      cases hm with
      | kid hk hm' => simp only [ckids, List.mem_singleton] at hk; subst hk; exact hm'
    | typeof t =>
      simp only [schema, SRes.ok.injEq] at h; rw [← h.2]
      exact post_of_none hi (fun N tt hm => by cases hm with | kid hk _ => simp [ckids] at hk)
    | any =>
      simp only [schema, SRes.ok.injEq] at h; rw [← h.2]
      exact post_of_none hi (fun N tt hm => by cases hm with | kid hk _ => simp [ckids] at hk)
    | nullish _ =>
      simp only [schema, SRes.ok.injEq] at h; rw [← h.2]
      exact post_of_none hi (fun N tt hm => by cases hm with | kid hk _ => simp [ckids] at hk)
    | never =>
      simp only [schema, SRes.ok.injEq] at h; rw [← h.2]
      exact post_of_none hi (fun N tt hm => by cases hm with | kid hk _ => simp [ckids] at hk)
    | regex _ _ =>
      simp only [schema, SRes.ok.injEq] at h; rw [← h.2]
      exact post_of_none hi (fun N tt hm => by cases hm with | kid hk _ => simp [ckids] at hk)
    | strfmt _ =>
      simp only [schema, SRes.ok.injEq] at h; rw [← h.2]
      exact post_of_none hi (fun N tt hm => by cases hm with | kid hk _ => simp [ckids] at hk)
    | numfmt _ =>
      simp only [schema, SRes.ok.injEq] at h; rw [← h.2]
      exact post_of_none hi (fun N tt hm => by cases hm with | kid hk _ => simp [ckids] at hk)
    | date => simp [schema] at h
    | bigint => simp [schema] at h
    | typed _ => simp [schema] at h
    | map _ _ => simp [schema] at h
    | set _ => simp [schema] at h
    | const v =>
      simp only [schema] at h
      have hcc : c' = c := by split at h <;> (simp only [SRes.ok.injEq] at h; exact h.2.symm)
      rw [hcc]
      exact post_of_none hi (fun N tt hm => by cases hm with | kid hk _ => simp [ckids] at hk)
    | consts vs =>
      simp only [schema] at h
      have hcc : c' = c := by split at h <;> (simp only [SRes.ok.injEq] at h; exact h.2.symm)
      rw [hcc]
      exact post_of_none hi (fun N tt hm => by cases hm with | kid hk _ => simp [ckids] at hk)
    | array t =>
      simp only [schema] at h
      cases e1 : schema env o n t none seen c with
      | ok x c1 =>
        rw [e1] at h
        simp only [SRes.ok.injEq] at h
        rw [← h.2]
        refine post_mono (goV t (.kid hr (by simp [ckids])) c x c1 e1 hi) ?_
        intro N tt hm
        cases hm with
        | kid hk hm' => simp only [ckids, List.mem_singleton] at hk; subst hk; exact hm'
      | throw e => rw [e1] at h; simp at h
      | nofuel => rw [e1] at h; simp at h
    | optional t =>
      simp only [schema] at h
      cases e1 : schema env o n t none seen c with
      | ok x c1 =>
        rw [e1] at h
        simp only [SRes.ok.injEq] at h
        rw [← h.2]
        refine post_mono (goV t (.kid hr (by simp [ckids])) c x c1 e1 hi) ?_
        intro N tt hm
        cases hm with
        | kid hk hm' => simp only [ckids, List.mem_singleton] at hk; subst hk; exact hm'
      | throw e => rw [e1] at h; simp at h
      | nofuel => rw [e1] at h; simp at h
    | anyOf ts =>
      simp only [schema] at h
      cases e1 : seqS (fun t c => schema env o n t none seen c) ts c with
      | ok x c1 =>
        rw [e1] at h
        simp only [SRes.ok.injEq] at h
        rw [← h.2]
        refine post_mono (seqS_post ts (fun t ht => goV t (.kid hr (by simp [ckids, ht]))) c x c1 e1 hi) ?_
        intro N tt hm
        cases hm with
        | kid hk hm' => exact ⟨_, by simpa [ckids] using hk, hm'⟩
      | throw e => rw [e1] at h; simp at h
      | nofuel => rw [e1] at h; simp at h
    | allOf ts =>
      simp only [schema] at h
      cases e1 : seqS (fun t c => schema env o n t none seen c) ts c with
      | ok x c1 =>
        rw [e1] at h
        simp only at h
        have hcc : c' = c1 := by split at h <;> (simp only [SRes.ok.injEq] at h; exact h.2.symm)
        rw [hcc]
        refine post_mono (seqS_post ts (fun t ht => goV t (.kid hr (by simp [ckids, ht]))) c x c1 e1 hi) ?_
        intro N tt hm
        cases hm with
        | kid hk hm' => exact ⟨_, by simpa [ckids] using hk, hm'⟩
      | throw e => rw [e1] at h; simp at h
      | nofuel => rw [e1] at h; simp at h
    | tuple pre rest =>
      simp only [schema] at h
      cases e1 : seqS (fun t c => schema env o n t none seen c) pre c with
      | ok x c1 =>
        rw [e1] at h
        simp only at h
        have p1 := seqS_post pre (fun t ht => goV t (.kid hr (by simp [ckids, ht]))) c x c1 e1 hi
        cases rest with
        | none =>
          simp only [SRes.ok.injEq] at h
          rw [← h.2]
          refine post_mono p1 ?_
          intro N tt hm
          cases hm with
          | kid hk hm' => exact ⟨_, by simpa [ckids] using hk, hm'⟩
        | some r =>
          simp only at h
          cases e2 : schema env o n r none seen c1 with
          | ok y c2 =>
            rw [e2] at h
            simp only [SRes.ok.injEq] at h
            rw [← h.2]
            have p2 := goV r (.kid hr (by simp [ckids])) c1 y c2 e2 p1.1
            refine post_mono (post_trans p1 p2) ?_
            intro N tt hm
            cases hm with
            | kid hk hm' =>
              simp only [ckids, List.mem_append, List.mem_singleton] at hk
              rcases hk with hk | hk
              · exact Or.inl ⟨_, hk, hm'⟩
              · subst hk; exact Or.inr hm'
          | throw e => rw [e2] at h; simp at h
          | nofuel => rw [e2] at h; simp at h
      | throw e => rw [e1] at h; simp at h
      | nofuel => rw [e1] at h; simp at h
    | ref name =>
      simp only [schema, hc, if_true] at h
      cases hl : env.lookup name with
      | none => rw [hl] at h; simp at h
      | some to =>
        rw [hl] at h
        simp only at h
        have tail : ∀ (target : RT) (u : Unit) (c1 : SCtx), namedTarget env o name = some target →
            defineS (fun t c => schema env o n t none seen c) name target c = .ok u c1 →
            Post env o roots c c1 (Mentions env o (.ref name)) := by
          intro target u c1 hnt e1
          have hm : Mentions env o (.ref name) name target := .ref hl hnt
          refine post_mono (defineS_post hF hr hm (goV _ (.target hr hm)) c u c1 e1 hi) ?_
          intro N tt hmm
          cases hmm with
          | ref _ _ => rfl
          | kid hk _ => simp [ckids] at hk
        cases ho : o.overrides.find? (fun p => p.1 == name) with
        | some p =>
          simp only [ho] at h
          split at h
          · rename_i u c1 e1
            simp only [SRes.ok.injEq] at h
            rw [← h.2]
            exact tail p.2 u c1 (by unfold namedTarget; rw [ho]) e1
          · simp at h
          · simp at h
        | none =>
          simp only [ho] at h
          split at h
          · rename_i u c1 e1
            simp only [SRes.ok.injEq] at h
            rw [← h.2]
            exact tail to u c1 (by unfold namedTarget; rw [ho]; exact hl) e1
          · simp at h
          · simp at h
    | disc schemas key mp sm =>
      simp only [schema, hc, if_true] at h
      cases hh : hash env 200 (.disc schemas key mp sm) [] with
      | none => rw [hh] at h; simp at h
      | some uh =>
        rw [hh] at h
        simp only at h
        cases e1 : variantsS (fun t c => schema env o n t none seen c) (variantTarget env o key uh sm) o.refTemplate sm c with
        | ok x c1 =>
          rw [e1] at h
          simp only [SRes.ok.injEq] at h
          rw [← h.2]
          have p1 := variantsS_post hF hr sm (by
            intro kv hkv name t ht
            have hm : Mentions env o (.disc schemas key mp sm) name t := .variant hh hkv ht
            exact ⟨hm, goV t (.target hr hm)⟩) c x c1 e1 hi
          refine post_mono p1 ?_
          intro N tt hmm
          cases hmm with
          | variant hh' hkv ht =>
            rw [hh] at hh'
            injection hh' with hh'
            subst hh'
            exact ⟨_, hkv, _, ht⟩
          | kid hk _ => simp [ckids] at hk
        | throw e => rw [e1] at h; simp at h
        | nofuel => rw [e1] at h; simp at h
    | object props ix =>
      simp only [schema] at h
      cases e1 : propsS (fun t c => schema env o n t none seen c) props ([], []) c with
      | ok x c1 =>
        rw [e1] at h
        obtain ⟨ps, optionalized⟩ := x
        simp only at h
        have p1 := propsS_post props (fun p hp => goV p.2 (.kid hr (by
          simp only [ckids, List.mem_append, List.mem_map]; exact Or.inl ⟨p, hp, rfl⟩))) ([], []) c _ c1 e1 hi
        cases e2 : indexS (fun t c => schema env o n t none seen c) ix c1 with
        | ok y c2 =>
          rw [e2] at h
          simp only at h
          have hcc : c' = c2 := by
            split at h
            · simp only [SRes.ok.injEq] at h; exact h.2.symm
            · split at h
              · split at h <;> (simp only [SRes.ok.injEq] at h; exact h.2.symm)
              · simp only [SRes.ok.injEq] at h; exact h.2.symm
          rw [hcc]
          have p2 := indexS_post ix (fun p hp => ⟨goV p.1 (.kid hr (by
              simp only [ckids, List.mem_append, List.mem_map]; exact Or.inr (Or.inl ⟨p, hp, rfl⟩))),
            goV p.2 (.kid hr (by simp only [ckids, List.mem_append, List.mem_map]; exact Or.inr (Or.inr ⟨p, hp, rfl⟩)))⟩) c1 y c2 e2 p1.1
          refine post_mono (post_trans p1 p2) ?_
          intro N tt hm
          cases hm with
          | kid hk hm' =>
            simp only [ckids, List.mem_append, List.mem_map] at hk
            rcases hk with ⟨p, hp, rfl⟩ | ⟨p, hp, rfl⟩ | ⟨p, hp, rfl⟩
            · exact Or.inl ⟨p, hp, hm'⟩
            · exact Or.inr ⟨p, hp, Or.inl hm'⟩
            · exact Or.inr ⟨p, hp, Or.inr hm'⟩
        | throw e => rw [e2] at h; simp at h
        | nofuel => rw [e2] at h; simp at h
      | throw e => rw [e1] at h; simp at h
      | nofuel => rw [e1] at h; simp at h


end

/-! ## call histories in which every call returns -/

/-- every call of the history returns a schema (no exception, fuel left) -/
def AllOk (env : Env) (o : SOpts) (fuel : Nat) : SCtx → List RT → Prop
  | _, [] => True
  | c, t :: ts => ∃ s c', schema env o fuel t none [] c = .ok s c' ∧ AllOk env o fuel c' ts

theorem creach_mono {env : Env} {o : SOpts} {r1 r2 : List RT} (h : ∀ t, t ∈ r1 → t ∈ r2) {rt : RT}
    (hr : CReach env o r1 rt) : CReach env o r2 rt := by
  induction hr with
  | root hm => exact .root (h _ hm)
  | kid _ hk ih => exact .kid ih hk
  | target _ hm ih => exact .target ih hm

theorem inv_empty (env : Env) (o : SOpts) (roots : List RT) : Inv env o roots ⟨[], []⟩ :=
  ⟨fun N h => by simp [SCtx.has] at h, fun N h => by simp [SCtx.has] at h⟩

theorem run_allOk {env : Env} {o : SOpts} {roots : List RT} (hc : o.contextual = true) (hF : Functional' env o roots)
    (fuel : Nat) : ∀ (calls : List RT) (c : SCtx), (∀ t ∈ calls, t ∈ roots) → Inv env o roots c → c.inProgress = [] →
    AllOk env o fuel c calls →
    Inv env o roots (calls.foldl (printInto env o fuel) c) ∧ (calls.foldl (printInto env o fuel) c).inProgress = [] ∧
      (∀ N, c.has N = true → (calls.foldl (printInto env o fuel) c).has N = true) ∧
      ∀ t ∈ calls, ∀ N tt, Mentions env o t N tt → (calls.foldl (printInto env o fuel) c).has N = true := by
  intro calls
  induction calls with
  | nil => intro c _ hi hp _; exact ⟨hi, hp, fun _ h => h, fun t ht => by cases ht⟩
  | cons t ts ih =>
    intro c hr hi hp hok
    obtain ⟨s, c1, e1, hok'⟩ := hok
    have p1 := visit hc hF fuel t none [] c s c1 (.root (hr t (by simp))) e1 hi
    have hstep : printInto env o fuel c t = c1 := by unfold printInto; rw [e1]
    simp only [List.foldl_cons, hstep]
    obtain ⟨i2, ip2, mono2, m2⟩ := ih c1 (fun x hx => hr x (by simp [hx])) p1.1 (p1.2.1.trans hp) hok'
    refine ⟨i2, ip2, fun N h => mono2 N (p1.2.2.1 N h), ?_⟩
    intro x hx N tt hm
    rcases List.mem_cons.1 hx with rfl | hx
    · rcases p1.2.2.2 N tt hm with h | h
      · exact mono2 N h
      · rw [hp] at h; cases h
    · exact m2 x hx N tt hm

/-- **sound**: a name defined at the end of such a history is mentioned by a runtype the calls reach -/
theorem names_sound {env : Env} {o : SOpts} (hc : o.contextual = true) (fuel : Nat) (calls : List RT)
    (hF : Functional' env o calls) (hok : AllOk env o fuel ⟨[], []⟩ calls) {N : String}
    (h : (runCalls env o fuel calls).has N = true) : ∃ rt t, CReach env o calls rt ∧ Mentions env o rt N t :=
  (run_allOk hc hF fuel calls ⟨[], []⟩ (fun _ h => h) (inv_empty env o calls) rfl hok).1.2 N h

/-- **complete**: every name mentioned by a runtype the calls reach is defined at the end: the depth-first traversal with
in-progress marks loses nothing -/
theorem names_complete {env : Env} {o : SOpts} (hc : o.contextual = true) (fuel : Nat) (calls : List RT)
    (hF : Functional' env o calls) (hok : AllOk env o fuel ⟨[], []⟩ calls) {rt : RT} (hr : CReach env o calls rt)
    {N : String} {t : RT} (hm : Mentions env o rt N t) : (runCalls env o fuel calls).has N = true := by
  obtain ⟨⟨wc, _⟩, hp, _, hroots⟩ := run_allOk hc hF fuel calls ⟨[], []⟩ (fun _ h => h) (inv_empty env o calls) rfl hok
  have key : ∀ rt, CReach env o calls rt → ∀ N t, Mentions env o rt N t → (runCalls env o fuel calls).has N = true := by
    intro rt hr
    induction hr with
    | root hmem => exact fun N t hm => hroots _ hmem N t hm
    | kid _ hk ih => exact fun N t hm => ih N t (.kid hk hm)
    | @target rt' name t' hr' hm' ih =>
      intro N t hm
      have hn := ih name t' hm'
      rcases wc name hn rt' t' hr' hm' N t hm with h | h
      · exact h
      · rw [hp] at h; cases h
  exact key rt hr N t hm

/-- **C16 (the set of names)**: two histories over the same SET of parsers, every call returning, define exactly the same
names — whatever the order and however often a parser is printed -/
theorem names_order_independent {env : Env} {o : SOpts} (hc : o.contextual = true) (fuel1 fuel2 : Nat) (calls1 calls2 : List RT)
    (hsame : ∀ t, t ∈ calls1 ↔ t ∈ calls2) (hF : Functional' env o calls1)
    (hok1 : AllOk env o fuel1 ⟨[], []⟩ calls1) (hok2 : AllOk env o fuel2 ⟨[], []⟩ calls2) (N : String) :
    (runCalls env o fuel1 calls1).has N = true ↔ (runCalls env o fuel2 calls2).has N = true := by
  have hF2 : Functional' env o calls2 := fun rt1 rt2 name t1 t2 h1 h2 m1 m2 =>
    hF rt1 rt2 name t1 t2 (creach_mono (fun t h => (hsame t).2 h) h1) (creach_mono (fun t h => (hsame t).2 h) h2) m1 m2
  constructor
  · intro h
    obtain ⟨rt, t, hr, hm⟩ := names_sound hc fuel1 calls1 hF hok1 h
    exact names_complete hc fuel2 calls2 hF2 hok2 (creach_mono (fun t h => (hsame t).1 h) hr) hm
  · intro h
    obtain ⟨rt, t, hr, hm⟩ := names_sound hc fuel2 calls2 hF2 hok2 h
    exact names_complete hc fuel1 calls1 hF hok1 (creach_mono (fun t h => (hsame t).2 h) hr) hm

/-- **no definition is left unfinished**: after a history of returning calls no name is in progress -/
theorem no_mark_left {env : Env} {o : SOpts} (hc : o.contextual = true) (fuel : Nat) (calls : List RT)
    (hF : Functional' env o calls) (hok : AllOk env o fuel ⟨[], []⟩ calls) : (runCalls env o fuel calls).inProgress = [] :=
  (run_allOk hc hF fuel calls ⟨[], []⟩ (fun _ h => h) (inv_empty env o calls) rfl hok).2.1


/-! ### the hypothesis, and non-vacuity -/

/-- without a reachable discriminated union every mention is a reference to a named type, whose source is a function of
the name: `Functional'` can fail only through a synthetic variant name (D16b) -/
theorem functionalN_of_no_union {env : Env} {o : SOpts} {roots : List RT}
    (h : ∀ t, CReach env o roots t → ∀ s k m sm, t ≠ .disc s k m sm) : Functional' env o roots := by
  have key : ∀ rt name t, Mentions env o rt name t → CReach env o roots rt → namedTarget env o name = some t := by
    intro rt name t hm
    induction hm with
    | ref _ hnt => exact fun _ => hnt
    | variant _ _ _ => exact fun hr => absurd rfl (h _ hr _ _ _ _)
    | kid hk _ ih => exact fun hr => ih (.kid hr hk)
  intro rt1 rt2 name t1 t2 h1 h2 m1 m2
  exact Option.some.inj ((key rt1 name t1 m1 h1).symm.trans (key rt2 name t2 m2 h2))

private def envT : Env := [("A", .object [("b", .optional (.ref "B"))] []), ("B", .object [("a", .array (.ref "A"))] [])]
private def optsT : SOpts := ⟨true, "#/$defs/{name}", []⟩

/-- two mutually recursive types printed in either order: both histories return, and define both names -/
example :
    (match schema envT optsT 50 (.ref "A") none [] ⟨[], []⟩ with
      | .ok _ c => (match schema envT optsT 50 (.ref "B") none [] c with
        | .ok _ c' => c'.has "A" && c'.has "B" && c'.inProgress.isEmpty && c'.collected.length == 2
        | _ => false)
      | _ => false) = true ∧
    (match schema envT optsT 50 (.ref "B") none [] ⟨[], []⟩ with
      | .ok _ c => c.has "A" && c.has "B" && c.inProgress.isEmpty
      | _ => false) = true := by decide +kernel

end BeffVerif.C16N
