import BeffVerif.Props.C15
/-!
# C15 — describe() declares the shared named types it prints by name

`describeRT_keeps`: a call of the description printer leaves the reference counts and the expansion marks as it found them
and never drops a declaration. `shared_ref_declared`: a reference to a shared named type (counted more than once) that is
printed outside its own expansion is declared when the print returns. Together with `describe_definitions_nodup`
(at most once): every shared named type that `describe()` prints by name is declared exactly once, and stays declared.
-/
namespace BeffVerif.C15
open BeffVerif RT

/-- what a call of the printer may change: nothing but new declarations -/
def Keeps (c c' : DescCtx) : Prop :=
  c'.refCounts = c.refCounts ∧ c'.activeRefs = c.activeRefs ∧
    ∀ k, c.definitions.any (fun p => p.1 == k) = true → c'.definitions.any (fun p => p.1 == k) = true

theorem Keeps.refl (c : DescCtx) : Keeps c c := ⟨rfl, rfl, fun _ h => h⟩

theorem Keeps.trans {a b c : DescCtx} (h1 : Keeps a b) (h2 : Keeps b c) : Keeps a c :=
  ⟨h2.1.trans h1.1, h2.2.1.trans h1.2.1, fun k hk => h2.2.2 k (h1.2.2 k hk)⟩

theorem define_keeps (c : DescCtx) (n : String) (d : TypeDesc) : Keeps c (c.define n d) := by
  unfold DescCtx.define
  split
  · exact Keeps.refl c
  · refine ⟨rfl, rfl, ?_⟩
    intro k hk
    simp only [List.any_append, hk, Bool.true_or]

theorem define_declares (c : DescCtx) (n : String) (d : TypeDesc) : (c.define n d).definitions.any (fun p => p.1 == n) = true := by
  unfold DescCtx.define
  split
  · rename_i h; exact h
  · simp

theorem foldl_keeps {α β : Type} (proj : β → DescCtx) (f : β → α → β)
    (hf : ∀ b x, Keeps (proj b) (proj (f b x))) : ∀ (l : List α) (b : β), Keeps (proj b) (proj (l.foldl f b)) := by
  intro l
  induction l with
  | nil => intro b; exact Keeps.refl _
  | cons x xs ih => intro b; exact (hf b x).trans (ih _)

theorem filter_append_self {l : List String} {name : String} (h : l.contains name = false) :
    (l ++ [name]).filter (· != name) = l := by
  rw [List.filter_append]
  have h1 : l.filter (· != name) = l := by
    rw [List.filter_eq_self]
    intro x hx
    have : x ≠ name := by
      intro e; subst e
      have : l.contains x = true := by simpa using hx
      rw [h] at this; cases this
    simpa using this
  rw [h1]; simp

/-- a call of the printer keeps counts and marks, and never drops a declaration -/
theorem describeRT_keeps (env : Env) : ∀ (n : Nat) (rt : RT) (c : DescCtx), Keeps c (describeRT env n rt c).2 := by
  intro n
  induction n with
  | zero => intro rt c; simp only [describeRT]; exact Keeps.refl c
  | succ n ih =>
    intro rt c
    have hexprs : ∀ (ts : List RT) (c : DescCtx),
        Keeps c (ts.foldl (fun (acc : List String × DescCtx) t =>
          ((acc.1 ++ [(describeRT env n t acc.2).1.typeExpr]), (describeRT env n t acc.2).2)) ([], c)).2 := by
      intro ts c
      exact foldl_keeps (fun (b : List String × DescCtx) => b.2) _ (fun b x => ih x b.2) ts ([], c)
    cases rt with
    | described doc t =>
      cases t <;> simp only [describeRT] <;> exact ih _ _
    | optional t => simp only [describeRT]; exact ih _ _
    | ref name =>
      simp only [describeRT]
      split
      · exact Keeps.refl c
      · rename_i to hto
        split
        · split
          · exact Keeps.refl c
          · rename_i hact
            split
            · exact Keeps.refl c
            · have hin := ih to { c with activeRefs := c.activeRefs ++ [name] }
              have hact' : c.activeRefs.contains name = false := by
                cases hb : c.activeRefs.contains name with
                | false => rfl
                | true => exact absurd hb hact
              refine Keeps.trans ?_ (define_keeps _ _ _)
              refine ⟨hin.1, ?_, hin.2.2⟩
              show List.filter (fun x => x != name) (describeRT env n to { c with activeRefs := c.activeRefs ++ [name] }).2.activeRefs = c.activeRefs
              rw [hin.2.1]
              exact filter_append_self hact'
        · exact ih _ _
    | tuple pre rest =>
      simp only [describeRT]
      cases rest with
      | none => exact hexprs pre c
      | some r => exact (hexprs pre c).trans (ih _ _)
    | allOf ts => simp only [describeRT]; exact hexprs ts c
    | anyOf ts => simp only [describeRT]; exact hexprs ts c
    | disc ss k m sm => simp only [describeRT]; exact hexprs ss c
    | array t => simp only [describeRT]; exact ih _ _
    | map k v => simp only [describeRT]; exact (ih _ _).trans (ih _ _)
    | set t => simp only [describeRT]; exact ih _ _
    | object props ix =>
      simp only [describeRT]
      have h1 := foldl_keeps (fun (b : List (Option String × String) × DescCtx) => b.2)
        (fun (acc : List (Option String × String) × DescCtx) (p : String × RT) =>
          (acc.1 ++ [((describeRT env n p.2 acc.2).1.docText,
            describePropertyKey p.1 ++ (if isOptional p.2 then "?" else "") ++ ": " ++ (describeRT env n p.2 acc.2).1.typeExpr)],
           (describeRT env n p.2 acc.2).2))
        (fun b x => ih x.2 b.2)
        (JsVal.sortBy (fun (a b : String × RT) => JsVal.strLe a.1 b.1) props) ([], c)
      split <;> (try split) <;>
        exact h1.trans (foldl_keeps (fun (b : List (Option String × String) × DescCtx) => b.2) _
          (fun b x => (ih x.1 b.2).trans (ih x.2 _)) ix ([], _))
    | _ => simp only [describeRT]; exact Keeps.refl c

/-- a shared named type printed outside its own expansion is declared when the print returns -/
theorem shared_ref_declared (env : Env) (n : Nat) (name : String) (to : RT) (c : DescCtx)
    (hl : env.lookup name = some to) (hc : c.count name > 1) (ha : c.activeRefs.contains name = false) :
    (describeRT env (n+1) (.ref name) c).2.definitions.any (fun p => p.1 == name) = true := by
  simp only [describeRT, hl, hc, if_true, ha, Bool.false_eq_true, if_false]
  split
  · rename_i h; exact h
  · exact define_declares _ _ _

/-- once declared, declared after every later print -/
theorem declared_stays (env : Env) (n : Nat) (rt : RT) (c : DescCtx) (name : String)
    (h : c.definitions.any (fun p => p.1 == name) = true) :
    (describeRT env n rt c).2.definitions.any (fun p => p.1 == name) = true :=
  (describeRT_keeps env n rt c).2.2 name h

/-- the top-level call starts and ends without expansion marks: no printed name is left waiting for its declaration -/
theorem describe_marks_cleared (env : Env) (fuel : Nat) (rt : RT) (c : DescCtx) (h : c.activeRefs = []) :
    (describeRT env fuel rt c).2.activeRefs = [] := by
  rw [(describeRT_keeps env fuel rt c).2.1, h]

end BeffVerif.C15
