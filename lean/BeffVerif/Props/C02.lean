import BeffVerif.Model.JsonSchema
/-!
# C02 — emitted JSON Schema and validator agree on JSON documents

Lean part: a JSON Schema evaluator for the emitted keyword set and exactness of the schema of every leaf
constructor against the validator for EVERY JSON document; the non-JSON leaves always throw in both printing
modes. The composite constructors are decided on the real schemas by python jsonschema (see the check).
-/
namespace BeffVerif.C02
open BeffVerif RT JsVal JS

def P0 : Params := ⟨[], fun _ => none, fun _ _ => true, fun _ _ => true⟩
def flat : SOpts := ⟨false, "", []⟩
def ctxOpts : SOpts := ⟨true, "#/$defs/{name}", []⟩

set_option maxHeartbeats 1000000 in
/-- a schema consisting of `type` only is decided by the type check -/
theorem valid_type_only (n : Nat) (t : String) (d : JsVal) :
    valid P0 (n+1) (.obj [("type", .str t)]) d = some (typeOk t d) := by
  simp only [valid, validG, cType, cConst, cEnum, cAny, cOne, cAll, cNot, cRef, cPattern, cFormat, cObj, cArr, declaredOf, prefixOf,
    lookupProp, List.find?]
  cases d <;> simp (config := {decide := true}) [allO, andO]

set_option maxHeartbeats 1000000 in
theorem valid_empty (n : Nat) (d : JsVal) : valid P0 (n+1) (.obj []) d = some true := by
  simp only [valid, validG, cType, cConst, cEnum, cAny, cOne, cAll, cNot, cRef, cPattern, cFormat, cObj, cArr, declaredOf, prefixOf,
    lookupProp, List.find?]
  cases d <;> simp (config := {decide := true}) [allO, andO]

set_option maxHeartbeats 1000000 in
theorem valid_not_empty (n : Nat) (d : JsVal) : valid P0 (n+2) (.obj [("not", .obj [])]) d = some false := by
  have h := valid_empty n d
  show validG P0 (valid P0 (n+1)) (lookupProp [("not", .obj [])]) d = some false
  simp only [validG, cType, cConst, cEnum, cAny, cOne, cAll, cNot, cRef, cPattern, cFormat, cObj, cArr, declaredOf, prefixOf,
    lookupProp, List.find?]
  cases d <;> simp (config := {decide := true}) [allO, andO, h]

/-- `string`, `number`, `boolean`: a JSON document is valid against the emitted schema `{type: t}` exactly when the
validator accepts it (every document, every fuel). -/
theorem typeof_exact (t : String) (ht : t = "string" ∨ t = "number" ∨ t = "boolean") (n : Nat) (d : JsVal)
    (hd : isJson 50 d = true) :
    valid P0 (n+1) (.obj [("type", .str t)]) d = some (d.typeOf == t) ∧
      validate [] false 1 (.typeof t) d = .ok (d.typeOf == t) := by
  refine ⟨?_, by simp [validate]⟩
  rw [valid_type_only]
  rcases ht with h | h | h <;> subst h <;> cases d <;> simp_all [typeOk, JsVal.typeOf, isJson]

/-- `null` / `undefined` / `void`: `{type: "null"}` accepts exactly the JSON null = what the validator accepts among
JSON documents. -/
theorem nullish_exact (n : Nat) (d : JsVal) (hd : isJson 50 d = true) :
    valid P0 (n+1) (.obj [("type", .str "null")]) d = some d.isNullish := by
  rw [valid_type_only]
  cases d <;> simp_all [typeOk, JsVal.isNullish, isJson]

/-- `any` / `unknown`: the empty schema accepts every document, as the validator does. -/
theorem any_exact (n : Nat) (d : JsVal) : valid P0 (n+1) (.obj []) d = some true := valid_empty n d

/-- `never` (repaired D47): `{not: {}}` accepts no document, as the validator. -/
theorem never_exact (n : Nat) (d : JsVal) : valid P0 (n+2) (.obj [("not", .obj [])]) d = some false := valid_not_empty n d

/-- Date, bigint, Map, Set and typed arrays make schema printing throw, in both modes, whatever the context. -/
theorem nonjson_leaves_throw (env : Env) (o : SOpts) (n : Nat) (seen : List String) (c : SCtx) (k v : RT) (ctor : String) :
    (match schema env o (n+1) .date none seen c with | .throw _ => true | _ => false) = true ∧
    (match schema env o (n+1) .bigint none seen c with | .throw _ => true | _ => false) = true ∧
    (match schema env o (n+1) (.map k v) none seen c with | .throw _ => true | _ => false) = true ∧
    (match schema env o (n+1) (.set v) none seen c with | .throw _ => true | _ => false) = true ∧
    (match schema env o (n+1) (.typed ctor) none seen c with | .throw _ => true | _ => false) = true := by
  simp [schema]

/-- an exception inside a nested position propagates: an object with a Date property cannot be printed. -/
theorem nested_nonjson_throws :
    (match schema [] flat 20 (.object [("a", .typeof "string"), ("d", .date)] []) none [] ⟨[], []⟩ with
      | .throw _ => true | _ => false) = true ∧
    (match schema [] ctxOpts 20 (.array (.tuple [.typeof "number", .bigint] none)) none [] ⟨[], []⟩ with
      | .throw _ => true | _ => false) = true := by decide +kernel

/-- the repaired D19 and D13, kernel-checked on the model: a tuple schema requires its prefix items, and a template
literal schema carries the anchored regular expression -/
theorem tuple_schema_has_minItems :
    (match schema [] flat 20 (.tuple [.typeof "string", .typeof "number"] none) none [] ⟨[], []⟩ with
      | .ok s _ => (match valid P0 20 s (.arr [.str "a"]), valid P0 20 s (.arr [.str "a", .num "1"]) with
        | some false, some true => true | _, _ => false)
      | _ => false) = true := by decide +kernel

theorem template_schema_pattern :
    (match schema [] flat 20 (.regex [.lit "a", .number] "`a${number}`") none [] ⟨[], []⟩ with
      | .ok (.obj kvs) _ => (match lookupProp kvs "pattern" with
        | some (.str p) => p == "^(?:(a)(\\d+(\\.\\d+)?))$" | _ => false)
      | _ => false) = true := by decide +kernel

/-- D48 witness: a REQUIRED property whose type accepts undefined: the validator accepts `{}`, the schema rejects it -/
theorem required_undefined_accepting_prop :
    validate [] true 20 (.object [("a", .any)] []) (.obj []) = .ok true ∧
    (match schema [] flat 20 (.object [("a", .any)] []) none [] ⟨[], []⟩ with
      | .ok s _ => (match valid P0 20 s (.obj []) with | some false => true | _ => false)
      | _ => false) = true := by decide +kernel

end BeffVerif.C02
