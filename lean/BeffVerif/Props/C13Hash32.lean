import BeffVerif.Props.C13Names
/-!
# C13 — the 32-bit `hash()`: alias hops are transparent; member order is not (D108)

`hash32_alias_hop`: a reference to a name that is just another name (`type A = B`, possibly under a doc comment) hashes as
what it stands for — the alias-boundary clause of the property for alias hops (the repaired D101). `hash32_member_order`:
the kernel-checked witness of the recorded D108 — the members of a union are folded in the order they stand, so
`string | number` and `number | string`, built with `b.*`, hash differently although the property lists member order among
the things `hash()` ignores.
-/
namespace BeffVerif.C13N
open BeffVerif RT

theorem hash32_alias_hop (env : Env) (n : Nat) (name other : String) (to : RT) (seen : List String)
    (hl : env.lookup name = some to) (hs : stripDesc to = .ref other) :
    RT.hash env (n+1) (.ref name) seen = RT.hash env n to seen := by
  simp only [RT.hash, hl, hs]

/-- D108 (recorded): the 32-bit hash of a union depends on the order of its members -/
theorem hash32_member_order :
    RT.hash [] 5 (.anyOf [.typeof "string", .typeof "number"]) [] ≠ RT.hash [] 5 (.anyOf [.typeof "number", .typeof "string"]) [] := by
  decide +kernel

end BeffVerif.C13N
