import BeffVerif.Props.C01Frag
import BeffVerif.Props.C08
/-!
# C08 — rewrites are invisible to the COMPILED validator on the structural fragment

`Props/C08.lean` shows that the listed rewrites do not change the reference meaning ⟦t⟧; `Props/C01Frag.lean` shows that on
the structural fragment the compiled validator (frontend lowering → `any_of` / `all_of` → printer → runtime `validate`)
never disagrees with ⟦t⟧. Together: two fragment types with the same meaning compile to validators that give the same
answer (`frag_same_meaning_same_validator`), in particular

* `frag_property_order_invisible` — an object type and the same object type with its properties in another order, nested
  anywhere below arrays / tuples / objects is covered by congruence of ⟦·⟧ (here: at the root);
* `frag_paren_invisible`, `frag_readonly_invisible` — parentheses and `readonly`.

Each statement is "whenever both validators and the reference answer" (the model's validators and reference carry fuel).
-/
namespace BeffVerif.C08F
open BeffVerif C01F

/-- same meaning, same compiled answers -/
theorem frag_same_meaning_same_validator (t1 t2 : Ty) (hf1 : Frag t1) (hf2 : Frag t2) (v : JsVal) (sf1 sf2 : Nat) (c : Bool)
    (hs1 : Spec.mem [] sf1 t1 v = some c) (hs2 : Spec.mem [] sf2 t2 v = some c) (b1 b2 : Bool)
    (h1 : C01.compiledAccepts t1 v = some b1) (h2 : C01.compiledAccepts t2 v = some b2) : b1 = b2 :=
  (fragment_exact t1 hf1 v sf1 b1 c h1 hs1).trans (fragment_exact t2 hf2 v sf2 b2 c h2 hs2).symm

/-- reordering the properties of an object type does not change the compiled validator -/
theorem frag_property_order_invisible (ms ms' : List (String × Bool × Ty)) (hp : ms.Perm ms')
    (hf : Frag (.obj ms none)) (v : JsVal) (sf : Nat) (c : Bool) (hs : Spec.mem [] (sf + 1) (.obj ms none) v = some c)
    (b1 b2 : Bool) (h1 : C01.compiledAccepts (.obj ms none) v = some b1) (h2 : C01.compiledAccepts (.obj ms' none) v = some b2) :
    b1 = b2 := by
  cases hf with
  | obj _ hn hm =>
    have hn' : (ms'.map (·.1)).Nodup := (hp.map _).nodup_iff.1 hn
    have hf' : Frag (.obj ms' none) := .obj ms' hn' (fun m hm' => hm m (hp.mem_iff.2 hm'))
    have hs' : Spec.mem [] (sf + 1) (.obj ms' none) v = some c := by
      rw [← hs]
      simp only [Spec.mem, Spec.shape, foldl_putMember ms hn, foldl_putMember ms' hn']
      exact (C08.spec_object_members_perm _ ms ms' v hp).symm
    exact frag_same_meaning_same_validator _ _ (.obj ms hn hm) hf' v _ _ c hs hs' b1 b2 h1 h2

/-- parentheses do not change the compiled validator -/
theorem frag_paren_invisible (t : Ty) (hf : Frag t) (v : JsVal) (sf : Nat) (c : Bool) (hs : Spec.mem [] sf t v = some c)
    (b1 b2 : Bool) (h1 : C01.compiledAccepts t v = some b1) (h2 : C01.compiledAccepts (.paren t) v = some b2) : b1 = b2 :=
  frag_same_meaning_same_validator t (.paren t) hf (.paren t hf) v sf (sf + 1) c hs
    (by rw [C08.spec_paren]; exact hs) b1 b2 h1 h2

/-- `readonly` does not change the compiled validator -/
theorem frag_readonly_invisible (t : Ty) (hf : Frag t) (v : JsVal) (sf : Nat) (c : Bool) (hs : Spec.mem [] sf t v = some c)
    (b1 b2 : Bool) (h1 : C01.compiledAccepts t v = some b1) (h2 : C01.compiledAccepts (.readonly t) v = some b2) : b1 = b2 :=
  frag_same_meaning_same_validator t (.readonly t) hf (.readonly t hf) v sf (sf + 1) c hs
    (by rw [C08.spec_readonly]; exact hs) b1 b2 h1 h2

end BeffVerif.C08F
