import BeffVerif.Model.Schema
/-!
# C16 — what a shared printing context stores for a name does not depend on the history

Part A `schema_value_independent`: in contextual mode the schema RETURNED for a runtype does not depend on the context
it is printed into, nor on the fuel left (a named type is always `$ref`, a discriminated union always its mapping).

Part B `schema_preserves_good` / `definitions_agree`: every definition a context ever holds is the body some print of
the name's own schema source returned; with Part A: two contexts — whatever calls were made on them, in whatever order,
with or without exceptions in between — that both define a name hold the SAME definition for it, the one a fresh
context gets. Hypothesis `Functional`: a name has one schema source (false exactly for colliding synthetic variant
names, D16b).
-/
namespace BeffVerif.C16O
open BeffVerif RT JsVal

/-! ## Part A: returned values do not depend on the context -/

def ValInd {α : Type} (f g : SCtx → SRes α) : Prop :=
  ∀ c d a a' c' d', f c = .ok a c' → g d = .ok a' d' → a = a'

theorem seqS_val {go1 go2 : RT → SCtx → SRes JsVal} : ∀ (ts : List RT), (∀ t ∈ ts, ValInd (go1 t) (go2 t)) →
    ValInd (seqS go1 ts) (seqS go2 ts) := by
  intro ts
  induction ts with
  | nil =>
    intro _ c d a a' c' d' h1 h2
    simp only [seqS, SRes.ok.injEq] at h1 h2
    rw [← h1.1, ← h2.1]
  | cons t ts ih =>
    intro h c d a a' c' d' h1 h2
    simp only [seqS] at h1 h2
    cases e1 : go1 t c with
    | ok s1 c1 =>
      cases e2 : go2 t d with
      | ok s2 d1 =>
        rw [e1] at h1; rw [e2] at h2
        simp only at h1 h2
        cases r1 : seqS go1 ts c1 with
        | ok ss1 c2 =>
          cases r2 : seqS go2 ts d1 with
          | ok ss2 d2 =>
            rw [r1] at h1; rw [r2] at h2
            simp only [SRes.ok.injEq] at h1 h2
            rw [← h1.1, ← h2.1, h t (by simp) c d s1 s2 c1 d1 e1 e2,
              ih (fun x hx => h x (by simp [hx])) c1 d1 ss1 ss2 c2 d2 r1 r2]
          | throw e => rw [r2] at h2; simp at h2
          | nofuel => rw [r2] at h2; simp at h2
        | throw e => rw [r1] at h1; simp at h1
        | nofuel => rw [r1] at h1; simp at h1
      | throw e => rw [e2] at h2; simp at h2
      | nofuel => rw [e2] at h2; simp at h2
    | throw e => rw [e1] at h1; simp at h1
    | nofuel => rw [e1] at h1; simp at h1

theorem propsS_val {go1 go2 : RT → SCtx → SRes JsVal} : ∀ (props : List (String × RT)),
    (∀ p ∈ props, ValInd (go1 p.2) (go2 p.2)) → ∀ acc, ValInd (propsS go1 props acc) (propsS go2 props acc) := by
  intro props
  induction props with
  | nil =>
    intro _ acc c d a a' c' d' h1 h2
    simp only [propsS, SRes.ok.injEq] at h1 h2
    rw [← h1.1, ← h2.1]
  | cons p rest ih =>
    intro h acc c d a a' c' d' h1 h2
    obtain ⟨ps, opt⟩ := acc
    simp only [propsS] at h1 h2
    cases e1 : go1 p.2 c with
    | ok s1 c1 =>
      cases e2 : go2 p.2 d with
      | ok s2 d1 =>
        rw [e1] at h1; rw [e2] at h2
        simp only at h1 h2
        have hs : s1 = s2 := h p (by simp) c d s1 s2 c1 d1 e1 e2
        subst hs
        cases hr : removeNullUnionBranch 50 s1 with
        | some rw' =>
          rw [hr] at h1 h2
          exact ih (fun x hx => h x (by simp [hx])) _ c1 d1 a a' c' d' h1 h2
        | none =>
          rw [hr] at h1 h2
          exact ih (fun x hx => h x (by simp [hx])) _ c1 d1 a a' c' d' h1 h2
      | throw e => rw [e2] at h2; simp at h2
      | nofuel => rw [e2] at h2; simp at h2
    | throw e => rw [e1] at h1; simp at h1
    | nofuel => rw [e1] at h1; simp at h1

theorem indexS_val {go1 go2 : RT → SCtx → SRes JsVal} : ∀ (ix : List (RT × RT)),
    (∀ p ∈ ix, ValInd (go1 p.1) (go2 p.1) ∧ ValInd (go1 p.2) (go2 p.2)) → ValInd (indexS go1 ix) (indexS go2 ix) := by
  intro ix
  induction ix with
  | nil =>
    intro _ c d a a' c' d' h1 h2
    simp only [indexS, SRes.ok.injEq] at h1 h2
    rw [← h1.1, ← h2.1]
  | cons p rest ih =>
    intro h c d a a' c' d' h1 h2
    simp only [indexS] at h1 h2
    cases e1 : go1 p.1 c with
    | ok k1 c1 =>
      cases e2 : go2 p.1 d with
      | ok k2 d1 =>
        rw [e1] at h1; rw [e2] at h2
        simp only at h1 h2
        cases f1 : go1 p.2 c1 with
        | ok v1 c2 =>
          cases f2 : go2 p.2 d1 with
          | ok v2 d2 =>
            rw [f1] at h1; rw [f2] at h2
            simp only at h1 h2
            cases r1 : indexS go1 rest c2 with
            | ok ss1 c3 =>
              cases r2 : indexS go2 rest d2 with
              | ok ss2 d3 =>
                rw [r1] at h1; rw [r2] at h2
                simp only [SRes.ok.injEq] at h1 h2
                rw [← h1.1, ← h2.1, (h p (by simp)).1 c d k1 k2 c1 d1 e1 e2, (h p (by simp)).2 c1 d1 v1 v2 c2 d2 f1 f2,
                  ih (fun x hx => h x (by simp [hx])) c2 d2 ss1 ss2 c3 d3 r1 r2]
              | throw e => rw [r2] at h2; simp at h2
              | nofuel => rw [r2] at h2; simp at h2
            | throw e => rw [r1] at h1; simp at h1
            | nofuel => rw [r1] at h1; simp at h1
          | throw e => rw [f2] at h2; simp at h2
          | nofuel => rw [f2] at h2; simp at h2
        | throw e => rw [f1] at h1; simp at h1
        | nofuel => rw [f1] at h1; simp at h1
      | throw e => rw [e2] at h2; simp at h2
      | nofuel => rw [e2] at h2; simp at h2
    | throw e => rw [e1] at h1; simp at h1
    | nofuel => rw [e1] at h1; simp at h1

/-- the references of the variants are a function of the names alone -/
theorem variantsS_val {go1 go2 : RT → SCtx → SRes JsVal} (tgt : String × RT → String × Option RT) (template : String) :
    ∀ (kvs : List (String × RT)), ValInd (variantsS go1 tgt template kvs) (variantsS go2 tgt template kvs) := by
  intro kvs
  induction kvs with
  | nil =>
    intro c d a a' c' d' h1 h2
    simp only [variantsS, SRes.ok.injEq] at h1 h2
    rw [← h1.1, ← h2.1]
  | cons kv rest ih =>
    intro c d a a' c' d' h1 h2
    simp only [variantsS] at h1 h2
    cases ht : tgt kv with
    | mk name target =>
      rw [ht] at h1 h2
      cases target with
      | none => simp at h1
      | some target =>
        simp only at h1 h2
        cases e1 : defineS go1 name target c with
        | ok u1 c1 =>
          cases e2 : defineS go2 name target d with
          | ok u2 d1 =>
            rw [e1] at h1; rw [e2] at h2
            simp only at h1 h2
            cases r1 : variantsS go1 tgt template rest c1 with
            | ok rs1 c2 =>
              cases r2 : variantsS go2 tgt template rest d1 with
              | ok rs2 d2 =>
                rw [r1] at h1; rw [r2] at h2
                simp only [SRes.ok.injEq] at h1 h2
                rw [← h1.1, ← h2.1, ih c1 d1 rs1 rs2 c2 d2 r1 r2]
              | throw e => rw [r2] at h2; simp at h2
              | nofuel => rw [r2] at h2; simp at h2
            | throw e => rw [r1] at h1; simp at h1
            | nofuel => rw [r1] at h1; simp at h1
          | throw e => rw [e2] at h2; simp at h2
          | nofuel => rw [e2] at h2; simp at h2
        | throw e => rw [e1] at h1; simp at h1
        | nofuel => rw [e1] at h1; simp at h1


def ClaimV (env : Env) (o : SOpts) (n1 n2 : Nat) : Prop :=
  ∀ rt desc seen1 seen2, ValInd (schema env o n1 rt desc seen1) (schema env o n2 rt desc seen2)

theorem ret_inj {desc : Option String} {x : JsVal} {c c' d d' : SCtx} {a a' : JsVal}
    (h1 : SRes.ok (annotate desc x) c = SRes.ok a c') (h2 : SRes.ok (annotate desc x) d = SRes.ok a' d') : a = a' := by
  injection h1 with h1 _
  injection h2 with h2 _
  rw [← h1, ← h2]

theorem schema_value_independent (env : Env) (o : SOpts) (hc : o.contextual = true) : ∀ n1 n2, ClaimV env o n1 n2 := by
  intro n1
  induction n1 with
  | zero => intro n2 rt desc s1 s2 c d a a' c' d' h1 _; simp [schema] at h1
  | succ n1 ih =>
    intro n2
    cases n2 with
    | zero => intro rt desc s1 s2 c d a a' c' d' _ h2; simp [schema] at h2
    | succ n2 =>
      have IH := ih n2
      intro rt desc s1 s2 c d a a' c' d' h1 h2
      have go_val : ∀ t, ValInd (fun c => schema env o n1 t none s1 c) (fun c => schema env o n2 t none s2 c) :=
        fun t => IH t none s1 s2
      cases rt with
      | described dd t => simp only [schema] at h1 h2; exact IH t (some dd) s1 s2 c d a a' c' d' h1 h2
      | typeof t => simp only [schema] at h1 h2; exact ret_inj h1 h2
      | any => simp only [schema] at h1 h2; exact ret_inj h1 h2
      | nullish _ => simp only [schema] at h1 h2; exact ret_inj h1 h2
      | never => simp only [schema] at h1 h2; exact ret_inj h1 h2
      | regex _ _ => simp only [schema] at h1 h2; exact ret_inj h1 h2
      | strfmt _ => simp only [schema] at h1 h2; exact ret_inj h1 h2
      | numfmt _ => simp only [schema] at h1 h2; exact ret_inj h1 h2
      | date => simp [schema] at h1
      | bigint => simp [schema] at h1
      | typed _ => simp [schema] at h1
      | map _ _ => simp [schema] at h1
      | set _ => simp [schema] at h1
      | const v =>
        simp only [schema] at h1 h2
        split at h1 <;> split at h2 <;> first | exact ret_inj h1 h2 | simp_all
      | consts vs =>
        simp only [schema] at h1 h2
        split at h1 <;> split at h2 <;> first | exact ret_inj h1 h2 | simp_all
      | array t =>
        simp only [schema] at h1 h2
        cases e1 : schema env o n1 t none s1 c with
        | ok x1 c1 =>
          cases e2 : schema env o n2 t none s2 d with
          | ok x2 d1 =>
            rw [e1] at h1; rw [e2] at h2
            have := go_val t c d x1 x2 c1 d1 e1 e2
            subst this
            exact ret_inj h1 h2
          | throw e => rw [e2] at h2; simp at h2
          | nofuel => rw [e2] at h2; simp at h2
        | throw e => rw [e1] at h1; simp at h1
        | nofuel => rw [e1] at h1; simp at h1
      | optional t =>
        simp only [schema] at h1 h2
        cases e1 : schema env o n1 t none s1 c with
        | ok x1 c1 =>
          cases e2 : schema env o n2 t none s2 d with
          | ok x2 d1 =>
            rw [e1] at h1; rw [e2] at h2
            have := go_val t c d x1 x2 c1 d1 e1 e2
            subst this
            injection h1 with h1 _; injection h2 with h2 _
            rw [← h1, ← h2]
          | throw e => rw [e2] at h2; simp at h2
          | nofuel => rw [e2] at h2; simp at h2
        | throw e => rw [e1] at h1; simp at h1
        | nofuel => rw [e1] at h1; simp at h1
      | anyOf ts =>
        simp only [schema] at h1 h2
        cases e1 : seqS (fun t c => schema env o n1 t none s1 c) ts c with
        | ok x1 c1 =>
          cases e2 : seqS (fun t c => schema env o n2 t none s2 c) ts d with
          | ok x2 d1 =>
            rw [e1] at h1; rw [e2] at h2
            have := seqS_val ts (fun t _ => go_val t) c d x1 x2 c1 d1 e1 e2
            subst this
            exact ret_inj h1 h2
          | throw e => rw [e2] at h2; simp at h2
          | nofuel => rw [e2] at h2; simp at h2
        | throw e => rw [e1] at h1; simp at h1
        | nofuel => rw [e1] at h1; simp at h1
      | allOf ts =>
        simp only [schema] at h1 h2
        cases e1 : seqS (fun t c => schema env o n1 t none s1 c) ts c with
        | ok x1 c1 =>
          cases e2 : seqS (fun t c => schema env o n2 t none s2 c) ts d with
          | ok x2 d1 =>
            rw [e1] at h1; rw [e2] at h2
            have := seqS_val ts (fun t _ => go_val t) c d x1 x2 c1 d1 e1 e2
            subst this
            simp only at h1 h2
            cases hm : tryMergeAllOf x1 <;> rw [hm] at h1 h2 <;> exact ret_inj h1 h2
          | throw e => rw [e2] at h2; simp at h2
          | nofuel => rw [e2] at h2; simp at h2
        | throw e => rw [e1] at h1; simp at h1
        | nofuel => rw [e1] at h1; simp at h1
      | tuple pre rest =>
        simp only [schema] at h1 h2
        cases e1 : seqS (fun t c => schema env o n1 t none s1 c) pre c with
        | ok x1 c1 =>
          cases e2 : seqS (fun t c => schema env o n2 t none s2 c) pre d with
          | ok x2 d1 =>
            rw [e1] at h1; rw [e2] at h2
            have := seqS_val pre (fun t _ => go_val t) c d x1 x2 c1 d1 e1 e2
            subst this
            simp only at h1 h2
            cases rest with
            | none => simp only at h1 h2; exact ret_inj h1 h2
            | some r =>
              simp only at h1 h2
              cases f1 : schema env o n1 r none s1 c1 with
              | ok y1 c2 =>
                cases f2 : schema env o n2 r none s2 d1 with
                | ok y2 d2 =>
                  rw [f1] at h1; rw [f2] at h2
                  have := go_val r c1 d1 y1 y2 c2 d2 f1 f2
                  subst this
                  exact ret_inj h1 h2
                | throw e => rw [f2] at h2; simp at h2
                | nofuel => rw [f2] at h2; simp at h2
              | throw e => rw [f1] at h1; simp at h1
              | nofuel => rw [f1] at h1; simp at h1
          | throw e => rw [e2] at h2; simp at h2
          | nofuel => rw [e2] at h2; simp at h2
        | throw e => rw [e1] at h1; simp at h1
        | nofuel => rw [e1] at h1; simp at h1
      | ref name =>
        simp only [schema, hc, if_true] at h1 h2
        cases hl : env.lookup name with
        | none => rw [hl] at h1; simp at h1
        | some to =>
          rw [hl] at h1 h2
          simp only at h1 h2
          split at h1
          · split at h2
            · exact ret_inj h1 h2
            · simp at h2
            · simp at h2
          · simp at h1
          · simp at h1
      | disc schemas key mp sm =>
        simp only [schema, hc, if_true] at h1 h2
        cases hh : hash env 200 (.disc schemas key mp sm) [] with
        | none => rw [hh] at h1; simp at h1
        | some uh =>
          rw [hh] at h1 h2
          simp only at h1 h2
          cases e1 : variantsS (fun t c => schema env o n1 t none s1 c) (variantTarget env o key uh sm) o.refTemplate sm c with
          | ok x1 c1 =>
            cases e2 : variantsS (fun t c => schema env o n2 t none s2 c) (variantTarget env o key uh sm) o.refTemplate sm d with
            | ok x2 d1 =>
              rw [e1] at h1; rw [e2] at h2
              have := variantsS_val (variantTarget env o key uh sm) o.refTemplate sm c d x1 x2 c1 d1 e1 e2
              subst this
              exact ret_inj h1 h2
            | throw e => rw [e2] at h2; simp at h2
            | nofuel => rw [e2] at h2; simp at h2
          | throw e => rw [e1] at h1; simp at h1
          | nofuel => rw [e1] at h1; simp at h1
      | object props ix =>
        simp only [schema] at h1 h2
        cases e1 : propsS (fun t c => schema env o n1 t none s1 c) props ([], []) c with
        | ok x1 c1 =>
          cases e2 : propsS (fun t c => schema env o n2 t none s2 c) props ([], []) d with
          | ok x2 d1 =>
            rw [e1] at h1; rw [e2] at h2
            have := propsS_val props (fun p _ => go_val p.2) ([], []) c d x1 x2 c1 d1 e1 e2
            subst this
            obtain ⟨ps, optionalized⟩ := x1
            simp only at h1 h2
            cases f1 : indexS (fun t c => schema env o n1 t none s1 c) ix c1 with
            | ok y1 c2 =>
              cases f2 : indexS (fun t c => schema env o n2 t none s2 c) ix d1 with
              | ok y2 d2 =>
                rw [f1] at h1; rw [f2] at h2
                have := indexS_val ix (fun p _ => ⟨go_val p.1, go_val p.2⟩) c1 d1 y1 y2 c2 d2 f1 f2
                subst this
                simp only at h1 h2
                split at h1
                · rename_i hz; simp only [hz, if_true] at h2; exact ret_inj h1 h2
                · rename_i hz
                  simp only [hz, if_false] at h2
                  split at h1
                  · rename_i hy
                    simp only [hy, if_true] at h2
                    split at h1 <;> split at h2 <;> first | exact ret_inj h1 h2 | simp_all
                  · rename_i hy; simp only [hy, if_false] at h2; exact ret_inj h1 h2
              | throw e => rw [f2] at h2; simp at h2
              | nofuel => rw [f2] at h2; simp at h2
            | throw e => rw [f1] at h1; simp at h1
            | nofuel => rw [f1] at h1; simp at h1
          | throw e => rw [e2] at h2; simp at h2
          | nofuel => rw [e2] at h2; simp at h2
        | throw e => rw [e1] at h1; simp at h1
        | nofuel => rw [e1] at h1; simp at h1


/-! ## Part B: every stored definition is a print of the name's own schema source -/

theorem mem_setProp {l : List (String × JsVal)} {k : String} {v : JsVal} {p : String × JsVal} (h : p ∈ setProp l k v) :
    p = (k, v) ∨ p ∈ l := by
  unfold setProp at h
  split at h
  · rw [List.mem_map] at h
    obtain ⟨q, hq, e⟩ := h
    split at e
    · exact Or.inl e.symm
    · exact Or.inr (e ▸ hq)
  · split at h
    · rename_i i _
      simp only [List.mem_append, List.mem_cons, List.mem_nil_iff, or_false] at h
      rcases h with (h | h) | h
      · exact Or.inr ((List.takeWhile_sublist _).subset h)
      · exact Or.inl h
      · exact Or.inr ((List.dropWhile_sublist _).subset h)
    · simp only [List.mem_append, List.mem_cons, List.mem_nil_iff, or_false] at h
      rcases h with h | h
      · exact Or.inr h
      · exact Or.inl h

/-- the runtypes `schema` recurses into -/
def kids : RT → List RT
  | .described _ t => [t]
  | .tuple pre rest => pre ++ (match rest with | some r => [r] | none => [])
  | .allOf ts => ts
  | .anyOf ts => ts
  | .array t => [t]
  | .optional t => [t]
  | .disc schemas _ _ sm => schemas ++ sm.map (·.2)
  | .object props ix => props.map (·.2) ++ (ix.map (·.1) ++ ix.map (·.2))
  | _ => []

/-- the schema source of a named type: the override if there is one, else the type's runtype -/
def namedTarget (env : Env) (o : SOpts) (name : String) : Option RT :=
  match o.overrides.find? (fun p => p.1 == name) with
  | some p => some p.2
  | none => env.lookup name

section
variable (env : Env) (o : SOpts) (roots : List RT)

/-- everything a print of one of the `roots` can come across -/
inductive Reach : RT → Prop
  | root {t : RT} : t ∈ roots → Reach t
  | kid {rt t : RT} : Reach rt → t ∈ kids rt → Reach t
  | named {name : String} {t : RT} : Reach (.ref name) → namedTarget env o name = some t → Reach t

/-- `Src name t`: some reachable node makes the context store a print of `t` under `name` -/
inductive Src : String → RT → Prop
  | named {name : String} {t : RT} : Reach env o roots (.ref name) → namedTarget env o name = some t → Src name t
  | variant {schemas : List RT} {key : String} {mp sm : List (String × RT)} {uh : Int} {kv : String × RT} {name : String}
      {t : RT} : Reach env o roots (.disc schemas key mp sm) → hash env 200 (.disc schemas key mp sm) [] = some uh → kv ∈ sm →
      variantTarget env o key uh sm kv = (name, some t) → Src name t

/-- a name has one schema source -/
def Functional : Prop := ∀ name t1 t2, Src env o roots name t1 → Src env o roots name t2 → t1 = t2

def Body (name : String) (b : JsVal) : Prop :=
  ∃ t, Src env o roots name t ∧ ∃ k seen c0 c0', schema env o k t none seen c0 = .ok b c0'

/-- every collected definition is a print of its name's source -/
def Good (c : SCtx) : Prop := ∀ p ∈ c.collected, Body env o roots p.1 p.2

def GoodRes {α : Type} : SRes α → Prop
  | .ok _ c => Good env o roots c
  | .throw c => Good env o roots c
  | .nofuel => True

def Pres (go : RT → SCtx → SRes JsVal) (t : RT) : Prop := ∀ c, Good env o roots c → GoodRes env o roots (go t c)

variable {env o roots}

theorem good_marks {c : SCtx} (m : List String) (h : Good env o roots c) : Good env o roots { c with inProgress := m } := h

theorem good_store {c : SCtx} {name : String} {b : JsVal} (h : Good env o roots c) (hb : Body env o roots name b) :
    Good env o roots (c.store name b) := by
  intro p hp
  rcases mem_setProp hp with rfl | hp
  · exact hb
  · exact h p hp

theorem seqS_good {go : RT → SCtx → SRes JsVal} : ∀ (ts : List RT), (∀ t ∈ ts, Pres env o roots go t) → ∀ c, Good env o roots c →
    GoodRes env o roots (seqS go ts c) := by
  intro ts
  induction ts with
  | nil => intro _ c g; exact g
  | cons t ts ih =>
    intro h c g
    simp only [seqS]
    have h1 := h t (by simp) c g
    cases e1 : go t c with
    | ok s c1 =>
      rw [e1] at h1
      have h2 := ih (fun x hx => h x (by simp [hx])) c1 h1
      dsimp only
      cases e2 : seqS go ts c1 with
      | ok ss c2 => rw [e2] at h2; exact h2
      | throw e => rw [e2] at h2; exact h2
      | nofuel => trivial
    | throw e => rw [e1] at h1; exact h1
    | nofuel => trivial

theorem propsS_good {go : RT → SCtx → SRes JsVal} : ∀ (props : List (String × RT)), (∀ p ∈ props, Pres env o roots go p.2) →
    ∀ acc c, Good env o roots c → GoodRes env o roots (propsS go props acc c) := by
  intro props
  induction props with
  | nil => intro _ acc c g; exact g
  | cons p rest ih =>
    intro h acc c g
    obtain ⟨ps, opt⟩ := acc
    simp only [propsS]
    have h1 := h p (by simp) c g
    cases e1 : go p.2 c with
    | ok s c1 =>
      rw [e1] at h1
      simp only
      cases removeNullUnionBranch 50 s with
      | some rw' => exact ih (fun x hx => h x (by simp [hx])) _ c1 h1
      | none => exact ih (fun x hx => h x (by simp [hx])) _ c1 h1
    | throw e => rw [e1] at h1; exact h1
    | nofuel => trivial

theorem indexS_good {go : RT → SCtx → SRes JsVal} : ∀ (ix : List (RT × RT)),
    (∀ p ∈ ix, Pres env o roots go p.1 ∧ Pres env o roots go p.2) → ∀ c, Good env o roots c →
    GoodRes env o roots (indexS go ix c) := by
  intro ix
  induction ix with
  | nil => intro _ c g; exact g
  | cons p rest ih =>
    intro h c g
    simp only [indexS]
    have h1 := (h p (by simp)).1 c g
    cases e1 : go p.1 c with
    | ok ks c1 =>
      rw [e1] at h1
      have h2 := (h p (by simp)).2 c1 h1
      simp only
      cases e2 : go p.2 c1 with
      | ok vs c2 =>
        rw [e2] at h2
        have h3 := ih (fun x hx => h x (by simp [hx])) c2 h2
        simp only
        cases e3 : indexS go rest c2 with
        | ok ss c3 => rw [e3] at h3; exact h3
        | throw e => rw [e3] at h3; exact h3
        | nofuel => trivial
      | throw e => rw [e2] at h2; exact h2
      | nofuel => trivial
    | throw e => rw [e1] at h1; exact h1
    | nofuel => trivial

theorem defineS_good {go : RT → SCtx → SRes JsVal} {name : String} {target : RT} (hp : Pres env o roots go target)
    (hb : ∀ c b c', go target c = .ok b c' → Body env o roots name b) (c : SCtx) (g : Good env o roots c) :
    GoodRes env o roots (defineS go name target c) := by
  unfold defineS
  split
  · exact g
  · have h1 := hp { c with inProgress := c.inProgress ++ [name] } (good_marks _ g)
    cases e1 : go target { c with inProgress := c.inProgress ++ [name] } with
    | ok body c2 =>
      rw [e1] at h1
      exact good_store h1 (hb _ _ _ e1)
    | throw e => rw [e1] at h1; exact h1
    | nofuel => trivial

theorem variantsS_good {go : RT → SCtx → SRes JsVal} {tgt : String × RT → String × Option RT} {template : String} :
    ∀ (kvs : List (String × RT)),
    (∀ kv ∈ kvs, ∀ name t, tgt kv = (name, some t) → Pres env o roots go t ∧ ∀ c b c', go t c = .ok b c' → Body env o roots name b) →
    ∀ c, Good env o roots c → GoodRes env o roots (variantsS go tgt template kvs c) := by
  intro kvs
  induction kvs with
  | nil => intro _ c g; exact g
  | cons kv rest ih =>
    intro h c g
    simp only [variantsS]
    cases ht : tgt kv with
    | mk name target =>
      cases target with
      | none => exact g
      | some target =>
        simp only
        obtain ⟨hp, hb⟩ := h kv (by simp) name target ht
        have h1 := defineS_good hp hb c g
        cases e1 : defineS go name target c with
        | ok u c1 =>
          rw [e1] at h1
          have h2 := ih (fun x hx => h x (by simp [hx])) c1 h1
          simp only
          cases e2 : variantsS go tgt template rest c1 with
          | ok refs c2 => rw [e2] at h2; exact h2
          | throw e => rw [e2] at h2; exact h2
          | nofuel => trivial
        | throw e => rw [e1] at h1; exact h1
        | nofuel => trivial


theorem reach_stripDesc {t : RT} (h : Reach env o roots t) : Reach env o roots (stripDesc t) := by
  have key : ∀ (k : Nat) (t : RT), Reach env o roots t → sizeOf t ≤ k → Reach env o roots (stripDesc t) := by
    intro k
    induction k with
    | zero => intro t _ hs; cases t <;> simp at hs
    | succ k ih =>
      intro t ht hs
      cases t with
      | described d t' =>
        simp only [stripDesc]
        exact ih t' (.kid ht (by simp [kids])) (by simp at hs; omega)
      | _ => simpa [stripDesc] using ht
  exact key _ t h (Nat.le_refl _)

/-- **the invariant**: printing any reachable runtype into a good context leaves a good context — on success and on an
exception alike -/
theorem schema_preserves_good (hc : o.contextual = true) : ∀ (n : Nat) (rt : RT) (desc : Option String) (seen : List String)
    (c : SCtx), Reach env o roots rt → Good env o roots c → GoodRes env o roots (schema env o n rt desc seen c) := by
  intro n
  induction n with
  | zero => intro rt desc seen c _ _; simp only [schema]; trivial
  | succ n ih =>
    intro rt desc seen c hr g
    have goP : ∀ t, Reach env o roots t → Pres env o roots (fun t c => schema env o n t none seen c) t :=
      fun t ht c g => ih t none seen c ht g
    have goB : ∀ name t, Src env o roots name t → ∀ c b c', schema env o n t none seen c = .ok b c' → Body env o roots name b :=
      fun name t hs c b c' h => ⟨t, hs, n, seen, c, c', h⟩
    cases rt with
    | described dd t => simp only [schema]; exact ih t (some dd) seen c (.kid hr (by simp [kids])) g
    | typeof t => simp only [schema]; exact g
    | any => simp only [schema]; exact g
    | nullish _ => simp only [schema]; exact g
    | never => simp only [schema]; exact g
    | regex _ _ => simp only [schema]; exact g
    | strfmt _ => simp only [schema]; exact g
    | numfmt _ => simp only [schema]; exact g
    | date => simp only [schema]; exact g
    | bigint => simp only [schema]; exact g
    | typed _ => simp only [schema]; exact g
    | map _ _ => simp only [schema]; exact g
    | set _ => simp only [schema]; exact g
    | const v => simp only [schema]; split <;> exact g
    | consts vs => simp only [schema]; split <;> exact g
    | array t =>
      simp only [schema]
      have h1 := goP t (.kid hr (by simp [kids])) c g
      dsimp only at h1
      cases e1 : schema env o n t none seen c with
      | ok s c1 => rw [e1] at h1; exact h1
      | throw e => rw [e1] at h1; exact h1
      | nofuel => trivial
    | optional t =>
      simp only [schema]
      have h1 := goP t (.kid hr (by simp [kids])) c g
      dsimp only at h1
      cases e1 : schema env o n t none seen c with
      | ok s c1 => rw [e1] at h1; exact h1
      | throw e => rw [e1] at h1; exact h1
      | nofuel => trivial
    | anyOf ts =>
      simp only [schema]
      have h1 := seqS_good ts (fun t ht => goP t (.kid hr (by simp [kids, ht]))) c g
      cases e1 : seqS (fun t c => schema env o n t none seen c) ts c with
      | ok s c1 => rw [e1] at h1; exact h1
      | throw e => rw [e1] at h1; exact h1
      | nofuel => trivial
    | allOf ts =>
      simp only [schema]
      have h1 := seqS_good ts (fun t ht => goP t (.kid hr (by simp [kids, ht]))) c g
      cases e1 : seqS (fun t c => schema env o n t none seen c) ts c with
      | ok s c1 => rw [e1] at h1; dsimp only; split <;> exact h1
      | throw e => rw [e1] at h1; exact h1
      | nofuel => trivial
    | tuple pre rest =>
      simp only [schema]
      have h1 := seqS_good pre (fun t ht => goP t (.kid hr (by simp [kids, ht]))) c g
      cases e1 : seqS (fun t c => schema env o n t none seen c) pre c with
      | ok s c1 =>
        rw [e1] at h1
        dsimp only
        cases rest with
        | none => exact h1
        | some r =>
          dsimp only
          have h2 := goP r (.kid hr (by simp [kids])) c1 h1
          dsimp only at h2
          cases e2 : schema env o n r none seen c1 with
          | ok s2 c2 => rw [e2] at h2; exact h2
          | throw e => rw [e2] at h2; exact h2
          | nofuel => trivial
      | throw e => rw [e1] at h1; exact h1
      | nofuel => trivial
    | ref name =>
      simp only [schema, hc, if_true]
      cases hl : env.lookup name with
      | none => exact g
      | some to =>
        dsimp only
        have hnt : namedTarget env o name = some (match o.overrides.find? (fun p => p.1 == name) with | some p => p.2 | none => to) := by
          unfold namedTarget
          cases o.overrides.find? (fun p => p.1 == name) with
          | some p => rfl
          | none => exact hl
        have hsrc := Src.named hr hnt
        have h1 := defineS_good (name := name) (goP _ (.named hr hnt)) (goB name _ hsrc) c g
        cases e1 : defineS (fun t c => schema env o n t none seen c) name
            (match o.overrides.find? (fun p => p.1 == name) with | some p => p.2 | none => to) c with
        | ok u c1 => rw [e1] at h1; exact h1
        | throw e => rw [e1] at h1; exact h1
        | nofuel => trivial
    | disc schemas key mp sm =>
      simp only [schema, hc, if_true]
      cases hh : hash env 200 (.disc schemas key mp sm) [] with
      | none => exact g
      | some uh =>
        dsimp only
        have h1 := variantsS_good (go := fun t c => schema env o n t none seen c) (tgt := variantTarget env o key uh sm)
          (template := o.refTemplate) sm (by
            intro kv hkv name t ht
            have hsrc : Src env o roots name t := .variant hr hh hkv ht
            refine ⟨goP t ?_, goB name t hsrc⟩
            -- the target is reachable: a named variant through its reference, an inline one as a child
            unfold variantTarget at ht
            have hkid : Reach env o roots kv.2 := .kid hr (by simp only [kids, List.mem_append, List.mem_map]; exact Or.inr ⟨kv, hkv, rfl⟩)
            have hstrip := reach_stripDesc hkid
            cases hs : stripDesc kv.2 with
            | ref r =>
              rw [hs] at ht hstrip
              simp only [Prod.mk.injEq] at ht
              obtain ⟨rfl, ht⟩ := ht
              exact .named hstrip (by unfold namedTarget; exact ht)
            | _ =>
              all_goals
                rw [hs] at ht
                simp only [Prod.mk.injEq, Option.some.injEq] at ht
                rw [← ht.2]
                exact hkid) c g
        cases e1 : variantsS (fun t c => schema env o n t none seen c) (variantTarget env o key uh sm) o.refTemplate sm c with
        | ok s c1 => rw [e1] at h1; exact h1
        | throw e => rw [e1] at h1; exact h1
        | nofuel => trivial
    | object props ix =>
      simp only [schema]
      have h1 := propsS_good props (fun p hp => goP p.2 (.kid hr (by
        simp only [kids, List.mem_append, List.mem_map]; exact Or.inl ⟨p, hp, rfl⟩))) ([], []) c g
      cases e1 : propsS (fun t c => schema env o n t none seen c) props ([], []) c with
      | ok s c1 =>
        rw [e1] at h1
        obtain ⟨ps, optionalized⟩ := s
        dsimp only
        have h2 := indexS_good ix (fun p hp => ⟨goP p.1 (.kid hr (by
            simp only [kids, List.mem_append, List.mem_map]; exact Or.inr (Or.inl ⟨p, hp, rfl⟩))),
          goP p.2 (.kid hr (by simp only [kids, List.mem_append, List.mem_map]; exact Or.inr (Or.inr ⟨p, hp, rfl⟩)))⟩) c1 h1
        cases e2 : indexS (fun t c => schema env o n t none seen c) ix c1 with
        | ok ss c2 =>
          rw [e2] at h2
          dsimp only
          split
          · exact h2
          · split
            · split <;> exact h2
            · exact h2
        | throw e => rw [e2] at h2; exact h2
        | nofuel => trivial
      | throw e => rw [e1] at h1; exact h1
      | nofuel => trivial

/-- **C16 (definitions)**: two good contexts that both define a name hold the same definition for it -/
theorem definitions_agree (hc : o.contextual = true) (hF : Functional env o roots) {c1 c2 : SCtx}
    (g1 : Good env o roots c1) (g2 : Good env o roots c2) {name : String} {b1 b2 : JsVal}
    (h1 : (name, b1) ∈ c1.collected) (h2 : (name, b2) ∈ c2.collected) : b1 = b2 := by
  obtain ⟨t1, s1, k1, seen1, x1, x1', e1⟩ := g1 _ h1
  obtain ⟨t2, s2, k2, seen2, x2, x2', e2⟩ := g2 _ h2
  have : t1 = t2 := hF name t1 t2 s1 s2
  subst this
  exact schema_value_independent env o hc k1 k2 t1 none seen1 seen2 x1 x2 b1 b2 x1' x2' e1 e2

end

/-! ## call histories on one shared context -/

/-- one `schemaWithContext` call: after an exception the marks are gone (the `finally` blocks), the stored definitions stay -/
def printInto (env : Env) (o : SOpts) (fuel : Nat) (c : SCtx) (rt : RT) : SCtx :=
  match schema env o fuel rt none [] c with
  | .ok _ c' => c'
  | .throw c' => { c' with inProgress := [] }
  | .nofuel => c

def runCalls (env : Env) (o : SOpts) (fuel : Nat) (calls : List RT) : SCtx :=
  calls.foldl (printInto env o fuel) ⟨[], []⟩

theorem good_runCalls {env : Env} {o : SOpts} {roots : List RT} (hc : o.contextual = true) (fuel : Nat) :
    ∀ (calls : List RT), (∀ t ∈ calls, t ∈ roots) → Good env o roots (runCalls env o fuel calls) := by
  have key : ∀ (calls : List RT) (c : SCtx), (∀ t ∈ calls, t ∈ roots) → Good env o roots c →
      Good env o roots (calls.foldl (printInto env o fuel) c) := by
    intro calls
    induction calls with
    | nil => intro c _ g; exact g
    | cons t ts ih =>
      intro c h g
      simp only [List.foldl_cons]
      apply ih _ (fun x hx => h x (by simp [hx]))
      have h1 := schema_preserves_good (roots := roots) hc fuel t none [] c (.root (h t (by simp))) g
      unfold printInto
      cases e : schema env o fuel t none [] c with
      | ok s c' => rw [e] at h1; exact h1
      | throw c' => rw [e] at h1; exact good_marks [] h1
      | nofuel => exact g
  intro calls h
  exact key calls ⟨[], []⟩ h (fun p hp => by cases hp)

/-- **C16 (order independence of the definitions)**: take any two histories of `schemaWithContext` calls over the same
parsers — any order, any repetition, calls that throw in between, any fuel — on two contexts created alike. A name
defined at the end of both has the same definition in both. In particular (second history = the single call that prints
the type by itself into a fresh context) it is "the one a fresh context would produce for that type". -/
theorem export_order_independent {env : Env} {o : SOpts} {roots : List RT} (hc : o.contextual = true)
    (hF : Functional env o roots) (fuel1 fuel2 : Nat) (calls1 calls2 : List RT)
    (h1 : ∀ t ∈ calls1, t ∈ roots) (h2 : ∀ t ∈ calls2, t ∈ roots) {name : String} {b1 b2 : JsVal}
    (m1 : (name, b1) ∈ (runCalls env o fuel1 calls1).collected) (m2 : (name, b2) ∈ (runCalls env o fuel2 calls2).collected) :
    b1 = b2 :=
  definitions_agree hc hF (good_runCalls hc fuel1 calls1 h1) (good_runCalls hc fuel2 calls2 h2) m1 m2


/-! ## when the hypothesis holds, and that it is not empty -/

theorem reach_inv {env : Env} {o : SOpts} {roots : List RT} (P : RT → Prop) (hroots : ∀ t ∈ roots, P t)
    (hkids : ∀ rt t, P rt → t ∈ kids rt → P t) (hnamed : ∀ name t, P (.ref name) → namedTarget env o name = some t → P t) :
    ∀ t, Reach env o roots t → P t := by
  intro t h
  induction h with
  | root hm => exact hroots _ hm
  | kid _ hk ih => exact hkids _ _ ih hk
  | named _ hn ih => exact hnamed _ _ ih hn

/-- named types alone never clash: without a reachable discriminated union every name has one source (what can make
`Functional` false is a synthetic variant name only — D16b) -/
theorem functional_of_no_union {env : Env} {o : SOpts} {roots : List RT}
    (h : ∀ t, Reach env o roots t → ∀ s k m sm, t ≠ .disc s k m sm) : Functional env o roots := by
  intro name t1 t2 s1 s2
  cases s1 with
  | named _ h1 =>
    cases s2 with
    | named _ h2 => exact Option.some.inj (h1.symm.trans h2)
    | variant hr _ _ _ => exact absurd rfl (h _ hr _ _ _ _)
  | variant hr _ _ _ => exact absurd rfl (h _ hr _ _ _ _)

private def envL : Env := [("L", .object [("next", .optional (.ref "L"))] [])]
private def optsL : SOpts := ⟨true, "#/$defs/{name}", []⟩

private theorem functionalL : Functional envL optsL [.ref "L"] := by
  apply functional_of_no_union
  intro t ht
  have key := reach_inv (env := envL) (o := optsL) (roots := [.ref "L"])
    (fun t => t = .ref "L" ∨ t = .object [("next", .optional (.ref "L"))] [] ∨ t = .optional (.ref "L"))
    (by intro t ht; simp only [List.mem_singleton] at ht; exact Or.inl ht)
    (by
      intro rt t hp hk
      rcases hp with rfl | rfl | rfl
      · simp [kids] at hk
      · simp only [kids, List.map_cons, List.map_nil, List.append_nil, List.mem_singleton] at hk
        exact Or.inr (Or.inr hk)
      · simp only [kids, List.mem_singleton] at hk
        exact Or.inl hk)
    (by
      intro name t hp hn
      rcases hp with h | h | h
      · injection h with h
        subst h
        have : namedTarget envL optsL "L" = some (.object [("next", .optional (.ref "L"))] []) := by
          simp [namedTarget, optsL, envL, Env.lookup]
        rw [this] at hn
        exact Or.inr (Or.inl (Option.some.inj hn).symm)
      · cases h
      · cases h) t ht
  intro s k m sm e
  rcases key with h | h | h <;> rw [e] at h <;> cases h

/-- a recursive type: the hypothesis holds, the context after one call holds one definition, and the theorem applies
to it (printing the type once or three times gives the same definition) -/
example : Functional envL optsL [.ref "L"] ∧ (runCalls envL optsL 50 [.ref "L"]).collected.length = 1 ∧
    (runCalls envL optsL 50 [.ref "L", .ref "L", .ref "L"]).collected.length = 1 :=
  ⟨functionalL, by decide +kernel, by decide +kernel⟩

end BeffVerif.C16O
