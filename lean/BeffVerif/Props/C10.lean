import BeffVerif.Model.Emit
import BeffVerif.Lemmas.Sort
/-!
# C10 — compilation output is a deterministic function of the sources

A Lean function is deterministic by construction, so process-level nondeterminism (hash seeds, addresses, time,
threads) cannot be exhibited by a model. What Lean carries: (1) the regenerated inventory of hash-container
iterations and process-dependent sources is exactly the justified list — a new site breaks the obligation and
triggers the search; (2) the logic that makes emission independent of unordered containers: sorting. For any total
order, sorting a permutation of the input gives the same list, so every order in which files / definitions were
registered yields the same emission order.
-/
namespace BeffVerif.C10
open BeffVerif JsVal

/-- every hash-container iteration / process-dependent source of the CURRENT tree is a known, justified site -/
theorem nondet_sites_known : Emit.sitesOk = true := by decide +kernel



/-- instance for names compared as natural-number codes (non-vacuity of the hypotheses) -/
example : sortBy (fun (a b : Nat) => decide (a ≤ b)) [3, 1, 2] = sortBy (fun (a b : Nat) => decide (a ≤ b)) [2, 3, 1] :=
  emit_order_independent _ (by intro a b; simp; omega) (by intro a b c; simp; omega) (by intro a b; simp; omega)
    _ _ (by decide)

end BeffVerif.C10
