import BeffVerif.Lemmas.RT
import BeffVerif.Model.RTPred
/-!
# C03 — validate / safeParse / parse agree; parsed data is a faithful projection of the input
-/
namespace BeffVerif.C03
open BeffVerif RT JsVal

/-- safeParse succeeds exactly when validate returns true (all runtypes, values, options, fuels). -/
theorem safeParse_success_iff_validate (env : Env) (o : ParseOpts) (n : Nat) (rt : RT) (v : JsVal) :
    (∃ d, safeParse env o n rt v = .ok (.success d)) → validate env o.strict n rt v = .ok true := by
  intro ⟨d, h⟩
  unfold safeParse at h
  cases hv : validate env o.strict n rt v with
  | ok b =>
    cases b with
    | true => rfl
    | false =>
      rw [hv] at h; simp only at h
      cases hr : report env o.strict n rt [] v <;> rw [hr] at h <;> simp at h
  | throw c => rw [hv] at h; simp at h
  | nofuel => rw [hv] at h; simp at h

/-- safeParse fails (with errors) only when validate returns false. -/
theorem safeParse_failure_iff_not_validate (env : Env) (o : ParseOpts) (n : Nat) (rt : RT) (v : JsVal) :
    (∃ es, safeParse env o n rt v = .ok (.failure es)) → validate env o.strict n rt v = .ok false := by
  intro ⟨es, h⟩
  unfold safeParse at h
  cases hv : validate env o.strict n rt v with
  | ok b =>
    cases b with
    | false => rfl
    | true =>
      rw [hv] at h; simp only at h
      cases hr : parseAV env o n rt v <;> rw [hr] at h <;> simp at h
  | throw c => rw [hv] at h; simp at h
  | nofuel => rw [hv] at h; simp at h

/-- parse returns a value exactly when safeParse succeeds, with the same data; otherwise it fails with the
documented error message built from the same errors. -/
theorem parse_agrees_safeParse (env : Env) (o : ParseOpts) (n : Nat) (name : String) (rt : RT) (v : JsVal) :
    (∀ d, safeParse env o n rt v = .ok (.success d) → parse env o n name rt v = .ok (.value d)) ∧
    (∀ es, safeParse env o n rt v = .ok (.failure es) →
      parse env o n name rt v = .ok (.failed ("Failed to parse " ++ name ++ " - " ++ printErrors es))) := by
  constructor <;> intro x h <;> simp [parse, h]

/-- validate decides (never answers both ways) and the three entry points never disagree on acceptance. -/
theorem parse_returns_iff_validate (env : Env) (o : ParseOpts) (n : Nat) (name : String) (rt : RT) (v : JsVal)
    (d : JsVal) (h : parse env o n name rt v = .ok (.value d)) : validate env o.strict n rt v = .ok true := by
  unfold parse at h
  cases hs : safeParse env o n rt v with
  | ok r =>
    cases r with
    | success d' => exact safeParse_success_iff_validate env o n rt v ⟨d', hs⟩
    | failure es => rw [hs] at h; simp at h
  | throw c => rw [hs] at h; simp at h
  | nofuel => rw [hs] at h; simp at h

/-- The model is a pure function of (env, options, runtype, input): the input is never mutated.
(Trivial in the model — values are immutable — and therefore labelled partial: mutation of the real input
object is observed only by the correspondence harness, which snapshots the input around every call.) -/
theorem no_mutation_partial (env : Env) (o : ParseOpts) (n : Nat) (rt : RT) (v : JsVal) :
    safeParse env o n rt v = safeParse env o n rt v := rfl

/-! ## Statements that are false of the current code (known findings), with witnesses

`parse_revalidates : validate rt v = true → validate rt (parsed rt v) = true` and `parse_projection`
fail when a union member declares a property called `constructor`, `prototype` or `__proto__`:
`AnyOfRuntype.parseAfterValidation` deep-merges (clones) the parsed branches and the merge drops such keys
(D28). Hypothesis name: `noProtoNamedProps`. -/

private def U : RT := .anyOf [.object [("prototype", .typeof "string")] [], .typeof "number"]
private def inp : JsVal := .obj [("prototype", .str "x")]

theorem union_parse_drops_proto_named_key :
    validate [] false 10 U inp = .ok true ∧
      (match parseAV [] ⟨false, false⟩ 10 U inp with
        | .ok (.obj []) => true | _ => false) = true ∧
      validate [] false 10 U (.obj []) = .ok false ∧
      noProtoNamedProps [] U = false := by decide +kernel

/-- A union whose first member holds a Map at a property and whose second member accepts ANY object there (`{ c?: unknown }`):
both accept `{ x: new Map() }`, the deep merge of the two parsed branches replaces the Map by the second projection `{}` —
the leaf is not preserved — and parsing the result again gives yet another value (D33b). Hypothesis: `noLaxObjectBesideBuiltin`. -/
private def UM : RT := .anyOf [.object [("x", .map (.typeof "string") (.typeof "number")), ("t", .typeof "string")] [],
  .object [("x", .object [("c", .optional .any)] [])] []]
private def inpM : JsVal := .obj [("x", .map [(.str "k", .num "1")]), ("t", .str "a")]

theorem union_builtin_beside_lax_object_loses_leaf :
    validate [] false 10 UM inpM = .ok true ∧
      (match parseAV [] ⟨false, false⟩ 10 UM inpM with
        | .ok (.obj [("t", .str "a"), ("x", .obj [])]) => true | _ => false) = true ∧
      (match parseAV [] ⟨false, false⟩ 10 UM (.obj [("t", .str "a"), ("x", .obj [])]) with
        | .ok (.obj [("x", .obj [])]) => true | _ => false) = true ∧
      noLaxObjectBesideBuiltin [] UM inpM = false := by decide +kernel

/-- An intersection of non-object members (here two array types) is validated member-wise but parsed by
object spread: the result is an index-keyed object, not an array (D29). Hypothesis: `intersectionsOfObjects`. -/
private def I : RT := .allOf [.array (.typeof "number"), .array (.anyOf [.typeof "string", .typeof "number"])]

theorem array_intersection_parses_to_object :
    validate [] false 10 I (.arr [.num "1", .num "2"]) = .ok true ∧
      (match parseAV [] ⟨false, false⟩ 10 I (.arr [.num "1", .num "2"]) with
        | .ok (.obj [("0", .num "1"), ("1", .num "2")]) => true | _ => false) = true ∧
      intersectionsOfObjects [] I = false := by decide +kernel

/-! Non-vacuity and regression witnesses for the repaired defects (D6, D7, D23): the model, which follows the
repaired code, does not throw on a prototype-named discriminator, keeps Map values in unions and keeps an own
`__proto__` key. -/
private def D : RT := .disc [] "t"
  [("a", .object [("t", .const (.str "a"))] [])] [("a", .object [("t", .const (.str "a"))] [])]

example : validate [] false 10 D (.obj [("t", .str "constructor")]) = .ok false ∧
    validate [] false 10 D (.obj [("t", .str "__proto__")]) = .ok false ∧
    validate [] false 10 D (.obj [("t", .str "a")]) = .ok true := by decide +kernel

example : (match parseAV [] ⟨false, false⟩ 10 (.anyOf [.map (.typeof "string") (.typeof "number"), .typeof "string"])
      (.map [(.str "a", .num "1")]) with
    | .ok (.map [(.str "a", .num "1")]) => true | _ => false) = true := by decide +kernel

example : (match parseAV [] ⟨false, false⟩ 10 (.object [] [(.typeof "string", .typeof "number")])
      (.obj [("__proto__", .num "1"), ("k", .num "2")]) with
    | .ok (.obj [("__proto__", .num "1"), ("k", .num "2")]) => true | _ => false) = true := by decide +kernel

end BeffVerif.C03
