import BeffVerif.Model.Modules
/-!
# C09 — splitting declarations across modules does not change the result

The module model (`Model/Modules.lean`) mirrors `parse_and_bind`, `get_type_visiting` and the type walkers. This file
states what module resolution means *declaratively* — TypeScript's rules for type names: locals, named / default
imports, explicit exports shadowing `export *`, re-export chains — as inductive relations `Scope` / `Exports`, and
proves that the executable resolution is SOUND for every project, every fuel, every file and every name: whatever
declaration the walker returns is the one the rules derive; when the rules derive nothing, the walker returns `none`
(a diagnostic), never some other declaration.

Proved at full strength: soundness of `resolveType`, `resolveQual` and `resolveName` (plain, default-imported,
qualified `A.B.N` and `import("…").A.N` names; all re-export chains, cyclic `export *` included). Not proved (decided by
the correspondence): completeness on unambiguous acyclic projects, and `flatten (split p σ) ≃ p`.
-/
namespace BeffVerif.C09
open BeffVerif Modules

/-- the explicit-export table is found somewhere along the `export *` chain, and nowhere before -/
inductive StarFinds (p : Project) : Mod → String → Exp → Prop
  | here {m n e} : explicitOf m n = some e → StarFinds p m n e
  | there {m n e s m'} : explicitOf m n = none → s ∈ m.stars → p.file s = some m' → StarFinds p m' n e →
      StarFinds p m n e

mutual
/-- file `f` exports the declaration `r` under the name `n` -/
inductive Exports (p : Project) : String → String → String × String → Prop
  | named {f m n e r} : n ≠ "default" → p.file f = some m → StarFinds p m n e → Denotes p e r → Exports p f n r
  | dfltIdent {f m n' r} : p.file f = some m → m.dflt = some (.ident n') → Scope p f n' r → Exports p f "default" r
  | dfltRenamed {f m e r} : p.file f = some m → m.dflt = some (.renamed e) → Denotes p e r → Exports p f "default" r
/-- an export-table entry denotes the declaration `r` -/
inductive Denotes (p : Project) : Exp → String × String → Prop
  | decl {f n} : Denotes p (.decl f n) (f, n)
  | something {n f r} : Exports p f n r → Denotes p (.something n f) r
/-- inside file `f` the type name `n` denotes the declaration `r` -/
inductive Scope (p : Project) : String → String → String × String → Prop
  | loc {f m n} : p.file f = some m → (get m.locals n).isSome = true → Scope p f n (f, n)
  | named {f m n orig f' r} : p.file f = some m → get m.locals n = none → get m.imports n = some (.named orig f') →
      Exports p f' orig r → Scope p f n r
  | dflt {f m n f' r} : p.file f = some m → get m.locals n = none → get m.imports n = some (.dflt f') →
      Exports p f' "default" r → Scope p f n r
end

/-- `get_type_visiting` only ever returns an entry that the `export *` chain really reaches -/
theorem getType_sound (p : Project) : ∀ fuel,
    (∀ visited m n e v, getType p fuel visited m n = (some e, v) → StarFinds p m n e) ∧
    (∀ visited l n e v, getStars p fuel visited l n = (some e, v) →
      ∃ s, s ∈ l ∧ ∃ m', p.file s = some m' ∧ StarFinds p m' n e) := by
  intro fuel
  induction fuel with
  | zero =>
    constructor
    · intro visited m n e v h; simp [getType] at h
    · intro visited l n e v h; simp [getStars] at h
  | succ k ih =>
    constructor
    · intro visited m n e v h
      rw [getType] at h
      cases hx : (get m.types n).orElse (fun _ => get m.unknown n) with
      | some e' =>
        rw [hx] at h
        simp only [Prod.mk.injEq, Option.some.injEq] at h
        exact .here (by unfold explicitOf; rw [hx, h.1])
      | none =>
        rw [hx] at h
        obtain ⟨s, hs, m', hm', hf⟩ := ih.2 visited m.stars n e v h
        exact .there (by unfold explicitOf; exact hx) hs hm' hf
    · intro visited l n e v h
      cases l with
      | nil => simp [getStars] at h
      | cons it rest =>
        rw [getStars] at h
        split at h
        · obtain ⟨s, hs, r⟩ := ih.2 visited rest n e v h
          exact ⟨s, List.mem_cons_of_mem _ hs, r⟩
        · cases hf : p.file it with
          | none => rw [hf] at h; simp at h
          | some f =>
            rw [hf] at h
            simp only at h
            cases hg : getType p k (it :: visited) f n with
            | mk o v' =>
              rw [hg] at h
              cases o with
              | some e' =>
                simp only [Prod.mk.injEq, Option.some.injEq] at h
                exact ⟨it, List.mem_cons_self, f, hf, by rw [← h.1]; exact ih.1 _ _ _ _ _ hg⟩
              | none =>
                simp only at h
                obtain ⟨s, hs, r⟩ := ih.2 v' rest n e v h
                exact ⟨s, List.mem_cons_of_mem _ hs, r⟩

/-- **Soundness of type-name resolution.** For every project, fuel, file, name and visibility: if the walker returns
a declaration, the declarative rules derive exactly that declaration. -/
theorem resolveType_sound (p : Project) : ∀ fuel f n r,
    (resolveType p fuel f n .loc = some r → Scope p f n r) ∧
    (resolveType p fuel f n .exp = some r → Exports p f n r) := by
  intro fuel
  induction fuel with
  | zero => intro f n r; simp [resolveType]
  | succ k ih =>
    have hExp : ∀ e r, fromExpT (resolveType p k) e = some r → Denotes p e r := by
      intro e r h
      cases e with
      | decl f' n' => simp only [fromExpT, Option.some.injEq] at h; rw [← h]; exact .decl
      | starOf _ => simp [fromExpT] at h
      | something n' f' => exact .something ((ih f' n' r).2 h)
    have hDflt : ∀ f r, fromDefaultT p (resolveType p k) f = some r → Exports p f "default" r := by
      intro f r h
      unfold fromDefaultT at h
      cases hf : p.file f with
      | none => rw [hf] at h; simp at h
      | some fm =>
        rw [hf] at h
        simp only at h
        cases hd : fm.dflt with
        | none => rw [hd] at h; simp at h
        | some d =>
          rw [hd] at h
          cases d with
          | ident n' => exact .dfltIdent hf hd ((ih f n' r).1 h)
          | renamed e => exact .dfltRenamed hf hd (hExp e r h)
    intro f n r
    constructor
    · intro h
      rw [resolveType] at h
      cases hf : p.file f with
      | none => rw [hf] at h; simp at h
      | some m =>
        rw [hf] at h
        simp only at h
        cases hl : get m.locals n with
        | some d =>
          rw [hl] at h
          simp only [Option.some.injEq] at h
          rw [← h]
          exact .loc hf (by rw [hl]; rfl)
        | none =>
          rw [hl] at h
          simp only at h
          cases hi : get m.imports n with
          | none => rw [hi] at h; simp at h
          | some imp =>
            rw [hi] at h
            cases imp with
            | named orig f' => exact .named hf hl hi ((ih f' orig r).2 h)
            | star f' => simp at h
            | dflt f' => exact .dflt hf hl hi (hDflt f' r h)
    · intro h
      rw [resolveType] at h
      cases hf : p.file f with
      | none => rw [hf] at h; simp at h
      | some m =>
        rw [hf] at h
        simp only at h
        by_cases hn : n = "default"
        · subst hn
          simp only [beq_self_eq_true, if_true] at h
          exact hDflt f r h
        · have : (n == "default") = false := by simpa using hn
          rw [this] at h
          simp only [Bool.false_eq_true, if_false] at h
          cases hg : getType p k [] m n with
          | mk o v =>
            rw [hg] at h
            cases o with
            | none => simp at h
            | some e => exact .named hn hf ((getType_sound p k).1 _ _ _ _ _ hg) (hExp e r h)

-- ---------- namespace names (`import * as NS`, `export * as NS`, re-exported namespaces) ----------
mutual
/-- file `f` exports, under the name `n`, the namespace of file `g` -/
inductive QExports (p : Project) : String → String → String → Prop
  | named {f m n e g} : n ≠ "default" → p.file f = some m → StarFinds p m n e → QDenotes p e g → QExports p f n g
  | dfltIdent {f m n' g} : p.file f = some m → m.dflt = some (.ident n') → QScope p f n' g → QExports p f "default" g
  | dfltRenamed {f m e g} : p.file f = some m → m.dflt = some (.renamed e) → QDenotes p e g → QExports p f "default" g
inductive QDenotes (p : Project) : Exp → String → Prop
  | starOf {g} : QDenotes p (.starOf g) g
  | something {n f g} : QExports p f n g → QDenotes p (.something n f) g
/-- inside file `f` the name `n` denotes the namespace of file `g` -/
inductive QScope (p : Project) : String → String → String → Prop
  | star {f m n g} : p.file f = some m → get m.locals n = none → get m.imports n = some (.star g) → QScope p f n g
  | named {f m n orig f' g} : p.file f = some m → get m.locals n = none → get m.imports n = some (.named orig f') →
      QExports p f' orig g → QScope p f n g
  | dflt {f m n f' g} : p.file f = some m → get m.locals n = none → get m.imports n = some (.dflt f') →
      QExports p f' "default" g → QScope p f n g
end

/-- **Soundness of namespace resolution** (`QualifiedTypeWalker`) -/
theorem resolveQual_sound (p : Project) : ∀ fuel f n g,
    (resolveQual p fuel f n .loc = some g → QScope p f n g) ∧
    (resolveQual p fuel f n .exp = some g → QExports p f n g) := by
  intro fuel
  induction fuel with
  | zero => intro f n g; simp [resolveQual]
  | succ k ih =>
    have hExp : ∀ e g, fromExpQ (resolveQual p k) e = some g → QDenotes p e g := by
      intro e g h
      cases e with
      | decl f' n' => simp [fromExpQ] at h
      | starOf g' => simp only [fromExpQ, Option.some.injEq] at h; rw [← h]; exact .starOf
      | something n' f' => exact .something ((ih f' n' g).2 h)
    have hDflt : ∀ f g, fromDefaultQ p (resolveQual p k) f = some g → QExports p f "default" g := by
      intro f g h
      unfold fromDefaultQ at h
      cases hf : p.file f with
      | none => rw [hf] at h; simp at h
      | some fm =>
        rw [hf] at h
        simp only at h
        cases hd : fm.dflt with
        | none => rw [hd] at h; simp at h
        | some d =>
          rw [hd] at h
          cases d with
          | ident n' => exact .dfltIdent hf hd ((ih f n' g).1 h)
          | renamed e => exact .dfltRenamed hf hd (hExp e g h)
    intro f n g
    constructor
    · intro h
      rw [resolveQual] at h
      cases hf : p.file f with
      | none => rw [hf] at h; simp at h
      | some m =>
        rw [hf] at h
        simp only at h
        cases hl : get m.locals n with
        | some d => rw [hl] at h; simp at h
        | none =>
          rw [hl] at h
          simp only at h
          cases hi : get m.imports n with
          | none => rw [hi] at h; simp at h
          | some imp =>
            rw [hi] at h
            cases imp with
            | named orig f' => exact .named hf hl hi ((ih f' orig g).2 h)
            | star f' => simp only [Option.some.injEq] at h; rw [← h]; exact .star hf hl hi
            | dflt f' => exact .dflt hf hl hi (hDflt f' g h)
    · intro h
      rw [resolveQual] at h
      cases hf : p.file f with
      | none => rw [hf] at h; simp at h
      | some m =>
        rw [hf] at h
        simp only at h
        by_cases hn : n = "default"
        · subst hn
          simp only [beq_self_eq_true, if_true] at h
          exact hDflt f g h
        · have : (n == "default") = false := by simpa using hn
          rw [this] at h
          simp only [Bool.false_eq_true, if_false] at h
          cases hg : getType p k [] m n with
          | mk o v =>
            rw [hg] at h
            cases o with
            | none => simp at h
            | some e => exact .named hn hf ((getType_sound p k).1 _ _ _ _ _ hg) (hExp e g h)

/-- a dotted path of namespace names, each an export of the previous namespace -/
inductive QPath (p : Project) : String → List String → String → Prop
  | nil {f} : QPath p f [] f
  | cons {f s g rest h} : QExports p f s g → QPath p g rest h → QPath p f (s :: rest) h

theorem qualPath_sound (p : Project) (fuel : Nat) : ∀ (segs : List String) (f h : String),
    qualPath p fuel f .exp segs = some h → QPath p f segs h := by
  intro segs
  induction segs with
  | nil => intro f h hq; simp only [qualPath, Option.some.injEq] at hq; rw [← hq]; exact .nil
  | cons s rest ih =>
    intro f h hq
    simp only [qualPath] at hq
    cases hr : resolveQual p fuel f s .exp with
    | none => rw [hr] at hq; simp at hq
    | some g =>
      rw [hr] at hq
      exact .cons ((resolveQual_sound p fuel f s g).2 hr) (ih g h hq)

/-- what a written name denotes, declaratively: a plain name through the scope of the file; `A.B.N` through the
namespace `A` of the scope, the exported namespaces `B…`, and the export `N` of the last one; `import("f").A.N` the
same starting from the exports of `f` -/
inductive NameDenotes (p : Project) (file : String) : Name → String × String → Prop
  | plain {n r} : Scope p file n r → NameDenotes p file (.plain [n]) r
  | qualified {s rest f g last r} : QScope p file s f → QPath p f rest g → Exports p g last r →
      NameDenotes p file (.plain (s :: rest ++ [last])) r
  | imported {f segs g last r} : QPath p f segs g → Exports p g last r →
      NameDenotes p file (.imp (some f) (segs ++ [last])) r

theorem dropLast_append_getLast {α : Type} (l : List α) (x : α) (h : l.getLast? = some x) : l.dropLast ++ [x] = l := by
  induction l with
  | nil => simp at h
  | cons a as ih =>
    cases as with
    | nil => simp at h; simp [h]
    | cons b bs =>
      simp only [List.getLast?_cons_cons] at h
      simp only [List.dropLast_cons₂, List.cons_append, ih h]

/-- **Soundness of name resolution**: plain, qualified and `import("…")` names all denote what the rules derive -/
theorem resolveName_sound (p : Project) (fuel : Nat) (file : String) (nm : Name) (r : String × String)
    (h : resolveName p fuel file nm = some r) : NameDenotes p file nm r := by
  cases nm with
  | plain segs =>
    cases segs with
    | nil => simp [resolveName] at h
    | cons s rest =>
      cases rest with
      | nil => exact .plain ((resolveType_sound p fuel file s r).1 h)
      | cons s2 rest2 =>
        simp only [resolveName] at h
        cases hq : resolveQual p fuel file s .loc with
        | none => rw [hq] at h; simp at h
        | some f =>
          rw [hq] at h
          simp only at h
          cases hp : qualPath p fuel f .exp (s2 :: rest2).dropLast with
          | none => rw [hp] at h; simp at h
          | some g =>
            rw [hp] at h
            simp only at h
            cases hl : (s2 :: rest2).getLast? with
            | none => rw [hl] at h; simp at h
            | some last =>
              rw [hl] at h
              simp only [Option.bind_some] at h
              have e := dropLast_append_getLast (s2 :: rest2) last hl
              rw [← e]
              exact .qualified ((resolveQual_sound p fuel file s f).1 hq) (qualPath_sound p fuel _ f g hp)
                ((resolveType_sound p fuel g last r).2 h)
  | imp fo segs =>
    cases fo with
    | none => simp [resolveName] at h
    | some f =>
      cases segs with
      | nil => simp [resolveName] at h
      | cons s rest =>
        simp only [resolveName] at h
        cases hp : qualPath p fuel f .exp (s :: rest).dropLast with
        | none => rw [hp] at h; simp at h
        | some g =>
          rw [hp] at h
          simp only at h
          cases hl : (s :: rest).getLast? with
          | none => rw [hl] at h; simp at h
          | some last =>
            rw [hl] at h
            simp only [Option.bind_some] at h
            have e := dropLast_append_getLast (s :: rest) last hl
            rw [← e]
            exact .imported (qualPath_sound p fuel _ f g hp) ((resolveType_sound p fuel g last r).2 h)

/-- clause 3, base case: a name that is neither declared nor imported in the file resolves to nothing (the compiler
reports `CannotNotResolveType`) — whatever other files declare under that name -/
theorem unbound_name_is_diagnostic (p : Project) (fuel : Nat) (f n : String) (m : Mod)
    (hf : p.file f = some m) (hl : get m.locals n = none) (hi : get m.imports n = none) :
    resolveType p fuel f n .loc = none := by
  cases fuel with
  | zero => rfl
  | succ k => rw [resolveType, hf]; simp only; rw [hl]; simp only; rw [hi]

/-- clause 3: importing a name that the target neither exports explicitly nor through `export *` is a diagnostic,
even when the target declares a (non-exported) local of that name -/
theorem unexported_import_is_diagnostic (p : Project) (fuel : Nat) (f n orig f' : String) (m m' : Mod)
    (hf : p.file f = some m) (hl : get m.locals n = none) (hi : get m.imports n = some (.named orig f'))
    (hf' : p.file f' = some m') (hnd : orig ≠ "default")
    (hx : explicitOf m' orig = none) (hs : m'.stars = []) :
    resolveType p fuel f n .loc = none := by
  cases fuel with
  | zero => rfl
  | succ k =>
    rw [resolveType, hf]; simp only; rw [hl]; simp only; rw [hi]; simp only
    cases k with
    | zero => rfl
    | succ j =>
      rw [resolveType, hf']; simp only
      have : (orig == "default") = false := by simpa using hnd
      rw [this]; simp only [Bool.false_eq_true, if_false]
      cases j with
      | zero => simp [getType]
      | succ i =>
        unfold explicitOf at hx
        rw [getType, hx, hs]
        cases i <;> simp [getStars]

/-- an import whose specifier does not resolve binds nothing -/
theorem unresolvable_specifier_binds_nothing (m : Mod) (l o : String) :
    bindStmt m (.importNamed l o none) = m := rfl

-- ---------- non-vacuity: a concrete three-file project with a renamed re-export chain and a name collision ----------
def demo : List SrcFile := [
  ⟨"entry.ts", [.importNamed "X" "Y" (some "hub.ts"), .decl false (.alias "Same" [] (.kw "string"))]⟩,
  ⟨"hub.ts", [.exportAll (some "other.ts"), .exportFrom "Same" "Y" (some "lib.ts")]⟩,
  ⟨"lib.ts", [.decl false (.alias "Same" [] (.kw "number")), .exportLocal "Same" "Same"]⟩,
  ⟨"other.ts", [.decl true (.alias "Y" [] (.kw "boolean")), .exportAll (some "hub.ts")]⟩]

/-- `X` in entry.ts is lib.ts's `Same` (through the renaming hub, explicit export before the cyclic `export *`),
entry.ts's own `Same` is kept apart -/
example : resolveType (demo.map bind) 10 "entry.ts" "X" .loc = some ("lib.ts", "Same") ∧
    resolveType (demo.map bind) 10 "entry.ts" "Same" .loc = some ("entry.ts", "Same") ∧
    resolveType (demo.map bind) 10 "entry.ts" "Y" .loc = none := by decide +kernel

example : Scope (demo.map bind) "entry.ts" "X" ("lib.ts", "Same") :=
  (resolveType_sound _ 10 _ _ _).1 (by decide +kernel)

end BeffVerif.C09
