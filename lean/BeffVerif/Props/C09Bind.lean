import BeffVerif.Props.C09
/-!
# C09 — a resolved name always lands on a declaration of the file it names

`parse_and_bind` only ever records export entries `Exp.decl f n` with `f` the file itself and `n` one of its
declarations (`bind_wf`); resolution only ever returns such entries or locals; hence for every project built by `bind`
whatever `(file, name)` the type walker returns is a declaration that exists in that file — types that merely share a
name in different files cannot be confused, and nothing is bound to a name that is not declared.
-/
namespace BeffVerif.C09
open BeffVerif Modules

theorem mem_put {α : Type} (l : List (String × α)) (k : String) (v : α) (x : String × α)
    (h : x ∈ put l k v) : x ∈ l ∨ x = (k, v) := by
  unfold put at h
  split at h
  · simp only [List.mem_map] at h
    obtain ⟨y, hy, hx⟩ := h
    split at hx
    · exact .inr hx.symm
    · exact .inl (hx ▸ hy)
  · rcases List.mem_append.1 h with h | h
    · exact .inl h
    · simp at h; exact .inr h

theorem get_put_self {α : Type} (l : List (String × α)) (k : String) (v : α) : (get (put l k v) k).isSome = true := by
  unfold put Modules.get
  split
  · rename_i h
    simp only [List.any_eq_true] at h
    obtain ⟨y, hy, hk⟩ := h
    simp only [Option.isSome_map]
    rw [List.find?_isSome]
    exact ⟨(k, v), List.mem_map.2 ⟨y, hy, by simp [hk]⟩, by simp⟩
  · simp only [Option.isSome_map]
    rw [List.find?_isSome]
    exact ⟨(k, v), by simp, by simp⟩

theorem get_put_mono {α : Type} (l : List (String × α)) (k k' : String) (v : α)
    (h : (get l k').isSome = true) : (get (put l k v) k').isSome = true := by
  unfold Modules.get at h ⊢
  simp only [Option.isSome_map] at h ⊢
  rw [List.find?_isSome] at h ⊢
  obtain ⟨y, hy, hk⟩ := h
  unfold put
  split
  · by_cases e : y.1 == k
    · exact ⟨(k, v), List.mem_map.2 ⟨y, hy, by simp [e]⟩, by
        have : k = k' := by
          have h1 : y.1 = k := by simpa using e
          have h2 : y.1 = k' := by simpa using hk
          rw [← h1, h2]
        simp [this]⟩
    · exact ⟨y, List.mem_map.2 ⟨y, hy, by simp [e]⟩, hk⟩
  · exact ⟨y, List.mem_append_left _ hy, hk⟩

/-- an export entry that names a declaration names one of this very file -/
def ExpOk (m : Mod) (e : Exp) : Prop := ∀ f n, e = .decl f n → f = m.name ∧ (get m.locals n).isSome = true

structure WF (m : Mod) : Prop where
  types : ∀ x, x ∈ m.types → ExpOk m x.2
  unknown : ∀ x, x ∈ m.unknown → ExpOk m x.2
  dflt : ∀ e, m.dflt = some (.renamed e) → ExpOk m e

theorem ExpOk.mono {m m' : Mod} {e : Exp} (hn : m'.name = m.name)
    (hl : ∀ n, (get m.locals n).isSome = true → (get m'.locals n).isSome = true) (h : ExpOk m e) : ExpOk m' e := by
  intro f n he
  obtain ⟨h1, h2⟩ := h f n he
  exact ⟨hn ▸ h1, hl n h2⟩

theorem wf_setDefault (m : Mod) (d : Dflt) (h : WF m) (hd : ∀ e, d = .renamed e → ExpOk m e) : WF (m.setDefault d) := by
  unfold Mod.setDefault
  cases hm : m.dflt with
  | some _ => simp only; exact h
  | none =>
    exact ⟨h.types, h.unknown, by intro e he; simp at he; exact hd e he⟩

theorem wf_insertType (m : Mod) (name : String) (e : Exp) (h : WF m) (he : ExpOk m e) : WF (m.insertType name e) := by
  unfold Mod.insertType
  split
  · exact wf_setDefault m _ h (by intro e' h'; cases h'; exact he)
  · refine ⟨?_, h.unknown, h.dflt⟩
    intro x hx
    rcases mem_put _ _ _ _ hx with hx | hx
    · exact h.types x hx
    · rw [hx]; exact he

theorem wf_insertUnknown (m : Mod) (name : String) (e : Exp) (h : WF m) (he : ExpOk m e) : WF (m.insertUnknown name e) := by
  unfold Mod.insertUnknown
  split
  · exact wf_setDefault m _ h (by intro e' h'; cases h'; exact he)
  · refine ⟨h.types, ?_, h.dflt⟩
    intro x hx
    rcases mem_put _ _ _ _ hx with hx | hx
    · exact h.unknown x hx
    · rw [hx]; exact he

theorem expOk_nondecl (m : Mod) (e : Exp) (h : ∀ f n, e ≠ .decl f n) : ExpOk m e := by
  intro f n he; exact absurd he (h f n)

@[simp] theorem setDefault_name (m : Mod) (d : Dflt) : (m.setDefault d).name = m.name := by
  unfold Mod.setDefault; split <;> rfl
@[simp] theorem insertType_name (m : Mod) (k : String) (e : Exp) : (m.insertType k e).name = m.name := by
  unfold Mod.insertType; split <;> simp
@[simp] theorem insertUnknown_name (m : Mod) (k : String) (e : Exp) : (m.insertUnknown k e).name = m.name := by
  unfold Mod.insertUnknown; split <;> simp
@[simp] theorem setDefault_locals (m : Mod) (d : Dflt) : (m.setDefault d).locals = m.locals := by
  unfold Mod.setDefault; split <;> rfl
@[simp] theorem insertType_locals (m : Mod) (k : String) (e : Exp) : (m.insertType k e).locals = m.locals := by
  unfold Mod.insertType; split <;> simp
@[simp] theorem insertUnknown_locals (m : Mod) (k : String) (e : Exp) : (m.insertUnknown k e).locals = m.locals := by
  unfold Mod.insertUnknown; split <;> simp

/-- adding a local declaration keeps every recorded entry valid -/
theorem wf_addLocal (m : Mod) (d : Decl) (h : WF m) : WF { m with locals := put m.locals d.name d } := by
  have mono : ∀ e, ExpOk m e → ExpOk { m with locals := put m.locals d.name d } e :=
    fun e he => ExpOk.mono (m := m) (m' := { m with locals := put m.locals d.name d }) rfl (fun n hn => get_put_mono m.locals d.name n d hn) he
  exact ⟨fun x hx => mono _ (h.types x hx), fun x hx => mono _ (h.unknown x hx), fun e he => mono _ (h.dflt e he)⟩

theorem bindStmt_wf (m : Mod) (s : Stmt) (h : WF m) : WF (bindStmt m s) ∧ (bindStmt m s).name = m.name := by
  cases s with
  | decl exported d =>
    simp only [bindStmt]
    split
    · refine ⟨wf_insertType _ _ _ (wf_addLocal m d h) ?_, by simp⟩
      intro f n he
      cases he
      exact ⟨rfl, get_put_self _ _ _⟩
    · exact ⟨wf_addLocal m d h, rfl⟩
  | importNamed l o t => cases t <;> exact ⟨⟨h.types, h.unknown, h.dflt⟩, rfl⟩
  | importStar l t => cases t <;> exact ⟨⟨h.types, h.unknown, h.dflt⟩, rfl⟩
  | importDefault l t => cases t <;> exact ⟨⟨h.types, h.unknown, h.dflt⟩, rfl⟩
  | exportLocal n r => exact ⟨h, rfl⟩
  | exportFrom o r t =>
    cases t with
    | none => exact ⟨h, rfl⟩
    | some f => exact ⟨wf_insertUnknown m r _ h (expOk_nondecl _ _ (by intro f n he; cases he)), by simp [bindStmt]⟩
  | exportNs n t =>
    cases t with
    | none => exact ⟨h, rfl⟩
    | some f => exact ⟨wf_insertUnknown m n _ h (expOk_nondecl _ _ (by intro f n he; cases he)), by simp [bindStmt]⟩
  | exportAll t => cases t <;> exact ⟨⟨h.types, h.unknown, h.dflt⟩, rfl⟩
  | exportDefault n => exact ⟨wf_setDefault m _ h (by intro e he; cases he), by simp [bindStmt]⟩
  | exportDefaultIface d =>
    simp only [bindStmt]
    refine ⟨wf_setDefault _ _ (wf_addLocal m d h) ?_, by simp⟩
    intro e he
    cases he
    intro f n he'
    cases he'
    exact ⟨rfl, get_put_self _ _ _⟩

theorem bindExportList_wf (m : Mod) (s : Stmt) (h : WF m) : WF (bindExportList m s) ∧ (bindExportList m s).name = m.name := by
  cases s <;> try exact ⟨h, rfl⟩
  rename_i name renamed
  simp only [bindExportList]
  cases hl : get m.locals name with
  | some d =>
    refine ⟨wf_insertType m renamed _ h ?_, by simp⟩
    intro f n he
    cases he
    exact ⟨rfl, by rw [hl]; rfl⟩
  | none =>
    simp only
    cases hi : get m.imports name with
    | none => exact ⟨h, rfl⟩
    | some imp =>
      cases imp <;> exact ⟨wf_insertUnknown m renamed _ h (expOk_nondecl _ _ (by intro f n he; cases he)), by simp⟩

theorem foldl_wf (f : Mod → Stmt → Mod) (hf : ∀ m s, WF m → WF (f m s) ∧ (f m s).name = m.name) :
    ∀ (ss : List Stmt) (m : Mod), WF m → WF (ss.foldl f m) ∧ (ss.foldl f m).name = m.name := by
  intro ss
  induction ss with
  | nil => intro m h; exact ⟨h, rfl⟩
  | cons s rest ih =>
    intro m h
    obtain ⟨h1, n1⟩ := hf m s h
    obtain ⟨h2, n2⟩ := ih _ h1
    exact ⟨h2, n2.trans n1⟩

/-- `parse_and_bind` only records declarations of the file itself -/
theorem bind_wf (sf : SrcFile) : WF (bind sf) ∧ (bind sf).name = sf.name := by
  unfold Modules.bind
  have h0 : WF ({ name := sf.name } : Mod) :=
    { types := fun x hx => by simp at hx
      unknown := fun x hx => by simp at hx
      dflt := fun e he => by simp at he }
  obtain ⟨h1, n1⟩ := foldl_wf bindStmt bindStmt_wf sf.stmts _ h0
  obtain ⟨h2, n2⟩ := foldl_wf bindExportList bindExportList_wf sf.stmts _ h1
  exact ⟨h2, n2.trans n1⟩

theorem file_name (p : Project) (f : String) (m : Mod) (h : p.file f = some m) : m.name = f := by
  unfold Project.file at h
  have := List.find?_some h
  simpa using this

/-- what the walker returns exists: a declaration `r.2` of the file `r.1` -/
def Lands (p : Project) (r : String × String) : Prop := ∃ m, p.file r.1 = some m ∧ (get m.locals r.2).isSome = true

theorem starFinds_ok (p : Project) (hwf : ∀ f m, p.file f = some m → WF m) {m : Mod} {n : String} {e : Exp}
    (hm : ∃ f, p.file f = some m) (h : StarFinds p m n e) : ∃ m' f', p.file f' = some m' ∧ ExpOk m' e := by
  induction h with
  | here hx =>
    rename_i m n e
    obtain ⟨f, hf⟩ := hm
    refine ⟨m, f, hf, ?_⟩
    unfold explicitOf at hx
    have w := hwf f m hf
    cases ht : get m.types n with
    | some e' =>
      rw [ht] at hx
      simp only [Option.orElse_some, Option.some.injEq] at hx
      subst hx
      unfold Modules.get at ht
      obtain ⟨x, hx1, hx2⟩ := Option.map_eq_some_iff.1 ht
      exact hx2 ▸ w.types x (List.mem_of_find?_eq_some hx1)
    | none =>
      rw [ht] at hx
      simp only [Option.orElse_none] at hx
      unfold Modules.get at hx
      obtain ⟨x, hx1, hx2⟩ := Option.map_eq_some_iff.1 hx
      exact hx2 ▸ w.unknown x (List.mem_of_find?_eq_some hx1)
  | there _ _ hs _ ih => exact ih ⟨_, hs⟩

/-- **Every resolved type name lands on a declaration of the named file** — for every project whose modules are
well-formed (in particular every project built by `bind`), every fuel, file, name and visibility. -/
theorem resolveType_lands (p : Project) (hwf : ∀ f m, p.file f = some m → WF m) : ∀ fuel f n vis r,
    resolveType p fuel f n vis = some r → Lands p r := by
  intro fuel
  induction fuel with
  | zero => intro f n vis r h; simp [resolveType] at h
  | succ k ih =>
    have hExp : ∀ (m' : Mod) (f' : String), p.file f' = some m' → ∀ e r, ExpOk m' e →
        fromExpT (resolveType p k) e = some r → Lands p r := by
      intro m' f' hf' e r hok h
      cases e with
      | decl fd nd =>
        simp only [fromExpT, Option.some.injEq] at h
        subst h
        obtain ⟨h1, h2⟩ := hok fd nd rfl
        have : fd = f' := by rw [h1]; exact file_name p f' m' hf'
        exact ⟨m', by simpa [this] using hf', h2⟩
      | starOf _ => simp [fromExpT] at h
      | something n' f'' => exact ih f'' n' .exp r h
    have hDflt : ∀ f r, fromDefaultT p (resolveType p k) f = some r → Lands p r := by
      intro f r h
      unfold fromDefaultT at h
      cases hf : p.file f with
      | none => rw [hf] at h; simp at h
      | some fm =>
        rw [hf] at h
        simp only at h
        cases hd : fm.dflt with
        | none => rw [hd] at h; simp at h
        | some d =>
          rw [hd] at h
          cases d with
          | ident n' => exact ih f n' .loc r h
          | renamed e => exact hExp fm f hf e r ((hwf f fm hf).dflt e hd) h
    intro f n vis r h
    rw [resolveType] at h
    cases hf : p.file f with
    | none => rw [hf] at h; simp at h
    | some m =>
      rw [hf] at h
      simp only at h
      cases vis with
      | loc =>
        simp only at h
        cases hl : get m.locals n with
        | some d =>
          rw [hl] at h
          simp only [Option.some.injEq] at h
          subst h
          exact ⟨m, hf, by rw [hl]; rfl⟩
        | none =>
          rw [hl] at h
          simp only at h
          cases hi : get m.imports n with
          | none => rw [hi] at h; simp at h
          | some imp =>
            rw [hi] at h
            cases imp with
            | named orig f' => exact ih f' orig .exp r h
            | star f' => simp at h
            | dflt f' => exact hDflt f' r h
      | exp =>
        simp only at h
        by_cases hn : n = "default"
        · subst hn
          simp only [beq_self_eq_true, if_true] at h
          exact hDflt f r h
        · have : (n == "default") = false := by simpa using hn
          rw [this] at h
          simp only [Bool.false_eq_true, if_false] at h
          cases hg : getType p k [] m n with
          | mk o v =>
            rw [hg] at h
            cases o with
            | none => simp at h
            | some e =>
              obtain ⟨m', f', hf', hok⟩ := starFinds_ok p hwf ⟨f, hf⟩ ((getType_sound p k).1 _ _ _ _ _ hg)
              exact hExp m' f' hf' e r hok h

/-- the statement for projects as the compiler builds them -/
theorem bound_project_resolves_to_declarations (files : List SrcFile) (fuel : Nat) (f n : String) (vis : Vis)
    (r : String × String) (h : resolveType (files.map bind) fuel f n vis = some r) : Lands (files.map bind) r := by
  refine resolveType_lands _ ?_ fuel f n vis r h
  intro f' m hm
  unfold Project.file at hm
  have hmem := List.mem_of_find?_eq_some hm
  obtain ⟨sf, _, hsf⟩ := List.mem_map.1 hmem
  exact hsf ▸ (bind_wf sf).1

end BeffVerif.C09
