import BeffVerif.Props.C12Paths
/-!
# C12 — the value recorded in an error is the input value at the error's path

`At v rel w`: following the path segments `rel` from the value `v` leads to `w` — `[i]` into an array, a key into an
object (own or inherited, what `input[k]` reads), `key(…)` / `value(…)` / `item(…)` into a Map / Set entry whose key /
item prints as `…`, and — the one place where the runtime records something else than the value — the KEY itself for an
error of an index signature's key type.

`report_received_located`: for every environment, mode, fuel, runtype, path and value, every error returned by
`reportDecodeError ctx(path)` on `v` has a path `path ++ rel` and a received value `w` with `At v rel w`; the errors
nested in a union error are located the same way relative to the union's own received value, at every depth.
-/
namespace BeffVerif.C12
open BeffVerif RT

abbrev idxSeg (i : Nat) : String := "[" ++ JsVal.natToCanon i ++ "]"
abbrev js (v : JsVal) : String := (jsonStringify 100 v).getD "undefined"

inductive At : JsVal → List String → JsVal → Prop
  | here (v : JsVal) : At v [] v
  | index (items : List JsVal) (i : Nat) (rest : List String) (w : JsVal) :
      At (items.getD i .undef) rest w → At (.arr items) (idxSeg i :: rest) w
  | prop (v : JsVal) (k : String) (rest : List String) (w : JsVal) : At (v.getProp k) rest w → At v (k :: rest) w
  | key (v : JsVal) (k : String) (rest : List String) (w : JsVal) : k ∈ v.ownKeys → At (.str k) rest w → At v (k :: rest) w
  | mapKey (es : List (JsVal × JsVal)) (e : JsVal × JsVal) (rest : List String) (w : JsVal) : e ∈ es →
      At e.1 rest w → At (.map es) (("key(" ++ js e.1 ++ ")") :: rest) w
  | mapVal (es : List (JsVal × JsVal)) (e : JsVal × JsVal) (rest : List String) (w : JsVal) : e ∈ es →
      At e.2 rest w → At (.map es) (("value(" ++ js e.1 ++ ")") :: rest) w
  | setItem (xs : List JsVal) (x : JsVal) (rest : List String) (w : JsVal) : x ∈ xs →
      At x rest w → At (.set xs) (("item(" ++ js x ++ ")") :: rest) w

mutual
/-- the error is located at `base ++ rel` below `v`, and records the value found there -/
def Loc : List String → JsVal → DErr → Prop
  | base, v, .regular _ p r => ∃ rel, p = base ++ rel ∧ At v rel r
  | base, v, .union p r es => ∃ rel, p = base ++ rel ∧ At v rel r ∧ LocL r es
/-- nested errors of a union error: relative to the union's received value -/
def LocL : JsVal → List DErr → Prop
  | _, [] => True
  | r, e :: es => Loc [] r e ∧ LocL r es
end

theorem locL_iff (r : JsVal) (es : List DErr) : LocL r es ↔ ∀ e ∈ es, Loc [] r e := by
  induction es with
  | nil => simp [LocL]
  | cons e es ih => simp [LocL, ih]

theorem loc_buildError (path : List String) (msg : String) (v : JsVal) : ∀ e ∈ buildError path msg v, Loc path v e := by
  intro e he
  simp only [buildError, List.mem_singleton] at he
  subst he
  exact ⟨[], by simp, .here v⟩

/-- moving the base one segment up -/
theorem loc_step {path : List String} {seg : String} {x v : JsVal} {e : DErr}
    (hstep : ∀ rel w, At x rel w → At v (seg :: rel) w) (h : Loc (path ++ [seg]) x e) : Loc path v e := by
  cases e with
  | regular m p r =>
    obtain ⟨rel, hp, hat⟩ := h
    exact ⟨seg :: rel, by rw [hp]; simp, hstep rel r hat⟩
  | union p r es =>
    obtain ⟨rel, hp, hat, hl⟩ := h
    exact ⟨seg :: rel, by rw [hp]; simp, hstep rel r hat, hl⟩

theorem loc_prepend {path : List String} {v : JsVal} {e : DErr} (h : Loc [] v e) : Loc path v (prependPath path e) := by
  cases e with
  | regular m p r =>
    obtain ⟨rel, hp, hat⟩ := h
    exact ⟨rel, by simp only [hp, List.nil_append], hat⟩
  | union p r es =>
    obtain ⟨rel, hp, hat, hl⟩ := h
    exact ⟨rel, by simp only [hp, List.nil_append], hat, hl⟩

/-- `deduplicateErrors` only drops errors -/
theorem mem_dedupErrors (errors : List DErr) : ∀ e ∈ dedupErrors errors, e ∈ errors := by
  unfold dedupErrors
  have key : ∀ (l : List DErr) (acc : List String × List DErr) (S : List DErr), (∀ e ∈ acc.2, e ∈ S) → (∀ e ∈ l, e ∈ S) →
      ∀ e ∈ (l.foldl (fun (acc : List String × List DErr) e =>
        if errThrows 100 e then (acc.1, acc.2 ++ [e]) else
        let k := errKey 100 e
        if acc.1.contains k then acc else (k :: acc.1, acc.2 ++ [e])) acc).2, e ∈ S := by
    intro l
    induction l with
    | nil => intro acc S h _ e he; exact h e he
    | cons x xs ih =>
      intro acc S h hl e he
      simp only [List.foldl_cons] at he
      refine ih _ S ?_ (fun y hy => hl y (List.mem_cons_of_mem _ hy)) e he
      intro y hy
      split at hy
      · rcases List.mem_append.1 hy with hy | hy
        · exact h y hy
        · simp only [List.mem_singleton] at hy; subst hy; exact hl _ List.mem_cons_self
      · split at hy
        · exact h y hy
        · rcases List.mem_append.1 hy with hy | hy
          · exact h y hy
          · simp only [List.mem_singleton] at hy; subst hy; exact hl _ List.mem_cons_self
  exact key errors ([], []) errors (fun e he => by cases he) (fun e he => he)

theorem loc_buildUnionError (path : List String) (es : List DErr) (v : JsVal) (h : ∀ e ∈ es, Loc [] v e) :
    ∀ e ∈ buildUnionError path es v, Loc path v e := by
  intro e he
  unfold buildUnionError at he
  simp only at he
  have hd : ∀ d ∈ dedupErrors es, Loc [] v d := fun d hd => h d (mem_dedupErrors es d hd)
  split at he
  · rename_i d hdd
    simp only [List.mem_singleton] at he
    subst he
    exact loc_prepend (hd d (by rw [hdd]; simp))
  · simp only [List.mem_singleton] at he
    subst he
    exact ⟨[], by simp, .here v, (locL_iff v _).2 hd⟩

/-- every successful branch result of `mapRes` comes from a branch -/
theorem mapRes_mem {α β : Type} (f : α → Res β) : ∀ (xs : List α) (bs : List β), mapRes f xs = .ok bs →
    ∀ b ∈ bs, ∃ x ∈ xs, f x = .ok b := by
  intro xs
  induction xs with
  | nil => intro bs h b hb; simp only [mapRes, Res.ok.injEq] at h; subst h; cases hb
  | cons y ys ih =>
    intro bs h b hb
    simp only [mapRes] at h
    cases hy : f y with
    | ok e =>
      rw [hy] at h
      simp only at h
      cases hr : mapRes f ys with
      | ok es =>
        rw [hr] at h
        simp only [Res.ok.injEq] at h
        subst h
        rcases List.mem_cons.1 hb with rfl | hb
        · exact ⟨y, List.mem_cons_self, hy⟩
        · obtain ⟨x, hx, hfx⟩ := ih es hr b hb
          exact ⟨x, List.mem_cons_of_mem _ hx, hfx⟩
      | throw c => rw [hr] at h; simp at h
      | nofuel => rw [hr] at h; simp at h
    | throw c => rw [hy] at h; simp at h
    | nofuel => rw [hy] at h; simp at h

theorem zip_range_getD {α : Type} (l : List α) (d : α) : ∀ (x : α) (i : Nat), (x, i) ∈ l.zip (List.range l.length) →
    l.getD i d = x := by
  intro x i h
  obtain ⟨k, hk, hk'⟩ := List.mem_iff_getElem.1 h
  simp only [List.getElem_zip, List.getElem_range, Prod.mk.injEq] at hk'
  obtain ⟨h1, h2⟩ := hk'
  subst h2
  simp only [List.length_zip, List.length_range, Nat.min_self] at hk
  simp [List.getD, hk, h1]


section
variable (env : Env) (strict : Bool)

def RStmt (n : Nat) : Prop := ∀ rt path v errs, report env strict n rt path v = .ok errs → ∀ e ∈ errs, Loc path v e

theorem item_loc (n : Nat) (hP : RStmt env strict n) (path : List String) (t : RT) (seg : String) (x v : JsVal)
    (hstep : ∀ rel w, At x rel w → At v (seg :: rel) w)
    (e : List DErr) (he : reportItem (validate env strict n) (report env strict n) path t seg x = .ok e) :
    ∀ d ∈ e, Loc path v d := by
  unfold reportItem at he
  split at he
  · simp only [Res.ok.injEq] at he; subst he; intro d hd; cases hd
  · intro d hd; exact loc_step hstep (hP t _ x e he d hd)
  · simp at he
  · simp at he

theorem indexed_loc (n : Nat) (hP : RStmt env strict n) (path : List String) (input : JsVal) (k : String) (hk : k ∈ input.ownKeys)
    (p : RT × RT) (e : List DErr)
    (he : reportIndexed (validate env strict n) (report env strict n) path input k p = .ok e) :
    ∀ d ∈ e, Loc path input d := by
  unfold reportIndexed at he
  split at he
  · rename_i keyOk valueOk _ _
    split at he
    · simp only [Res.ok.injEq] at he; subst he; intro d hd; cases hd
    · have h1 : ∀ e1, (if (!keyOk) = true then report env strict n p.1 (path ++ [k]) (.str k) else .ok []) = .ok e1 →
          ∀ d ∈ e1, Loc path input d := by
        intro e1 h d hd
        split at h
        · exact loc_step (fun rel w hw => At.key input k rel w hk hw) (hP _ _ _ e1 h d hd)
        · simp only [Res.ok.injEq] at h; subst h; cases hd
      have h2 : ∀ e2, (if (!valueOk) = true then report env strict n p.2 (path ++ [k]) (input.getProp k) else .ok []) = .ok e2 →
          ∀ d ∈ e2, Loc path input d := by
        intro e2 h d hd
        split at h
        · exact loc_step (fun rel w hw => At.prop input k rel w hw) (hP _ _ _ e2 h d hd)
        · simp only [Res.ok.injEq] at h; subst h; cases hd
      split at he
      · rename_i e1 hx1
        split at he
        · rename_i e2 hx2
          simp only [Res.ok.injEq] at he; subst he
          intro d hd
          rcases List.mem_append.1 hd with hd | hd
          · exact h1 e1 hx1 d hd
          · exact h2 e2 hx2 d hd
        · rename_i hno; exact (hno _ he).elim
      · rename_i hno; exact (hno _ he).elim
  all_goals simp at he

theorem received_all : ∀ n, RStmt env strict n := by
  intro n
  induction n with
  | zero => intro rt path v errs h; simp [report] at h
  | succ k ih =>
    intro rt path v errs h
    rw [report.eq_def] at h
    simp only at h
    cases rt with
    | typeof t => simp only [Res.ok.injEq] at h; subst h; exact loc_buildError _ _ _
    | any => simp only [Res.ok.injEq] at h; subst h; exact loc_buildError _ _ _
    | nullish d => simp only [Res.ok.injEq] at h; subst h; exact loc_buildError _ _ _
    | never => simp only [Res.ok.injEq] at h; subst h; exact loc_buildError _ _ _
    | const c => simp only [Res.ok.injEq] at h; subst h; exact loc_buildError _ _ _
    | regex tpl d => simp only [Res.ok.injEq] at h; subst h; exact loc_buildError _ _ _
    | date => simp only [Res.ok.injEq] at h; subst h; exact loc_buildError _ _ _
    | bigint => simp only [Res.ok.injEq] at h; subst h; exact loc_buildError _ _ _
    | typed c => simp only [Res.ok.injEq] at h; subst h; exact loc_buildError _ _ _
    | strfmt fs => simp only [Res.ok.injEq] at h; subst h; exact loc_buildError _ _ _
    | numfmt fs => simp only [Res.ok.injEq] at h; subst h; exact loc_buildError _ _ _
    | consts vs => simp only [Res.ok.injEq] at h; subst h; exact loc_buildError _ _ _
    | allOf ts => exact concatRes_all _ _ _ _ h (fun t _ e he => ih t path v e he)
    | anyOf ts =>
      simp only at h
      split at h
      · rename_i branchErrors hb
        simp only [Res.ok.injEq] at h; subst h
        apply loc_buildUnionError
        have hall : ∀ b ∈ branchErrors, ∀ e ∈ b, Loc [] v e := by
          intro b hbm e he
          obtain ⟨t, _, ht⟩ := mapRes_mem _ _ _ hb b hbm
          exact ih t [] v b ht e he
        intro e he
        split at he
        · simp only [List.mem_flatMap, List.mem_filter] at he
          obtain ⟨p, ⟨hp, _⟩, hep⟩ := he
          exact hall p.1 (List.of_mem_zip hp).1 e hep
        · simp only [List.mem_flatten] at he
          obtain ⟨b, hbm, heb⟩ := he
          exact hall b hbm e heb
      · simp at h
      · simp at h
    | optional t => exact ih t path v errs h
    | described d t => exact ih t path v errs h
    | ref name =>
      simp only at h
      cases hl : env.lookup name with
      | none => rw [hl] at h; simp at h
      | some t => rw [hl] at h; exact ih t path v errs h
    | array t =>
      cases v with
      | arr items =>
        refine concatRes_all _ _ _ _ h (fun p hp e he => item_loc env strict k ih path t _ p.1 (.arr items) ?_ e he)
        intro rel w hw
        have := zip_range_getD items JsVal.undef p.1 p.2 hp
        exact At.index items p.2 rel w (by rw [this]; exact hw)
      | _ => simp only [Res.ok.injEq] at h; subst h; exact loc_buildError _ _ _
    | set t =>
      cases v with
      | set xs =>
        exact concatRes_all _ _ _ _ h (fun x hx e he => item_loc env strict k ih path t _ x (.set xs)
          (fun rel w hw => At.setItem xs x rel w hx hw) e he)
      | _ => simp only [Res.ok.injEq] at h; subst h; exact loc_buildError _ _ _
    | map kt vt =>
      cases v with
      | map es =>
        refine concatRes_all _ _ _ _ h (fun x hx e he => ?_)
        split at he
        · rename_i a ha
          split at he
          · rename_i b hb
            simp only [Res.ok.injEq] at he; subst he
            intro d hd
            rcases List.mem_append.1 hd with hd | hd
            · exact item_loc env strict k ih path kt _ x.1 (.map es) (fun rel w hw => At.mapKey es x rel w hx hw) a ha d hd
            · exact item_loc env strict k ih path vt _ x.2 (.map es) (fun rel w hw => At.mapVal es x rel w hx hw) b hb d hd
          · rename_i hno; exact (hno _ he).elim
        · rename_i hno; exact (hno _ he).elim
      | _ => simp only [Res.ok.injEq] at h; subst h; exact loc_buildError _ _ _
    | disc ss key mapping sm =>
      simp only at h
      split at h
      · simp only [Res.ok.injEq] at h; subst h; exact loc_buildError _ _ _
      · split at h
        · simp only [Res.ok.injEq] at h; subst h; exact loc_buildError _ _ _
        · split at h
          · simp only [Res.ok.injEq] at h; subst h
            intro e he
            exact loc_step (fun rel w hw => At.prop v key rel w hw) (loc_buildError _ _ _ e he)
          · exact ih _ path v errs h
    | tuple pre rest =>
      cases v with
      | arr items =>
        simp only at h
        split at h
        · rename_i e1 h1
          have hb1 : ∀ d ∈ e1, Loc path (.arr items) d :=
            concatRes_all _ _ _ _ h1 (fun p _ e he => item_loc env strict k ih path p.1 _ _ (.arr items)
              (fun rel w hw => At.index items p.2 rel w hw) e he)
          have hzip : ∀ p ∈ (items.zip (List.range items.length)).drop pre.length, ∀ rel w, At p.1 rel w →
              At (.arr items) (idxSeg p.2 :: rel) w := by
            intro p hp rel w hw
            have := zip_range_getD items JsVal.undef p.1 p.2 (List.mem_of_mem_drop hp)
            exact At.index items p.2 rel w (by rw [this]; exact hw)
          cases rest with
          | none =>
            simp only [Res.ok.injEq] at h; subst h
            intro d hd
            rcases List.mem_append.1 hd with hd | hd
            · exact hb1 d hd
            · simp only [List.mem_flatMap] at hd
              obtain ⟨p, hpm, hp⟩ := hd
              exact loc_step (hzip p hpm) (loc_buildError _ _ _ d hp)
          | some r =>
            simp only at h
            split at h
            · rename_i e2 h2
              simp only [Res.ok.injEq] at h; subst h
              intro d hd
              rcases List.mem_append.1 hd with hd | hd
              · exact hb1 d hd
              · exact concatRes_all _ _ _ _ h2 (fun p hp e he => item_loc env strict k ih path r _ p.1 (.arr items)
                  (hzip p hp) e he) d hd
            · rename_i hno; exact (hno _ h).elim
        · rename_i hno; exact (hno _ h).elim
      | _ => simp only [Res.ok.injEq] at h; subst h; exact loc_buildError _ _ _
    | object props indexed =>
      simp only at h
      split at h
      · simp only [Res.ok.injEq] at h; subst h; exact loc_buildError _ _ _
      · split at h
        · rename_i acc h1
          have hb1 : ∀ d ∈ acc, Loc path v d :=
            concatRes_all _ _ _ _ h1 (fun p _ e he => item_loc env strict k ih path p.2 p.1 _ v
              (fun rel w hw => At.prop v p.1 rel w hw) e he)
          split at h
          · split at h
            · rename_i e2 h2
              simp only [Res.ok.injEq] at h; subst h
              intro d hd
              rcases List.mem_append.1 hd with hd | hd
              · exact hb1 d hd
              · refine concatRes_all _ _ _ _ h2 (fun kk hkk e he => ?_) d hd
                have hown : kk ∈ v.ownKeys := (List.mem_filter.1 hkk).1
                exact concatRes_all _ _ _ _ he (fun p _ e' he' => indexed_loc env strict k ih path v kk hown p e' he')
            · rename_i hno; exact (hno _ h).elim
          · split at h
            · simp only [Res.ok.injEq] at h; subst h
              intro d hd
              simp only [List.mem_flatMap] at hd
              obtain ⟨kk, _, hk⟩ := hd
              exact loc_step (fun rel w hw => At.prop v kk rel w hw) (loc_buildError _ _ _ d hk)
            · simp only [Res.ok.injEq] at h; subst h; exact hb1
        · rename_i hno; exact (hno _ h).elim

end

/-- **C12 (received values)**: every error reported for `path` on the value `v` sits at `path ++ rel` and records what
following `rel` from `v` finds; nested union errors likewise relative to the union's received value -/
theorem report_received_located (env : Env) (strict : Bool) (n : Nat) (rt : RT) (path : List String) (v : JsVal)
    (errs : List DErr) (h : report env strict n rt path v = .ok errs) : ∀ e ∈ errs, Loc path v e :=
  received_all env strict n rt path v errs h

/-- … in particular for `safeParse`: every reported error is located in the input -/
theorem safeParse_errors_located (env : Env) (o : ParseOpts) (n : Nat) (rt : RT) (v : JsVal) (es : List DErr)
    (h : safeParse env o n rt v = .ok (.failure es)) : ∀ e ∈ es, Loc [] v e := by
  unfold safeParse at h
  split at h
  · split at h <;> simp at h
  · split at h
    · rename_i errs hr
      simp only [Res.ok.injEq, SafeParse.failure.injEq] at h
      subst h
      intro e he
      exact report_received_located env o.strict n rt [] v errs hr e (List.mem_of_mem_take he)
    · simp at h
    · simp at h
  · simp at h
  · simp at h


/-! ### the relation has content, and the theorem is about something -/

/-- the empty path finds the value itself, nothing else -/
theorem at_nil {v w : JsVal} (h : At v [] w) : w = v := by
  cases h
  rfl

/-- a concrete report: the error of the second array element sits at `a.[1]` and records that element -/
example : (match report [] false 10 (.object [("a", .array (.typeof "number"))] []) []
      (.obj [("a", .arr [.num "1", .str "x"])]) with
    | .ok [.regular "expected number" ["a", "[1]"] (.str "x")] => true
    | _ => false) = true := by decide +kernel

example : At (.obj [("a", .arr [.num "1", .str "x"])]) ["a", "[1]"] (.str "x") :=
  .prop _ "a" _ _ (.index [.num "1", .str "x"] 1 [] _ (.here _))

end BeffVerif.C12
