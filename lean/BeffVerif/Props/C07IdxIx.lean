import BeffVerif.Props.C07Idx
/-!
# C07 — `T[K]` at a key the object type does NOT declare is the value type of its index signature

The other case of `idx_declared_key` (the case of the repaired D71 / D93): for every object type with a string index signature,
every key `k` that is none of its declared properties and every context that defines the atom, indexing the type vector by the
literal `k` answers the value type of the index signature — and `never` when the type has no index signature.
-/
namespace BeffVerif.C07Idx
open BeffVerif Sem C05 C05Flat C07Keyof Bdd

theorem filter_absent (vs : List (String × SemType)) (k : String) (hk : k ∉ vs.map (·.1)) :
    (vs.filter fun p => [k].contains p.1) = [] := by
  apply List.filter_eq_nil_iff.2
  intro q hq hc
  simp only [List.contains_cons, List.contains_nil, Bool.or_false, beq_iff_eq] at hc
  exact hk (List.mem_map.2 ⟨q, hq, hc⟩)

theorem not_all_declared (vs : List (String × SemType)) (k : String) (hk : k ∉ vs.map (·.1)) :
    ([k].all fun l => vs.any fun p => p.1 == l) = false := by
  simp only [List.all_cons, List.all_nil, Bool.and_true]
  cases h : vs.any (fun p => p.1 == k) with
  | false => rfl
  | true =>
    exfalso
    rw [List.any_eq_true] at h
    obtain ⟨p, hp, e⟩ := h
    exact hk (List.mem_map.2 ⟨p, hp, by simpa using e⟩)

theorem idx_undeclared_key (i : Nat) (A : MappingAtomic) (c : Ctx) (k : String) (iv : SemType)
    (hA : c.mappings[i]? = some (some A)) (hx : A.index = some iv) (hk : k ∉ A.vs.map (·.1)) :
    indexedAccess (mappingFromIdx i) { never with str := .some ⟨true, [k]⟩ } c = some (iv, c) := by
  have hmt : mappingMemberType A (.lits true [k]) = some iv := by
    simp only [mappingMemberType, filter_absent A.vs k hk, not_all_declared A.vs k hk, hx]
    simp [union_never]
  have hb : bddMappingMember c 200 (fromAtom ⟨mappingKind, i⟩) (.lits true [k]) unknown = some iv := by
    simp only [fromAtom, bddMappingMember, hA, Option.bind_some, id, hmt, inter_unknown_right, union_never_right,
      Option.bind_eq_bind]
  have hu : Sem.union ⟨.none, .none, .none, false, false, .none, .none, .none, false⟩ iv = some iv := union_never iv
  unfold indexedAccess
  simp only [mappingFromIdx, never, hb]
  simp [hu]

/-- `({ a: string; [k: string]: number })["zzz"]` is `number` (it was `never` before D93) -/
example : (indexedAccess (mappingFromIdx 0) { never with str := .some ⟨true, ["zzz"]⟩ }
    { mappings := [some ⟨[("a", { never with str := .all })], some { never with num := .all }⟩] }).map (·.1)
    = some { never with num := .all } := by decide +kernel

end BeffVerif.C07Idx
