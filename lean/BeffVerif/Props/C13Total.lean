import BeffVerif.Model.Hash256
import BeffVerif.Lemmas.Sort
/-!
# C13 — `hash256` terminates on recursive types

The model of `hash256(ctx)` (`RT.h256`) recurses into the DEFINITION of a named type, so its recursion is not structural
and the model carries fuel. This file proves the fuel adequate: `h256_total` — in an environment in which every name
resolves, every constant is a `Const` value and alias chains (`type A = B`) come to an end (`WF`, with a rank that
decreases along alias hops), the encoder answers for every runtype, every set of types under expansion and every offset as
soon as the fuel reaches `K * (D + 1) + w`, where `K` is the number of names not yet under expansion, `D` bounds the nesting
depth of the definitions and `w` that of the runtype. The argument is the one that makes the real recursion stop: a name
is expanded only while it is not active, an expansion makes it active, and between two expansions the recursion descends
into a definition of bounded depth — so the nesting of the real recursion is bounded by `names × (depth + 1)`. Mutually
recursive types need no base case for this (the non-vacuity example). An alias CYCLE (`type A = B; type B = A`) has no rank:
the real `hash256` does not return on it (the recorded D4 family: such programs compile).
-/
namespace BeffVerif.C13T
open BeffVerif RT Sha JsVal

section
variable (env : Env) (rank : String → Nat)

/-- `WF w rt`: every name resolves, constants are `Const` values, alias hops decrease the rank, nesting depth (a reference
to `name` counting `rank name + 1`) at most `w` -/
inductive WF : Nat → RT → Prop
  | typeof {w t} : WF (w + 1) (.typeof t)
  | any {w} : WF (w + 1) .any
  | nullish {w d} : WF (w + 1) (.nullish d)
  | never {w} : WF (w + 1) .never
  | const {w v} : (constToks v).isSome = true → WF (w + 1) (.const v)
  | regex {w tpl d} : WF (w + 1) (.regex tpl d)
  | date {w} : WF (w + 1) .date
  | bigint {w} : WF (w + 1) .bigint
  | typed {w c} : WF (w + 1) (.typed c)
  | strfmt {w fs} : WF (w + 1) (.strfmt fs)
  | numfmt {w fs} : WF (w + 1) (.numfmt fs)
  | consts {w vs} : (∀ v ∈ vs, (constToks v).isSome = true) → WF (w + 1) (.consts vs)
  | tuple {w pre rest} : (∀ t ∈ pre, WF w t) → (∀ r, rest = some r → WF w r) → WF (w + 1) (.tuple pre rest)
  | allOf {w ts} : (∀ t ∈ ts, WF w t) → WF (w + 1) (.allOf ts)
  | anyOf {w ts} : (∀ t ∈ ts, WF w t) → WF (w + 1) (.anyOf ts)
  | array {w t} : WF w t → WF (w + 1) (.array t)
  | map {w k v} : WF w k → WF w v → WF (w + 1) (.map k v)
  | set {w t} : WF w t → WF (w + 1) (.set t)
  | disc {w ss key m sm} : (∀ t ∈ ss, WF w t) → (∀ p ∈ m, WF w p.2) → WF (w + 1) (.disc ss key m sm)
  | optional {w t} : WF w t → WF (w + 1) (.optional t)
  | object {w props ix} : (∀ p ∈ props, WF w p.2) → (∀ p ∈ ix, WF w p.1) → (∀ p ∈ ix, WF w p.2) → WF (w + 1) (.object props ix)
  | ref {w name to} : env.lookup name = some to → (∀ other, stripDescribed to = .ref other → rank other < rank name) →
      rank name ≤ w → WF (w + 1) (.ref name)
  | described {w d t} : WF w t → WF (w + 1) (.described d t)

/-- names of the environment that are not under expansion -/
def K (act : List (String × Nat)) : Nat :=
  ((env.map (·.1)).filter (fun n => !(act.any (fun p => p.1 == n)))).length
end

variable {env : Env} {rank : String → Nat}

theorem filter_length_le {α : Type} (p q : α → Bool) (l : List α) (hqp : ∀ x, q x = true → p x = true) :
    (l.filter q).length ≤ (l.filter p).length := by
  induction l with
  | nil => simp
  | cons y ys ih =>
    simp only [List.filter_cons]
    cases hq : q y <;> cases hp : p y
    · simpa using ih
    · simp only [Bool.false_eq_true, if_false, if_true, List.length_cons]; omega
    · rw [hqp y hq] at hp; cases hp
    · simp only [if_true, List.length_cons]; omega

theorem filter_length_lt {α : Type} (p q : α → Bool) (l : List α) (hqp : ∀ x, q x = true → p x = true)
    (a : α) (ha : a ∈ l) (hpa : p a = true) (hqa : q a = false) : (l.filter q).length < (l.filter p).length := by
  induction l with
  | nil => cases ha
  | cons x xs ih =>
    have hle := filter_length_le p q xs hqp
    simp only [List.filter_cons]
    rcases List.mem_cons.1 ha with rfl | ha
    · simp only [hpa, hqa, if_true, Bool.false_eq_true, if_false, List.length_cons]
      omega
    · have := ih ha
      cases hq : q x <;> cases hp : p x
      · simpa using this
      · simp only [Bool.false_eq_true, if_false, if_true, List.length_cons]; omega
      · rw [hqp x hq] at hp; cases hp
      · simp only [if_true, List.length_cons]; omega

theorem lookup_mem_names {name : String} {to : RT} (h : env.lookup name = some to) : name ∈ env.map (·.1) := by
  unfold Env.lookup at h
  split at h
  · rename_i p hp
    have hm := List.mem_of_find?_eq_some hp
    have he : p.1 = name := by simpa using List.find?_some hp
    rw [← he]
    exact List.mem_map.2 ⟨p, hm, rfl⟩
  · cases h

theorem lookup_mem {name : String} {to : RT} (h : env.lookup name = some to) : (name, to) ∈ env := by
  unfold Env.lookup at h
  split at h
  · rename_i p hp
    have hm := List.mem_of_find?_eq_some hp
    have he : p.1 = name := by simpa using List.find?_some hp
    injection h with h
    rw [← he, ← h]
    exact hm
  · cases h

/-- an expansion makes one more name active -/
theorem K_push {act : List (String × Nat)} {name : String} {to : RT} {pos : Nat} (hl : env.lookup name = some to)
    (hf : act.find? (fun p => p.1 == name) = none) : K env ((name, pos) :: act) < K env act := by
  unfold K
  refine filter_length_lt _ _ _ ?_ name (lookup_mem_names hl) ?_ ?_
  · intro x hx
    simp only [List.any_cons, Bool.not_eq_true', Bool.or_eq_false_iff] at hx
    simp only [Bool.not_eq_true']
    exact hx.2
  · simp only [Bool.not_eq_true', List.any_eq_false]
    intro p hp
    have := List.find?_eq_none.1 hf p hp
    simpa using this
  · simp

theorem wf_mono {w : Nat} {rt : RT} (h : WF env rank w rt) : WF env rank (w + 1) rt := by
  induction h with
  | typeof => exact .typeof
  | any => exact .any
  | nullish => exact .nullish
  | never => exact .never
  | const h => exact .const h
  | regex => exact .regex
  | date => exact .date
  | bigint => exact .bigint
  | typed => exact .typed
  | strfmt => exact .strfmt
  | numfmt => exact .numfmt
  | consts h => exact .consts h
  | tuple _ _ ih1 ih2 => exact .tuple ih1 ih2
  | allOf _ ih => exact .allOf ih
  | anyOf _ ih => exact .anyOf ih
  | array _ ih => exact .array ih
  | map _ _ ih1 ih2 => exact .map ih1 ih2
  | set _ ih => exact .set ih
  | disc _ _ ih1 ih2 => exact .disc ih1 ih2
  | optional _ ih => exact .optional ih
  | object _ _ _ ih1 ih2 ih3 => exact .object ih1 ih2 ih3
  | ref hl ha hr => exact .ref hl ha (by omega)
  | described _ ih => exact .described ih

theorem wf_le {w w' : Nat} {rt : RT} (h : WF env rank w rt) (hle : w ≤ w') : WF env rank w' rt := by
  induction hle with
  | refl => exact h
  | step _ ih => exact wf_mono ih

/-- what is behind the description wrappers of a well-formed alias body -/
theorem wf_alias {w : Nat} {to : RT} (h : WF env rank w to) {other : String} (hs : stripDescribed to = .ref other) :
    WF env rank (rank other + 1) (.ref other) := by
  induction h with
  | described _ ih => simp only [stripDescribed] at hs; exact ih hs
  | ref hl ha _ =>
    simp only [stripDescribed] at hs
    injection hs with hs
    subst hs
    exact .ref hl ha (Nat.le_refl _)
  | _ => simp [stripDescribed] at hs

/-! ### the sequencing combinators answer when their parts do -/

theorem seqT_some {α : Type} {f : α → Nat → Option (List Tok)} : ∀ (xs : List α), (∀ x ∈ xs, ∀ pos, (f x pos).isSome = true) →
    ∀ pos, (seqT f xs pos).isSome = true := by
  intro xs
  induction xs with
  | nil => intro _ _; rfl
  | cons x xs ih =>
    intro h pos
    simp only [seqT]
    have h1 := h x (by simp) pos
    cases e1 : f x pos with
    | none => rw [e1] at h1; cases h1
    | some ts =>
      simp only
      have h2 := ih (fun y hy => h y (by simp [hy])) (pos + bytesLen ts)
      cases e2 : seqT f xs (pos + bytesLen ts) with
      | none => rw [e2] at h2; cases h2
      | some r => rfl

theorem pre_some {p : List Tok} {f : Nat → Option (List Tok)} (h : ∀ pos, (f pos).isSome = true) (pos : Nat) :
    (pre p f pos).isSome = true := by
  unfold pre
  have := h (pos + bytesLen p)
  cases e : f (pos + bytesLen p) with
  | none => rw [e] at this; cases this
  | some r => rfl

theorem andThen_some {f g : Nat → Option (List Tok)} (hf : ∀ pos, (f pos).isSome = true) (hg : ∀ pos, (g pos).isSome = true)
    (pos : Nat) : (andThen f g pos).isSome = true := by
  unfold andThen
  have h1 := hf pos
  cases e1 : f pos with
  | none => rw [e1] at h1; cases h1
  | some ts =>
    simp only
    have h2 := hg (pos + bytesLen ts)
    cases e2 : g (pos + bytesLen ts) with
    | none => rw [e2] at h2; cases h2
    | some r => rfl

theorem mapMO_some {α β : Type} {f : α → Option β} : ∀ (xs : List α), (∀ x ∈ xs, (f x).isSome = true) → (mapMO f xs).isSome = true := by
  intro xs
  induction xs with
  | nil => intro _; rfl
  | cons x xs ih =>
    intro h
    simp only [mapMO]
    have h1 := h x (by simp)
    have h2 := ih (fun y hy => h y (by simp [hy]))
    cases e1 : f x with
    | none => rw [e1] at h1; cases h1
    | some y =>
      cases e2 : mapMO f xs with
      | none => rw [e2] at h2; cases h2
      | some ys => rfl

theorem mem_sortBy {α : Type} {le : α → α → Bool} {l : List α} {x : α} (h : x ∈ sortBy le l) : x ∈ l :=
  (C10.sortBy_perm (le := le) l).mem_iff.1 h

/-- **`hash256` terminates**: with this much fuel the encoder answers -/
theorem h256_total (D : Nat) (henv : ∀ name to, env.lookup name = some to → WF env rank D to) :
    ∀ (fuel : Nat) (rt : RT) (w : Nat) (act : List (String × Nat)) (pos : Nat), WF env rank w rt →
      K env act * (D + 1) + w ≤ fuel → (h256 env fuel rt act pos).isSome = true := by
  intro fuel
  induction fuel with
  | zero =>
    intro rt w act pos hw hf
    cases hw <;> omega
  | succ n ih =>
    intro rt w act pos hw hf
    have kid : ∀ {w' : Nat} {t : RT}, WF env rank w' t → w' + 1 = w → ∀ p, (h256 env n t act p).isSome = true :=
      fun {w' t} ht hww p => ih t w' act p ht (by omega)
    cases hw with
    | typeof => rfl
    | any => rfl
    | nullish => rfl
    | never => rfl
    | const h =>
      simp only [h256]
      cases e : constToks _ with
      | none => rw [e] at h; cases h
      | some ts => rfl
    | regex => rfl
    | date => rfl
    | bigint => rfl
    | typed => rfl
    | strfmt => rfl
    | numfmt => rfl
    | consts h =>
      simp only [h256]
      have := mapMO_some (f := constToks) (sortedConsts _) (fun v hv => h v (mem_sortBy hv))
      cases e : mapMO constToks (sortedConsts _) with
      | none => rw [e] at this; cases this
      | some tss => rfl
    | tuple h1 h2 =>
      simp only [h256]
      refine pre_some (andThen_some (seqT_some _ (fun t ht p => kid (h1 t ht) rfl p)) ?_) pos
      rename_i pre' rest
      cases rest with
      | none => intro _; rfl
      | some r => exact pre_some (fun p => kid (h2 r rfl) rfl p)
    | allOf h => simp only [h256]; exact pre_some (seqT_some _ (fun t ht p => kid (h t ht) rfl p)) pos
    | anyOf h => simp only [h256]; exact pre_some (seqT_some _ (fun t ht p => kid (h t ht) rfl p)) pos
    | array h => simp only [h256]; exact pre_some (fun p => kid h rfl p) pos
    | map h1 h2 => simp only [h256]; exact pre_some (andThen_some (fun p => kid h1 rfl p) (fun p => kid h2 rfl p)) pos
    | set h => simp only [h256]; exact pre_some (fun p => kid h rfl p) pos
    | disc h1 h2 =>
      simp only [h256]
      refine pre_some (andThen_some (seqT_some _ (fun t ht p => kid (h1 t ht) rfl p)) (pre_some (seqT_some _ ?_))) pos
      intro p hp q
      exact pre_some (fun q' => kid (h2 p (mem_sortBy hp)) rfl q') q
    | optional h => simp only [h256]; exact pre_some (fun p => kid h rfl p) pos
    | object h1 h2 h3 =>
      simp only [h256]
      refine pre_some (andThen_some (seqT_some _ ?_) (pre_some (seqT_some _ ?_))) pos
      · intro p hp q
        exact pre_some (fun q' => kid (h1 p (mem_sortBy hp)) rfl q') q
      · intro p hp q
        exact andThen_some (fun q' => kid (h2 p hp) rfl q') (fun q' => kid (h3 p hp) rfl q') q
    | described h => simp only [h256]; exact kid h rfl pos
    | @ref w0 name to hl ha hr =>
      simp only [h256, hl]
      have hto := henv name to hl
      split
      · -- an alias hop: the rank decreases
        rename_i other hs
        have hlt := ha other hs
        exact ih (.ref other) (rank other + 1) act pos (wf_alias hto hs) (by omega)
      · split
        · rfl
        · -- an expansion: one name fewer to expand, a definition of depth at most `D`
          rename_i hfind
          have hk := K_push (pos := pos) hl hfind
          refine ih to D _ pos hto ?_
          have : (K env ((name, pos) :: act) + 1) * (D + 1) ≤ K env act * (D + 1) := Nat.mul_le_mul_right _ hk
          have e : (K env ((name, pos) :: act) + 1) * (D + 1) = K env ((name, pos) :: act) * (D + 1) + (D + 1) := by
            rw [Nat.add_mul, Nat.one_mul]
          omega

/-- … in particular the digest of a parser exists: `hash256Toks` uses fuel 200 -/
theorem hash256Toks_total (D w : Nat) (henv : ∀ name to, env.lookup name = some to → WF env rank D to) {rt : RT}
    (hw : WF env rank w rt) (hfuel : env.length * (D + 1) + w ≤ h256Fuel) : (hash256Toks env rt).isSome = true := by
  unfold hash256Toks
  have hK : K env [] ≤ env.length := by
    unfold K
    exact Nat.le_trans (List.length_filter_le _ _) (by simp)
  have := h256_total D henv h256Fuel rt w [] (bytesLen rootToks) hw
    (Nat.le_trans (Nat.add_le_add_right (Nat.mul_le_mul_right _ hK) _) hfuel)
  cases e : h256 env h256Fuel rt [] (bytesLen rootToks) with
  | none => rw [e] at this; cases this
  | some ts => rfl

/-! ### non-vacuity: two mutually recursive types without a base case, one reached through an alias -/

private def envT : Env :=
  [("A", .object [("b", .optional (.ref "B"))] []), ("B", .object [("a", .array (.ref "Al"))] []), ("Al", .described "doc" (.ref "A"))]
private def rankT (n : String) : Nat := if n = "Al" then 1 else 0

private theorem wfA : WF envT rankT 4 (.object [("b", .optional (.ref "B"))] []) := by
  refine .object ?_ (fun p hp => by cases hp) (fun p hp => by cases hp)
  intro p hp
  simp only [List.mem_cons, List.mem_nil_iff, or_false] at hp
  subst hp
  refine .optional (.ref (to := .object [("a", .array (.ref "Al"))] []) (by simp [Env.lookup, envT]) ?_ (by decide))
  intro other hs
  simp [stripDescribed] at hs

private theorem wfB : WF envT rankT 4 (.object [("a", .array (.ref "Al"))] []) := by
  refine .object ?_ (fun p hp => by cases hp) (fun p hp => by cases hp)
  intro p hp
  simp only [List.mem_cons, List.mem_nil_iff, or_false] at hp
  subst hp
  refine .array (.ref (to := .described "doc" (.ref "A")) (by simp [Env.lookup, envT]) ?_ (by decide))
  intro other hs
  simp only [stripDescribed] at hs
  injection hs with hs
  subst hs
  decide

private theorem wfAl : WF envT rankT 4 (.described "doc" (.ref "A")) := by
  refine .described (.ref (to := .object [("b", .optional (.ref "B"))] []) (by simp [Env.lookup, envT]) ?_ (by decide))
  intro other hs
  simp [stripDescribed] at hs

example : (hash256Toks envT (.ref "Al")).isSome = true := by
  refine hash256Toks_total (rank := rankT) 4 2 ?_ (.ref (to := .described "doc" (.ref "A")) (by simp [Env.lookup, envT]) ?_ (by decide)) (by decide)
  · intro name to hl
    have : to = .object [("b", .optional (.ref "B"))] [] ∨ to = .object [("a", .array (.ref "Al"))] [] ∨ to = .described "doc" (.ref "A") := by
      have hm := lookup_mem hl
      simp only [envT, List.mem_cons, List.mem_nil_iff, or_false, Prod.mk.injEq] at hm
      rcases hm with ⟨_, h⟩ | ⟨_, h⟩ | ⟨_, h⟩
      · exact Or.inl h
      · exact Or.inr (Or.inl h)
      · exact Or.inr (Or.inr h)
    rcases this with rfl | rfl | rfl
    · exact wfA
    · exact wfB
    · exact wfAl
  · intro other hs
    simp only [stripDescribed] at hs
    injection hs with hs
    subst hs
    decide

end BeffVerif.C13T
