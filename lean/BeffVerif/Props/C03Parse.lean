import BeffVerif.Props.C03Report
/-!
# C03 — after a successful `validate`, `parseAfterValidation` never throws

`parseAV_no_throw`: in a closed environment, for a value `validate` accepted (same mode, same fuel), the parse step does
not end in an exception — for every runtype, value, option and fuel. The parse code has its own `throw`s
(`never`, the `AllOfParser` spread of a non-object, a discriminator without a parser, indexing a non-array): each is
excluded by what the successful validation established. The one that needs an argument of its own is the intersection:
every member's parsed value is spread into an object, which throws unless the parsed value is object-typed —
`parseAV` maps object-typed accepted inputs to object-typed results (through clones and deep merges of union branches).

With `validate_no_throw` and `report_no_throw`: `safeParse_no_throw` — `safeParse` never ends in an exception, and
`parse` therefore fails only with its documented error (`parse_only_documented_failure`).
-/
namespace BeffVerif.C03
open BeffVerif RT JsVal C12

/-! ### clones and merges keep object-typedness -/

theorem clone_typeOf : ∀ (n : Nat) (v : JsVal), (clone n v).typeOf = v.typeOf := by
  intro n v
  cases n with
  | zero => simp [clone]
  | succ n => cases v <;> simp [clone, typeOf]

theorem deepmerge2_typeOf (n : Nat) (t s : JsVal) (hs : s.typeOf = "object") : (deepmerge2 n t s).typeOf = "object" := by
  cases n with
  | zero => simpa [deepmerge2] using hs
  | succ n =>
    unfold deepmerge2
    split
    · exact hs
    · split
      · rw [clone_typeOf]; exact hs
      · split
        · rfl
        · split
          · rw [clone_typeOf]; exact hs
          · rfl
        · split
          · rw [clone_typeOf]; exact hs
          · exact hs

theorem deepmergeAll_typeOf (n : Nat) : ∀ (items : List JsVal), (∀ x ∈ items, x.typeOf = "object") →
    (deepmergeAll n items).typeOf = "object" := by
  intro items h
  match items, h with
  | [], _ => rfl
  | [a], h => simp only [deepmergeAll]; rw [clone_typeOf]; exact h a (by simp)
  | [a, b], h => simp only [deepmergeAll]; exact deepmerge2_typeOf n a b (h b (by simp))
  | a :: b :: c :: rest, h =>
    simp only [deepmergeAll]
    -- the last step of the fold merges an object-typed source
    have key : ∀ (l : List JsVal) (acc : JsVal), l ≠ [] → (∀ x ∈ l, x.typeOf = "object") →
        (l.foldl (fun acc x => deepmerge2 n acc x) acc).typeOf = "object" := by
      intro l
      induction l with
      | nil => intro _ hne; exact absurd rfl hne
      | cons x xs ih =>
        intro acc _ hx
        simp only [List.foldl_cons]
        cases xs with
        | nil => simp only [List.foldl_nil]; exact deepmerge2_typeOf n acc x (hx x (by simp))
        | cons y ys => exact ih _ (by simp) (fun z hz => hx z (by simp [hz]))
    exact key _ _ (by simp) h

/-! ### exceptions of the sequencing helpers come from an element -/

theorem mapM'_throw {α β : Type} (f : α → Res β) : ∀ (xs : List α) (c : String), mapM' f xs = .throw c → ∃ x ∈ xs, f x = .throw c := by
  intro xs
  induction xs with
  | nil => intro c h; simp [mapM'] at h
  | cons y ys ih =>
    intro c h
    simp only [mapM'] at h
    cases hy : f y with
    | ok e =>
      rw [hy] at h
      simp only at h
      cases hr : mapM' f ys with
      | ok es => rw [hr] at h; simp at h
      | throw c' =>
        rw [hr] at h
        simp only [Res.throw.injEq] at h
        obtain ⟨x, hx, e'⟩ := ih c' hr
        exact ⟨x, List.mem_cons_of_mem _ hx, by rw [e', h]⟩
      | nofuel => rw [hr] at h; simp at h
    | throw c' => rw [hy] at h; simp only [Res.throw.injEq] at h; exact ⟨y, List.mem_cons_self, by rw [hy, h]⟩
    | nofuel => rw [hy] at h; simp at h

theorem foldRes_throw {α β : Type} (f : β → α → Res β) : ∀ (xs : List α) (b : β) (c : String),
    foldRes f b xs = .throw c → ∃ b' x, x ∈ xs ∧ f b' x = .throw c := by
  intro xs
  induction xs with
  | nil => intro b c h; simp [foldRes] at h
  | cons y ys ih =>
    intro b c h
    simp only [foldRes] at h
    cases hy : f b y with
    | ok b1 =>
      rw [hy] at h
      obtain ⟨b', x, hx, e⟩ := ih b1 c h
      exact ⟨b', x, List.mem_cons_of_mem _ hx, e⟩
    | throw c' => rw [hy] at h; simp only [Res.throw.injEq] at h; exact ⟨b, y, List.mem_cons_self, by rw [hy, h]⟩
    | nofuel => rw [hy] at h; simp at h


section
variable (env : Env) (o : ParseOpts) (henv : ∀ name t, env.lookup name = some t → Closed env t)

/-- what the induction carries at fuel `n`: no exception, and object-typed inputs give object-typed results -/
def PS (n : Nat) : Prop := ∀ rt v, Closed env rt → validate env o.strict n rt v = .ok true →
  (∀ c, parseAV env o n rt v ≠ .throw c) ∧ (∀ r, parseAV env o n rt v = .ok r → v.typeOf = "object" → r.typeOf = "object")

include henv in
theorem parseIndexedKey_no_throw (n : Nat) (hP : PS env o n) (input : JsVal) (k : String) :
    ∀ (indexed : List (RT × RT)) (acc : List (String × JsVal)), (∀ p ∈ indexed, Closed env p.1 ∧ Closed env p.2) → ∀ c,
    parseIndexedKey (validate env o.strict n) (parseAV env o n) indexed input k acc ≠ .throw c := by
  intro indexed
  induction indexed with
  | nil => intro acc _ c h; simp [parseIndexedKey] at h
  | cons p ps ih =>
    intro acc hci c h
    have hcp := hci p (by simp)
    have ih' := fun acc' => ih acc' (fun q hq => hci q (by simp [hq])) c
    simp only [parseIndexedKey] at h
    cases hk : validate env o.strict n p.1 (.str k) with
    | throw c' => exact validate_no_throw env o.strict henv n _ _ c' hcp.1 hk
    | nofuel => rw [hk] at h; simp at h
    | ok kb =>
      cases kb with
      | false => rw [hk] at h; exact ih' _ h
      | true =>
        rw [hk] at h
        simp only at h
        cases hv : validate env o.strict n p.2 (input.getProp k) with
        | throw c' => exact validate_no_throw env o.strict henv n _ _ c' hcp.2 hv
        | nofuel => rw [hv] at h; simp at h
        | ok vb =>
          cases vb with
          | false => rw [hv] at h; exact ih' _ h
          | true =>
            rw [hv] at h
            simp only at h
            cases hp2 : parseAV env o n p.2 (input.getProp k) with
            | throw c' => exact (hP p.2 _ hcp.2 hv).1 c' hp2
            | nofuel => rw [hp2] at h; simp at h
            | ok itemParsed =>
              rw [hp2] at h
              simp only at h
              cases hp1 : parseAV env o n p.1 (.str k) with
              | throw c' => exact (hP p.1 _ hcp.1 hk).1 c' hp1
              | nofuel => rw [hp1] at h; simp at h
              | ok keyParsed => rw [hp1] at h; exact ih' _ h


theorem lookupProp'_mem {props : List (String × RT)} {k : String} {t : RT} (h : parseAV.lookupProp' props k = some t) :
    ∃ p ∈ props, p.1 = k ∧ p.2 = t := by
  unfold parseAV.lookupProp' at h
  cases hf : props.find? (fun p => p.1 == k) with
  | none => rw [hf] at h; simp at h
  | some p =>
    rw [hf] at h
    simp only [Option.some.injEq] at h
    exact ⟨p, List.mem_of_find?_eq_some hf, by simpa using List.find?_some hf, h⟩

/-- object-typedness of every item collected by the union loop -/
theorem anyOf_items_typeOf (n : Nat) (hP : PS env o n) (input : JsVal) (hobj : input.typeOf = "object") :
    ∀ (ts : List RT) (items0 items : List JsVal), (∀ t ∈ ts, Closed env t) → (∀ x ∈ items0, x.typeOf = "object") →
    foldRes (fun (items : List JsVal) t =>
      match validate env o.strict n t input with
      | .ok true => match parseAV env o n t input with
        | .ok p => .ok (items ++ [p])
        | .throw c => .throw c
        | .nofuel => .nofuel
      | .ok false => .ok items
      | .throw c => .throw c
      | .nofuel => .nofuel) items0 ts = .ok items → ∀ x ∈ items, x.typeOf = "object" := by
  intro ts
  induction ts with
  | nil => intro items0 items _ h0 h; simp only [foldRes, Res.ok.injEq] at h; rw [← h]; exact h0
  | cons t ts ih =>
    intro items0 items hc h0 h
    simp only [foldRes] at h
    cases hv : validate env o.strict n t input with
    | ok b =>
      rw [hv] at h
      cases b with
      | true =>
        simp only at h
        cases hp : parseAV env o n t input with
        | ok p =>
          rw [hp] at h
          simp only at h
          refine ih _ items (fun x hx => hc x (by simp [hx])) ?_ h
          intro x hx
          rcases List.mem_append.1 hx with hx | hx
          · exact h0 x hx
          · simp only [List.mem_singleton] at hx; subst hx
            exact (hP t input (hc t (by simp)) hv).2 _ hp hobj
        | throw c => rw [hp] at h; simp at h
        | nofuel => rw [hp] at h; simp at h
      | false => exact ih _ items (fun x hx => hc x (by simp [hx])) h0 h
    | throw c => rw [hv] at h; simp at h
    | nofuel => rw [hv] at h; simp at h

include henv in
theorem parse_all : ∀ n, PS env o n := by
  intro n
  induction n with
  | zero => intro rt v _ hv; simp [validate] at hv
  | succ k ih =>
    intro rt v hc hv
    rw [validate.eq_def] at hv
    simp only at hv
    cases rt with
    | typeof t => simp only [parseAV]; exact ⟨fun c h => by simp at h, fun r h ho => by simp only [Res.ok.injEq] at h; rw [← h]; exact ho⟩
    | any => simp only [parseAV]; exact ⟨fun c h => by simp at h, fun r h ho => by simp only [Res.ok.injEq] at h; rw [← h]; exact ho⟩
    | nullish _ => simp only [parseAV]; exact ⟨fun c h => by simp at h, fun r h ho => by simp only [Res.ok.injEq] at h; rw [← h]; exact ho⟩
    | const _ => simp only [parseAV]; exact ⟨fun c h => by simp at h, fun r h ho => by simp only [Res.ok.injEq] at h; rw [← h]; exact ho⟩
    | regex _ _ => simp only [parseAV]; exact ⟨fun c h => by simp at h, fun r h ho => by simp only [Res.ok.injEq] at h; rw [← h]; exact ho⟩
    | date => simp only [parseAV]; exact ⟨fun c h => by simp at h, fun r h ho => by simp only [Res.ok.injEq] at h; rw [← h]; exact ho⟩
    | bigint => simp only [parseAV]; exact ⟨fun c h => by simp at h, fun r h ho => by simp only [Res.ok.injEq] at h; rw [← h]; exact ho⟩
    | typed _ => simp only [parseAV]; exact ⟨fun c h => by simp at h, fun r h ho => by simp only [Res.ok.injEq] at h; rw [← h]; exact ho⟩
    | strfmt _ => simp only [parseAV]; exact ⟨fun c h => by simp at h, fun r h ho => by simp only [Res.ok.injEq] at h; rw [← h]; exact ho⟩
    | numfmt _ => simp only [parseAV]; exact ⟨fun c h => by simp at h, fun r h ho => by simp only [Res.ok.injEq] at h; rw [← h]; exact ho⟩
    | consts _ => simp only [parseAV]; exact ⟨fun c h => by simp at h, fun r h ho => by simp only [Res.ok.injEq] at h; rw [← h]; exact ho⟩
    | never => simp at hv
    | described d t =>
      have hct : Closed env t := by simp only [Closed, anyNode, Bool.or_eq_false_iff] at hc; exact hc.2
      simp only [parseAV]
      exact ih t v hct hv
    | ref name =>
      simp only [parseAV]
      cases hl : env.lookup name with
      | none =>
        simp only [Closed, anyNode, isDangling, hl, Option.isNone_none] at hc
        exact absurd hc (by decide)
      | some t => simp only at hv; rw [hl] at hv; exact ih t v (henv name t hl) hv
    | optional t =>
      have hct : Closed env t := by simp only [Closed, anyNode, Bool.or_eq_false_iff] at hc; exact hc.2
      simp only [parseAV]
      by_cases hn : v.isNullish = true
      · simp only [hn, if_true]
        exact ⟨fun c h => by simp at h, fun r h ho => by simp only [Res.ok.injEq] at h; rw [← h]; exact ho⟩
      · simp only [hn, if_false] at hv ⊢
        exact ih t v hct hv
    | array t =>
      have hct : Closed env t := by simp only [Closed, anyNode, Bool.or_eq_false_iff] at hc; exact hc.2
      cases v with
      | arr items =>
        simp only at hv
        have hall := (allShort_true_iff _ _).1 hv
        simp only [parseAV]
        constructor
        · intro c h
          cases hm : mapM' (fun x => parseAV env o k t x) items with
          | ok rs => rw [hm] at h; simp at h
          | throw c' =>
            obtain ⟨x, hx, e⟩ := mapM'_throw _ _ _ hm
            exact (ih t x hct (hall x hx)).1 c' e
          | nofuel => rw [hm] at h; simp at h
        · intro r h _
          cases hm : mapM' (fun x => parseAV env o k t x) items with
          | ok rs => rw [hm] at h; simp only [Res.ok.injEq] at h; rw [← h]; rfl
          | throw c' => rw [hm] at h; simp at h
          | nofuel => rw [hm] at h; simp at h
      | _ => simp at hv
    | set t =>
      have hct : Closed env t := by simp only [Closed, anyNode, Bool.or_eq_false_iff] at hc; exact hc.2
      cases v with
      | set xs =>
        simp only at hv
        have hall := (allShort_true_iff _ _).1 hv
        simp only [parseAV]
        constructor
        · intro c h
          cases hm : mapM' (fun x => parseAV env o k t x) xs with
          | ok rs => rw [hm] at h; simp at h
          | throw c' =>
            obtain ⟨x, hx, e⟩ := mapM'_throw _ _ _ hm
            exact (ih t x hct (hall x hx)).1 c' e
          | nofuel => rw [hm] at h; simp at h
        · intro r h _
          cases hm : mapM' (fun x => parseAV env o k t x) xs with
          | ok rs => rw [hm] at h; simp only [Res.ok.injEq] at h; rw [← h]; rfl
          | throw c' => rw [hm] at h; simp at h
          | nofuel => rw [hm] at h; simp at h
      | _ => simp at hv
    | map kt vt =>
      have hck : Closed env kt ∧ Closed env vt := by
        simp only [Closed, anyNode, Bool.or_eq_false_iff] at hc; exact ⟨hc.1.2, hc.2⟩
      cases v with
      | map es =>
        simp only at hv
        have hall := (allShort_true_iff _ _).1 hv
        simp only [parseAV]
        have noT : ∀ c', mapM' (fun (e : JsVal × JsVal) => match parseAV env o k kt e.1 with
            | .ok k' => (match parseAV env o k vt e.2 with
              | .ok v' => Res.ok (k', v')
              | .throw c => .throw c
              | .nofuel => .nofuel)
            | .throw c => .throw c
            | .nofuel => .nofuel) es ≠ .throw c' := by
          intro c' hm
          obtain ⟨x, hx, e⟩ := mapM'_throw _ _ _ hm
          have hx' := hall x hx
          cases hkv : validate env o.strict k kt x.1 with
          | ok b =>
            rw [hkv] at hx'
            cases b with
            | true =>
              simp only at hx'
              cases hpk : parseAV env o k kt x.1 with
              | ok k' =>
                rw [hpk] at e
                simp only at e
                cases hpv : parseAV env o k vt x.2 with
                | ok v' => rw [hpv] at e; simp at e
                | throw c2 => exact (ih vt x.2 hck.2 hx').1 c2 hpv
                | nofuel => rw [hpv] at e; simp at e
              | throw c2 => exact (ih kt x.1 hck.1 hkv).1 c2 hpk
              | nofuel => rw [hpk] at e; simp at e
            | false => simp at hx'
          | throw c2 => rw [hkv] at hx'; simp at hx'
          | nofuel => rw [hkv] at hx'; simp at hx'
        constructor
        · intro c h
          split at h
          · simp at h
          · rename_i c' hm; exact noT c' hm
          · simp at h
        · intro r h _
          split at h
          · simp only [Res.ok.injEq] at h; rw [← h]; rfl
          · simp at h
          · simp at h
      | _ => simp at hv
    | tuple pre rest =>
      have hcpre : ∀ t ∈ pre, Closed env t := by
        simp only [Closed, anyNode, Bool.or_eq_false_iff] at hc; exact anyL_false hc.1.2
      cases v with
      | arr items =>
        simp only at hv
        cases hp : allShort (fun (p : RT × Nat) => validate env o.strict k p.1 (items.getD p.2 JsVal.undef))
            (pre.zip (List.range pre.length)) with
        | ok b =>
          rw [hp] at hv
          cases b with
          | false => simp at hv
          | true =>
            simp only at hv
            have hallp := (allShort_true_iff _ _).1 hp
            have noP : ∀ c', mapM' (fun (p : RT × Nat) => parseAV env o k p.1 (items.getD p.2 JsVal.undef))
                (pre.zip (List.range pre.length)) ≠ .throw c' := by
              intro c' hm
              obtain ⟨x, hx, e⟩ := mapM'_throw _ _ _ hm
              exact (ih x.1 _ (hcpre x.1 (List.of_mem_zip hx).1) (hallp x hx)).1 c' e
            simp only [parseAV]
            cases hmp : mapM' (fun (p : RT × Nat) => parseAV env o k p.1 (items.getD p.2 JsVal.undef))
                (pre.zip (List.range pre.length)) with
            | throw c' => exact absurd hmp (noP c')
            | nofuel => exact ⟨fun c h => by simp at h, fun r h _ => by simp at h⟩
            | ok ps =>
              simp only
              cases rest with
              | none =>
                exact ⟨fun c h => by simp at h, fun r h _ => by simp only [Res.ok.injEq] at h; rw [← h]; rfl⟩
              | some r =>
                have hcr : Closed env r := by
                  simp only [Closed, anyNode, anyO, Bool.or_eq_false_iff] at hc; exact hc.2
                simp only at hv
                have hallr := (allShort_true_iff _ _).1 hv
                simp only
                cases hmr : mapM' (fun x => parseAV env o k r x) (items.drop pre.length) with
                | throw c' =>
                  obtain ⟨x, hx, e⟩ := mapM'_throw _ _ _ hmr
                  exact absurd e ((ih r x hcr (hallr x hx)).1 c')
                | nofuel => exact ⟨fun c h => by simp at h, fun r h _ => by simp at h⟩
                | ok rs =>
                  exact ⟨fun c h => by simp at h, fun r' h _ => by simp only [Res.ok.injEq] at h; rw [← h]; rfl⟩
        | throw c' => rw [hp] at hv; simp at hv
        | nofuel => rw [hp] at hv; simp at hv
      | _ => simp at hv
    | allOf ts =>
      have hmem : ∀ t ∈ ts, Closed env t := by
        simp only [Closed, anyNode, Bool.or_eq_false_iff] at hc; exact anyL_false hc.2
      simp only at hv
      have hall := (allShort_true_iff _ _).1 hv
      simp only [parseAV]
      constructor
      · intro c h
        split at h
        · simp at h
        · rename_i c' hf
          obtain ⟨acc, t, ht, e⟩ := foldRes_throw _ _ _ _ hf
          have hx := hall t ht
          have hobj : v.typeOf = "object" := by
            by_cases hq : (v.typeOf == "object") = true
            · simpa using hq
            · simp [hq] at hx
          have hvt : validate env o.strict k t v = .ok true := by simpa [hobj] using hx
          cases hp : parseAV env o k t v with
          | throw c2 => exact (ih t v (hmem t ht) hvt).1 c2 hp
          | nofuel => rw [hp] at e; simp at e
          | ok parsed =>
            rw [hp] at e
            simp only at e
            have hto := (ih t v (hmem t ht) hvt).2 parsed hp hobj
            unfold spreadInto at e
            simp [hto] at e
        · simp at h
      · intro r h _
        split at h
        · simp only [Res.ok.injEq] at h; rw [← h]; rfl
        · simp at h
        · simp at h
    | anyOf ts =>
      have hmem : ∀ t ∈ ts, Closed env t := by
        simp only [Closed, anyNode, Bool.or_eq_false_iff] at hc; exact anyL_false hc.2
      simp only [parseAV]
      constructor
      · intro c h
        split at h
        · simp at h
        · rename_i c' hf
          obtain ⟨acc, t, ht, e⟩ := foldRes_throw _ _ _ _ hf
          cases hvt : validate env o.strict k t v with
          | throw c2 => exact validate_no_throw env o.strict henv k t v c2 (hmem t ht) hvt
          | nofuel => rw [hvt] at e; simp at e
          | ok b =>
            rw [hvt] at e
            cases b with
            | false => simp at e
            | true =>
              simp only at e
              cases hp : parseAV env o k t v with
              | throw c2 => exact (ih t v (hmem t ht) hvt).1 c2 hp
              | nofuel => rw [hp] at e; simp at e
              | ok parsed => rw [hp] at e; simp at e
        · simp at h
      · intro r h hobj
        split at h
        · rename_i items hf
          simp only [Res.ok.injEq] at h
          rw [← h]
          exact deepmergeAll_typeOf 1000 items
            (anyOf_items_typeOf env o k ih v hobj ts [] items hmem (fun x hx => by cases hx) hf)
        · simp at h
        · simp at h
    | disc ss key mapping sm =>
      simp only at hv
      split at hv
      · simp at hv
      · split at hv
        · simp at hv
        · cases hm : lookupMapping mapping (v.getProp key) with
          | none => rw [hm] at hv; simp at hv
          | some t =>
            rw [hm] at hv
            simp only at hv
            have hct : Closed env t := by
              simp only [Closed, anyNode, Bool.or_eq_false_iff] at hc
              unfold lookupMapping at hm
              cases hd : v.getProp key <;> rw [hd] at hm <;> try (simp at hm)
              rename_i s
              cases hfind : mapping.find? (fun p => p.1 == s) with
              | none => rw [hfind] at hm; simp at hm
              | some p =>
                rw [hfind] at hm
                simp only [Option.some.injEq] at hm
                rw [← hm]
                exact anySL_false hc.1.2 p (List.mem_of_find?_eq_some hfind)
            simp only [parseAV, hm]
            cases hp : parseAV env o k t v with
            | throw c2 => exact absurd hp ((ih t v hct hv).1 c2)
            | nofuel => exact ⟨fun c h => by simp at h, fun r h _ => by simp at h⟩
            | ok parsed =>
              simp only
              constructor
              · intro c h; split at h <;> simp at h
              · intro r h _
                split at h <;> (simp only [Res.ok.injEq] at h; rw [← h]; rfl)
    | object props indexed =>
      have hcp : ∀ p ∈ props, Closed env p.2 := by
        simp only [Closed, anyNode, Bool.or_eq_false_iff] at hc; exact anySL_false hc.1.2
      have hci : ∀ p ∈ indexed, Closed env p.1 ∧ Closed env p.2 := by
        simp only [Closed, anyNode, Bool.or_eq_false_iff] at hc; exact anyPL_false hc.2
      simp only at hv
      split at hv
      · simp at hv
      · cases hpa : allShort (fun (p : String × RT) => validate env o.strict k p.2 (v.getProp p.1)) props with
        | throw c' => rw [hpa] at hv; simp at hv
        | nofuel => rw [hpa] at hv; simp at hv
        | ok b =>
          cases b with
          | false => rw [hpa] at hv; simp at hv
          | true =>
            have hallp := (allShort_true_iff _ _).1 hpa
            have propNo : ∀ kk t, parseAV.lookupProp' props kk = some t → ∀ c, parseAV env o k t (v.getProp kk) ≠ .throw c := by
              intro kk t hl c
              obtain ⟨p, hp, e1, e2⟩ := lookupProp'_mem hl
              subst e1; subst e2
              exact (ih p.2 _ (hcp p hp) (hallp p hp)).1 c
            have idxNo := fun (kk : String) (acc : List (String × JsVal)) (c : String) =>
              parseIndexedKey_no_throw env o henv k ih v kk indexed acc hci c
            simp only [parseAV]
            by_cases hs : o.sorted = true
            · simp only [hs, Bool.not_true, Bool.false_eq_true, if_false]
              have step1 : ∀ c', foldRes (fun (acc : List (String × JsVal)) kk =>
                  if (!v.hasOwn kk) = true then Res.ok acc else
                  match parseAV.lookupProp' props kk with
                  | some t => (match parseAV env o k t (v.getProp kk) with
                    | .ok x => Res.ok (setProp acc kk x)
                    | .throw c => .throw c
                    | .nofuel => .nofuel)
                  | none => .ok acc) [] (sortStrings (props.map (·.1))) ≠ .throw c' := by
                intro c' hf
                obtain ⟨acc, kk, _, e⟩ := foldRes_throw _ _ _ _ hf
                split at e
                · simp at e
                · cases hl : parseAV.lookupProp' props kk with
                  | none => rw [hl] at e; simp at e
                  | some t =>
                    rw [hl] at e
                    simp only at e
                    cases hp : parseAV env o k t (v.getProp kk) with
                    | throw c2 => exact propNo kk t hl c2 hp
                    | nofuel => rw [hp] at e; simp at e
                    | ok x => rw [hp] at e; simp at e
              constructor
              · intro c h
                split at h
                · split at h
                  · split at h
                    · simp at h
                    · rename_i c' hf
                      obtain ⟨acc, kk, _, e⟩ := foldRes_throw _ _ _ _ hf
                      exact idxNo kk acc c' e
                    · simp at h
                  · simp at h
                · rename_i c' hf; exact step1 c' hf
                · simp at h
              · intro r h _
                split at h
                · split at h
                  · split at h
                    · simp only [Res.ok.injEq] at h; rw [← h]; rfl
                    · simp at h
                    · simp at h
                  · simp only [Res.ok.injEq] at h; rw [← h]; rfl
                · simp at h
                · simp at h
            · simp only [hs, Bool.not_false, if_true]
              constructor
              · intro c h
                split at h
                · simp at h
                · rename_i c' hf
                  obtain ⟨acc, kk, _, e⟩ := foldRes_throw _ _ _ _ hf
                  cases hl : parseAV.lookupProp' props kk with
                  | none => rw [hl] at e; exact idxNo kk acc c' e
                  | some t =>
                    rw [hl] at e
                    simp only at e
                    cases hp : parseAV env o k t (v.getProp kk) with
                    | throw c2 => exact propNo kk t hl c2 hp
                    | nofuel => rw [hp] at e; simp at e
                    | ok x => rw [hp] at e; simp at e
                · simp at h
              · intro r h _
                split at h
                · simp only [Res.ok.injEq] at h; rw [← h]; rfl
                · simp at h
                · simp at h

end

/-- **After a successful validation the parse step never throws** (closed environment; every runtype, value, option, fuel) -/
theorem parseAV_no_throw (env : Env) (o : ParseOpts) (henv : ∀ name t, env.lookup name = some t → Closed env t)
    (n : Nat) (rt : RT) (v : JsVal) (hc : Closed env rt) (hv : validate env o.strict n rt v = .ok true) (c : String) :
    parseAV env o n rt v ≠ .throw c :=
  (parse_all env o henv n rt v hc hv).1 c

/-- **C03 (no foreign exception)**: in a closed environment `safeParse` never ends in an exception -/
theorem safeParse_no_throw (env : Env) (o : ParseOpts) (henv : ∀ name t, env.lookup name = some t → Closed env t)
    (n : Nat) (rt : RT) (v : JsVal) (hc : Closed env rt) (c : String) : safeParse env o n rt v ≠ .throw c := by
  intro h
  cases hv : validate env o.strict n rt v with
  | throw c' => exact validate_no_throw env o.strict henv n rt v c' hc hv
  | nofuel => unfold safeParse at h; rw [hv] at h; simp at h
  | ok b =>
    cases b with
    | false => exact safeParse_failure_branch_no_throw env o henv n rt v hc hv c h
    | true =>
      unfold safeParse at h
      rw [hv] at h
      simp only at h
      cases hp : parseAV env o n rt v with
      | ok d => rw [hp] at h; simp at h
      | throw c' => exact parseAV_no_throw env o henv n rt v hc hv c' hp
      | nofuel => rw [hp] at h; simp at h

/-- … hence `parse` either returns the parsed value or fails with its documented error, nothing else (it may only run out
of the model's fuel) -/
theorem parse_only_documented_failure (env : Env) (o : ParseOpts) (henv : ∀ name t, env.lookup name = some t → Closed env t)
    (n : Nat) (name : String) (rt : RT) (v : JsVal) (hc : Closed env rt) :
    (∃ d, parse env o n name rt v = .ok (.value d)) ∨
    (∃ es, parse env o n name rt v = .ok (.failed ("Failed to parse " ++ name ++ " - " ++ printErrors es))) ∨
    parse env o n name rt v = .nofuel := by
  unfold parse
  cases hs : safeParse env o n rt v with
  | ok r =>
    cases r with
    | success d => exact Or.inl ⟨d, rfl⟩
    | failure es => exact Or.inr (Or.inl ⟨es, rfl⟩)
  | throw c => exact absurd hs (safeParse_no_throw env o henv n rt v hc c)
  | nofuel => exact Or.inr (Or.inr rfl)

/-! ### non-vacuity: each `throw` of the parse code is real, and excluded only by the validation -/

/-- the intersection spread does throw on a non-object parsed value — for an input `validate` rejects -/
example : (match parseAV [] ⟨false, false⟩ 10 (.allOf [.typeof "string"]) (.str "x") with
    | .throw "Error:AllOfParser" => true | _ => false) = true ∧
    validate [] false 10 (.allOf [.typeof "string"]) (.str "x") = .ok false := by decide +kernel

/-- an accepted intersection input parses (a union member inside: deep merge of object-typed branches) -/
example : validate [] false 10 (.allOf [.anyOf [.object [("a", .typeof "number")] [], .typeof "string"], .object [] []])
      (.obj [("a", .num "1")]) = .ok true ∧
    (match parseAV [] ⟨false, false⟩ 10 (.allOf [.anyOf [.object [("a", .typeof "number")] [], .typeof "string"], .object [] []])
      (.obj [("a", .num "1")]) with | .ok (.obj [("a", .num "1")]) => true | _ => false) = true := by decide +kernel

end BeffVerif.C03
