import BeffVerif.Props.C13Total
/-!
# C13 — the 32-bit `hash()` terminates on recursive types

The same argument as `Props/C13Total.lean` for `RT.hash` (Model/Hash.lean): a named type is expanded only while its name is not
in `seen`, an expansion puts it there, an alias (`type A = B`) is followed through its — finite — chain of description wrappers
and names. `hash32_total`: in an environment in which every name resolves, every constant has a 32-bit hash in the model and the
`typeof` tags are the three the runtime hashes, `hash` answers for every runtype and every set of names under expansion at fuel
`K·(D+1)+w` (`K` names not yet seen, `D` / `w` nesting depths).
-/
namespace BeffVerif.C13T
open BeffVerif RT JsVal

section
variable (env : Env)

inductive WF32 : Nat → RT → Prop
  | typeof {w t} : t = "string" ∨ t = "number" ∨ t = "boolean" → WF32 (w + 1) (.typeof t)
  | any {w} : WF32 (w + 1) .any
  | nullish {w d} : WF32 (w + 1) (.nullish d)
  | never {w} : WF32 (w + 1) .never
  | const {w v} : (constHash v).isSome = true → WF32 (w + 1) (.const v)
  | regex {w tpl d} : WF32 (w + 1) (.regex tpl d)
  | date {w} : WF32 (w + 1) .date
  | bigint {w} : WF32 (w + 1) .bigint
  | typed {w c} : WF32 (w + 1) (.typed c)
  | strfmt {w fs} : WF32 (w + 1) (.strfmt fs)
  | numfmt {w fs} : WF32 (w + 1) (.numfmt fs)
  | consts {w vs} : (∀ v ∈ vs, (constHash v).isSome = true) → WF32 (w + 1) (.consts vs)
  | tuple {w pre rest} : (∀ t ∈ pre, WF32 w t) → (∀ r, rest = some r → WF32 w r) → WF32 (w + 1) (.tuple pre rest)
  | allOf {w ts} : (∀ t ∈ ts, WF32 w t) → WF32 (w + 1) (.allOf ts)
  | anyOf {w ts} : (∀ t ∈ ts, WF32 w t) → WF32 (w + 1) (.anyOf ts)
  | array {w t} : WF32 w t → WF32 (w + 1) (.array t)
  | map {w k v} : WF32 w k → WF32 w v → WF32 (w + 1) (.map k v)
  | set {w t} : WF32 w t → WF32 (w + 1) (.set t)
  | disc {w ss key m sm} : (∀ t ∈ ss, WF32 w t) → WF32 (w + 1) (.disc ss key m sm)
  | optional {w t} : WF32 w t → WF32 (w + 1) (.optional t)
  | object {w props ix} : (∀ p ∈ props, WF32 w p.2) → (∀ p ∈ ix, WF32 w p.1) → (∀ p ∈ ix, WF32 w p.2) → WF32 (w + 1) (.object props ix)
  | ref {w name to} : env.lookup name = some to → (∀ other, stripDesc to = .ref other → WF32 w to) → WF32 (w + 1) (.ref name)
  | described {w d t} : WF32 w t → WF32 (w + 1) (.described d t)

/-- names of the environment not under expansion -/
def K32 (seen : List String) : Nat := ((env.map (·.1)).filter (fun n => !(seen.contains n))).length
end

variable {env : Env}

theorem K32_push {seen : List String} {name : String} {to : RT} (hl : env.lookup name = some to)
    (hs : seen.contains name = false) : K32 env (name :: seen) < K32 env seen := by
  unfold K32
  refine filter_length_lt _ _ _ ?_ name (lookup_mem_names hl) ?_ ?_
  · intro x hx
    simp only [List.contains_cons, Bool.not_eq_true', Bool.or_eq_false_iff] at hx
    simp only [Bool.not_eq_true']
    exact hx.2
  · simpa using hs
  · simp

theorem mapMO_some' {α β : Type} {f : α → Option β} {xs : List α} (h : ∀ x ∈ xs, (f x).isSome = true) :
    ∃ ys, mapMO f xs = some ys := by
  have := mapMO_some xs h
  cases e : mapMO f xs with
  | none => rw [e] at this; cases this
  | some ys => exact ⟨ys, rfl⟩

theorem mapMO_none_elim {α β : Type} {f : α → Option β} : ∀ {xs : List α}, mapMO f xs = none → ∃ x ∈ xs, f x = none := by
  intro xs
  induction xs with
  | nil => intro h; simp [mapMO] at h
  | cons y ys ih =>
    intro h
    cases e1 : f y with
    | none => exact ⟨y, by simp, e1⟩
    | some b =>
      cases e2 : mapMO f ys with
      | none => obtain ⟨x, hx, e⟩ := ih e2; exact ⟨x, by simp [hx], e⟩
      | some bs => simp [mapMO, e1, e2] at h

/-- **`hash()` terminates** -/
theorem hash32_total (D : Nat) (henv : ∀ name to, env.lookup name = some to → WF32 env D to) :
    ∀ (fuel : Nat) (rt : RT) (w : Nat) (seen : List String), WF32 env w rt →
      K32 env seen * (D + 1) + w ≤ fuel → (RT.hash env fuel rt seen).isSome = true := by
  intro fuel
  induction fuel with
  | zero =>
    intro rt w seen hw hf
    cases hw <;> omega
  | succ n ih =>
    intro rt w seen hw hf
    have kid : ∀ {w' : Nat} {t : RT}, WF32 env w' t → w' + 1 = w → (RT.hash env n t seen).isSome = true :=
      fun {w' t} ht hww => ih t w' seen ht (by omega)
    cases hw with
    | typeof h => rcases h with rfl | rfl | rfl <;> rfl
    | any => rfl
    | nullish => rfl
    | never => rfl
    | const h => simp only [RT.hash]; exact h
    | regex => rfl
    | date => rfl
    | bigint => rfl
    | typed => rfl
    | strfmt => rfl
    | numfmt => rfl
    | consts h =>
      simp only [RT.hash]
      obtain ⟨ys, e⟩ := mapMO_some' (f := constHash) (xs := sortBy (fun a b => strLe (sortKeyOfConst a) (sortKeyOfConst b)) _)
        (fun v hv => h v (mem_sortBy hv))
      rw [e]; rfl
    | tuple h1 h2 =>
      simp only [RT.hash]
      obtain ⟨ps, e⟩ := mapMO_some' (f := fun t => RT.hash env n t seen) (fun t ht => kid (h1 t ht) rfl)
      rw [e]
      rename_i pre' rest
      cases rest with
      | none => rfl
      | some r =>
        simp only
        have := kid (h2 r rfl) rfl
        cases e2 : RT.hash env n r seen with
        | none => rw [e2] at this; cases this
        | some x => rfl
    | allOf h =>
      simp only [RT.hash]
      obtain ⟨ps, e⟩ := mapMO_some' (f := fun t => RT.hash env n t seen) (fun t ht => kid (h t ht) rfl)
      rw [e]; rfl
    | anyOf h =>
      simp only [RT.hash]
      obtain ⟨ps, e⟩ := mapMO_some' (f := fun t => RT.hash env n t seen) (fun t ht => kid (h t ht) rfl)
      rw [e]; rfl
    | disc h =>
      simp only [RT.hash]
      obtain ⟨ps, e⟩ := mapMO_some' (f := fun t => RT.hash env n t seen) (fun t ht => kid (h t ht) rfl)
      rw [e]; rfl
    | array h =>
      simp only [RT.hash]
      have := kid h rfl
      cases e : RT.hash env n _ seen with
      | none => rw [e] at this; cases this
      | some x => rfl
    | set h =>
      simp only [RT.hash]
      have := kid h rfl
      cases e : RT.hash env n _ seen with
      | none => rw [e] at this; cases this
      | some x => rfl
    | optional h =>
      simp only [RT.hash]
      have := kid h rfl
      cases e : RT.hash env n _ seen with
      | none => rw [e] at this; cases this
      | some x => rfl
    | map h1 h2 =>
      simp only [RT.hash]
      have a1 := kid h1 rfl
      have a2 := kid h2 rfl
      cases e1 : RT.hash env n _ seen with
      | none => rw [e1] at a1; cases a1
      | some x =>
        cases e2 : RT.hash env n _ seen with
        | none => rw [e2] at a2; cases a2
        | some y => simp [e2] at *
    | described h => simp only [RT.hash]; exact kid h rfl
    | object h1 h2 h3 =>
      simp only [RT.hash]
      obtain ⟨ps, e1⟩ := mapMO_some' (f := fun (p : String × RT) => (RT.hash env n p.2 seen).map fun x => [hashString p.1, x])
        (xs := sortBy (fun (a b : String × RT) => strLe a.1 b.1) _) (fun p hp => by
          have := kid (h1 p (mem_sortBy hp)) rfl
          cases e : RT.hash env n p.2 seen with
          | none => rw [e] at this; cases this
          | some x => rfl)
      rw [e1]
      generalize hG : mapMO _ _ = r
      cases r with
      | some is => rfl
      | none =>
        exfalso
        obtain ⟨p, hp, e⟩ := mapMO_none_elim hG
        have a1 := kid (h2 p hp) rfl
        have a2 := kid (h3 p hp) rfl
        cases e1' : RT.hash env n p.1 seen with
        | none => rw [e1'] at a1; cases a1
        | some x =>
          cases e2' : RT.hash env n p.2 seen with
          | none => rw [e2'] at a2; cases a2
          | some y => rw [e1', e2'] at e; cases e
    | @ref w0 name to hl ha =>
      simp only [RT.hash, hl]
      split
      · -- an alias: its body (description wrappers around another name) is hashed in place
        rename_i other hs
        exact ih to w0 seen (ha other hs) (by omega)
      · split
        · rfl
        · rename_i hseen
          have hs' : seen.contains name = false := by simpa using hseen
          have hk := K32_push hl hs'
          refine ih to D _ (henv name to hl) ?_
          have : (K32 env (name :: seen) + 1) * (D + 1) ≤ K32 env seen * (D + 1) := Nat.mul_le_mul_right _ hk
          have e : (K32 env (name :: seen) + 1) * (D + 1) = K32 env (name :: seen) * (D + 1) + (D + 1) := by
            rw [Nat.add_mul, Nat.one_mul]
          omega

end BeffVerif.C13T
