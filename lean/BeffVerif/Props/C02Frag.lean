import BeffVerif.Props.C02Eval
import BeffVerif.Model.Validate
/-!
# C02 — soundness of the emitted schema on a structural fragment (flat `schema()`)
-/
namespace BeffVerif.C02F
open BeffVerif RT JsVal JS C02E

/-! ### object literals of the printer -/

theorem lookupProp_nil (k : String) : lookupProp [] k = none := rfl

theorem lookupProp_cons (p : String × JsVal) (ps : List (String × JsVal)) (k : String) :
    lookupProp (p :: ps) k = if p.1 = k then some p.2 else lookupProp ps k := by
  unfold lookupProp
  rw [List.find?_cons]
  by_cases h : p.1 = k
  · have : (p.1 == k) = true := by simpa using h
    simp [this, h]
  · have : (p.1 == k) = false := by simpa using h
    simp [this, h]

theorem lookupProp_append (a b : List (String × JsVal)) (k : String) :
    lookupProp (a ++ b) k = (lookupProp a k).or (lookupProp b k) := by
  induction a with
  | nil => simp [lookupProp_nil]
  | cons p a ih =>
    rw [List.cons_append, lookupProp_cons, lookupProp_cons, ih]
    by_cases h : p.1 = k <;> simp [h]

theorem lookupProp_none_of_not_any {ps : List (String × JsVal)} {k : String}
    (h : ps.any (fun p => p.1 == k) = false) : lookupProp ps k = none := by
  induction ps with
  | nil => rfl
  | cons p ps ih =>
    rw [List.any_cons, Bool.or_eq_false_iff] at h
    rw [lookupProp_cons, ih h.2]
    have : ¬ p.1 = k := by simpa using h.1
    simp [this]

theorem lookup_map_replace (ps : List (String × JsVal)) (k : String) (v : JsVal) (k' : String) :
    lookupProp (ps.map (fun p => if p.1 == k then (k, v) else p)) k' =
      if k' = k then (if ps.any (fun p => p.1 == k) then some v else none) else lookupProp ps k' := by
  induction ps with
  | nil => simp [lookupProp_nil]
  | cons p ps ih =>
    rw [List.map_cons, lookupProp_cons, ih, lookupProp_cons, List.any_cons]
    by_cases hp : p.1 = k
    · by_cases hk : k' = k
      · subst hk; simp [hp]
      · have : ¬ k = k' := fun e => hk e.symm
        simp [hp, hk, this]
    · have hpb : (p.1 == k) = false := by simpa using hp
      by_cases hk : k' = k
      · subst hk; rw [hpb, Bool.false_or]; simp [hp]
      · simp [hp, hk, hpb]

theorem lookup_insert_mid (a b : List (String × JsVal)) (k : String) (v : JsVal) (k' : String)
    (hk : (a ++ b).any (fun p => p.1 == k) = false) :
    lookupProp (a ++ [(k, v)] ++ b) k' = if k' = k then some v else lookupProp (a ++ b) k' := by
  rw [List.any_append, Bool.or_eq_false_iff] at hk
  rw [lookupProp_append, lookupProp_append, lookupProp_append, lookupProp_cons, lookupProp_nil]
  by_cases h : k' = k
  · subst h; rw [lookupProp_none_of_not_any hk.1]; simp
  · have : ¬ k = k' := fun e => h e.symm
    simp [h, this]

/-- what a property write does to a later lookup -/
theorem lookup_setProp (ps : List (String × JsVal)) (k : String) (v : JsVal) (k' : String) :
    lookupProp (setProp ps k v) k' = if k' = k then some v else lookupProp ps k' := by
  unfold setProp
  split
  · rename_i h
    rw [lookup_map_replace]
    by_cases hk : k' = k <;> simp [hk, h]
  · rename_i h
    have h : ps.any (fun p => p.1 == k) = false := by
      cases hb : ps.any (fun p => p.1 == k) with
      | false => rfl
      | true => exact absurd hb h
    split
    · refine (lookup_insert_mid _ _ k v k' ?_).trans ?_
      · rw [List.takeWhile_append_dropWhile]; exact h
      · rw [List.takeWhile_append_dropWhile]
    · have := lookup_insert_mid ps [] k v k' (by rw [List.append_nil]; exact h)
      simpa using this

/-! ### the evaluator on the printer's object literals -/

theorem valid_jobj (P : Params) (k : Nat) (L : List (String × JsVal)) (d : JsVal) :
    valid P (k+1) (jobj L) d = validG P (valid P k) (lookupProp (L.foldl (fun acc kv => setProp acc kv.1 kv.2) [])) d := rfl

/-- the keywords the evaluator reads -/
def vkeys : List String := ["type", "const", "enum", "anyOf", "oneOf", "allOf", "not", "$ref", "pattern", "format", "properties",
  "required", "additionalProperties", "propertyNames", "prefixItems", "items", "minItems"]

theorem validG_congr {P : Params} {v : JsVal → JsVal → Option Bool} {get get' : String → Option JsVal} {d : JsVal}
    (h : ∀ k ∈ vkeys, get k = get' k) : validG P v get d = validG P v get' d := by
  have h1 := h "type" (by simp [vkeys])
  have h2 := h "const" (by simp [vkeys])
  have h3 := h "enum" (by simp [vkeys])
  have h4 := h "anyOf" (by simp [vkeys])
  have h5 := h "oneOf" (by simp [vkeys])
  have h6 := h "allOf" (by simp [vkeys])
  have h7 := h "not" (by simp [vkeys])
  have h8 := h "$ref" (by simp [vkeys])
  have h9 := h "pattern" (by simp [vkeys])
  have h10 := h "format" (by simp [vkeys])
  have h11 := h "properties" (by simp [vkeys])
  have h12 := h "required" (by simp [vkeys])
  have h13 := h "additionalProperties" (by simp [vkeys])
  have h14 := h "propertyNames" (by simp [vkeys])
  have h15 := h "prefixItems" (by simp [vkeys])
  have h16 := h "items" (by simp [vkeys])
  have h17 := h "minItems" (by simp [vkeys])
  simp only [validG, cType, cConst, cEnum, cAny, cOne, cAll, cNot, cRef, cPattern, cFormat, cObj, cArr, declaredOf, prefixOf,
    h1, h2, h3, h4, h5, h6, h7, h8, h9, h10, h11, h12, h13, h14, h15, h16, h17]

/-- an annotation does not change a verdict -/
theorem valid_annotate (P : Params) (k : Nat) (desc : Option String) (s d : JsVal) :
    valid P k (annotate desc s) d = valid P k s d := by
  cases desc with
  | none => rfl
  | some x =>
    cases s <;> try rfl
    rename_i kvs
    cases k with
    | zero => rfl
    | succ k =>
      show validG P (valid P k) (lookupProp (setProp kvs "description" (.str x))) d = validG P (valid P k) (lookupProp kvs) d
      apply validG_congr
      intro key hk
      rw [lookup_setProp]
      have : key ≠ "description" := by
        intro e; subst e; simp [vkeys] at hk
      simp [this]

theorem allO_nil : allO [] = some true := rfl

/-- `{type: t}` -/
theorem valid_type_true {P : Params} {k : Nat} {t : String} {d : JsVal}
    (h : valid P (k+1) (jobj [("type", .str t)]) d = some true) : typeOk t d = true := by
  rw [valid_jobj] at h
  simp only [List.foldl] at h
  generalize hg : lookupProp (setProp [] "type" (.str t)) = get at h
  have g1 : ∀ k', get k' = if k' = "type" then some (.str t) else none := by
    intro k'; rw [← hg, lookup_setProp, lookupProp_nil]
  simp only [validG, cType, cConst, cEnum, cAny, cOne, cAll, cNot, cRef, cPattern, cFormat, cObj, cArr, declaredOf, prefixOf, g1] at h
  simp at h
  rw [allO_true_iff] at h
  simpa using h _ List.mem_cons_self

/-- `{}` answers as soon as there is fuel -/
theorem valid_empty' (P : Params) (k : Nat) (d : JsVal) : valid P (k+1) (jobj []) d = some true := by
  rw [valid_jobj]
  simp only [List.foldl]
  simp only [validG, cType, cConst, cEnum, cAny, cOne, cAll, cNot, cRef, cPattern, cFormat, cObj, cArr, declaredOf, prefixOf, lookupProp_nil]
  cases d <;> simp [allO, andO]

/-- `{not: {}}` -/
theorem valid_never_true {P : Params} {k : Nat} {d : JsVal}
    (h : valid P k (jobj [("not", jobj [])]) d = some true) : False := by
  cases k with
  | zero => simp [valid] at h
  | succ k =>
    rw [valid_jobj] at h
    simp only [List.foldl] at h
    generalize hg : lookupProp (setProp [] "not" (jobj [])) = get at h
    have g1 : ∀ k', get k' = if k' = "not" then some (jobj []) else none := by
      intro k'; rw [← hg, lookup_setProp, lookupProp_nil]
    simp only [validG, cType, cConst, cEnum, cAny, cOne, cAll, cNot, cRef, cPattern, cFormat, cObj, cArr, declaredOf, prefixOf, g1] at h
    simp at h
    rw [allO_true_iff] at h
    have h7 := h (Option.map (fun x => !x) (valid P k (jobj []) d)) (by simp)
    cases k with
    | zero => simp [valid] at h7
    | succ k => rw [valid_empty'] at h7; simp at h7

/-- `{const: c}` -/
theorem valid_const_true {P : Params} {k : Nat} {c d : JsVal}
    (h : valid P (k+1) (jobj [("const", c)]) d = some true) : jsonEq 50 c d = true := by
  rw [valid_jobj] at h
  simp only [List.foldl] at h
  generalize hg : lookupProp (setProp [] "const" c) = get at h
  have g1 : ∀ k', get k' = if k' = "const" then some c else none := by
    intro k'; rw [← hg, lookup_setProp, lookupProp_nil]
  simp only [validG, cType, cConst, cEnum, cAny, cOne, cAll, cNot, cRef, cPattern, cFormat, cObj, cArr, declaredOf, prefixOf, g1] at h
  simp at h
  rw [allO_true_iff] at h
  simpa using h (some (jsonEq 50 c d)) (by simp)

/-- `{enum: vs}` -/
theorem valid_enum_true {P : Params} {k : Nat} {vs : List JsVal} {d : JsVal}
    (h : valid P (k+1) (jobj [("enum", .arr vs)]) d = some true) : vs.any (fun c => jsonEq 50 c d) = true := by
  rw [valid_jobj] at h
  simp only [List.foldl] at h
  generalize hg : lookupProp (setProp [] "enum" (.arr vs)) = get at h
  have g1 : ∀ k', get k' = if k' = "enum" then some (.arr vs) else none := by
    intro k'; rw [← hg, lookup_setProp, lookupProp_nil]
  simp only [validG, cType, cConst, cEnum, cAny, cOne, cAll, cNot, cRef, cPattern, cFormat, cObj, cArr, declaredOf, prefixOf, g1] at h
  simp at h
  rw [allO_true_iff] at h
  simpa using h (some (vs.any (fun c => jsonEq 50 c d))) (by simp)

/-- `{type: tp, enum: vs}` -/
theorem valid_type_enum_true {P : Params} {k : Nat} {tp : String} {vs : List JsVal} {d : JsVal}
    (h : valid P (k+1) (jobj [("type", .str tp), ("enum", .arr vs)]) d = some true) :
    vs.any (fun c => jsonEq 50 c d) = true := by
  rw [valid_jobj] at h
  simp only [List.foldl] at h
  generalize hg : lookupProp (setProp (setProp [] "type" (.str tp)) "enum" (.arr vs)) = get at h
  have g1 : ∀ k', get k' = if k' = "enum" then some (.arr vs) else if k' = "type" then some (.str tp) else none := by
    intro k'; rw [← hg, lookup_setProp, lookup_setProp, lookupProp_nil]
  simp only [validG, cType, cConst, cEnum, cAny, cOne, cAll, cNot, cRef, cPattern, cFormat, cObj, cArr, declaredOf, prefixOf, g1] at h
  simp at h
  rw [allO_true_iff] at h
  simpa using h (some (vs.any (fun c => jsonEq 50 c d))) (by simp)

/-- `{anyOf: ss}` -/
theorem valid_anyOf_eq (P : Params) (k : Nat) (ss : List JsVal) (d : JsVal) :
    valid P (k+1) (jobj [("anyOf", .arr ss)]) d = anyO (ss.map (fun s => valid P k s d)) := by
  rw [valid_jobj]
  simp only [List.foldl]
  generalize hg : lookupProp (setProp [] "anyOf" (.arr ss)) = get
  have g1 : ∀ k', get k' = if k' = "anyOf" then some (.arr ss) else none := by
    intro k'; rw [← hg, lookup_setProp, lookupProp_nil]
  simp only [validG, cType, cConst, cEnum, cAny, cOne, cAll, cNot, cRef, cPattern, cFormat, cObj, cArr, declaredOf, prefixOf, g1]
  simp
  cases anyO (ss.map (fun s => valid P k s d)) <;> cases d <;> simp [allO, andO]

theorem valid_anyOf_true {P : Params} {k : Nat} {ss : List JsVal} {d : JsVal}
    (h : valid P (k+1) (jobj [("anyOf", .arr ss)]) d = some true) : ∃ s ∈ ss, valid P k s d = some true := by
  rw [valid_anyOf_eq] at h
  obtain ⟨⟨x, hx, e⟩, _⟩ := anyO_true h
  obtain ⟨s, hs, rfl⟩ := List.mem_map.1 hx
  exact ⟨s, hs, e⟩

/-- `{type: "array", items: s}` -/
theorem valid_array_true {P : Params} {k : Nat} {s d : JsVal}
    (h : valid P (k+1) (jobj [("type", .str "array"), ("items", s)]) d = some true) :
    ∃ items, d = .arr items ∧ ∀ x ∈ items, valid P k s x = some true := by
  rw [valid_jobj] at h
  simp only [List.foldl] at h
  generalize hg : lookupProp (setProp (setProp [] "type" (.str "array")) "items" s) = get at h
  have g1 : ∀ k', get k' = if k' = "items" then some s else if k' = "type" then some (.str "array") else none := by
    intro k'; rw [← hg, lookup_setProp, lookup_setProp, lookupProp_nil]
  simp only [validG, cType, cConst, cEnum, cAny, cOne, cAll, cNot, cRef, cPattern, cFormat, cObj, cArr, declaredOf, prefixOf, g1] at h
  simp at h
  rw [allO_true_iff] at h
  have ht := h (some (typeOk "array" d)) (by simp)
  cases d <;> simp [typeOk] at ht
  rename_i items
  refine ⟨items, rfl, ?_⟩
  have ha := h (allO [allO [], allO (List.map (fun x => valid P k s x) items), some true]) (by simp)
  rw [allO_true_iff] at ha
  have hi := ha (allO (List.map (fun x => valid P k s x) items)) (by simp)
  rw [allO_true_iff] at hi
  intro x hx
  exact hi _ (List.mem_map.2 ⟨x, hx, rfl⟩)

theorem parseNat_canon (n : Nat) : parseNat (natToCanon n) = n := by
  unfold parseNat natToCanon
  show (Nat.repr n).toList.foldl (fun acc ch => 10 * acc + (ch.toNat - 48)) 0 = n
  rw [Nat.toList_repr]
  exact Nat.ofDigitChars_ten_toDigits

/-- the tuple schema -/
theorem valid_tuple_true {P : Params} {k : Nat} {ps : List JsVal} {items : JsVal} {n : Nat} {d : JsVal}
    (h : valid P (k+1) (jobj ([("type", JsVal.str "array")] ++ (if ps.length > 0 then [("prefixItems", JsVal.arr ps)] else []) ++
      [("items", items), ("minItems", JsVal.num (natToCanon n))])) d = some true) :
    ∃ xs, d = .arr xs ∧ (∀ p ∈ ps.zip xs, valid P k p.1 p.2 = some true) ∧
      (∀ x ∈ xs.drop ps.length, valid P k items x = some true) ∧ n ≤ xs.length := by
  rw [valid_jobj] at h
  by_cases hp : ps.length > 0
  · simp only [hp, if_true, List.cons_append, List.nil_append, List.foldl] at h
    generalize hg : lookupProp (setProp (setProp (setProp (setProp [] "type" (.str "array")) "prefixItems" (.arr ps)) "items" items)
      "minItems" (.num (natToCanon n))) = get at h
    have g1 : ∀ k', get k' = if k' = "minItems" then some (.num (natToCanon n)) else if k' = "items" then some items
        else if k' = "prefixItems" then some (.arr ps) else if k' = "type" then some (.str "array") else none := by
      intro k'; rw [← hg, lookup_setProp, lookup_setProp, lookup_setProp, lookup_setProp, lookupProp_nil]
    simp only [validG, cType, cConst, cEnum, cAny, cOne, cAll, cNot, cRef, cPattern, cFormat, cObj, cArr, declaredOf, prefixOf, g1] at h
    simp at h
    rw [allO_true_iff] at h
    have ht := h (some (typeOk "array" d)) (by simp)
    cases d <;> simp [typeOk] at ht
    rename_i xs
    have ha := h (allO [allO (List.map (fun p => valid P k p.1 p.2) (ps.zip xs)),
      allO (List.map (fun x => valid P k items x) (xs.drop ps.length)), some (decide (parseNat (natToCanon n) ≤ xs.length))]) (by simp)
    rw [allO_true_iff] at ha
    have h1 := ha _ List.mem_cons_self
    have h2 := ha (allO (List.map (fun x => valid P k items x) (xs.drop ps.length))) (by simp)
    have h3 := ha (some (decide (parseNat (natToCanon n) ≤ xs.length))) (by simp)
    rw [allO_true_iff] at h1 h2
    rw [parseNat_canon] at h3
    refine ⟨xs, rfl, fun p hp' => h1 _ (List.mem_map.2 ⟨p, hp', rfl⟩), fun x hx => h2 _ (List.mem_map.2 ⟨x, hx, rfl⟩), by simpa using h3⟩
  · have hnil : ps = [] := by
      cases ps with
      | nil => rfl
      | cons _ _ => simp at hp
    subst hnil
    simp only [List.length_nil, Nat.lt_irrefl, if_false, List.cons_append, List.nil_append, List.append_nil, List.foldl] at h
    generalize hg : lookupProp (setProp (setProp (setProp [] "type" (.str "array")) "items" items)
      "minItems" (.num (natToCanon n))) = get at h
    have g1 : ∀ k', get k' = if k' = "minItems" then some (.num (natToCanon n)) else if k' = "items" then some items
        else if k' = "type" then some (.str "array") else none := by
      intro k'; rw [← hg, lookup_setProp, lookup_setProp, lookup_setProp, lookupProp_nil]
    simp only [validG, cType, cConst, cEnum, cAny, cOne, cAll, cNot, cRef, cPattern, cFormat, cObj, cArr, declaredOf, prefixOf, g1] at h
    simp at h
    rw [allO_true_iff] at h
    have ht := h (some (typeOk "array" d)) (by simp)
    cases d <;> simp [typeOk] at ht
    rename_i xs
    have ha := h (allO [allO [],
      allO (List.map (fun x => valid P k items x) xs), some (decide (parseNat (natToCanon n) ≤ xs.length))]) (by simp)
    rw [allO_true_iff] at ha
    have h2 := ha (allO (List.map (fun x => valid P k items x) xs)) (by simp)
    have h3 := ha (some (decide (parseNat (natToCanon n) ≤ xs.length))) (by simp)
    rw [allO_true_iff] at h2
    rw [parseNat_canon] at h3
    refine ⟨xs, rfl, by simp, fun x hx => h2 _ (List.mem_map.2 ⟨x, by simpa using hx, rfl⟩), by simpa using h3⟩

theorem valid_false_ne_true (P : Params) (k : Nat) (d : JsVal) : valid P k (.bool false) d ≠ some true := by
  cases k <;> simp [valid]

/-- the closed object schema -/
theorem valid_object_true {P : Params} {k : Nat} {ps : List (String × JsVal)} {required : List String} {d : JsVal}
    (h : valid P (k+1) (jobj ([("type", JsVal.str "object"), ("properties", JsVal.obj ps)] ++
      (if required.length > 0 then [("required", JsVal.arr (required.map JsVal.str))] else []) ++
      [("additionalProperties", JsVal.bool false)])) d = some true) :
    ∃ props, d = .obj props ∧ (∀ p ∈ ps, ∀ x, lookupProp props p.1 = some x → valid P k p.2 x = some true) ∧
      (∀ r ∈ required, (lookupProp props r).isSome = true) ∧ (∀ q ∈ props, ps.any (fun p => p.1 == q.1) = true) := by
  rw [valid_jobj] at h
  have key : ∀ (d : JsVal) (get : String → Option JsVal), get "type" = some (.str "object") → get "properties" = some (.obj ps) →
      get "additionalProperties" = some (.bool false) → get "propertyNames" = none →
      (get "required" = some (.arr (required.map JsVal.str)) ∨ (get "required" = none ∧ required = [])) →
      validG P (valid P k) get d = some true →
      ∃ props, d = .obj props ∧ (∀ p ∈ ps, ∀ x, lookupProp props p.1 = some x → valid P k p.2 x = some true) ∧
        (∀ r ∈ required, (lookupProp props r).isSome = true) ∧ (∀ q ∈ props, ps.any (fun p => p.1 == q.1) = true) := by
    intro d get g1 g2 g3 g4 g5 h
    unfold validG at h
    rw [allO_true_iff] at h
    have ht := h (cType get d) (by simp)
    simp only [cType, g1] at ht
    cases d <;> simp [typeOk] at ht
    rename_i props
    have ho := h (cObj (valid P k) get (.obj props)) (by simp)
    simp only [cObj, declaredOf, g2, g3, g4] at ho
    rw [allO_true_iff] at ho
    have h1 := ho _ List.mem_cons_self
    have h2 := ho _ (List.mem_cons_of_mem _ List.mem_cons_self)
    have h3 := ho _ (List.mem_cons_of_mem _ (List.mem_cons_of_mem _ List.mem_cons_self))
    rw [allO_true_iff] at h1 h3
    refine ⟨props, rfl, ?_, ?_, ?_⟩
    · intro p hp x hx
      have := h1 _ (List.mem_map.2 ⟨p, hp, rfl⟩)
      simpa [hx] using this
    · intro r hr
      rcases g5 with g5 | ⟨_, g5⟩
      · rw [g5] at h2
        simp only [Option.some.injEq, List.all_eq_true] at h2
        have := h2 (.str r) (List.mem_map.2 ⟨r, hr, rfl⟩)
        simpa using this
      · subst g5; simp at hr
    · intro q hq
      cases hb : ps.any (fun p => p.1 == q.1) with
      | true => rfl
      | false =>
        have hm : q ∈ props.filter (fun p => !(ps.any (fun q => q.1 == p.1))) := by
          rw [List.mem_filter]; exact ⟨hq, by simp [hb]⟩
        exact absurd (h3 _ (List.mem_map.2 ⟨q, hm, rfl⟩)) (valid_false_ne_true P k _)
  by_cases hr : required.length > 0
  · simp only [hr, if_true, List.cons_append, List.nil_append, List.foldl] at h
    refine key d _ ?_ ?_ ?_ ?_ (Or.inl ?_) h <;>
      simp [lookup_setProp, lookupProp_nil]
  · have hnil : required = [] := by
      cases required with
      | nil => rfl
      | cons _ _ => simp at hr
    subst hnil
    simp only [List.length_nil, Nat.lt_irrefl, if_false, List.cons_append, List.nil_append, List.append_nil, List.foldl] at h
    refine key d _ ?_ ?_ ?_ ?_ (Or.inr ⟨?_, rfl⟩) h <;>
      simp [lookup_setProp, lookupProp_nil]

/-! ### `removeNullUnionBranch`: the verdict changes on `null` only -/

theorem validG_anyOf {P : Params} {v : JsVal → JsVal → Option Bool} {get : String → Option JsVal} {ss : List JsVal} {d : JsVal}
    (h : ∀ k ∈ vkeys, get k = if k = "anyOf" then some (.arr ss) else none) :
    validG P v get d = anyO (ss.map (fun s => v s d)) := by
  rw [validG_congr h]
  simp only [validG, cType, cConst, cEnum, cAny, cOne, cAll, cNot, cRef, cPattern, cFormat, cObj, cArr, declaredOf, prefixOf]
  simp
  cases anyO (ss.map (fun s => v s d)) <;> cases d <;> simp [allO, andO]

theorem validG_type {P : Params} {v : JsVal → JsVal → Option Bool} {get : String → Option JsVal} {t : String} {d : JsVal}
    (h : ∀ k ∈ vkeys, get k = if k = "type" then some (.str t) else none) :
    validG P v get d = some (typeOk t d) := by
  rw [validG_congr h]
  simp only [validG, cType, cConst, cEnum, cAny, cOne, cAll, cNot, cRef, cPattern, cFormat, cObj, cArr, declaredOf, prefixOf]
  simp
  cases d <;> simp [allO, andO]

/-- a null definition that carries nothing but its `type` -/
def nullSimple : JsVal → Bool
  | .obj kvs => (vkeys.filter (· != "type")).all (fun k => (lookupProp kvs k).isNone)
  | _ => false

/-- the shape `removeNullUnionBranch` is meaning-preserving on: an `anyOf` stands alone in its object, null definitions
carry only their type, hereditarily through the variants -/
def pureS : Nat → JsVal → Bool
  | 0, _ => true
  | n+1, .obj kvs =>
    match lookupProp kvs "anyOf" with
    | some (.arr vs) => (vkeys.filter (· != "anyOf")).all (fun k => (lookupProp kvs k).isNone) &&
        vs.all (fun v => if isNullDef v then nullSimple v else pureS n v)
    | some _ => false
    | none => (lookupProp kvs "oneOf").isNone
  | _+1, _ => true

theorem isNullDef_type {s : JsVal} (h : isNullDef s = true) : ∃ kvs, s = .obj kvs ∧ lookupProp kvs "type" = some (.str "null") := by
  cases s with
  | obj kvs =>
    refine ⟨kvs, rfl, ?_⟩
    simp only [isNullDef] at h
    split at h
    · rename_i heq; exact heq
    · cases h
  | _ => simp [isNullDef] at h

theorem mem_vkeys_filter {k x : String} (hk : k ∈ vkeys) (hx : k ≠ x) : k ∈ vkeys.filter (· != x) := by
  rw [List.mem_filter]; exact ⟨hk, by simpa using hx⟩

/-- a simple null definition answers `d is null` as soon as there is fuel -/
theorem valid_nullSimple (P : Params) {s : JsVal} (h1 : isNullDef s = true) (h2 : nullSimple s = true) (k : Nat) (d : JsVal) :
    valid P (k+1) s d = some (typeOk "null" d) := by
  obtain ⟨kvs, rfl, ht⟩ := isNullDef_type h1
  show validG P (valid P k) (lookupProp kvs) d = _
  apply validG_type
  intro key hk
  by_cases e : key = "type"
  · subst e; simpa using ht
  · simp only [e, if_false]
    unfold nullSimple at h2
    rw [List.all_eq_true] at h2
    simpa using h2 key (mem_vkeys_filter hk e)

/-- the verdict of a pure `anyOf` object -/
theorem valid_pure_anyOf (P : Params) {n : Nat} {kvs : List (String × JsVal)} {vs : List JsVal}
    (ha : lookupProp kvs "anyOf" = some (.arr vs)) (hp : pureS (n+1) (.obj kvs) = true) (k : Nat) (d : JsVal) :
    valid P (k+1) (.obj kvs) d = anyO (vs.map (fun s => valid P k s d)) := by
  show validG P (valid P k) (lookupProp kvs) d = _
  apply validG_anyOf
  intro key hk
  by_cases e : key = "anyOf"
  · subst e; simpa using ha
  · simp only [e, if_false]
    simp only [pureS, ha, Bool.and_eq_true] at hp
    have := hp.1
    rw [List.all_eq_true] at this
    simpa using this key (mem_vkeys_filter hk e)

/-- verdicts found at various fuels are found at a common one -/
theorem common_fuel (P : Params) (d : JsVal) (Q : JsVal → Bool → Prop) :
    ∀ (l : List JsVal), (∀ v ∈ l, ∃ k b, valid P k v d = some b ∧ Q v b) →
      ∃ K, 1 ≤ K ∧ ∀ v ∈ l, ∃ b, valid P K v d = some b ∧ Q v b := by
  intro l
  induction l with
  | nil => intro _; exact ⟨1, Nat.le_refl _, by simp⟩
  | cons x xs ih =>
    intro h
    obtain ⟨K, hK1, hK⟩ := ih (fun v hv => h v (List.mem_cons_of_mem _ hv))
    obtain ⟨k, b, hb, hq⟩ := h x List.mem_cons_self
    refine ⟨max K k, Nat.le_trans hK1 (Nat.le_max_left _ _), ?_⟩
    intro v hv
    rcases List.mem_cons.1 hv with rfl | hv
    · exact ⟨b, valid_mono_le P (Nat.le_max_right _ _) _ _ _ hb, hq⟩
    · obtain ⟨b', hb', hq'⟩ := hK v hv
      exact ⟨b', valid_mono_le P (Nat.le_max_left _ _) _ _ _ hb', hq'⟩

theorem anyO_eq_of {α : Type} (l : List α) (f : α → Option Bool) (T : Bool) (hdef : ∀ x ∈ l, ∃ b, f x = some b)
    (h1 : T = true → ∃ x ∈ l, f x = some true) (h2 : ∀ x ∈ l, f x = some true → T = true) :
    anyO (l.map f) = some T := by
  have e : l.map f = (l.map (fun x => (f x).getD false)).map some := by
    rw [List.map_map]
    apply List.map_congr_left
    intro x hx
    obtain ⟨b, hb⟩ := hdef x hx
    simp [hb]
  rw [e, anyO_map_some]
  congr 1
  rw [Bool.eq_iff_iff]
  constructor
  · intro h
    simp only [List.any_eq_true, List.mem_map, id] at h
    obtain ⟨b, ⟨x, hx, rfl⟩, hb⟩ := h
    obtain ⟨b', hb'⟩ := hdef x hx
    rw [hb'] at hb
    simp only [Option.getD_some] at hb
    exact h2 x hx (by rw [hb', hb])
  · intro h
    obtain ⟨x, hx, e'⟩ := h1 h
    simp only [List.any_eq_true, List.mem_map, id]
    exact ⟨true, ⟨x, hx, by simp [e']⟩, rfl⟩

theorem anyO_map_spec {α : Type} {l : List α} {f : α → Option Bool} {b : Bool} (h : anyO (l.map f) = some b) :
    (∀ x ∈ l, ∃ c, f x = some c) ∧ (b = true → ∃ x ∈ l, f x = some true) ∧ (∀ x ∈ l, f x = some true → b = true) := by
  obtain ⟨bs, e⟩ := anyO_strict h
  have hdef : ∀ x ∈ l, ∃ c, f x = some c := by
    intro x hx
    have : f x ∈ l.map f := List.mem_map.2 ⟨x, hx, rfl⟩
    rw [e] at this
    obtain ⟨c, _, hc⟩ := List.mem_map.1 this
    exact ⟨c, hc.symm⟩
  refine ⟨hdef, ?_, ?_⟩
  · intro hb; subst hb
    obtain ⟨⟨y, hy, e'⟩, _⟩ := anyO_true h
    obtain ⟨x, hx, rfl⟩ := List.mem_map.1 hy
    exact ⟨x, hx, e'⟩
  · intro x hx hfx
    rw [e, anyO_map_some] at h
    simp only [Option.some.injEq] at h
    rw [← h, List.any_eq_true]
    have : f x ∈ l.map f := List.mem_map.2 ⟨x, hx, rfl⟩
    rw [e, hfx] at this
    obtain ⟨c, hc, hc'⟩ := List.mem_map.1 this
    simp only [Option.some.injEq] at hc'
    exact ⟨c, hc, by simp [hc']⟩

/-- **`removeNullUnionBranch` changes the verdict on `null` only** (for the shapes the printer produces) -/
theorem rnb_sem (P : Params) : ∀ n s r, pureS n s = true → removeNullUnionBranch n s = some r →
    ∀ k d b, valid P k r d = some b → ∃ k', valid P k' s d = some (b || typeOk "null" d) := by
  intro n
  induction n with
  | zero => intro s r _ h; simp [removeNullUnionBranch] at h
  | succ n ih =>
    intro s r hp hr k d b hv
    cases s with
    | obj kvs =>
      cases ha : lookupProp kvs "anyOf" with
      | none =>
        simp only [pureS, ha] at hp
        have ho : lookupProp kvs "oneOf" = none := by simpa using hp
        simp [removeNullUnionBranch, ha, ho] at hr
      | some a =>
        cases a with
        | arr vs =>
          have hp0 := hp
          simp only [pureS, ha, Bool.and_eq_true, List.all_eq_true] at hp
          obtain ⟨_, hvs⟩ := hp
          simp only [removeNullUnionBranch, ha, Option.isSome_some, if_true] at hr
          split at hr
          · cases hr
          rename_i hlen
          simp only [Bool.or_eq_true, beq_iff_eq, not_or] at hlen
          -- a null variant exists
          have hnull : ∃ v ∈ vs, isNullDef v = true := by
            apply Classical.byContradiction
            intro hno
            apply hlen.1
            rw [List.filter_eq_self.2]
            intro v hv'
            cases hb : isNullDef v with
            | false => rfl
            | true => exact absurd ⟨v, hv', hb⟩ hno
          -- one step of the recursion, variant by variant
          have stepA : ∀ v ∈ vs, isNullDef v = false → ∀ k0 bx,
              valid P k0 ((removeNullUnionBranch n v).getD v) d = some bx →
              ∃ k' b', valid P k' v d = some b' ∧ (b' = bx ∨ b' = (bx || typeOk "null" d)) := by
            intro v hv' hnv k0 bx hx
            have hpv : pureS n v = true := by simpa [hnv] using hvs v hv'
            cases hrv : removeNullUnionBranch n v with
            | none => rw [hrv] at hx; exact ⟨k0, bx, hx, Or.inl rfl⟩
            | some x =>
              rw [hrv] at hx
              obtain ⟨k', hk'⟩ := ih v x hpv hrv k0 d bx hx
              exact ⟨k', _, hk', Or.inr rfl⟩
          -- what the verdict of the result says about the normalized variants
          have facts : ∃ k0, (∀ v ∈ vs, isNullDef v = false → ∃ bx, valid P k0 ((removeNullUnionBranch n v).getD v) d = some bx) ∧
              (b = true → ∃ v ∈ vs, isNullDef v = false ∧ valid P k0 ((removeNullUnionBranch n v).getD v) d = some true) ∧
              (∀ v ∈ vs, isNullDef v = false → valid P k0 ((removeNullUnionBranch n v).getD v) d = some true → b = true) := by
            split at hr
            · rename_i x hx
              simp only [Option.some.injEq] at hr
              subst hr
              -- exactly one non-null variant
              have hone : ∃ v0, vs.filter (fun v => !isNullDef v) = [v0] ∧ x = (removeNullUnionBranch n v0).getD v0 := by
                cases hf : vs.filter (fun v => !isNullDef v) with
                | nil => rw [hf] at hx; simp at hx
                | cons v0 rest =>
                  rw [hf] at hx
                  cases rest with
                  | nil => simp only [List.map_cons, List.map_nil, List.cons.injEq, and_true] at hx; exact ⟨v0, rfl, hx.symm⟩
                  | cons _ _ => simp at hx
              obtain ⟨v0, hf, rfl⟩ := hone
              have hmem : ∀ v ∈ vs, isNullDef v = false → v = v0 := by
                intro v hv' hnv
                have : v ∈ vs.filter (fun v => !isNullDef v) := List.mem_filter.2 ⟨hv', by simp [hnv]⟩
                rw [hf] at this
                simpa using this
              have hv0 : v0 ∈ vs ∧ isNullDef v0 = false := by
                have : v0 ∈ vs.filter (fun v => !isNullDef v) := by rw [hf]; simp
                have := List.mem_filter.1 this
                exact ⟨this.1, by simpa using this.2⟩
              refine ⟨k, ?_, ?_, ?_⟩
              · intro v hv' hnv; rw [hmem v hv' hnv]; exact ⟨b, hv⟩
              · intro hb; subst hb; exact ⟨v0, hv0.1, hv0.2, hv⟩
              · intro v hv' hnv h1; rw [hmem v hv' hnv, hv] at h1; simpa using h1
            · simp only [Option.some.injEq] at hr
              subst hr
              cases k with
              | zero => simp [valid] at hv
              | succ k0 =>
                have hv2 : validG P (valid P k0) (lookupProp (setProp kvs "anyOf"
                    (.arr ((vs.filter (fun v => !isNullDef v)).map (fun v => (removeNullUnionBranch n v).getD v))))) d = some b := hv
                rw [validG_anyOf (ss := (vs.filter (fun v => !isNullDef v)).map (fun v => (removeNullUnionBranch n v).getD v))] at hv2
                · rw [List.map_map] at hv2
                  obtain ⟨h1, h2, h3⟩ := anyO_map_spec hv2
                  refine ⟨k0, ?_, ?_, ?_⟩
                  · intro v hv' hnv
                    exact h1 v (List.mem_filter.2 ⟨hv', by simp [hnv]⟩)
                  · intro hb
                    obtain ⟨v, hvm, e⟩ := h2 hb
                    have := List.mem_filter.1 hvm
                    exact ⟨v, this.1, by simpa using this.2, e⟩
                  · intro v hv' hnv e
                    exact h3 v (List.mem_filter.2 ⟨hv', by simp [hnv]⟩) e
                · intro key hk
                  rw [lookup_setProp]
                  by_cases e : key = "anyOf"
                  · simp [e]
                  · simp only [e, if_false]
                    simp only [pureS, ha, Bool.and_eq_true, List.all_eq_true] at hp0
                    simpa using hp0.1 key (mem_vkeys_filter hk e)
          obtain ⟨k0, fD, fE1, fE2⟩ := facts
          -- every variant has a verdict, at a common fuel
          have hall : ∀ v ∈ vs, ∃ k' b', valid P k' v d = some b' ∧
              ((isNullDef v = true → b' = typeOk "null" d) ∧
               (isNullDef v = false → ∃ bx, valid P k0 ((removeNullUnionBranch n v).getD v) d = some bx ∧
                  (b' = bx ∨ b' = (bx || typeOk "null" d)))) := by
            intro v hv'
            cases hnv : isNullDef v with
            | true =>
              have hs : nullSimple v = true := by simpa [hnv] using hvs v hv'
              exact ⟨1, _, valid_nullSimple P hnv hs 0 d, ⟨fun _ => rfl, fun h => Bool.noConfusion h⟩⟩
            | false =>
              obtain ⟨bx, hbx⟩ := fD v hv' hnv
              obtain ⟨k', b', h1, h2⟩ := stepA v hv' hnv k0 bx hbx
              exact ⟨k', b', h1, ⟨fun h => Bool.noConfusion h, fun _ => ⟨bx, hbx, h2⟩⟩⟩
          obtain ⟨K, hK1, hK⟩ := common_fuel P d _ vs hall
          refine ⟨K + 1, ?_⟩
          rw [valid_pure_anyOf P ha hp0]
          apply anyO_eq_of
          · intro x hx
            obtain ⟨b', h1, _⟩ := hK x hx
            exact ⟨b', h1⟩
          · intro hT
            rw [Bool.or_eq_true] at hT
            rcases hT with hb | hN
            · obtain ⟨v, hv', hnv, e⟩ := fE1 hb
              obtain ⟨b', h1, _, h3⟩ := hK v hv'
              obtain ⟨bx, hbx, hor⟩ := h3 hnv
              rw [e] at hbx
              simp only [Option.some.injEq] at hbx
              subst hbx
              refine ⟨v, hv', ?_⟩
              rcases hor with rfl | rfl <;> simpa using h1
            · obtain ⟨v, hv', hnv⟩ := hnull
              obtain ⟨b', h1, h2, _⟩ := hK v hv'
              rw [h2 hnv, hN] at h1
              exact ⟨v, hv', h1⟩
          · intro x hx e
            obtain ⟨b', h1, h2, h3⟩ := hK x hx
            rw [e] at h1
            simp only [Option.some.injEq] at h1
            subst h1
            rw [Bool.or_eq_true]
            cases hnv : isNullDef x with
            | true => exact Or.inr (h2 hnv).symm
            | false =>
              obtain ⟨bx, hbx, hor⟩ := h3 hnv
              cases bx with
              | true => exact Or.inl (fE2 x hx hnv hbx)
              | false =>
                rcases hor with h | h
                · cases h
                · right; simpa using h.symm
        | _ => simp [pureS, ha] at hp
    | _ => simp [removeNullUnionBranch] at hr

end BeffVerif.C02F
