import BeffVerif.Props.C02Eval
import BeffVerif.Model.Validate
/-!
# C02 — soundness of the emitted schema on a structural fragment (flat `schema()`)
-/
namespace BeffVerif.C02F
open BeffVerif RT JsVal JS C02E

/-! ### object literals of the printer -/

theorem lookupProp_nil (k : String) : lookupProp [] k = none := rfl

theorem lookupProp_cons (p : String × JsVal) (ps : List (String × JsVal)) (k : String) :
    lookupProp (p :: ps) k = if p.1 = k then some p.2 else lookupProp ps k := by
  unfold lookupProp
  rw [List.find?_cons]
  by_cases h : p.1 = k
  · have : (p.1 == k) = true := by simpa using h
    simp [this, h]
  · have : (p.1 == k) = false := by simpa using h
    simp [this, h]

theorem lookupProp_append (a b : List (String × JsVal)) (k : String) :
    lookupProp (a ++ b) k = (lookupProp a k).or (lookupProp b k) := by
  induction a with
  | nil => simp [lookupProp_nil]
  | cons p a ih =>
    rw [List.cons_append, lookupProp_cons, lookupProp_cons, ih]
    by_cases h : p.1 = k <;> simp [h]

theorem lookupProp_none_of_not_any {ps : List (String × JsVal)} {k : String}
    (h : ps.any (fun p => p.1 == k) = false) : lookupProp ps k = none := by
  induction ps with
  | nil => rfl
  | cons p ps ih =>
    rw [List.any_cons, Bool.or_eq_false_iff] at h
    rw [lookupProp_cons, ih h.2]
    have : ¬ p.1 = k := by simpa using h.1
    simp [this]

theorem lookup_map_replace (ps : List (String × JsVal)) (k : String) (v : JsVal) (k' : String) :
    lookupProp (ps.map (fun p => if p.1 == k then (k, v) else p)) k' =
      if k' = k then (if ps.any (fun p => p.1 == k) then some v else none) else lookupProp ps k' := by
  induction ps with
  | nil => simp [lookupProp_nil]
  | cons p ps ih =>
    rw [List.map_cons, lookupProp_cons, ih, lookupProp_cons, List.any_cons]
    by_cases hp : p.1 = k
    · by_cases hk : k' = k
      · subst hk; simp [hp]
      · have : ¬ k = k' := fun e => hk e.symm
        simp [hp, hk, this]
    · have hpb : (p.1 == k) = false := by simpa using hp
      by_cases hk : k' = k
      · subst hk; rw [hpb, Bool.false_or]; simp [hp]
      · simp [hp, hk, hpb]

theorem lookup_insert_mid (a b : List (String × JsVal)) (k : String) (v : JsVal) (k' : String)
    (hk : (a ++ b).any (fun p => p.1 == k) = false) :
    lookupProp (a ++ [(k, v)] ++ b) k' = if k' = k then some v else lookupProp (a ++ b) k' := by
  rw [List.any_append, Bool.or_eq_false_iff] at hk
  rw [lookupProp_append, lookupProp_append, lookupProp_append, lookupProp_cons, lookupProp_nil]
  by_cases h : k' = k
  · subst h; rw [lookupProp_none_of_not_any hk.1]; simp
  · have : ¬ k = k' := fun e => h e.symm
    simp [h, this]

/-- what a property write does to a later lookup -/
theorem lookup_setProp (ps : List (String × JsVal)) (k : String) (v : JsVal) (k' : String) :
    lookupProp (setProp ps k v) k' = if k' = k then some v else lookupProp ps k' := by
  unfold setProp
  split
  · rename_i h
    rw [lookup_map_replace]
    by_cases hk : k' = k <;> simp [hk, h]
  · rename_i h
    have h : ps.any (fun p => p.1 == k) = false := by
      cases hb : ps.any (fun p => p.1 == k) with
      | false => rfl
      | true => exact absurd hb h
    split
    · refine (lookup_insert_mid _ _ k v k' ?_).trans ?_
      · rw [List.takeWhile_append_dropWhile]; exact h
      · rw [List.takeWhile_append_dropWhile]
    · have := lookup_insert_mid ps [] k v k' (by rw [List.append_nil]; exact h)
      simpa using this

/-! ### the evaluator on the printer's object literals -/

theorem valid_jobj (P : Params) (k : Nat) (L : List (String × JsVal)) (d : JsVal) :
    valid P (k+1) (jobj L) d = validG P (valid P k) (lookupProp (L.foldl (fun acc kv => setProp acc kv.1 kv.2) [])) d := rfl

/-- the keywords the evaluator reads -/
def vkeys : List String := ["type", "const", "enum", "anyOf", "oneOf", "allOf", "not", "$ref", "pattern", "format", "properties",
  "required", "additionalProperties", "propertyNames", "prefixItems", "items", "minItems"]

theorem validG_congr {P : Params} {v : JsVal → JsVal → Option Bool} {get get' : String → Option JsVal} {d : JsVal}
    (h : ∀ k ∈ vkeys, get k = get' k) : validG P v get d = validG P v get' d := by
  have h1 := h "type" (by simp [vkeys])
  have h2 := h "const" (by simp [vkeys])
  have h3 := h "enum" (by simp [vkeys])
  have h4 := h "anyOf" (by simp [vkeys])
  have h5 := h "oneOf" (by simp [vkeys])
  have h6 := h "allOf" (by simp [vkeys])
  have h7 := h "not" (by simp [vkeys])
  have h8 := h "$ref" (by simp [vkeys])
  have h9 := h "pattern" (by simp [vkeys])
  have h10 := h "format" (by simp [vkeys])
  have h11 := h "properties" (by simp [vkeys])
  have h12 := h "required" (by simp [vkeys])
  have h13 := h "additionalProperties" (by simp [vkeys])
  have h14 := h "propertyNames" (by simp [vkeys])
  have h15 := h "prefixItems" (by simp [vkeys])
  have h16 := h "items" (by simp [vkeys])
  have h17 := h "minItems" (by simp [vkeys])
  simp only [validG, cType, cConst, cEnum, cAny, cOne, cAll, cNot, cRef, cPattern, cFormat, cObj, cArr, declaredOf, prefixOf,
    h1, h2, h3, h4, h5, h6, h7, h8, h9, h10, h11, h12, h13, h14, h15, h16, h17]

/-- an annotation does not change a verdict -/
theorem valid_annotate (P : Params) (k : Nat) (desc : Option String) (s d : JsVal) :
    valid P k (annotate desc s) d = valid P k s d := by
  cases desc with
  | none => rfl
  | some x =>
    cases s <;> try rfl
    rename_i kvs
    cases k with
    | zero => rfl
    | succ k =>
      show validG P (valid P k) (lookupProp (setProp kvs "description" (.str x))) d = validG P (valid P k) (lookupProp kvs) d
      apply validG_congr
      intro key hk
      rw [lookup_setProp]
      have : key ≠ "description" := by
        intro e; subst e; simp [vkeys] at hk
      simp [this]

theorem allO_nil : allO [] = some true := rfl

/-- `{type: t}` -/
theorem valid_type_true {P : Params} {k : Nat} {t : String} {d : JsVal}
    (h : valid P (k+1) (jobj [("type", .str t)]) d = some true) : typeOk t d = true := by
  rw [valid_jobj] at h
  simp only [List.foldl] at h
  generalize hg : lookupProp (setProp [] "type" (.str t)) = get at h
  have g1 : ∀ k', get k' = if k' = "type" then some (.str t) else none := by
    intro k'; rw [← hg, lookup_setProp, lookupProp_nil]
  simp only [validG, cType, cConst, cEnum, cAny, cOne, cAll, cNot, cRef, cPattern, cFormat, cObj, cArr, declaredOf, prefixOf, g1] at h
  simp at h
  rw [allO_true_iff] at h
  simpa using h _ List.mem_cons_self

/-- `{}` answers as soon as there is fuel -/
theorem valid_empty' (P : Params) (k : Nat) (d : JsVal) : valid P (k+1) (jobj []) d = some true := by
  rw [valid_jobj]
  simp only [List.foldl]
  simp only [validG, cType, cConst, cEnum, cAny, cOne, cAll, cNot, cRef, cPattern, cFormat, cObj, cArr, declaredOf, prefixOf, lookupProp_nil]
  cases d <;> simp [allO, andO]

/-- `{not: {}}` -/
theorem valid_never_true {P : Params} {k : Nat} {d : JsVal}
    (h : valid P k (jobj [("not", jobj [])]) d = some true) : False := by
  cases k with
  | zero => simp [valid] at h
  | succ k =>
    rw [valid_jobj] at h
    simp only [List.foldl] at h
    generalize hg : lookupProp (setProp [] "not" (jobj [])) = get at h
    have g1 : ∀ k', get k' = if k' = "not" then some (jobj []) else none := by
      intro k'; rw [← hg, lookup_setProp, lookupProp_nil]
    simp only [validG, cType, cConst, cEnum, cAny, cOne, cAll, cNot, cRef, cPattern, cFormat, cObj, cArr, declaredOf, prefixOf, g1] at h
    simp at h
    rw [allO_true_iff] at h
    have h7 := h (Option.map (fun x => !x) (valid P k (jobj []) d)) (by simp)
    cases k with
    | zero => simp [valid] at h7
    | succ k => rw [valid_empty'] at h7; simp at h7

/-- `{const: c}` -/
theorem valid_const_true {P : Params} {k : Nat} {c d : JsVal}
    (h : valid P (k+1) (jobj [("const", c)]) d = some true) : jsonEq 50 c d = true := by
  rw [valid_jobj] at h
  simp only [List.foldl] at h
  generalize hg : lookupProp (setProp [] "const" c) = get at h
  have g1 : ∀ k', get k' = if k' = "const" then some c else none := by
    intro k'; rw [← hg, lookup_setProp, lookupProp_nil]
  simp only [validG, cType, cConst, cEnum, cAny, cOne, cAll, cNot, cRef, cPattern, cFormat, cObj, cArr, declaredOf, prefixOf, g1] at h
  simp at h
  rw [allO_true_iff] at h
  simpa using h (some (jsonEq 50 c d)) (by simp)

/-- `{enum: vs}` -/
theorem valid_enum_true {P : Params} {k : Nat} {vs : List JsVal} {d : JsVal}
    (h : valid P (k+1) (jobj [("enum", .arr vs)]) d = some true) : vs.any (fun c => jsonEq 50 c d) = true := by
  rw [valid_jobj] at h
  simp only [List.foldl] at h
  generalize hg : lookupProp (setProp [] "enum" (.arr vs)) = get at h
  have g1 : ∀ k', get k' = if k' = "enum" then some (.arr vs) else none := by
    intro k'; rw [← hg, lookup_setProp, lookupProp_nil]
  simp only [validG, cType, cConst, cEnum, cAny, cOne, cAll, cNot, cRef, cPattern, cFormat, cObj, cArr, declaredOf, prefixOf, g1] at h
  simp at h
  rw [allO_true_iff] at h
  simpa using h (some (vs.any (fun c => jsonEq 50 c d))) (by simp)

/-- `{type: tp, enum: vs}` -/
theorem valid_type_enum_true {P : Params} {k : Nat} {tp : String} {vs : List JsVal} {d : JsVal}
    (h : valid P (k+1) (jobj [("type", .str tp), ("enum", .arr vs)]) d = some true) :
    vs.any (fun c => jsonEq 50 c d) = true := by
  rw [valid_jobj] at h
  simp only [List.foldl] at h
  generalize hg : lookupProp (setProp (setProp [] "type" (.str tp)) "enum" (.arr vs)) = get at h
  have g1 : ∀ k', get k' = if k' = "enum" then some (.arr vs) else if k' = "type" then some (.str tp) else none := by
    intro k'; rw [← hg, lookup_setProp, lookup_setProp, lookupProp_nil]
  simp only [validG, cType, cConst, cEnum, cAny, cOne, cAll, cNot, cRef, cPattern, cFormat, cObj, cArr, declaredOf, prefixOf, g1] at h
  simp at h
  rw [allO_true_iff] at h
  simpa using h (some (vs.any (fun c => jsonEq 50 c d))) (by simp)

/-- `{anyOf: ss}` -/
theorem valid_anyOf_eq (P : Params) (k : Nat) (ss : List JsVal) (d : JsVal) :
    valid P (k+1) (jobj [("anyOf", .arr ss)]) d = anyO (ss.map (fun s => valid P k s d)) := by
  rw [valid_jobj]
  simp only [List.foldl]
  generalize hg : lookupProp (setProp [] "anyOf" (.arr ss)) = get
  have g1 : ∀ k', get k' = if k' = "anyOf" then some (.arr ss) else none := by
    intro k'; rw [← hg, lookup_setProp, lookupProp_nil]
  simp only [validG, cType, cConst, cEnum, cAny, cOne, cAll, cNot, cRef, cPattern, cFormat, cObj, cArr, declaredOf, prefixOf, g1]
  simp
  cases anyO (ss.map (fun s => valid P k s d)) <;> cases d <;> simp [allO, andO]

theorem valid_anyOf_true {P : Params} {k : Nat} {ss : List JsVal} {d : JsVal}
    (h : valid P (k+1) (jobj [("anyOf", .arr ss)]) d = some true) : ∃ s ∈ ss, valid P k s d = some true := by
  rw [valid_anyOf_eq] at h
  obtain ⟨⟨x, hx, e⟩, _⟩ := anyO_true h
  obtain ⟨s, hs, rfl⟩ := List.mem_map.1 hx
  exact ⟨s, hs, e⟩

/-- `{type: "array", items: s}` -/
theorem valid_array_true {P : Params} {k : Nat} {s d : JsVal}
    (h : valid P (k+1) (jobj [("type", .str "array"), ("items", s)]) d = some true) :
    ∃ items, d = .arr items ∧ ∀ x ∈ items, valid P k s x = some true := by
  rw [valid_jobj] at h
  simp only [List.foldl] at h
  generalize hg : lookupProp (setProp (setProp [] "type" (.str "array")) "items" s) = get at h
  have g1 : ∀ k', get k' = if k' = "items" then some s else if k' = "type" then some (.str "array") else none := by
    intro k'; rw [← hg, lookup_setProp, lookup_setProp, lookupProp_nil]
  simp only [validG, cType, cConst, cEnum, cAny, cOne, cAll, cNot, cRef, cPattern, cFormat, cObj, cArr, declaredOf, prefixOf, g1] at h
  simp at h
  rw [allO_true_iff] at h
  have ht := h (some (typeOk "array" d)) (by simp)
  cases d <;> simp [typeOk] at ht
  rename_i items
  refine ⟨items, rfl, ?_⟩
  have ha := h (allO [allO [], allO (List.map (fun x => valid P k s x) items), some true]) (by simp)
  rw [allO_true_iff] at ha
  have hi := ha (allO (List.map (fun x => valid P k s x) items)) (by simp)
  rw [allO_true_iff] at hi
  intro x hx
  exact hi _ (List.mem_map.2 ⟨x, hx, rfl⟩)

theorem parseNat_canon (n : Nat) : parseNat (natToCanon n) = n := by
  unfold parseNat natToCanon
  show (Nat.repr n).toList.foldl (fun acc ch => 10 * acc + (ch.toNat - 48)) 0 = n
  rw [Nat.toList_repr]
  exact Nat.ofDigitChars_ten_toDigits

/-- the tuple schema -/
theorem valid_tuple_true {P : Params} {k : Nat} {ps : List JsVal} {items : JsVal} {n : Nat} {d : JsVal}
    (h : valid P (k+1) (jobj ([("type", JsVal.str "array")] ++ (if ps.length > 0 then [("prefixItems", JsVal.arr ps)] else []) ++
      [("items", items), ("minItems", JsVal.num (natToCanon n))])) d = some true) :
    ∃ xs, d = .arr xs ∧ (∀ p ∈ ps.zip xs, valid P k p.1 p.2 = some true) ∧
      (∀ x ∈ xs.drop ps.length, valid P k items x = some true) ∧ n ≤ xs.length := by
  rw [valid_jobj] at h
  by_cases hp : ps.length > 0
  · simp only [hp, if_true, List.cons_append, List.nil_append, List.foldl] at h
    generalize hg : lookupProp (setProp (setProp (setProp (setProp [] "type" (.str "array")) "prefixItems" (.arr ps)) "items" items)
      "minItems" (.num (natToCanon n))) = get at h
    have g1 : ∀ k', get k' = if k' = "minItems" then some (.num (natToCanon n)) else if k' = "items" then some items
        else if k' = "prefixItems" then some (.arr ps) else if k' = "type" then some (.str "array") else none := by
      intro k'; rw [← hg, lookup_setProp, lookup_setProp, lookup_setProp, lookup_setProp, lookupProp_nil]
    simp only [validG, cType, cConst, cEnum, cAny, cOne, cAll, cNot, cRef, cPattern, cFormat, cObj, cArr, declaredOf, prefixOf, g1] at h
    simp at h
    rw [allO_true_iff] at h
    have ht := h (some (typeOk "array" d)) (by simp)
    cases d <;> simp [typeOk] at ht
    rename_i xs
    have ha := h (allO [allO (List.map (fun p => valid P k p.1 p.2) (ps.zip xs)),
      allO (List.map (fun x => valid P k items x) (xs.drop ps.length)), some (decide (parseNat (natToCanon n) ≤ xs.length))]) (by simp)
    rw [allO_true_iff] at ha
    have h1 := ha _ List.mem_cons_self
    have h2 := ha (allO (List.map (fun x => valid P k items x) (xs.drop ps.length))) (by simp)
    have h3 := ha (some (decide (parseNat (natToCanon n) ≤ xs.length))) (by simp)
    rw [allO_true_iff] at h1 h2
    rw [parseNat_canon] at h3
    refine ⟨xs, rfl, fun p hp' => h1 _ (List.mem_map.2 ⟨p, hp', rfl⟩), fun x hx => h2 _ (List.mem_map.2 ⟨x, hx, rfl⟩), by simpa using h3⟩
  · have hnil : ps = [] := by
      cases ps with
      | nil => rfl
      | cons _ _ => simp at hp
    subst hnil
    simp only [List.length_nil, Nat.lt_irrefl, if_false, List.cons_append, List.nil_append, List.append_nil, List.foldl] at h
    generalize hg : lookupProp (setProp (setProp (setProp [] "type" (.str "array")) "items" items)
      "minItems" (.num (natToCanon n))) = get at h
    have g1 : ∀ k', get k' = if k' = "minItems" then some (.num (natToCanon n)) else if k' = "items" then some items
        else if k' = "type" then some (.str "array") else none := by
      intro k'; rw [← hg, lookup_setProp, lookup_setProp, lookup_setProp, lookupProp_nil]
    simp only [validG, cType, cConst, cEnum, cAny, cOne, cAll, cNot, cRef, cPattern, cFormat, cObj, cArr, declaredOf, prefixOf, g1] at h
    simp at h
    rw [allO_true_iff] at h
    have ht := h (some (typeOk "array" d)) (by simp)
    cases d <;> simp [typeOk] at ht
    rename_i xs
    have ha := h (allO [allO [],
      allO (List.map (fun x => valid P k items x) xs), some (decide (parseNat (natToCanon n) ≤ xs.length))]) (by simp)
    rw [allO_true_iff] at ha
    have h2 := ha (allO (List.map (fun x => valid P k items x) xs)) (by simp)
    have h3 := ha (some (decide (parseNat (natToCanon n) ≤ xs.length))) (by simp)
    rw [allO_true_iff] at h2
    rw [parseNat_canon] at h3
    refine ⟨xs, rfl, by simp, fun x hx => h2 _ (List.mem_map.2 ⟨x, by simpa using hx, rfl⟩), by simpa using h3⟩

theorem valid_false_ne_true (P : Params) (k : Nat) (d : JsVal) : valid P k (.bool false) d ≠ some true := by
  cases k <;> simp [valid]

/-- the closed object schema -/
theorem valid_object_true {P : Params} {k : Nat} {ps : List (String × JsVal)} {required : List String} {d : JsVal}
    (h : valid P (k+1) (jobj ([("type", JsVal.str "object"), ("properties", JsVal.obj ps)] ++
      (if required.length > 0 then [("required", JsVal.arr (required.map JsVal.str))] else []) ++
      [("additionalProperties", JsVal.bool false)])) d = some true) :
    ∃ props, d = .obj props ∧ (∀ p ∈ ps, ∀ x, lookupProp props p.1 = some x → valid P k p.2 x = some true) ∧
      (∀ r ∈ required, (lookupProp props r).isSome = true) ∧ (∀ q ∈ props, ps.any (fun p => p.1 == q.1) = true) := by
  rw [valid_jobj] at h
  have key : ∀ (d : JsVal) (get : String → Option JsVal), get "type" = some (.str "object") → get "properties" = some (.obj ps) →
      get "additionalProperties" = some (.bool false) → get "propertyNames" = none →
      (get "required" = some (.arr (required.map JsVal.str)) ∨ (get "required" = none ∧ required = [])) →
      validG P (valid P k) get d = some true →
      ∃ props, d = .obj props ∧ (∀ p ∈ ps, ∀ x, lookupProp props p.1 = some x → valid P k p.2 x = some true) ∧
        (∀ r ∈ required, (lookupProp props r).isSome = true) ∧ (∀ q ∈ props, ps.any (fun p => p.1 == q.1) = true) := by
    intro d get g1 g2 g3 g4 g5 h
    unfold validG at h
    rw [allO_true_iff] at h
    have ht := h (cType get d) (by simp)
    simp only [cType, g1] at ht
    cases d <;> simp [typeOk] at ht
    rename_i props
    have ho := h (cObj (valid P k) get (.obj props)) (by simp)
    simp only [cObj, declaredOf, g2, g3, g4] at ho
    rw [allO_true_iff] at ho
    have h1 := ho _ List.mem_cons_self
    have h2 := ho _ (List.mem_cons_of_mem _ List.mem_cons_self)
    have h3 := ho _ (List.mem_cons_of_mem _ (List.mem_cons_of_mem _ List.mem_cons_self))
    rw [allO_true_iff] at h1 h3
    refine ⟨props, rfl, ?_, ?_, ?_⟩
    · intro p hp x hx
      have := h1 _ (List.mem_map.2 ⟨p, hp, rfl⟩)
      simpa [hx] using this
    · intro r hr
      rcases g5 with g5 | ⟨_, g5⟩
      · rw [g5] at h2
        simp only [Option.some.injEq, List.all_eq_true] at h2
        have := h2 (.str r) (List.mem_map.2 ⟨r, hr, rfl⟩)
        simpa using this
      · subst g5; simp at hr
    · intro q hq
      cases hb : ps.any (fun p => p.1 == q.1) with
      | true => rfl
      | false =>
        have hm : q ∈ props.filter (fun p => !(ps.any (fun q => q.1 == p.1))) := by
          rw [List.mem_filter]; exact ⟨hq, by simp [hb]⟩
        exact absurd (h3 _ (List.mem_map.2 ⟨q, hm, rfl⟩)) (valid_false_ne_true P k _)
  by_cases hr : required.length > 0
  · simp only [hr, if_true, List.cons_append, List.nil_append, List.foldl] at h
    refine key d _ ?_ ?_ ?_ ?_ (Or.inl ?_) h <;>
      simp [lookup_setProp, lookupProp_nil]
  · have hnil : required = [] := by
      cases required with
      | nil => rfl
      | cons _ _ => simp at hr
    subst hnil
    simp only [List.length_nil, Nat.lt_irrefl, if_false, List.cons_append, List.nil_append, List.append_nil, List.foldl] at h
    refine key d _ ?_ ?_ ?_ ?_ (Or.inr ⟨?_, rfl⟩) h <;>
      simp [lookup_setProp, lookupProp_nil]

/-! ### `removeNullUnionBranch`: the verdict changes on `null` only -/

theorem validG_anyOf {P : Params} {v : JsVal → JsVal → Option Bool} {get : String → Option JsVal} {ss : List JsVal} {d : JsVal}
    (h : ∀ k ∈ vkeys, get k = if k = "anyOf" then some (.arr ss) else none) :
    validG P v get d = anyO (ss.map (fun s => v s d)) := by
  rw [validG_congr h]
  simp only [validG, cType, cConst, cEnum, cAny, cOne, cAll, cNot, cRef, cPattern, cFormat, cObj, cArr, declaredOf, prefixOf]
  simp
  cases anyO (ss.map (fun s => v s d)) <;> cases d <;> simp [allO, andO]

theorem validG_type {P : Params} {v : JsVal → JsVal → Option Bool} {get : String → Option JsVal} {t : String} {d : JsVal}
    (h : ∀ k ∈ vkeys, get k = if k = "type" then some (.str t) else none) :
    validG P v get d = some (typeOk t d) := by
  rw [validG_congr h]
  simp only [validG, cType, cConst, cEnum, cAny, cOne, cAll, cNot, cRef, cPattern, cFormat, cObj, cArr, declaredOf, prefixOf]
  simp
  cases d <;> simp [allO, andO]

/-- a null definition that carries nothing but its `type` -/
def nullSimple : JsVal → Bool
  | .obj kvs => (vkeys.filter (· != "type")).all (fun k => (lookupProp kvs k).isNone)
  | _ => false

/-- the shape `removeNullUnionBranch` is meaning-preserving on: an `anyOf` stands alone in its object, null definitions
carry only their type, hereditarily through the variants -/
def pureS : Nat → JsVal → Bool
  | 0, _ => true
  | n+1, .obj kvs =>
    match lookupProp kvs "anyOf" with
    | some (.arr vs) => (vkeys.filter (· != "anyOf")).all (fun k => (lookupProp kvs k).isNone) &&
        vs.all (fun v => if isNullDef v then nullSimple v else pureS n v)
    | some _ => false
    | none => (lookupProp kvs "oneOf").isNone
  | _+1, _ => true

theorem isNullDef_type {s : JsVal} (h : isNullDef s = true) : ∃ kvs, s = .obj kvs ∧ lookupProp kvs "type" = some (.str "null") := by
  cases s with
  | obj kvs =>
    refine ⟨kvs, rfl, ?_⟩
    simp only [isNullDef] at h
    split at h
    · rename_i heq; exact heq
    · cases h
  | _ => simp [isNullDef] at h

theorem mem_vkeys_filter {k x : String} (hk : k ∈ vkeys) (hx : k ≠ x) : k ∈ vkeys.filter (· != x) := by
  rw [List.mem_filter]; exact ⟨hk, by simpa using hx⟩

/-- a simple null definition answers `d is null` as soon as there is fuel -/
theorem valid_nullSimple (P : Params) {s : JsVal} (h1 : isNullDef s = true) (h2 : nullSimple s = true) (k : Nat) (d : JsVal) :
    valid P (k+1) s d = some (typeOk "null" d) := by
  obtain ⟨kvs, rfl, ht⟩ := isNullDef_type h1
  show validG P (valid P k) (lookupProp kvs) d = _
  apply validG_type
  intro key hk
  by_cases e : key = "type"
  · subst e; simpa using ht
  · simp only [e, if_false]
    unfold nullSimple at h2
    rw [List.all_eq_true] at h2
    simpa using h2 key (mem_vkeys_filter hk e)

/-- the verdict of a pure `anyOf` object -/
theorem valid_pure_anyOf (P : Params) {n : Nat} {kvs : List (String × JsVal)} {vs : List JsVal}
    (ha : lookupProp kvs "anyOf" = some (.arr vs)) (hp : pureS (n+1) (.obj kvs) = true) (k : Nat) (d : JsVal) :
    valid P (k+1) (.obj kvs) d = anyO (vs.map (fun s => valid P k s d)) := by
  show validG P (valid P k) (lookupProp kvs) d = _
  apply validG_anyOf
  intro key hk
  by_cases e : key = "anyOf"
  · subst e; simpa using ha
  · simp only [e, if_false]
    simp only [pureS, ha, Bool.and_eq_true] at hp
    have := hp.1
    rw [List.all_eq_true] at this
    simpa using this key (mem_vkeys_filter hk e)

/-- verdicts found at various fuels are found at a common one -/
theorem common_fuel (P : Params) (d : JsVal) (Q : JsVal → Bool → Prop) :
    ∀ (l : List JsVal), (∀ v ∈ l, ∃ k b, valid P k v d = some b ∧ Q v b) →
      ∃ K, 1 ≤ K ∧ ∀ v ∈ l, ∃ b, valid P K v d = some b ∧ Q v b := by
  intro l
  induction l with
  | nil => intro _; exact ⟨1, Nat.le_refl _, by simp⟩
  | cons x xs ih =>
    intro h
    obtain ⟨K, hK1, hK⟩ := ih (fun v hv => h v (List.mem_cons_of_mem _ hv))
    obtain ⟨k, b, hb, hq⟩ := h x List.mem_cons_self
    refine ⟨max K k, Nat.le_trans hK1 (Nat.le_max_left _ _), ?_⟩
    intro v hv
    rcases List.mem_cons.1 hv with rfl | hv
    · exact ⟨b, valid_mono_le P (Nat.le_max_right _ _) _ _ _ hb, hq⟩
    · obtain ⟨b', hb', hq'⟩ := hK v hv
      exact ⟨b', valid_mono_le P (Nat.le_max_left _ _) _ _ _ hb', hq'⟩

theorem anyO_eq_of {α : Type} (l : List α) (f : α → Option Bool) (T : Bool) (hdef : ∀ x ∈ l, ∃ b, f x = some b)
    (h1 : T = true → ∃ x ∈ l, f x = some true) (h2 : ∀ x ∈ l, f x = some true → T = true) :
    anyO (l.map f) = some T := by
  have e : l.map f = (l.map (fun x => (f x).getD false)).map some := by
    rw [List.map_map]
    apply List.map_congr_left
    intro x hx
    obtain ⟨b, hb⟩ := hdef x hx
    simp [hb]
  rw [e, anyO_map_some]
  congr 1
  rw [Bool.eq_iff_iff]
  constructor
  · intro h
    simp only [List.any_eq_true, List.mem_map, id] at h
    obtain ⟨b, ⟨x, hx, rfl⟩, hb⟩ := h
    obtain ⟨b', hb'⟩ := hdef x hx
    rw [hb'] at hb
    simp only [Option.getD_some] at hb
    exact h2 x hx (by rw [hb', hb])
  · intro h
    obtain ⟨x, hx, e'⟩ := h1 h
    simp only [List.any_eq_true, List.mem_map, id]
    exact ⟨true, ⟨x, hx, by simp [e']⟩, rfl⟩

theorem anyO_map_spec {α : Type} {l : List α} {f : α → Option Bool} {b : Bool} (h : anyO (l.map f) = some b) :
    (∀ x ∈ l, ∃ c, f x = some c) ∧ (b = true → ∃ x ∈ l, f x = some true) ∧ (∀ x ∈ l, f x = some true → b = true) := by
  obtain ⟨bs, e⟩ := anyO_strict h
  have hdef : ∀ x ∈ l, ∃ c, f x = some c := by
    intro x hx
    have : f x ∈ l.map f := List.mem_map.2 ⟨x, hx, rfl⟩
    rw [e] at this
    obtain ⟨c, _, hc⟩ := List.mem_map.1 this
    exact ⟨c, hc.symm⟩
  refine ⟨hdef, ?_, ?_⟩
  · intro hb; subst hb
    obtain ⟨⟨y, hy, e'⟩, _⟩ := anyO_true h
    obtain ⟨x, hx, rfl⟩ := List.mem_map.1 hy
    exact ⟨x, hx, e'⟩
  · intro x hx hfx
    rw [e, anyO_map_some] at h
    simp only [Option.some.injEq] at h
    rw [← h, List.any_eq_true]
    have : f x ∈ l.map f := List.mem_map.2 ⟨x, hx, rfl⟩
    rw [e, hfx] at this
    obtain ⟨c, hc, hc'⟩ := List.mem_map.1 this
    simp only [Option.some.injEq] at hc'
    exact ⟨c, hc, by simp [hc']⟩

/-- **`removeNullUnionBranch` changes the verdict on `null` only** (for the shapes the printer produces) -/
theorem rnb_sem (P : Params) : ∀ n s r, pureS n s = true → removeNullUnionBranch n s = some r →
    ∀ k d b, valid P k r d = some b → ∃ k', valid P k' s d = some (b || typeOk "null" d) := by
  intro n
  induction n with
  | zero => intro s r _ h; simp [removeNullUnionBranch] at h
  | succ n ih =>
    intro s r hp hr k d b hv
    cases s with
    | obj kvs =>
      cases ha : lookupProp kvs "anyOf" with
      | none =>
        simp only [pureS, ha] at hp
        have ho : lookupProp kvs "oneOf" = none := by simpa using hp
        simp [removeNullUnionBranch, ha, ho] at hr
      | some a =>
        cases a with
        | arr vs =>
          have hp0 := hp
          simp only [pureS, ha, Bool.and_eq_true, List.all_eq_true] at hp
          obtain ⟨_, hvs⟩ := hp
          simp only [removeNullUnionBranch, ha, Option.isSome_some, if_true] at hr
          split at hr
          · cases hr
          rename_i hlen
          simp only [Bool.or_eq_true, beq_iff_eq, not_or] at hlen
          -- a null variant exists
          have hnull : ∃ v ∈ vs, isNullDef v = true := by
            apply Classical.byContradiction
            intro hno
            apply hlen.1
            rw [List.filter_eq_self.2]
            intro v hv'
            cases hb : isNullDef v with
            | false => rfl
            | true => exact absurd ⟨v, hv', hb⟩ hno
          -- one step of the recursion, variant by variant
          have stepA : ∀ v ∈ vs, isNullDef v = false → ∀ k0 bx,
              valid P k0 ((removeNullUnionBranch n v).getD v) d = some bx →
              ∃ k' b', valid P k' v d = some b' ∧ (b' = bx ∨ b' = (bx || typeOk "null" d)) := by
            intro v hv' hnv k0 bx hx
            have hpv : pureS n v = true := by simpa [hnv] using hvs v hv'
            cases hrv : removeNullUnionBranch n v with
            | none => rw [hrv] at hx; exact ⟨k0, bx, hx, Or.inl rfl⟩
            | some x =>
              rw [hrv] at hx
              obtain ⟨k', hk'⟩ := ih v x hpv hrv k0 d bx hx
              exact ⟨k', _, hk', Or.inr rfl⟩
          -- what the verdict of the result says about the normalized variants
          have facts : ∃ k0, (∀ v ∈ vs, isNullDef v = false → ∃ bx, valid P k0 ((removeNullUnionBranch n v).getD v) d = some bx) ∧
              (b = true → ∃ v ∈ vs, isNullDef v = false ∧ valid P k0 ((removeNullUnionBranch n v).getD v) d = some true) ∧
              (∀ v ∈ vs, isNullDef v = false → valid P k0 ((removeNullUnionBranch n v).getD v) d = some true → b = true) := by
            split at hr
            · rename_i x hx
              simp only [Option.some.injEq] at hr
              subst hr
              -- exactly one non-null variant
              have hone : ∃ v0, vs.filter (fun v => !isNullDef v) = [v0] ∧ x = (removeNullUnionBranch n v0).getD v0 := by
                cases hf : vs.filter (fun v => !isNullDef v) with
                | nil => rw [hf] at hx; simp at hx
                | cons v0 rest =>
                  rw [hf] at hx
                  cases rest with
                  | nil => simp only [List.map_cons, List.map_nil, List.cons.injEq, and_true] at hx; exact ⟨v0, rfl, hx.symm⟩
                  | cons _ _ => simp at hx
              obtain ⟨v0, hf, rfl⟩ := hone
              have hmem : ∀ v ∈ vs, isNullDef v = false → v = v0 := by
                intro v hv' hnv
                have : v ∈ vs.filter (fun v => !isNullDef v) := List.mem_filter.2 ⟨hv', by simp [hnv]⟩
                rw [hf] at this
                simpa using this
              have hv0 : v0 ∈ vs ∧ isNullDef v0 = false := by
                have : v0 ∈ vs.filter (fun v => !isNullDef v) := by rw [hf]; simp
                have := List.mem_filter.1 this
                exact ⟨this.1, by simpa using this.2⟩
              refine ⟨k, ?_, ?_, ?_⟩
              · intro v hv' hnv; rw [hmem v hv' hnv]; exact ⟨b, hv⟩
              · intro hb; subst hb; exact ⟨v0, hv0.1, hv0.2, hv⟩
              · intro v hv' hnv h1; rw [hmem v hv' hnv, hv] at h1; simpa using h1
            · simp only [Option.some.injEq] at hr
              subst hr
              cases k with
              | zero => simp [valid] at hv
              | succ k0 =>
                have hv2 : validG P (valid P k0) (lookupProp (setProp kvs "anyOf"
                    (.arr ((vs.filter (fun v => !isNullDef v)).map (fun v => (removeNullUnionBranch n v).getD v))))) d = some b := hv
                rw [validG_anyOf (ss := (vs.filter (fun v => !isNullDef v)).map (fun v => (removeNullUnionBranch n v).getD v))] at hv2
                · rw [List.map_map] at hv2
                  obtain ⟨h1, h2, h3⟩ := anyO_map_spec hv2
                  refine ⟨k0, ?_, ?_, ?_⟩
                  · intro v hv' hnv
                    exact h1 v (List.mem_filter.2 ⟨hv', by simp [hnv]⟩)
                  · intro hb
                    obtain ⟨v, hvm, e⟩ := h2 hb
                    have := List.mem_filter.1 hvm
                    exact ⟨v, this.1, by simpa using this.2, e⟩
                  · intro v hv' hnv e
                    exact h3 v (List.mem_filter.2 ⟨hv', by simp [hnv]⟩) e
                · intro key hk
                  rw [lookup_setProp]
                  by_cases e : key = "anyOf"
                  · simp [e]
                  · simp only [e, if_false]
                    simp only [pureS, ha, Bool.and_eq_true, List.all_eq_true] at hp0
                    simpa using hp0.1 key (mem_vkeys_filter hk e)
          obtain ⟨k0, fD, fE1, fE2⟩ := facts
          -- every variant has a verdict, at a common fuel
          have hall : ∀ v ∈ vs, ∃ k' b', valid P k' v d = some b' ∧
              ((isNullDef v = true → b' = typeOk "null" d) ∧
               (isNullDef v = false → ∃ bx, valid P k0 ((removeNullUnionBranch n v).getD v) d = some bx ∧
                  (b' = bx ∨ b' = (bx || typeOk "null" d)))) := by
            intro v hv'
            cases hnv : isNullDef v with
            | true =>
              have hs : nullSimple v = true := by simpa [hnv] using hvs v hv'
              exact ⟨1, _, valid_nullSimple P hnv hs 0 d, ⟨fun _ => rfl, fun h => Bool.noConfusion h⟩⟩
            | false =>
              obtain ⟨bx, hbx⟩ := fD v hv' hnv
              obtain ⟨k', b', h1, h2⟩ := stepA v hv' hnv k0 bx hbx
              exact ⟨k', b', h1, ⟨fun h => Bool.noConfusion h, fun _ => ⟨bx, hbx, h2⟩⟩⟩
          obtain ⟨K, hK1, hK⟩ := common_fuel P d _ vs hall
          refine ⟨K + 1, ?_⟩
          rw [valid_pure_anyOf P ha hp0]
          apply anyO_eq_of
          · intro x hx
            obtain ⟨b', h1, _⟩ := hK x hx
            exact ⟨b', h1⟩
          · intro hT
            rw [Bool.or_eq_true] at hT
            rcases hT with hb | hN
            · obtain ⟨v, hv', hnv, e⟩ := fE1 hb
              obtain ⟨b', h1, _, h3⟩ := hK v hv'
              obtain ⟨bx, hbx, hor⟩ := h3 hnv
              rw [e] at hbx
              simp only [Option.some.injEq] at hbx
              subst hbx
              refine ⟨v, hv', ?_⟩
              rcases hor with rfl | rfl <;> simpa using h1
            · obtain ⟨v, hv', hnv⟩ := hnull
              obtain ⟨b', h1, h2, _⟩ := hK v hv'
              rw [h2 hnv, hN] at h1
              exact ⟨v, hv', h1⟩
          · intro x hx e
            obtain ⟨b', h1, h2, h3⟩ := hK x hx
            rw [e] at h1
            simp only [Option.some.injEq] at h1
            subst h1
            rw [Bool.or_eq_true]
            cases hnv : isNullDef x with
            | true => exact Or.inr (h2 hnv).symm
            | false =>
              obtain ⟨bx, hbx, hor⟩ := h3 hnv
              cases bx with
              | true => exact Or.inl (fE2 x hx hnv hbx)
              | false =>
                rcases hor with h | h
                · cases h
                · right; simpa using h.symm
        | _ => simp [pureS, ha] at hp
    | _ => simp [removeNullUnionBranch] at hr

/-! ### the fragment -/

/-- constants a literal type can hold and JSON can spell -/
def primConst : JsVal → Bool
  | .str _ => true
  | .bool _ => true
  | .null => true
  | .num c => c != "NaN"
  | _ => false

/-- property names that every object answers through its prototype (D51: out of the fragment) -/
def protoNamedKey (k : String) : Bool := k == "__proto__" || objectProtoFns.contains k

def nodupB : List String → Bool
  | [] => true
  | x :: xs => !xs.contains x && nodupB xs

/-- **the structural fragment**: keyword types, literals and literal unions, arrays, tuples with rest, closed object types
with required and optional properties (distinct names, none of them a member of Object.prototype), unions, optional
wrappers, descriptions, and references to named types that do not reach themselves (`seen` is the chain of names being
inlined, exactly as in the flat printer) -/
def frag (env : Env) : Nat → List String → RT → Bool
  | 0, _, _ => false
  | n+1, seen, rt =>
    match rt with
    | .described _ t => frag env n seen t
    | .typeof t => t == "string" || t == "number" || t == "boolean"
    | .any => true
    | .nullish _ => true
    | .never => true
    | .const v => primConst v || v.isNullish
    | .consts vs => vs.all primConst
    | .array t => frag env n seen t
    | .tuple pre rest => pre.all (frag env n seen) && (match rest with | some r => frag env n seen r | none => true)
    | .anyOf ts => ts.all (frag env n seen)
    | .optional t => frag env n seen t
    | .object props ix => ix.isEmpty && nodupB (props.map (·.1)) && props.all (fun p => !protoNamedKey p.1 && frag env n seen p.2)
    | .ref name => !seen.contains name && (match env.lookup name with | some t => frag env n (name :: seen) t | none => false)
    | _ => false

/-- the validator answers `true`, or the model ran out of fuel: it neither rejects nor throws -/
def Acc (r : Res Bool) : Prop := r = .ok true ∨ r = .nofuel

theorem allShort_congr {α : Type} {f g : α → Res Bool} {l : List α} (h : ∀ x ∈ l, f x = g x) : allShort f l = allShort g l := by
  induction l with
  | nil => rfl
  | cons x xs ih =>
    simp only [allShort, h x List.mem_cons_self]
    rw [ih (fun y hy => h y (List.mem_cons_of_mem _ hy))]

theorem anyShort_congr {α : Type} {f g : α → Res Bool} {l : List α} (h : ∀ x ∈ l, f x = g x) : anyShort f l = anyShort g l := by
  induction l with
  | nil => rfl
  | cons x xs ih =>
    simp only [anyShort, h x List.mem_cons_self]
    rw [ih (fun y hy => h y (List.mem_cons_of_mem _ hy))]

theorem svz_null {v : JsVal} (h : primConst v = true) : sameValueZeroPrim v .null = (match v with | .null => true | _ => false) := by
  cases v <;> simp [sameValueZeroPrim, strictEqPrim, primConst] at h ⊢

theorem svz_undef {v : JsVal} (h : primConst v = true) : sameValueZeroPrim v .undef = false := by
  cases v <;> simp [sameValueZeroPrim, strictEqPrim, primConst] at h ⊢

/-- on the fragment the validator does not tell `undefined` from `null` (S1) -/
theorem validate_null_undef (env : Env) : ∀ n seen rt, frag env n seen rt = true →
    ∀ m strict, validate env strict m rt .undef = validate env strict m rt .null := by
  intro n
  induction n with
  | zero => intro seen rt h; simp [frag] at h
  | succ n ih =>
    intro seen rt h m strict
    cases m with
    | zero => rfl
    | succ m =>
      cases rt with
      | described d t => simp only [frag] at h; simp only [validate]; exact ih seen t h m strict
      | typeof t =>
        simp only [frag, Bool.or_eq_true, beq_iff_eq] at h
        rcases h with (h | h) | h <;> subst h <;> simp [validate, JsVal.typeOf]
      | any => simp [validate]
      | nullish _ => simp [validate, JsVal.isNullish]
      | never => simp [validate]
      | const v =>
        simp only [frag, Bool.or_eq_true] at h
        simp only [validate]
        cases hv : v.isNullish with
        | true => simp [JsVal.isNullish]
        | false =>
          have hp : primConst v = true := by rcases h with h | h; exact h; rw [hv] at h; cases h
          cases v <;> simp [primConst, JsVal.isNullish, strictEqPrim] at hp hv ⊢
      | consts vs =>
        simp only [frag, List.all_eq_true] at h
        simp only [validate, JsVal.isNullish, Bool.true_and]
        have e1 : vs.any (fun v => sameValueZeroPrim v .undef) = false := by
          rw [List.any_eq_false]; intro v hv; simp [svz_undef (h v hv)]
        rw [e1]
        cases hB : vs.any (fun v => sameValueZeroPrim v .null) with
        | false => rfl
        | true =>
          rw [List.any_eq_true] at hB
          obtain ⟨v, hv, hs⟩ := hB
          have hnull : v = .null := by
            have := svz_null (h v hv)
            rw [hs] at this
            cases v <;> simp at this ⊢
          subst hnull
          congr 1
          simp only [Bool.or_false, Bool.or_true]
          rw [List.any_eq_true]
          exact ⟨.null, hv, rfl⟩
      | array t => simp [validate]
      | tuple pre rest => simp [validate]
      | anyOf ts =>
        simp only [frag, List.all_eq_true] at h
        simp only [validate]
        exact anyShort_congr (fun t ht => ih seen t (h t ht) m strict)
      | optional t => simp [validate, JsVal.isNullish]
      | object props ix => simp [validate, JsVal.isObjectLike, JsVal.typeOf]
      | ref name =>
        simp only [frag, Bool.and_eq_true] at h
        simp only [validate]
        cases hl : env.lookup name with
        | none => rfl
        | some t =>
          rw [hl] at h
          exact ih (name :: seen) t h.2 m strict
      | _ => simp [frag] at h

/-! ### what the soundness proof needs to know about an emitted schema -/

structure GoodS (P : Params) (s : JsVal) : Prop where
  pure : ∀ j, pureS j s = true
  nulls : isNullDef s = true → nullSimple s = true
  atNull : ∃ k b, valid P k s .null = some b

theorem lookup_fold_other (L : List (String × JsVal)) (init : List (String × JsVal)) (k : String)
    (h : ∀ kv ∈ L, kv.1 ≠ k) :
    lookupProp (L.foldl (fun acc kv => setProp acc kv.1 kv.2) init) k = lookupProp init k := by
  induction L generalizing init with
  | nil => rfl
  | cons kv L ih =>
    simp only [List.foldl]
    rw [ih _ (fun x hx => h x (List.mem_cons_of_mem _ hx)), lookup_setProp]
    have : k ≠ kv.1 := fun e => h kv List.mem_cons_self e.symm
    simp [this]

theorem lookup_jobj_none (L : List (String × JsVal)) (k : String) (h : ∀ kv ∈ L, kv.1 ≠ k) :
    lookupProp (L.foldl (fun acc kv => setProp acc kv.1 kv.2) []) k = none := by
  rw [lookup_fold_other L [] k h]; rfl

theorem pureS_no_anyOf {kvs : List (String × JsVal)} (h1 : lookupProp kvs "anyOf" = none) (h2 : lookupProp kvs "oneOf" = none) :
    ∀ j, pureS j (.obj kvs) = true := by
  intro j; cases j with
  | zero => rfl
  | succ j => simp [pureS, h1, h2]

theorem isNullDef_annotate (desc : Option String) (s : JsVal) : isNullDef (annotate desc s) = isNullDef s := by
  cases desc with
  | none => rfl
  | some d =>
    cases s <;> try rfl
    simp only [annotate, isNullDef, lookup_setProp]
    simp

theorem ne_description_of_mem_vkeys {k : String} (hk : k ∈ vkeys) : k ≠ "description" := by
  intro e; subst e; simp [vkeys] at hk

theorem all_congr_mem {α : Type} {l : List α} {f g : α → Bool} (h : ∀ x ∈ l, f x = g x) : l.all f = l.all g := by
  induction l with
  | nil => rfl
  | cons x xs ih =>
    simp only [List.all_cons, h x List.mem_cons_self]
    rw [ih (fun y hy => h y (List.mem_cons_of_mem _ hy))]

theorem nullSimple_annotate (desc : Option String) (s : JsVal) : nullSimple (annotate desc s) = nullSimple s := by
  cases desc with
  | none => rfl
  | some d =>
    cases s <;> try rfl
    rename_i kvs
    simp only [annotate, nullSimple]
    apply all_congr_mem
    intro k hk
    rw [lookup_setProp]
    have := ne_description_of_mem_vkeys (List.mem_filter.1 hk).1
    simp [this]

theorem pureS_annotate (desc : Option String) (s : JsVal) (j : Nat) : pureS j (annotate desc s) = pureS j s := by
  cases desc with
  | none => rfl
  | some d =>
    cases s <;> try rfl
    rename_i kvs
    cases j with
    | zero => rfl
    | succ j =>
      have e : ∀ k ∈ vkeys, lookupProp (setProp kvs "description" (.str d)) k = lookupProp kvs k := by
        intro k hk
        rw [lookup_setProp]
        simp [ne_description_of_mem_vkeys hk]
      have ea := e "anyOf" (by simp [vkeys])
      have eo := e "oneOf" (by simp [vkeys])
      simp only [annotate, pureS, ea, eo]
      cases lookupProp kvs "anyOf" with
      | none => rfl
      | some a =>
        cases a <;> try rfl
        simp only
        congr 1
        apply all_congr_mem
        intro k hk
        rw [e k (List.mem_filter.1 hk).1]

theorem goodS_annotate {P : Params} {s : JsVal} (desc : Option String) (h : GoodS P s) : GoodS P (annotate desc s) :=
  ⟨fun j => by rw [pureS_annotate]; exact h.pure j,
   fun hn => by rw [isNullDef_annotate] at hn; rw [nullSimple_annotate]; exact h.nulls hn,
   by obtain ⟨k, b, e⟩ := h.atNull; exact ⟨k, b, by rw [valid_annotate]; exact e⟩⟩

theorem anyO_defined {α : Type} {l : List α} {f : α → Option Bool} (h : ∀ x ∈ l, ∃ b, f x = some b) :
    ∃ b, anyO (l.map f) = some b := by
  have e : l.map f = (l.map (fun x => (f x).getD false)).map some := by
    rw [List.map_map]
    apply List.map_congr_left
    intro x hx
    obtain ⟨b, hb⟩ := h x hx
    simp [hb]
  exact ⟨_, by rw [e, anyO_map_some]⟩

/-! ### exact verdicts of the simple shapes, and verdicts at `null` -/

theorem valid_type_eq (P : Params) (k : Nat) (t : String) (d : JsVal) :
    valid P (k+1) (jobj [("type", .str t)]) d = some (typeOk t d) := by
  rw [valid_jobj]
  apply validG_type
  intro key _
  simp only [List.foldl]
  rw [lookup_setProp, lookupProp_nil]

theorem valid_never_eq (P : Params) (k : Nat) (d : JsVal) :
    valid P (k+2) (jobj [("not", jobj [])]) d = some false := by
  rw [valid_jobj]
  simp only [List.foldl]
  generalize hg : lookupProp (setProp [] "not" (jobj [])) = get
  have g1 : ∀ k', get k' = if k' = "not" then some (jobj []) else none := by
    intro k'; rw [← hg, lookup_setProp, lookupProp_nil]
  simp only [validG, cType, cConst, cEnum, cAny, cOne, cAll, cNot, cRef, cPattern, cFormat, cObj, cArr, declaredOf, prefixOf, g1]
  simp [valid_empty']
  cases d <;> simp [allO, andO]

theorem valid_const_eq (P : Params) (k : Nat) (c d : JsVal) :
    valid P (k+1) (jobj [("const", c)]) d = some (jsonEq 50 c d) := by
  rw [valid_jobj]
  simp only [List.foldl]
  generalize hg : lookupProp (setProp [] "const" c) = get
  have g1 : ∀ k', get k' = if k' = "const" then some c else none := by
    intro k'; rw [← hg, lookup_setProp, lookupProp_nil]
  simp only [validG, cType, cConst, cEnum, cAny, cOne, cAll, cNot, cRef, cPattern, cFormat, cObj, cArr, declaredOf, prefixOf, g1]
  simp
  cases d <;> simp [allO, andO]

theorem valid_enum_eq (P : Params) (k : Nat) (vs : List JsVal) (d : JsVal) :
    valid P (k+1) (jobj [("enum", .arr vs)]) d = some (vs.any (fun c => jsonEq 50 c d)) := by
  rw [valid_jobj]
  simp only [List.foldl]
  generalize hg : lookupProp (setProp [] "enum" (.arr vs)) = get
  have g1 : ∀ k', get k' = if k' = "enum" then some (.arr vs) else none := by
    intro k'; rw [← hg, lookup_setProp, lookupProp_nil]
  simp only [validG, cType, cConst, cEnum, cAny, cOne, cAll, cNot, cRef, cPattern, cFormat, cObj, cArr, declaredOf, prefixOf, g1]
  simp
  cases d <;> simp [allO, andO]

theorem valid_type_enum_eq (P : Params) (k : Nat) (tp : String) (vs : List JsVal) (d : JsVal) :
    valid P (k+1) (jobj [("type", .str tp), ("enum", .arr vs)]) d = some (typeOk tp d && vs.any (fun c => jsonEq 50 c d)) := by
  rw [valid_jobj]
  simp only [List.foldl]
  generalize hg : lookupProp (setProp (setProp [] "type" (.str tp)) "enum" (.arr vs)) = get
  have g1 : ∀ k', get k' = if k' = "enum" then some (.arr vs) else if k' = "type" then some (.str tp) else none := by
    intro k'; rw [← hg, lookup_setProp, lookup_setProp, lookupProp_nil]
  simp only [validG, cType, cConst, cEnum, cAny, cOne, cAll, cNot, cRef, cPattern, cFormat, cObj, cArr, declaredOf, prefixOf, g1]
  simp
  cases d <;> simp [allO, andO]

/-- a schema with a `type` other than "null" and none of the value keywords rejects `null` -/
theorem validG_typed_at_null {P : Params} {v : JsVal → JsVal → Option Bool} {get : String → Option JsVal} {t : String}
    (ht : get "type" = some (.str t)) (hn : t ≠ "null")
    (h : ∀ k ∈ ["const", "enum", "anyOf", "oneOf", "allOf", "not", "$ref", "format"], get k = none) :
    validG P v get .null = some false := by
  have h1 := h "const" (by simp)
  have h2 := h "enum" (by simp)
  have h3 := h "anyOf" (by simp)
  have h4 := h "oneOf" (by simp)
  have h5 := h "allOf" (by simp)
  have h6 := h "not" (by simp)
  have h7 := h "$ref" (by simp)
  have h8 := h "format" (by simp)
  simp only [validG, cType, cConst, cEnum, cAny, cOne, cAll, cNot, cRef, cPattern, cFormat, cObj, cArr, ht, h1, h2, h3, h4, h5, h6, h7, h8]
  have : typeOk t .null = false := by
    unfold typeOk
    split <;> simp_all
  rw [this]
  simp [allO, andO]

/-! ### every shape of the printer is a good schema -/

theorem isNullDef_of_type {kvs : List (String × JsVal)} {t : String} (h : lookupProp kvs "type" = some (.str t)) (hn : t ≠ "null") :
    isNullDef (.obj kvs) = false := by
  simp only [isNullDef, h]
  split
  · rename_i heq; simp only [Option.some.injEq, JsVal.str.injEq] at heq; exact absurd heq hn
  · rfl

theorem isNullDef_no_type {kvs : List (String × JsVal)} (h : lookupProp kvs "type" = none) : isNullDef (.obj kvs) = false := by
  simp [isNullDef, h]

/-- a schema with a `type` that is not "null" and no value keyword -/
theorem goodS_typed {P : Params} {kvs : List (String × JsVal)} {t : String} (ht : lookupProp kvs "type" = some (.str t)) (hn : t ≠ "null")
    (h : ∀ k ∈ ["const", "enum", "anyOf", "oneOf", "allOf", "not", "$ref", "format"], lookupProp kvs k = none) : GoodS P (.obj kvs) :=
  { pure := pureS_no_anyOf (h "anyOf" (by simp)) (h "oneOf" (by simp))
    nulls := fun hd => by rw [isNullDef_of_type ht hn] at hd; cases hd
    atNull := ⟨1, false, validG_typed_at_null ht hn h⟩ }

theorem jobj_eq (L : List (String × JsVal)) : jobj L = .obj (L.foldl (fun acc kv => setProp acc kv.1 kv.2) []) := rfl

theorem goodS_type (P : Params) (t : String) : GoodS P (jobj [("type", .str t)]) := by
  refine { pure := ?_, nulls := ?_, atNull := ⟨1, _, valid_type_eq P 0 t .null⟩ }
  · rw [jobj_eq]; simp only [List.foldl]
    exact pureS_no_anyOf (by simp [lookup_setProp, lookupProp_nil]) (by simp [lookup_setProp, lookupProp_nil])
  · intro _
    rw [jobj_eq]; simp only [List.foldl]
    simp only [nullSimple, List.all_eq_true]
    intro k hk
    have : k ≠ "type" := by simpa using (List.mem_filter.1 hk).2
    simp [lookup_setProp, lookupProp_nil, this]

theorem goodS_empty (P : Params) : GoodS P (jobj []) :=
  { pure := pureS_no_anyOf rfl rfl
    nulls := fun hd => by simp [jobj, isNullDef, lookupProp_nil] at hd
    atNull := ⟨1, _, valid_empty' P 0 .null⟩ }

theorem goodS_never (P : Params) : GoodS P (jobj [("not", jobj [])]) := by
  refine { pure := ?_, nulls := ?_, atNull := ⟨2, _, valid_never_eq P 0 .null⟩ }
  · rw [jobj_eq]; simp only [List.foldl]
    exact pureS_no_anyOf (by simp [lookup_setProp, lookupProp_nil]) (by simp [lookup_setProp, lookupProp_nil])
  · intro hd
    rw [jobj_eq] at hd; simp only [List.foldl] at hd
    rw [isNullDef_no_type (by simp [lookup_setProp, lookupProp_nil])] at hd
    cases hd

theorem goodS_const (P : Params) (c : JsVal) : GoodS P (jobj [("const", c)]) := by
  refine { pure := ?_, nulls := ?_, atNull := ⟨1, _, valid_const_eq P 0 c .null⟩ }
  · rw [jobj_eq]; simp only [List.foldl]
    exact pureS_no_anyOf (by simp [lookup_setProp, lookupProp_nil]) (by simp [lookup_setProp, lookupProp_nil])
  · intro hd
    rw [jobj_eq] at hd; simp only [List.foldl] at hd
    rw [isNullDef_no_type (by simp [lookup_setProp, lookupProp_nil])] at hd
    cases hd

theorem goodS_enum (P : Params) (vs : List JsVal) : GoodS P (jobj [("enum", .arr vs)]) := by
  refine { pure := ?_, nulls := ?_, atNull := ⟨1, _, valid_enum_eq P 0 vs .null⟩ }
  · rw [jobj_eq]; simp only [List.foldl]
    exact pureS_no_anyOf (by simp [lookup_setProp, lookupProp_nil]) (by simp [lookup_setProp, lookupProp_nil])
  · intro hd
    rw [jobj_eq] at hd; simp only [List.foldl] at hd
    rw [isNullDef_no_type (by simp [lookup_setProp, lookupProp_nil])] at hd
    cases hd

theorem goodS_type_enum (P : Params) (tp : String) (htp : tp ≠ "null") (vs : List JsVal) :
    GoodS P (jobj [("type", .str tp), ("enum", .arr vs)]) := by
  refine { pure := ?_, nulls := ?_, atNull := ⟨1, _, valid_type_enum_eq P 0 tp vs .null⟩ }
  · rw [jobj_eq]; simp only [List.foldl]
    exact pureS_no_anyOf (by simp [lookup_setProp, lookupProp_nil]) (by simp [lookup_setProp, lookupProp_nil])
  · intro hd
    rw [jobj_eq] at hd; simp only [List.foldl] at hd
    rw [isNullDef_of_type (t := tp) (by simp [lookup_setProp, lookupProp_nil]) htp] at hd
    cases hd

theorem goodS_anyOf {P : Params} {ss : List JsVal} (h : ∀ s ∈ ss, GoodS P s) : GoodS P (jobj [("anyOf", .arr ss)]) := by
  have hl : ∀ k, lookupProp (setProp [] "anyOf" (JsVal.arr ss)) k = if k = "anyOf" then some (.arr ss) else none := by
    intro k; rw [lookup_setProp, lookupProp_nil]
  refine { pure := ?_, nulls := ?_, atNull := ?_ }
  · intro j
    cases j with
    | zero => rfl
    | succ j =>
      rw [jobj_eq]; simp only [List.foldl]
      simp only [pureS, hl, if_true, Bool.and_eq_true, List.all_eq_true]
      refine ⟨?_, ?_⟩
      · intro k hk
        have : k ≠ "anyOf" := by simpa using (List.mem_filter.1 hk).2
        simp [this]
      · intro v hv
        cases hn : isNullDef v with
        | true => simpa using (h v hv).nulls hn
        | false => simpa using (h v hv).pure j
  · intro hd
    rw [jobj_eq] at hd; simp only [List.foldl] at hd
    rw [isNullDef_no_type (by rw [hl]; simp)] at hd
    cases hd
  · obtain ⟨K, _, hK⟩ := common_fuel P .null (fun _ _ => True) ss (fun v hv => by
      obtain ⟨k, b, e⟩ := (h v hv).atNull; exact ⟨k, b, e, trivial⟩)
    obtain ⟨b, hb⟩ := anyO_defined (l := ss) (f := fun s => valid P K s .null) (fun x hx => by
      obtain ⟨b, e, _⟩ := hK x hx; exact ⟨b, e⟩)
    exact ⟨K + 1, b, by rw [valid_anyOf_eq]; exact hb⟩

/-! ### the property loop -/

theorem propsS_spec (go : RT → SCtx → SRes JsVal) :
    ∀ (props : List (String × RT)) (ps0 : List (String × JsVal)) (opt0 : List String) (c : SCtx)
      (ps : List (String × JsVal)) (opt : List String) (c1 : SCtx),
      propsS go props (ps0, opt0) c = .ok (ps, opt) c1 → nodupB (props.map (·.1)) = true →
      (∀ p ∈ props, ∃ raw c' c'', go p.2 c' = .ok raw c'' ∧
          lookupProp ps p.1 = some ((removeNullUnionBranch 50 raw).getD raw) ∧
          (p.1 ∈ opt → p.1 ∈ opt0 ∨ (removeNullUnionBranch 50 raw).isSome = true ∨ isOptionalRT p.2 = true)) ∧
      (∀ k, k ∉ props.map (·.1) → lookupProp ps k = lookupProp ps0 k) ∧
      (∀ k ∈ opt, k ∈ opt0 ∨ k ∈ props.map (·.1)) := by
  intro props
  induction props with
  | nil =>
    intro ps0 opt0 c ps opt c1 h _
    simp only [propsS, SRes.ok.injEq, Prod.mk.injEq] at h
    obtain ⟨⟨rfl, rfl⟩, _⟩ := h
    exact ⟨by simp, fun _ _ => rfl, fun k hk => Or.inl hk⟩
  | cons p rest ih =>
    intro ps0 opt0 c ps opt c1 h hnd
    simp only [List.map_cons, nodupB, Bool.and_eq_true, Bool.not_eq_true', List.contains_eq_mem, decide_eq_false_iff_not] at hnd
    obtain ⟨hp_notin, hnd'⟩ := hnd
    simp only [propsS] at h
    cases hg : go p.2 c with
    | throw e => rw [hg] at h; cases h
    | nofuel => rw [hg] at h; cases h
    | ok raw c' =>
      rw [hg] at h
      simp only at h
      -- the two branches differ in what is stored and in the list of optional names
      have key : ∀ (stored : JsVal) (opt0' : List String),
          propsS go rest (setProp ps0 p.1 stored, opt0') c' = .ok (ps, opt) c1 →
          stored = (removeNullUnionBranch 50 raw).getD raw →
          (∀ k ∈ opt0', k ∈ opt0 ∨ (k = p.1 ∧ ((removeNullUnionBranch 50 raw).isSome = true ∨ isOptionalRT p.2 = true))) →
          (∀ q ∈ p :: rest, ∃ raw c' c'', go q.2 c' = .ok raw c'' ∧
              lookupProp ps q.1 = some ((removeNullUnionBranch 50 raw).getD raw) ∧
              (q.1 ∈ opt → q.1 ∈ opt0 ∨ (removeNullUnionBranch 50 raw).isSome = true ∨ isOptionalRT q.2 = true)) ∧
          (∀ k, k ∉ (p :: rest).map (·.1) → lookupProp ps k = lookupProp ps0 k) ∧
          (∀ k ∈ opt, k ∈ opt0 ∨ k ∈ (p :: rest).map (·.1)) := by
        intro stored opt0' hrest hstored hopt
        obtain ⟨i1, i2, i3⟩ := ih _ _ _ _ _ _ hrest hnd'
        refine ⟨?_, ?_, ?_⟩
        · intro q hq
          rcases List.mem_cons.1 hq with rfl | hq
          · refine ⟨raw, c, c', hg, ?_, ?_⟩
            · rw [i2 _ hp_notin, lookup_setProp]; simp [hstored]
            · intro ho
              rcases i3 _ ho with h1 | h1
              · rcases hopt _ h1 with h2 | ⟨_, h2⟩
                · exact Or.inl h2
                · exact Or.inr h2
              · exact absurd h1 hp_notin
          · obtain ⟨raw', d', d'', e1, e2, e3⟩ := i1 q hq
            refine ⟨raw', d', d'', e1, e2, ?_⟩
            intro ho
            rcases e3 ho with h1 | h1
            · rcases hopt _ h1 with h2 | ⟨h2, _⟩
              · exact Or.inl h2
              · exfalso; apply hp_notin; rw [← h2]; exact List.mem_map.2 ⟨q, hq, rfl⟩
            · exact Or.inr h1
        · intro k hk
          simp only [List.map_cons, List.mem_cons, not_or] at hk
          rw [i2 k hk.2, lookup_setProp]; simp [hk.1]
        · intro k hk
          rcases i3 k hk with h1 | h1
          · rcases hopt k h1 with h2 | ⟨h2, _⟩
            · exact Or.inl h2
            · right; simp [h2]
          · right; simp only [List.map_cons, List.mem_cons]; exact Or.inr h1
      cases hr : removeNullUnionBranch 50 raw with
      | some rw =>
        rw [hr] at h
        refine key rw (opt0 ++ [p.1]) h (by simp [hr]) ?_
        intro k hk
        rcases List.mem_append.1 hk with h1 | h1
        · exact Or.inl h1
        · right; exact ⟨by simpa using h1, Or.inl (by rw [hr]; rfl)⟩
      | none =>
        rw [hr] at h
        refine key raw _ h (by simp [hr]) ?_
        intro k hk
        by_cases ho : isOptionalRT p.2 = true
        · rw [if_pos ho] at hk
          rcases List.mem_append.1 hk with h1 | h1
          · exact Or.inl h1
          · right; exact ⟨by simpa using h1, Or.inr ho⟩
        · rw [if_neg ho] at hk; exact Or.inl hk

/-! ### the validator side -/

theorem acc_nofuel : Acc (.nofuel : Res Bool) := Or.inr rfl
theorem acc_true : Acc (.ok true : Res Bool) := Or.inl rfl

theorem allShort_acc {α : Type} {f : α → Res Bool} {l : List α} (h : ∀ x ∈ l, Acc (f x)) : Acc (allShort f l) := by
  induction l with
  | nil => exact acc_true
  | cons x xs ih =>
    simp only [allShort]
    rcases h x List.mem_cons_self with e | e
    · rw [e]; exact ih (fun y hy => h y (List.mem_cons_of_mem _ hy))
    · rw [e]; exact acc_nofuel

theorem allShort_nt {α : Type} {f : α → Res Bool} {l : List α} (h : ∀ x ∈ l, ∀ c, f x ≠ .throw c) : ∀ c, allShort f l ≠ .throw c := by
  induction l with
  | nil => intro c e; simp [allShort] at e
  | cons x xs ih =>
    intro c
    simp only [allShort]
    cases hx : f x with
    | ok b => cases b <;> simp [ih (fun y hy => h y (List.mem_cons_of_mem _ hy)) c]
    | throw c' => exact absurd hx (h x List.mem_cons_self c')
    | nofuel => simp

theorem anyShort_nt {α : Type} {f : α → Res Bool} {l : List α} (h : ∀ x ∈ l, ∀ c, f x ≠ .throw c) : ∀ c, anyShort f l ≠ .throw c := by
  induction l with
  | nil => intro c e; simp [anyShort] at e
  | cons x xs ih =>
    intro c
    simp only [anyShort]
    cases hx : f x with
    | ok b => cases b <;> simp [ih (fun y hy => h y (List.mem_cons_of_mem _ hy)) c]
    | throw c' => exact absurd hx (h x List.mem_cons_self c')
    | nofuel => simp

theorem anyShort_acc {α : Type} {f : α → Res Bool} {l : List α} (h : ∃ x ∈ l, Acc (f x)) (hnt : ∀ x ∈ l, ∀ c, f x ≠ .throw c) :
    Acc (anyShort f l) := by
  induction l with
  | nil => obtain ⟨x, hx, _⟩ := h; cases hx
  | cons x xs ih =>
    simp only [anyShort]
    cases hx : f x with
    | ok b =>
      cases b with
      | true => exact acc_true
      | false =>
        simp only
        obtain ⟨y, hy, hacc⟩ := h
        rcases List.mem_cons.1 hy with rfl | hy
        · rw [hx] at hacc; rcases hacc with e | e <;> cases e
        · exact ih ⟨y, hy, hacc⟩ (fun z hz => hnt z (List.mem_cons_of_mem _ hz))
    | throw c' => exact absurd hx (hnt x List.mem_cons_self c')
    | nofuel => exact acc_nofuel

/-- what the theorem says about a runtype and its schema -/
structure Good (P : Params) (env : Env) (rt : RT) (s : JsVal) : Prop where
  gs : GoodS P s
  nt : ∀ m strict d c, validate env strict m rt d ≠ .throw c
  sound : ∀ k d m strict, valid P k s d = some true → Acc (validate env strict m rt d)

theorem good_annotate {P : Params} {env : Env} {rt : RT} {s : JsVal} (desc : Option String) (h : Good P env rt s) :
    Good P env rt (annotate desc s) :=
  { gs := goodS_annotate desc h.gs
    nt := h.nt
    sound := fun k d m strict hv => h.sound k d m strict (by rw [valid_annotate] at hv; exact hv) }

theorem good_wrap {P : Params} {env : Env} {rt rt' : RT} {s : JsVal} (h : Good P env rt s)
    (hv : ∀ m strict d, validate env strict (m+1) rt' d = validate env strict m rt d) : Good P env rt' s :=
  { gs := h.gs
    nt := fun m strict d c => by
      cases m with
      | zero => simp [validate]
      | succ m => rw [hv]; exact h.nt m strict d c
    sound := fun k d m strict hk => by
      cases m with
      | zero => exact acc_nofuel
      | succ m => rw [hv]; exact h.sound k d m strict hk }

theorem valid_zero_ne (P : Params) (s d : JsVal) : valid P 0 s d ≠ some true := by simp [valid]

/-- a leaf: the validator answers without recursion -/
theorem good_leaf {P : Params} {env : Env} {rt : RT} {s : JsVal} (gs : GoodS P s)
    (f : JsVal → Bool) (hv : ∀ m strict d, validate env strict (m+1) rt d = .ok (f d))
    (hs : ∀ k d, valid P (k+1) s d = some true → f d = true) : Good P env rt s :=
  { gs := gs
    nt := fun m strict d c => by
      cases m with
      | zero => simp [validate]
      | succ m => rw [hv]; simp
    sound := fun k d m strict hk => by
      cases m with
      | zero => exact acc_nofuel
      | succ m =>
        cases k with
        | zero => exact absurd hk (valid_zero_ne P s d)
        | succ k => rw [hv, hs k d hk]; exact acc_true }

/-! ### constants -/

theorem numSVZ_strict {a b : String} (ha : a ≠ "NaN") (h : numSameValueZero a b = true) : numStrictEq b a = true := by
  unfold numSameValueZero at h
  unfold numStrictEq
  have hb : b ≠ "NaN" := by
    intro e; subst e
    by_cases h0 : a = "-0"
    · subst h0; simp at h
    · simp [h0] at h; exact ha h
  have e1 : (b == "NaN") = false := by simpa using hb
  have e2 : (a == "NaN") = false := by simpa using ha
  rw [e1, e2]
  simp only [Bool.or_self, Bool.false_eq_true, if_false]
  simp only [beq_iff_eq] at h ⊢
  exact h.symm

theorem jsonEq_svz {c d : JsVal} (hc : primConst c = true) (h : jsonEq 50 c d = true) : sameValueZeroPrim c d = true := by
  cases c <;> simp [primConst] at hc <;> cases d <;> simp [jsonEq, sameValueZeroPrim, strictEqPrim] at h ⊢ <;> exact h

theorem jsonEq_strict {v d : JsVal} (hc : primConst v = true) (hn : v.isNullish = false) (h : jsonEq 50 v d = true) :
    strictEqPrim d v = true := by
  cases v <;> simp [primConst, JsVal.isNullish] at hc hn <;> cases d <;> simp [jsonEq, strictEqPrim] at h ⊢
  · exact h.symm
  · rename_i a b; exact numSVZ_strict (by simpa using hc) h
  · exact h.symm

theorem jsonEq_null {d : JsVal} (h : jsonEq 50 .null d = true) : d.isNullish = true := by
  cases d <;> simp [jsonEq, JsVal.isNullish] at h ⊢

/-! ### sequences of children -/

theorem seqS_spec (go : RT → SCtx → SRes JsVal) : ∀ (ts : List RT) (c : SCtx) (ss : List JsVal) (c1 : SCtx),
    seqS go ts c = .ok ss c1 → ss.length = ts.length ∧ ∀ p ∈ ts.zip ss, ∃ c' c'', go p.1 c' = .ok p.2 c'' := by
  intro ts
  induction ts with
  | nil =>
    intro c ss c1 h
    simp only [seqS, SRes.ok.injEq] at h
    obtain ⟨rfl, _⟩ := h
    exact ⟨rfl, by simp⟩
  | cons t ts ih =>
    intro c ss c1 h
    simp only [seqS] at h
    cases hg : go t c with
    | throw e => rw [hg] at h; cases h
    | nofuel => rw [hg] at h; cases h
    | ok s c' =>
      rw [hg] at h
      simp only at h
      cases hr : seqS go ts c' with
      | throw e => rw [hr] at h; cases h
      | nofuel => rw [hr] at h; cases h
      | ok ss' c'' =>
        rw [hr] at h
        simp only [SRes.ok.injEq] at h
        obtain ⟨rfl, _⟩ := h
        obtain ⟨hl, hz⟩ := ih c' ss' c'' hr
        refine ⟨by simp [hl], ?_⟩
        intro p hp
        simp only [List.zip_cons_cons, List.mem_cons] at hp
        rcases hp with rfl | hp
        · exact ⟨c, c', hg⟩
        · exact hz p hp

theorem exists_left_of_mem_zip_right {α β : Type} {l : List α} {r : List β} (hl : r.length = l.length) {y : β} (hy : y ∈ r) :
    ∃ x, (x, y) ∈ l.zip r := by
  obtain ⟨i, hi, e⟩ := List.mem_iff_getElem.1 hy
  have hi' : i < l.length := hl ▸ hi
  refine ⟨l[i], ?_⟩
  rw [List.mem_iff_getElem]
  refine ⟨i, by rw [List.length_zip]; omega, ?_⟩
  simp [e]

end BeffVerif.C02F
