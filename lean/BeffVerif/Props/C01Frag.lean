import BeffVerif.Props.C01
import BeffVerif.Lemmas.Pairwise2
/-!
# C01 — the inductive step on the structural fragment

`Frag`: types built from the keyword types, string / number / boolean literals, arrays, tuples (with rest element),
object types with required and optional properties (distinct names, no index signature), parentheses and `readonly`,
nested to any depth. For every such type the whole chain — `lower` (frontend), `print` (code generator),
`validate` (runtime) — is related to the declarative reference `Spec.mem`, for EVERY value:

* `lower` succeeds without diagnostics and without touching the definition table;
* the compiled validator and the reference never give different answers (`fragment_exact`).

Unions, intersections, named and generic types, index signatures and the built-in generics are outside this theorem;
for them the statement is decided by the three-way correspondence of the check.
-/
namespace BeffVerif.C01F
open BeffVerif RT JsVal IR

/-! ## folds -/

/-- a runtime answer and a reference answer agree when both are answers -/
def Agree2 (r : Res Bool) (o : Option Bool) : Prop := ∀ b c, r = .ok b → o = some c → b = c

theorem agree2_ok {a b : Bool} (h : a = b) : Agree2 (.ok a) (some b) := by
  intro x y h1 h2
  injection h1 with h1; injection h2 with h2
  rw [← h1, ← h2, h]

theorem agree2_none (r : Res Bool) : Agree2 r none := by intro b c _ h; cases h
theorem agree2_nofuel (o : Option Bool) : Agree2 .nofuel o := by intro b c h; cases h
theorem agree2_throw (s : String) (o : Option Bool) : Agree2 (.throw s) o := by intro b c h; cases h

/-- the reference's conjunction over a list (`none` = some component undecided) -/
def andFold {α : Type} (f : α → Option Bool) (init : Option Bool) (xs : List α) : Option Bool :=
  xs.foldl (fun acc x => match acc, f x with
    | some a, some b => some (a && b)
    | _, _ => none) init

theorem andFold_none {α : Type} (f : α → Option Bool) : ∀ xs : List α, andFold f none xs = none := by
  intro xs
  induction xs with
  | nil => rfl
  | cons x xs ih => simp only [andFold, List.foldl_cons]; exact ih

theorem andFold_cons {α : Type} (f : α → Option Bool) (a : Bool) (x : α) (xs : List α) :
    andFold f (some a) (x :: xs) = match f x with
      | some b => andFold f (some (a && b)) xs
      | none => none := by
  simp only [andFold, List.foldl_cons]
  cases f x with
  | none => exact andFold_none f xs
  | some b => rfl

/-- a defined conjunction: every component is defined, and the result is the conjunction -/
theorem andFold_some {α : Type} (f : α → Option Bool) : ∀ (xs : List α) (a c : Bool), andFold f (some a) xs = some c →
    (∀ x ∈ xs, ∃ b, f x = some b) ∧ (c = true ↔ (a = true ∧ ∀ x ∈ xs, f x = some true)) := by
  intro xs
  induction xs with
  | nil =>
    intro a c h
    simp only [andFold, List.foldl_nil] at h
    injection h with h
    subst h
    simp
  | cons x xs ih =>
    intro a c h
    rw [andFold_cons] at h
    cases hx : f x with
    | none => rw [hx] at h; cases h
    | some b =>
      rw [hx] at h
      obtain ⟨hd, hc⟩ := ih (a && b) c h
      constructor
      · intro y hy
        rcases List.mem_cons.1 hy with e | hy
        · subst e; exact ⟨b, hx⟩
        · exact hd y hy
      · rw [hc]
        constructor
        · rintro ⟨hab, hall⟩
          simp only [Bool.and_eq_true] at hab
          refine ⟨hab.1, ?_⟩
          intro y hy
          rcases List.mem_cons.1 hy with e | hy
          · subst e; rw [hx, hab.2]
          · exact hall y hy
        · rintro ⟨ha, hall⟩
          have hb : b = true := by
            have := hall x (by simp)
            rw [hx] at this
            injection this
          refine ⟨by simp [ha, hb], fun y hy => hall y (List.mem_cons_of_mem _ hy)⟩

theorem allShort_true' {α : Type} {f : α → Res Bool} : ∀ {l : List α},
    allShort f l = .ok true ↔ ∀ x ∈ l, f x = .ok true := by
  intro l
  induction l with
  | nil => simp [allShort]
  | cons y ys ih =>
    rw [allShort]
    constructor
    · intro h
      cases hy : f y with
      | ok b =>
        cases b with
        | true =>
          rw [hy] at h
          intro x hx
          rcases List.mem_cons.1 hx with e | hx
          · rw [e]; exact hy
          · exact ih.1 h x hx
        | false => rw [hy] at h; cases h
      | throw c => rw [hy] at h; cases h
      | nofuel => rw [hy] at h; cases h
    · intro h
      rw [h y (by simp)]
      exact ih.2 (fun x hx => h x (List.mem_cons_of_mem _ hx))

theorem allShort_false' {α : Type} {f : α → Res Bool} : ∀ {l : List α},
    allShort f l = .ok false → ∃ x ∈ l, f x = .ok false := by
  intro l
  induction l with
  | nil => intro h; simp [allShort] at h
  | cons y ys ih =>
    intro h
    rw [allShort] at h
    cases hy : f y with
    | ok b =>
      cases b with
      | true =>
        rw [hy] at h
        obtain ⟨x, hx, hfx⟩ := ih h
        exact ⟨x, List.mem_cons_of_mem _ hx, hfx⟩
      | false => exact ⟨y, by simp, hy⟩
    | throw c => rw [hy] at h; cases h
    | nofuel => rw [hy] at h; cases h

/-- the runtime's short-circuit loop against the reference's conjunction, over two lists whose elements correspond -/
theorem allShort_andFold {α β : Type} {g : α → Res Bool} {f : β → Option Bool} {l1 : List α} {l2 : List β}
    (h12 : ∀ x ∈ l1, ∃ y ∈ l2, Agree2 (g x) (f y)) (h21 : ∀ y ∈ l2, ∃ x ∈ l1, Agree2 (g x) (f y)) :
    Agree2 (allShort g l1) (andFold f (some true) l2) := by
  intro b c h1 h2
  obtain ⟨hdef, hc⟩ := andFold_some f l2 true c h2
  cases b with
  | true =>
    -- every runtime component is true, so every reference component is
    have : c = true := by
      rw [hc]
      refine ⟨rfl, ?_⟩
      intro y hy
      obtain ⟨by', hy'⟩ := hdef y hy
      obtain ⟨x, hx, hag⟩ := h21 y hy
      have := hag true by' (allShort_true'.1 h1 x hx) hy'
      rw [hy', ← this]
    rw [this]
  | false =>
    obtain ⟨x, hx, hgx⟩ := allShort_false' h1
    obtain ⟨y, hy, hag⟩ := h12 x hx
    obtain ⟨by', hy'⟩ := hdef y hy
    have hb : false = by' := hag false by' hgx hy'
    cases c with
    | false => rfl
    | true =>
      have := (hc.1 rfl).2 y hy
      rw [hy'] at this
      injection this with this
      rw [← hb] at this
      cases this


/-! ## the fragment -/

def fragKeywords : List String := ["string", "number", "boolean", "null", "undefined", "void", "any", "unknown", "never", "bigint"]

inductive Frag : Ty → Prop
  | kw (k : String) : k ∈ fragKeywords → Frag (.kw k)
  | litStr (s : String) : Frag (.lit (.str s))
  | litNum (c : String) : Frag (.lit (.num c))
  | litBool (b : Bool) : Frag (.lit (.bool b))
  | array (t : Ty) : Frag t → Frag (.array t)
  | tuple (pre : List Ty) (rest : Option Ty) : (∀ t ∈ pre, Frag t) → (∀ r, rest = some r → Frag r) → Frag (.tuple pre rest)
  | obj (ms : List (String × Bool × Ty)) : (ms.map (·.1)).Nodup → (∀ m ∈ ms, Frag m.2.2) → Frag (.obj ms none)
  | paren (t : Ty) : Frag t → Frag (.paren t)
  | readonly (t : Ty) : Frag t → Frag (.readonly t)

/-- the printer's fuel suffices for the term (the printer answers `never` when it runs out, silently) -/
def depthOK : Nat → IR → Bool
  | 0, _ => false
  | n+1, t => match t with
    | .array x => depthOK n x
    | .tuple pre rest => pre.all (depthOK n) && (match rest with | some r => depthOK n r | none => true)
    | .object vs none => vs.all fun p => depthOK n p.2.2
    | .object _ (some _) => false
    | .anyOf _ | .allOf _ | .map _ _ | .set _ | .stNot _ => false
    | _ => true

/-- the compiled form `ir` of the type `t`: printed with enough fuel and run on any value, it never disagrees with the
reference -/
def Rel (ir : IR) (t : Ty) : Prop :=
  ∀ (named : Named) (env : Env) (pf vf sf : Nat) (v : JsVal), depthOK pf ir = true →
    Agree2 (validate env false vf (print named pf ir) v) (Spec.mem [] sf t v)

theorem depthOK_pos {n : Nat} {t : IR} (h : depthOK n t = true) : ∃ m, n = m + 1 := by
  cases n with
  | zero => simp [depthOK] at h
  | succ m => exact ⟨m, rfl⟩

theorem validate_zero (env : Env) (strict : Bool) (rt : RT) (x : JsVal) : validate env strict 0 rt x = .nofuel := by
  rw [validate]

theorem mem_zero (decls : List Decl) (t : Ty) (v : JsVal) : Spec.mem decls 0 t v = none := by
  rw [Spec.mem]

/-- reduce `Rel` to positive fuels on all three sides -/
theorem rel_intro {ir : IR} {t : Ty}
    (h : ∀ (named : Named) (env : Env) (pf vf sf : Nat) (v : JsVal), depthOK (pf+1) ir = true →
      Agree2 (validate env false (vf+1) (print named (pf+1) ir) v) (Spec.mem [] (sf+1) t v)) : Rel ir t := by
  intro named env pf vf sf v hd
  obtain ⟨pf', rfl⟩ := depthOK_pos hd
  cases vf with
  | zero => rw [validate_zero]; exact agree2_nofuel _
  | succ vf =>
    cases sf with
    | zero => rw [mem_zero]; exact agree2_none _
    | succ sf => exact h named env pf' vf sf v hd

/-! ### leaves -/

theorem typeOf_bigint (v : JsVal) : (match v with | .bigint _ => true | _ => false) = (v.typeOf == "bigint") := by
  cases v <;> simp [JsVal.typeOf]

theorem rel_kw (k : String) (hk : k ∈ fragKeywords) (n : Nat) (stack : List (String × IR)) (defs : Lower.Defs) :
    ∃ ir, Lower.lower [] (n+1) stack defs (.kw k) = .ok ir defs ∧ depthOK 1 ir = true ∧ Rel ir (.kw k) := by
  simp only [fragKeywords, List.mem_cons, List.mem_nil_iff, or_false] at hk
  rcases hk with rfl | rfl | rfl | rfl | rfl | rfl | rfl | rfl | rfl | rfl
  all_goals
    refine ⟨_, by rw [Lower.lower], by simp [depthOK], ?_⟩
    apply rel_intro
    intro named env pf vf sf v _
    simp only [print, validate, Spec.mem]
  · exact agree2_ok rfl
  · exact agree2_ok rfl
  · exact agree2_ok rfl
  · exact agree2_ok rfl
  · exact agree2_ok rfl
  · exact agree2_ok rfl
  · exact agree2_ok rfl
  · exact agree2_ok rfl
  · exact agree2_ok rfl
  · exact agree2_ok (typeOf_bigint v)


theorem depthOK_mono : ∀ (k : Nat) (x : IR), depthOK k x = true → depthOK (k+1) x = true := by
  intro k
  induction k with
  | zero => intro x h; simp [depthOK] at h
  | succ k ih =>
    intro x h
    cases x with
    | array y => simp only [depthOK] at h ⊢; exact ih _ h
    | tuple pre rest =>
      simp only [depthOK, Bool.and_eq_true, List.all_eq_true] at h ⊢
      refine ⟨fun y hy => ih y (h.1 y hy), ?_⟩
      cases rest with
      | none => rfl
      | some r => exact ih r h.2
    | object vs ix =>
      cases ix with
      | none =>
        simp only [depthOK, List.all_eq_true] at h ⊢
        exact fun p hp => ih _ (h p hp)
      | some i => simp [depthOK] at h
    | _ => first | (simp [depthOK]; done) | (simp [depthOK] at h)

theorem depthOK_le {k m : Nat} {x : IR} (h : depthOK k x = true) (hle : k ≤ m) : depthOK m x = true := by
  induction hle with
  | refl => exact h
  | step _ ih => exact depthOK_mono _ _ ih

theorem rel_litStr (s : String) : Rel (strConst s) (.lit (.str s)) := by
  apply rel_intro
  intro named env pf vf sf v _
  simp only [strConst, print, validate, Spec.mem]
  exact agree2_ok (by simp [JsVal.isNullish])

theorem rel_litNum (c : String) : Rel (.const (.num c)) (.lit (.num c)) := by
  apply rel_intro
  intro named env pf vf sf v _
  simp only [print, validate, Spec.mem]
  exact agree2_ok (by simp [JsVal.isNullish])

theorem rel_litBool (b : Bool) : Rel (.const (.bool b)) (.lit (.bool b)) := by
  apply rel_intro
  intro named env pf vf sf v _
  simp only [print, validate, Spec.mem]
  exact agree2_ok (by simp [JsVal.isNullish])

theorem rel_array {x : IR} {t : Ty} (h : Rel x t) : Rel (.array x) (.array t) := by
  apply rel_intro
  intro named env pf vf sf v hd
  simp only [depthOK] at hd
  simp only [print, validate, Spec.mem]
  cases v with
  | arr items =>
    exact allShort_andFold (fun y hy => ⟨y, hy, h named env pf vf sf y hd⟩) (fun y hy => ⟨y, hy, h named env pf vf sf y hd⟩)
  | _ => exact agree2_ok rfl

theorem rel_paren {x : IR} {t : Ty} (h : Rel x t) : Rel x (.paren t) := by
  intro named env pf vf sf v hd
  cases sf with
  | zero => rw [mem_zero]; exact agree2_none _
  | succ sf => simp only [Spec.mem]; exact h named env pf vf sf v hd

theorem rel_readonly {x : IR} {t : Ty} (h : Rel x t) : Rel x (.readonly t) := by
  intro named env pf vf sf v hd
  cases sf with
  | zero => rw [mem_zero]; exact agree2_none _
  | succ sf => simp only [Spec.mem]; exact h named env pf vf sf v hd



/-! ### normal forms of the reference (its local folds are `andFold`) -/

theorem mem_array (sf : Nat) (t : Ty) (v : JsVal) :
    Spec.mem [] (sf+1) (.array t) v = (match v with
      | .arr items => andFold (Spec.mem [] sf t) (some true) items
      | _ => some false) := by
  simp only [Spec.mem]; rfl

theorem mem_tuple (sf : Nat) (pre : List Ty) (rest : Option Ty) (v : JsVal) :
    Spec.mem [] (sf+1) (.tuple pre rest) v = (match v with
      | .arr items =>
        if rest.isNone && items.length > pre.length then some false
        else
          match andFold (fun (p : Ty × Nat) => Spec.mem [] sf p.1 (items.getD p.2 .undef)) (some true)
              (pre.zip (List.range pre.length)), rest with
          | some h, some r => (andFold (Spec.mem [] sf r) (some true) (items.drop pre.length)).map (h && ·)
          | h, none => h
          | none, _ => none
      | _ => some false) := by
  simp only [Spec.mem]; rfl

/-! ### tuples -/

theorem pairwise2_map_left {α β γ : Type} {P : γ → β → Prop} (f : α → γ) : ∀ {xs : List α} {ys : List β},
    Pairwise2 (fun a b => P (f a) b) xs ys → Pairwise2 P (xs.map f) ys := by
  intro xs
  induction xs with
  | nil => intro ys h; cases ys with
    | nil => trivial
    | cons y ys => exact absurd h (by simp [Pairwise2])
  | cons x xs ih => intro ys h; cases ys with
    | nil => exact absurd h (by simp [Pairwise2])
    | cons y ys => simp only [Pairwise2, List.map_cons] at h ⊢; exact ⟨h.1, ih h.2⟩

/-- the rest elements: both absent, or both present and related -/
def RestRel : Option IR → Option Ty → Prop
  | none, none => True
  | some x, some t => Rel x t
  | _, _ => False

/-- element-wise agreement of the printed prefix with the declared prefix -/
theorem prefix_agree {ps : List IR} {pre : List Ty} (hp : Pairwise2 Rel ps pre) (named : Named) (env : Env) (pf vf sf : Nat)
    (hd : ∀ y ∈ ps, depthOK pf y = true) :
    Pairwise2 (fun (rt : RT) (t : Ty) => ∀ x, Agree2 (validate env false vf rt x) (Spec.mem [] sf t x))
      (ps.map (print named pf)) pre := by
  apply pairwise2_map_left
  revert hd
  revert pre
  induction ps with
  | nil => intro pre h _; cases pre with
    | nil => trivial
    | cons y ys => exact absurd h (by simp [Pairwise2])
  | cons a xs ih => intro pre h hdep; cases pre with
    | nil => exact absurd h (by simp [Pairwise2])
    | cons b ys =>
      simp only [Pairwise2] at h ⊢
      exact ⟨fun x => h.1 named env pf vf sf x (hdep a (by simp)), ih h.2 (fun y hy => hdep y (List.mem_cons_of_mem _ hy))⟩

theorem rel_tuple {ps : List IR} {pre : List Ty} {rx : Option IR} {rest : Option Ty}
    (hp : Pairwise2 Rel ps pre) (hr : RestRel rx rest) : Rel (.tuple ps rx) (.tuple pre rest) := by
  apply rel_intro
  intro named env pf vf sf v hd
  simp only [depthOK, Bool.and_eq_true, List.all_eq_true] at hd
  rw [mem_tuple]
  simp only [print, validate]
  have hl : ps.length = pre.length := pairwise2_length hp
  cases v with
  | arr items =>
    simp only [List.length_map]
    have hheads : Agree2
        (allShort (fun (p : RT × Nat) => validate env false vf p.1 (items.getD p.2 .undef))
          ((ps.map (print named pf)).zip (List.range ps.length)))
        (andFold (fun (p : Ty × Nat) => Spec.mem [] sf p.1 (items.getD p.2 .undef)) (some true)
          (pre.zip (List.range pre.length))) := by
      rw [← hl]
      have hz := pairwise2_zip (ps.map (print named pf)) pre (List.range ps.length) (prefix_agree hp named env pf vf sf hd.1)
      exact allShort_andFold
        (fun a ha => by
          obtain ⟨b, hb, hab⟩ := pairwise2_left hz a ha
          exact ⟨b, hb, by rw [hab.2]; exact hab.1 _⟩)
        (fun b hb => by
          obtain ⟨a, ha, hab⟩ := pairwise2_right hz b hb
          exact ⟨a, ha, by rw [hab.2]; exact hab.1 _⟩)
    revert hheads
    generalize allShort (fun (p : RT × Nat) => validate env false vf p.1 (items.getD p.2 .undef))
          ((ps.map (print named pf)).zip (List.range ps.length)) = A
    generalize andFold (fun (p : Ty × Nat) => Spec.mem [] sf p.1 (items.getD p.2 .undef)) (some true)
          (pre.zip (List.range pre.length)) = H
    intro hheads
    cases rx with
    | none =>
      cases rest with
      | some t => exact absurd hr (by simp [RestRel])
      | none =>
        simp only [Option.isNone_none, Bool.true_and, Option.map_none, hl]
        intro b c h1 h2
        by_cases hlen : items.length > pre.length
        · simp only [hlen, decide_true, if_true] at h2
          injection h2 with h2
          subst h2
          cases A with
          | ok bb =>
            cases bb with
            | true => simp only at h1; injection h1 with h1; rw [← h1]; simp [hlen]
            | false => simp only at h1; injection h1 with h1; exact h1.symm
          | throw e => cases h1
          | nofuel => cases h1
        · simp only [hlen, decide_false, Bool.false_eq_true, if_false] at h2
          cases A with
          | ok bb =>
            have hbc : bb = c := hheads bb c rfl h2
            cases bb with
            | true => simp only at h1; injection h1 with h1; rw [← h1, ← hbc]; simp [hlen]
            | false => simp only at h1; injection h1 with h1; rw [← h1, hbc]
          | throw e => cases h1
          | nofuel => cases h1
    | some x =>
      cases rest with
      | none => exact absurd hr (by simp [RestRel])
      | some t =>
        simp only [RestRel] at hr
        simp only [Option.map_some]
        have hrest : Agree2 (allShort (fun y => validate env false vf (print named pf x) y) (items.drop (ps.length)))
            (andFold (Spec.mem [] sf t) (some true) (items.drop pre.length)) := by
          rw [hl]
          exact allShort_andFold (fun y hy => ⟨y, hy, hr named env pf vf sf y hd.2⟩) (fun y hy => ⟨y, hy, hr named env pf vf sf y hd.2⟩)
        revert hrest
        generalize allShort (fun y => validate env false vf (print named pf x) y) (items.drop (ps.length)) = B
        intro hrest
        simp only [Option.isNone_some, Bool.false_and, Bool.false_eq_true, if_false]
        cases H with
        | none => intro b c _ h2; simp only at h2; cases h2
        | some hh =>
          simp only
          revert hrest
          generalize andFold (Spec.mem [] sf t) (some true) (items.drop pre.length) = T
          intro hrest b c h1 h2
          cases T with
          | none => cases h2
          | some cc =>
            simp only [Option.map_some] at h2
            injection h2 with h2
            cases A with
            | ok bb =>
              have hbh : bb = hh := hheads bb hh rfl rfl
              cases bb with
              | true =>
                simp only at h1
                have := hrest b cc h1 rfl
                rw [← h2, ← hbh, this]; simp
              | false =>
                simp only at h1
                injection h1 with h1
                rw [← h1, ← h2, ← hbh]; simp
            | throw e => cases h1
            | nofuel => cases h1
  | _ => exact agree2_ok rfl


/-! ### object types -/

theorem vsInsert_perm (acc : List (String × Bool × IR)) (k : String) (r : Bool) (t : IR) (hk : ∀ p ∈ acc, p.1 ≠ k) :
    (vsInsert acc k r t).Perm ((k, r, t) :: acc) := by
  unfold vsInsert
  have hf : acc.filter (fun p => p.1 != k) = acc := by
    apply List.filter_eq_self.2
    intro p hp
    simpa using hk p hp
  simp only [hf]
  have h1 : (acc.takeWhile (fun p => decide (p.1 < k)) ++ [(k, r, t)] ++ acc.dropWhile (fun p => decide (p.1 < k))).Perm
      ((k, r, t) :: (acc.takeWhile (fun p => decide (p.1 < k)) ++ acc.dropWhile (fun p => decide (p.1 < k)))) := by
    rw [List.append_assoc]
    exact List.perm_middle
  rw [List.takeWhile_append_dropWhile] at h1
  exact h1

theorem vsOfList_perm_aux : ∀ (l acc : List (String × Bool × IR)), ((acc ++ l).map (·.1)).Nodup →
    (l.foldl (fun acc p => vsInsert acc p.1 p.2.1 p.2.2) acc).Perm (acc ++ l) := by
  intro l
  induction l with
  | nil => intro acc _; simp
  | cons p l ih =>
    intro acc hn
    simp only [List.foldl_cons]
    have hfresh : ∀ q ∈ acc, q.1 ≠ p.1 := by
      intro q hq e
      rw [List.map_append, List.map_cons] at hn
      have := (List.nodup_append.1 hn).2.2 q.1 (List.mem_map_of_mem hq) p.1 (by simp)
      exact this e
    have hp1 := vsInsert_perm acc p.1 p.2.1 p.2.2 hfresh
    have hn' : ((vsInsert acc p.1 p.2.1 p.2.2 ++ l).map (·.1)).Nodup := by
      have hperm : (vsInsert acc p.1 p.2.1 p.2.2 ++ l).Perm (acc ++ p :: l) := by
        refine (List.Perm.append_right l hp1).trans ?_
        simp only [List.cons_append]
        exact (List.perm_middle).symm
      exact (hperm.map (·.1)).nodup_iff.2 hn
    refine (ih _ hn').trans ?_
    refine (List.Perm.append_right l hp1).trans ?_
    simp only [List.cons_append]
    exact (List.perm_middle).symm

theorem vsOfList_perm (l : List (String × Bool × IR)) (hn : (l.map (·.1)).Nodup) : (vsOfList l).Perm l := by
  have := vsOfList_perm_aux l [] (by simpa using hn)
  simpa [vsOfList] using this


theorem putMember_fresh (acc : List (String × Bool × Ty)) (m : String × Bool × Ty) (h : ∀ p ∈ acc, p.1 ≠ m.1) :
    Spec.putMember acc m = acc ++ [m] := by
  unfold Spec.putMember
  have : acc.any (fun p => p.1 == m.1) = false := by
    rw [List.any_eq_false]
    intro p hp
    simpa using h p hp
  simp [this]

theorem foldl_putMember_aux : ∀ (ms acc : List (String × Bool × Ty)), ((acc ++ ms).map (·.1)).Nodup →
    ms.foldl Spec.putMember acc = acc ++ ms := by
  intro ms
  induction ms with
  | nil => intro acc _; simp
  | cons m ms ih =>
    intro acc hn
    simp only [List.foldl_cons]
    have hfresh : ∀ q ∈ acc, q.1 ≠ m.1 := by
      intro q hq e
      rw [List.map_append, List.map_cons] at hn
      exact (List.nodup_append.1 hn).2.2 q.1 (List.mem_map_of_mem hq) m.1 (by simp) e
    rw [putMember_fresh acc m hfresh, ih (acc ++ [m]) (by simpa [List.append_assoc] using hn)]
    simp

theorem foldl_putMember (ms : List (String × Bool × Ty)) (hn : (ms.map (·.1)).Nodup) : ms.foldl Spec.putMember [] = ms := by
  simpa using foldl_putMember_aux ms [] (by simpa using hn)

/-- the reference on an object type with distinct property names and no index signature -/
theorem mem_obj (sf : Nat) (ms : List (String × Bool × Ty)) (hn : (ms.map (·.1)).Nodup) (v : JsVal) :
    Spec.mem [] (sf+1) (.obj ms none) v =
      (if !(v.isObjectLike && !v.isArray) then some false else
        andFold (fun (mb : String × Bool × Ty) =>
          if mb.2.1 && (v.getProp mb.1).isNullish then some true else Spec.mem [] sf mb.2.2 (v.getProp mb.1)) (some true) ms) := by
  simp only [Spec.mem, Spec.shape, foldl_putMember ms hn, Spec.memShapeWith]
  rfl


theorem pairwise2_of_mem_zip {α β γ : Type} {P : α → γ → Prop} (f : β → γ) : ∀ {xs : List α} {ms : List β},
    Pairwise2 P xs (ms.map f) → ∀ m x, (m, x) ∈ ms.zip xs → P x (f m) := by
  intro xs
  induction xs with
  | nil => intro ms _ m x h; cases ms <;> simp at h
  | cons a xs ih =>
    intro ms h m x hm
    cases ms with
    | nil => simp at hm
    | cons b ms =>
      simp only [List.map_cons, Pairwise2] at h
      simp only [List.zip_cons_cons, List.mem_cons, Prod.mk.injEq] at hm
      rcases hm with ⟨rfl, rfl⟩ | hm
      · exact h.1
      · exact ih h.2 m x hm

theorem exists_zip_of_mem {α β : Type} : ∀ {ms : List β} {xs : List α}, xs.length = ms.length → ∀ m ∈ ms, ∃ x, (m, x) ∈ ms.zip xs := by
  intro ms
  induction ms with
  | nil => intro xs _ m hm; cases hm
  | cons b ms ih =>
    intro xs hl m hm
    cases xs with
    | nil => simp at hl
    | cons a xs =>
      rcases List.mem_cons.1 hm with rfl | hm
      · exact ⟨a, by simp⟩
      · obtain ⟨x, hx⟩ := ih (by simpa using hl) m hm
        exact ⟨x, by simp [hx]⟩

/-- the compiled form of an object type: its members, sorted by name -/
def objIR (ms : List (String × Bool × Ty)) (xs : List IR) : IR :=
  .object (vsOfList ((ms.zip xs).map fun p => (p.1.1, !p.1.2.1, p.2))) none

theorem rel_obj {ms : List (String × Bool × Ty)} {xs : List IR} (hn : (ms.map (·.1)).Nodup)
    (hp : Pairwise2 Rel xs (ms.map (·.2.2))) : Rel (objIR ms xs) (.obj ms none) := by
  have hl : xs.length = ms.length := by simpa using pairwise2_length hp
  let l : List (String × Bool × IR) := (ms.zip xs).map fun p => (p.1.1, !p.1.2.1, p.2)
  have hlkeys : l.map (·.1) = ms.map (·.1) := by
    show ((ms.zip xs).map fun p => (p.1.1, !p.1.2.1, p.2)).map (·.1) = ms.map (·.1)
    rw [List.map_map]
    have : ((fun (q : String × Bool × IR) => q.1) ∘ fun (p : (String × Bool × Ty) × IR) => (p.1.1, !p.1.2.1, p.2)) =
        (fun (m : String × Bool × Ty) => m.1) ∘ Prod.fst := rfl
    rw [this, ← List.map_map, List.map_fst_zip (by omega)]
  have hperm : (vsOfList l).Perm l := vsOfList_perm l (by rw [hlkeys]; exact hn)
  apply rel_intro
  intro named env pf vf sf v hd
  simp only [objIR, depthOK, List.all_eq_true] at hd
  rw [mem_obj sf ms hn]
  simp only [objIR, print, validate]
  by_cases hobj : (v.isObjectLike && !v.isArray) = true
  · simp only [hobj, Bool.not_true, Bool.false_eq_true, if_false]
    -- the declared properties
    have hdecl : Agree2
        (allShort (fun (p : String × RT) => validate env false vf p.2 (v.getProp p.1))
          ((vsOfList l).map fun p => (p.1, if p.2.1 then print named pf p.2.2 else .optional (print named pf p.2.2))))
        (andFold (fun (mb : String × Bool × Ty) =>
          if mb.2.1 && (v.getProp mb.1).isNullish then some true else Spec.mem [] sf mb.2.2 (v.getProp mb.1)) (some true) ms) := by
      -- one printed property against its declaration
      have one : ∀ (mb : String × Bool × Ty) (x : IR), (mb, x) ∈ ms.zip xs → (mb.1, !mb.2.1, x) ∈ vsOfList l →
          Agree2 (validate env false vf (if (!mb.2.1) = true then print named pf x else .optional (print named pf x)) (v.getProp mb.1))
            (if mb.2.1 && (v.getProp mb.1).isNullish then some true else Spec.mem [] sf mb.2.2 (v.getProp mb.1)) := by
        intro mb x hz hq
        have hrel : Rel x mb.2.2 := pairwise2_of_mem_zip (fun (m : String × Bool × Ty) => m.2.2) hp mb x hz
        have hdx : depthOK pf x = true := hd _ hq
        cases hopt : mb.2.1 with
        | false =>
          simp only [Bool.not_false, if_true, Bool.false_and, Bool.false_eq_true, if_false]
          exact hrel named env pf vf sf _ hdx
        | true =>
          simp only [Bool.not_true, Bool.false_eq_true, if_false, Bool.true_and]
          cases vf with
          | zero => rw [validate_zero]; exact agree2_nofuel _
          | succ vf =>
            simp only [validate]
            split
            · exact agree2_ok rfl
            · exact hrel named env pf vf sf _ hdx
      apply allShort_andFold
      · intro p hp'
        obtain ⟨q, hq, rfl⟩ := List.mem_map.1 hp'
        have hql : q ∈ l := hperm.mem_iff.1 hq
        obtain ⟨⟨mb, x⟩, hz, rfl⟩ := List.mem_map.1 hql
        exact ⟨mb, (List.of_mem_zip hz).1, one mb x hz hq⟩
      · intro mb hmb
        obtain ⟨x, hz⟩ := exists_zip_of_mem hl mb hmb
        have hql : (mb.1, !mb.2.1, x) ∈ l := List.mem_map.2 ⟨(mb, x), hz, rfl⟩
        have hq : (mb.1, !mb.2.1, x) ∈ vsOfList l := hperm.mem_iff.2 hql
        exact ⟨_, List.mem_map.2 ⟨_, hq, rfl⟩, one mb x hz hq⟩
    revert hdecl
    generalize allShort (fun (p : String × RT) => validate env false vf p.2 (v.getProp p.1))
          ((vsOfList l).map fun p => (p.1, if p.2.1 then print named pf p.2.2 else .optional (print named pf p.2.2))) = A
    intro hdecl b c h1 h2
    cases A with
    | ok bb =>
      have hbc : bb = c := hdecl bb c rfl h2
      cases bb with
      | true =>
        have hb : true = b := by simpa using h1
        rw [← hb, hbc]
      | false => simp only at h1; injection h1 with h1; rw [← h1, hbc]
    | throw e => cases h1
    | nofuel => cases h1
  · have hobj' : (v.isObjectLike && !v.isArray) = false := by simpa using hobj
    simp only [hobj', Bool.not_false, if_true]
    exact agree2_ok rfl


/-! ## the induction over the frontend's fuel -/

def Stmt (n : Nat) : Prop := ∀ (t : Ty) (stack : List (String × IR)) (defs : Lower.Defs), Frag t →
  Lower.lower [] n stack defs t = .nofuel ∨
    ∃ ir, Lower.lower [] n stack defs t = .ok ir defs ∧ depthOK n ir = true ∧ Rel ir t

def StmtL (n : Nat) : Prop := ∀ (ts : List Ty) (stack : List (String × IR)) (defs : Lower.Defs), (∀ t ∈ ts, Frag t) →
  Lower.lowerList [] n stack defs ts = .nofuel ∨
    ∃ irs, Lower.lowerList [] n stack defs ts = .ok irs defs ∧ (∀ x ∈ irs, depthOK n x = true) ∧ Pairwise2 Rel irs ts

def StmtM (n : Nat) : Prop := ∀ (ms : List (String × Bool × Ty)) (stack : List (String × IR)) (defs : Lower.Defs),
  (ms.map (·.1)).Nodup → (∀ m ∈ ms, Frag m.2.2) →
  Lower.lowerMembers [] n stack defs ms none = .nofuel ∨
    ∃ ir, Lower.lowerMembers [] n stack defs ms none = .ok ir defs ∧ depthOK n ir = true ∧ Rel ir (.obj ms none)

theorem pairwise2_map_right {α β γ : Type} {P : α → γ → Prop} (f : β → γ) : ∀ {xs : List α} {ys : List β},
    Pairwise2 P xs (ys.map f) → Pairwise2 (fun a b => P a (f b)) xs ys := by
  intro xs
  induction xs with
  | nil => intro ys h; cases ys with
    | nil => trivial
    | cons y ys => exact absurd h (by simp [Pairwise2])
  | cons x xs ih => intro ys h; cases ys with
    | nil => exact absurd h (by simp [Pairwise2])
    | cons y ys => simp only [Pairwise2, List.map_cons] at h ⊢; exact ⟨h.1, ih h.2⟩

theorem frag_chain : ∀ n, Stmt n ∧ StmtL n ∧ StmtM n := by
  intro n
  induction n with
  | zero =>
    refine ⟨?_, ?_, ?_⟩
    · intro t stack defs _; left; rw [Lower.lower]
    · intro ts stack defs _; left; rw [Lower.lowerList]
    · intro ms stack defs _ _; left; rw [Lower.lowerMembers]
  | succ n ih =>
    obtain ⟨ihS, ihL, ihM⟩ := ih
    refine ⟨?_, ?_, ?_⟩
    · -- lower
      intro t stack defs hf
      cases hf with
      | kw k hk =>
        obtain ⟨ir, h1, h2, h3⟩ := rel_kw k hk n stack defs
        exact Or.inr ⟨ir, h1, depthOK_le h2 (by omega), h3⟩
      | litStr s => exact Or.inr ⟨strConst s, by rw [Lower.lower], by simp [depthOK, strConst], rel_litStr s⟩
      | litNum c => exact Or.inr ⟨.const (.num c), by simp [Lower.lower], by simp [depthOK], rel_litNum c⟩
      | litBool b => exact Or.inr ⟨.const (.bool b), by simp [Lower.lower], by simp [depthOK], rel_litBool b⟩
      | array t ht =>
        simp only [Lower.lower]
        rcases ihS t stack defs ht with h | ⟨ir, h1, h2, h3⟩
        · left; rw [h]
        · right; exact ⟨.array ir, by rw [h1], by simpa [depthOK] using h2, rel_array h3⟩
      | paren t ht =>
        simp only [Lower.lower]
        rcases ihS t stack defs ht with h | ⟨ir, h1, h2, h3⟩
        · left; exact h
        · right; exact ⟨ir, h1, depthOK_mono _ _ h2, rel_paren h3⟩
      | readonly t ht =>
        simp only [Lower.lower]
        rcases ihS t stack defs ht with h | ⟨ir, h1, h2, h3⟩
        · left; exact h
        · right; exact ⟨ir, h1, depthOK_mono _ _ h2, rel_readonly h3⟩
      | tuple pre rest hp hr =>
        simp only [Lower.lower]
        rcases ihL pre stack defs hp with h | ⟨ps, h1, h2, h3⟩
        · left; rw [h]
        · rw [h1]
          cases rest with
          | none =>
            right
            refine ⟨.tuple ps none, rfl, ?_, rel_tuple h3 (by simp [RestRel])⟩
            simp only [depthOK, Bool.and_true, List.all_eq_true]
            exact h2
          | some r =>
            rcases ihS r stack defs (hr r rfl) with h | ⟨x, hx1, hx2, hx3⟩
            · left; simp only [h]
            · right
              refine ⟨.tuple ps (some x), by simp only [hx1], ?_, rel_tuple h3 (by simpa [RestRel] using hx3)⟩
              simp only [depthOK, Bool.and_eq_true, List.all_eq_true]
              exact ⟨h2, hx2⟩
      | obj ms hn hm =>
        simp only [Lower.lower]
        rcases ihM ms stack defs hn hm with h | ⟨ir, h1, h2, h3⟩
        · left; exact h
        · right; exact ⟨ir, h1, depthOK_mono _ _ h2, h3⟩
    · -- lowerList
      intro ts stack defs hts
      cases ts with
      | nil => right; exact ⟨[], by rw [Lower.lowerList], by simp, trivial⟩
      | cons t ts =>
        simp only [Lower.lowerList]
        rcases ihS t stack defs (hts t (by simp)) with h | ⟨x, hx1, hx2, hx3⟩
        · left; rw [h]
        · rw [hx1]
          rcases ihL ts stack defs (fun y hy => hts y (List.mem_cons_of_mem _ hy)) with h | ⟨xs, h1, h2, h3⟩
          · left; simp only [h]
          · right
            refine ⟨x :: xs, by simp only [h1], ?_, ⟨hx3, h3⟩⟩
            intro y hy
            rcases List.mem_cons.1 hy with rfl | hy
            · exact depthOK_mono _ _ hx2
            · exact depthOK_mono _ _ (h2 y hy)
    · -- lowerMembers
      intro ms stack defs hn hm
      simp only [Lower.lowerMembers]
      have hfr : ∀ t ∈ ms.map (·.2.2), Frag t := by
        intro t ht
        obtain ⟨m, hm', rfl⟩ := List.mem_map.1 ht
        exact hm m hm'
      rcases ihL (ms.map (·.2.2)) stack defs hfr with h | ⟨xs, h1, h2, h3⟩
      · left; rw [h]
      · right
        rw [h1]
        refine ⟨objIR ms xs, rfl, ?_, rel_obj hn h3⟩
        have hl : xs.length = ms.length := by simpa using pairwise2_length h3
        simp only [objIR, depthOK, List.all_eq_true]
        intro q hq
        -- every entry of the sorted list comes from the zipped list
        have hkeys : (((ms.zip xs).map fun p => (p.1.1, !p.1.2.1, p.2)).map (·.1)) = ms.map (·.1) := by
          rw [List.map_map]
          have : ((fun (q : String × Bool × IR) => q.1) ∘ fun (p : (String × Bool × Ty) × IR) => (p.1.1, !p.1.2.1, p.2)) =
              (fun (m : String × Bool × Ty) => m.1) ∘ Prod.fst := rfl
          rw [this, ← List.map_map, List.map_fst_zip (by omega)]
        have hperm := vsOfList_perm ((ms.zip xs).map fun p => (p.1.1, !p.1.2.1, p.2)) (by rw [hkeys]; exact hn)
        obtain ⟨⟨mb, x⟩, hz, rfl⟩ := List.mem_map.1 (hperm.mem_iff.1 hq)
        exact h2 x (List.of_mem_zip hz).2


/-! ## the theorem -/

/-- the compiler on a one-export program over the fragment: never a diagnostic, and the definition table stays empty -/
theorem fragment_compiles (t : Ty) (hf : Frag t) :
    compile ⟨[], [("X", t)]⟩ = .nofuel ∨
      ∃ ir, depthOK 200 ir = true ∧ Rel ir t ∧ compile ⟨[], [("X", t)]⟩ = .ok [] [("X", print [] 200 ir)] := by
  rcases (frag_chain 200).1 t [] [] hf with h | ⟨ir, h1, h2, h3⟩
  · left
    simp only [compile, Lower.lowerExports, h]
  · right
    refine ⟨ir, h2, h3, ?_⟩
    simp only [compile, Lower.lowerExports, h1, Lower.namedOf, List.filterMap_nil, List.map_cons, List.map_nil, printEnv]

/-- **On the structural fragment the compiled validator never disagrees with the reference**: for every type built
from keyword types, literals, arrays, tuples and object types (any nesting), every value, and every fuel of the
reference. -/
theorem fragment_exact (t : Ty) (hf : Frag t) (v : JsVal) (sf : Nat) (b c : Bool)
    (h1 : C01.compiledAccepts t v = some b) (h2 : Spec.mem [] sf t v = some c) : b = c := by
  unfold C01.compiledAccepts at h1
  rcases fragment_compiles t hf with h | ⟨ir, hd, hrel, h⟩
  · rw [h] at h1; cases h1
  · rw [h] at h1
    simp only at h1
    cases hv : validate [] false 50 (print [] 200 ir) v with
    | ok bb =>
      rw [hv] at h1
      injection h1 with h1
      subst h1
      exact hrel [] [] 200 50 sf v hd bb c hv h2
    | throw e => rw [hv] at h1; cases h1
    | nofuel => rw [hv] at h1; cases h1

/-! ### non-vacuity -/

private def exTy : Ty :=
  .obj [("id", false, .kw "number"),
        ("tags", true, .array (.lit (.str "a"))),
        ("pos", false, .tuple [.kw "number", .kw "number"] (some (.kw "string")))] none

private theorem exTy_frag : Frag exTy := by
  refine .obj _ (by decide) ?_
  intro m hm
  simp only [List.mem_cons, List.mem_nil_iff, or_false] at hm
  rcases hm with rfl | rfl | rfl
  · exact .kw _ (by decide)
  · exact .array _ (.litStr _)
  · refine .tuple _ _ ?_ ?_
    · intro t ht
      simp only [List.mem_cons, List.mem_nil_iff, or_false] at ht
      rcases ht with rfl | rfl <;> exact .kw _ (by decide)
    · intro r hr; injection hr with hr; subst hr; exact .kw _ (by decide)

/-- a nested type of the fragment: the validator answers (accepts one value, rejects another), the reference answers,
and they agree — as `fragment_exact` says they must -/
example :
    C01.compiledAccepts exTy (.obj [("id", .num "1"), ("pos", .arr [.num "1", .num "2", .str "x"])]) = some true ∧
    C01.compiledAccepts exTy (.obj [("id", .num "1"), ("pos", .arr [.num "1"])]) = some false ∧
    Spec.mem [] 20 exTy (.obj [("id", .num "1"), ("pos", .arr [.num "1"])]) = some false := by
  refine ⟨?_, ?_, ?_⟩ <;> decide +kernel

end BeffVerif.C01F
