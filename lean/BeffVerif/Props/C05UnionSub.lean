import BeffVerif.Props.C05Union
/-!
# C05 — `A extends B1 | B2` for flat object types: the whole way from `is_subtype`

`Props/C05Union.lean` proves `check_mapping_empty` exact against any number of negative atoms; this file connects it to the
question a program asks: `flat_object_vs_union_iff_inclusion` — for object types `A`, `B1`, `B2` without index signature, three
distinct atoms in a context with an empty memo, `U` the union of the two right-hand types as `SemTypeOps::union` builds it, and
every fuel ≥ 6, `is_subtype A U` answers and says *yes* exactly when every exact value of `A` is a structural value of `B1` or of
`B2` (`{ ok: boolean } extends { ok: true } | { ok: false }`). The diagram side: the union of two atoms is one diagram whatever
the order they are written in (`union_atoms`), and `a ∧ ¬(x ∨ y)` has one clause with one positive and two negative atoms
wherever `a` stands in the order (`diff_union_sorted`, three shapes), which `dnf_mapping_is_empty` hands to
`check_mapping_empty` (`mapping_clause2`, then `C05Union.check_many`).
-/
namespace BeffVerif.C05Union3
open BeffVerif Sem C05 C05Flat C05Union Bdd

theorem cmp_lt_iff (a b : Atom) : Atom.cmp a b = .lt ↔ (a.kind < b.kind ∨ (a.kind = b.kind ∧ a.idx < b.idx)) := by
  unfold Atom.cmp
  by_cases h1 : a.kind < b.kind
  · simp [h1]
  · by_cases h2 : b.kind < a.kind
    · simp [h1, h2]; omega
    · by_cases h3 : a.idx < b.idx
      · simp [h1, h2, h3]; omega
      · by_cases h4 : b.idx < a.idx
        · simp [h1, h2, h3, h4]
        · simp [h1, h2, h3, h4]

theorem cmp_gt_iff (a b : Atom) : Atom.cmp a b = .gt ↔ (b.kind < a.kind ∨ (a.kind = b.kind ∧ b.idx < a.idx)) := by
  unfold Atom.cmp
  by_cases h1 : a.kind < b.kind
  · simp [h1]; omega
  · by_cases h2 : b.kind < a.kind
    · simp [h1, h2]
    · by_cases h3 : a.idx < b.idx
      · simp [h1, h2, h3]; omega
      · by_cases h4 : b.idx < a.idx
        · simp [h1, h2, h3, h4]; omega
        · simp [h1, h2, h3, h4]

theorem cmp_flip_lt (a b : Atom) (h : Atom.cmp a b = .lt) : Atom.cmp b a = .gt := by
  rw [cmp_lt_iff] at h; rw [cmp_gt_iff]; omega
theorem cmp_flip_gt (a b : Atom) (h : Atom.cmp a b = .gt) : Atom.cmp b a = .lt := by
  rw [cmp_gt_iff] at h; rw [cmp_lt_iff]; omega
theorem cmp_trans_lt (a b c : Atom) (h1 : Atom.cmp a b = .lt) (h2 : Atom.cmp b c = .lt) : Atom.cmp a c = .lt := by
  rw [cmp_lt_iff] at *; omega
theorem cmp_trans_gt (a b c : Atom) (h1 : Atom.cmp a b = .gt) (h2 : Atom.cmp b c = .gt) : Atom.cmp a c = .gt := by
  rw [cmp_gt_iff] at *; omega

/-- `a ∧ ¬(x ∨ y)` for `x < y`: one clause, whatever the position of `a` -/
theorem diff_union_sorted (a x y : Atom) (hax : a ≠ x) (hay : a ≠ y) (_hxy : Atom.cmp x y = .lt) (n : Nat) :
    ∃ d, Bdd.diff (n + 6) (fromAtom a) (node x tt (node y tt ff ff) ff) = some d ∧ Dnf.ofBdd d = [⟨[a], [x, y]⟩] := by
  have hne1 : (node a tt ff ff) ≠ (node x tt (node y tt ff ff) ff) := by intro e; injection e with e1; exact hax e1
  have hne2 : (node a tt ff ff) ≠ (node y tt ff ff) := by intro e; injection e with e1; exact hay e1
  rcases cmp_cases a x hax with c1 | c1
  · refine ⟨node a (node x ff ff (node y ff ff tt)) ff ff, ?_, ?_⟩
    · simp [Bdd.diff, Bdd.union, Bdd.complement, fromAtom, fromNode, fromNodeWith, hne1, c1]
    · simp [Dnf.ofBdd, Dnf.ofBddAcc]
  · rcases cmp_cases a y hay with c2 | c2
    · refine ⟨node x ff ff (node a (node y ff ff tt) ff ff), ?_, ?_⟩
      · simp [Bdd.diff, Bdd.union, Bdd.complement, fromAtom, fromNode, fromNodeWith, hne1, hne2, c1, c2]
      · simp [Dnf.ofBdd, Dnf.ofBddAcc]
    · refine ⟨node x ff ff (node y ff ff (node a tt ff ff)), ?_, ?_⟩
      · simp [Bdd.diff, Bdd.union, Bdd.complement, fromAtom, fromNode, fromNodeWith, hne1, hne2, c1, c2]
      · simp [Dnf.ofBdd, Dnf.ofBddAcc]

theorem union_atoms (x y : Atom) (hxy : Atom.cmp x y = .lt) (n : Nat) :
    Bdd.union (n + 2) (fromAtom x) (fromAtom y) = some (node x tt (node y tt ff ff) ff) ∧
    Bdd.union (n + 2) (fromAtom y) (fromAtom x) = some (node x tt (node y tt ff ff) ff) := by
  have hne : x ≠ y := by intro e; subst e; rw [cmp_lt_iff] at hxy; omega
  have hne1 : (node x tt ff ff) ≠ (node y tt ff ff) := by intro e; injection e with e1; exact hne e1
  have hne2 : (node y tt ff ff) ≠ (node x tt ff ff) := fun e => hne1 e.symm
  have hyx := cmp_flip_lt x y hxy
  constructor
  · simp [Bdd.union, fromAtom, fromNodeWith, hne1, hxy]
  · simp [Bdd.union, fromAtom, fromNodeWith, hne2, hyx]

theorem mapM_two {α β : Type} (f : α → SM β) (x y : α) (c : Ctx) (bx byy : β)
    (hx : f x c = some (bx, c)) (hy : f y c = some (byy, c)) : [x, y].mapM f c = some ([bx, byy], c) := by
  unfold List.mapM List.mapM.loop
  rw [sm_bind_of _ _ c c bx hx]
  unfold List.mapM.loop
  rw [sm_bind_of _ _ c c byy hy]
  rfl

/-- `dnf_mapping_is_empty` on one clause with one positive and two negative atoms -/
theorem mapping_clause2 (n : Nat) (D : Bdd) (a x y : Atom) (A' Bx By : MappingAtomic) (c : Ctx) (r : Bool)
    (hdnf : Dnf.ofBdd D = [⟨[a], [x, y]⟩])
    (hmemo : c.memoM.find? (fun p => p.1 == Dnf.ofBdd D) = none)
    (hpos : ∀ c1 : Ctx, c1.mappings = c.mappings → posIntersection (n + 1) [a] c1 = some (some A', c1))
    (hBx : c.mappings[x.idx]? = some (some Bx)) (hBy : c.mappings[y.idx]? = some (some By))
    (hcheck : ∀ c1 : Ctx, checkMappingEmpty (n + 1) A' [Bx, By] c1 = some (r, c1)) :
    ∃ c', mappingIsEmpty (n + 2) D c = some (r, c') := by
  unfold mappingIsEmpty
  simp only []
  rw [sm_bind_of _ _ c c c (by rfl)]
  simp only [hmemo]
  let c1 : Ctx := { c with memoM := c.memoM ++ [(Dnf.ofBdd D, none)] }
  rw [sm_bind_of _ _ c c1 () (by rfl)]
  rw [hdnf]
  have hneg : [x, y].mapM (fun (at' : Atom) => getMapping at'.idx) c1 = some ([Bx, By], c1) :=
    mapM_two _ x y c1 Bx By (getMapping_of _ _ _ hBx) (getMapping_of _ _ _ hBy)
  rw [sm_bind_of _ _ c1 c1 [r] (mapM_single _ _ c1 c1 r ?_)]
  · refine ⟨?_, ?_⟩
    rotate_left
    · simp only [sm_bind, SM.modify, sm_pure, List.all_cons, List.all_nil, Bool.and_true, id]
      rfl
  · show (posIntersection (n + 1) [a] >>= _) c1 = _
    rw [sm_bind_of _ _ c1 c1 (some A') (hpos c1 rfl)]
    show (List.mapM (fun (at' : Atom) => getMapping at'.idx) [x, y] >>= _) c1 = _
    rw [sm_bind_of _ _ c1 c1 [Bx, By] hneg]
    exact hcheck c1

/-- the positive side of a clause whose only positive atom is a flat object type: the atom with sorted keys, same readings -/
theorem positive_side (A : MappingAtomic) (hA : ∀ p ∈ A.vs, Good p.2 ∧ Inh p.2) (hAx : A.index = none) :
    ∃ A' : MappingAtomic, intersectMapping ⟨[], none⟩ A = some (some A') ∧ A'.index = none ∧
      (∀ p ∈ A'.vs, Good p.2 ∧ Inh p.2) ∧ (∀ k, valueExact A' k = valueExact A k) := by
  let names := JsVal.sortStrings (dedup (A.vs.map (·.1)))
  let A' : MappingAtomic := ⟨names.map (fun k => (k, valueOpen A k)), none⟩
  have hI : intersectMapping ⟨[], none⟩ A = some (some A') := intersect_first A (fun p hp => (hA p hp).2) hAx
  have hnames : ∀ k, k ∈ names ↔ k ∈ A.vs.map (·.1) := fun k => by
    simp only [names, mem_sortStrings, mem_dedup]
  have hget : ∀ k, vsGet A'.vs k = vsGet A.vs k := by
    intro k
    show vsGet (names.map fun k => (k, valueOpen A k)) k = _
    rw [vsGet_map]
    by_cases hk : k ∈ names
    · simp only [hk, if_true]
      have hs := (vsGet_isSome_iff A.vs k).2 ((hnames k).1 hk)
      cases hg : vsGet A.vs k with
      | none => rw [hg] at hs; cases hs
      | some t => simp [valueOpen, hg]
    · simp only [hk, if_false]
      cases hg : vsGet A.vs k with
      | none => rfl
      | some t => exact absurd ((hnames k).2 ((vsGet_isSome_iff A.vs k).1 (by rw [hg]; rfl))) hk
  refine ⟨A', hI, rfl, ?_, ?_⟩
  · intro p hp
    obtain ⟨k, hk, e⟩ := List.mem_map.1 hp
    subst e
    have hs := (vsGet_isSome_iff A.vs k).2 ((hnames k).1 hk)
    cases hg : vsGet A.vs k with
    | none => rw [hg] at hs; cases hs
    | some t =>
      obtain ⟨q, hq, e⟩ := vsGet_mem hg
      simp only [valueOpen, hg]
      exact e ▸ hA q hq
  · intro k
    simp only [valueExact, hget k, hAx]; rfl

theorem objVec_union (x y : Atom) (hxy : Atom.cmp x y = .lt) (hk : x.kind = mappingKind ∧ y.kind = mappingKind) :
    Sem.union (mappingFromIdx x.idx) (mappingFromIdx y.idx) = some (objVec (node x tt (node y tt ff ff) ff)) ∧
    Sem.union (mappingFromIdx y.idx) (mappingFromIdx x.idx) = some (objVec (node x tt (node y tt ff ff) ff)) := by
  obtain ⟨h1, h2⟩ := union_atoms x y hxy 198
  have ex : (⟨mappingKind, x.idx⟩ : Atom) = x := by cases x; simp_all
  have ey : (⟨mappingKind, y.idx⟩ : Atom) = y := by cases y; simp_all
  have h1' : Bdd.union fuelB (fromAtom ⟨mappingKind, x.idx⟩) (fromAtom ⟨mappingKind, y.idx⟩) = some (node x tt (node y tt ff ff) ff) := by
    rw [ex, ey]; exact h1
  have h2' : Bdd.union fuelB (fromAtom ⟨mappingKind, y.idx⟩) (fromAtom ⟨mappingKind, x.idx⟩) = some (node x tt (node y tt ff ff) ff) := by
    rw [ex, ey]; exact h2
  constructor
  · simp [Sem.union, mappingFromIdx, never, subUnion, bddUnion, h1', objVec]
  · simp [Sem.union, mappingFromIdx, never, subUnion, bddUnion, h2', objVec]

/-- **A flat object type against the union of two object types: assignability = inclusion.** `A`, `B1`, `B2` object types without
index signature (the declared properties of `A` inhabited scalar types, those of `B1`, `B2` well-formed), three distinct atoms in
a context with an empty memo; `U` the union of the two right-hand types as the engine builds it. For every fuel ≥ 6
`is_subtype A U` answers, and says *yes* exactly when every exact value of `A` is a structural value of `B1` or of `B2`. -/
theorem flat_object_vs_union_iff_inclusion (n i j1 j2 : Nat) (A B1 B2 : MappingAtomic) (c : Ctx) (U : SemType)
    (h1 : i ≠ j1) (h2 : i ≠ j2) (h12 : j1 ≠ j2)
    (hAi : c.mappings[i]? = some (some A)) (hB1 : c.mappings[j1]? = some (some B1)) (hB2 : c.mappings[j2]? = some (some B2))
    (hA : ∀ p ∈ A.vs, Good p.2 ∧ Inh p.2) (hAx : A.index = none)
    (hB1w : (∀ q ∈ B1.vs, WF q.2) ∧ B1.index = none) (hB2w : (∀ q ∈ B2.vs, WF q.2) ∧ B2.index = none)
    (hmemo : c.memoM = []) (hU : Sem.union (mappingFromIdx j1) (mappingFromIdx j2) = some U) :
    ∃ r c', isSubtype (n + 6) (mappingFromIdx i) U c = some (r, c') ∧
      (r = true ↔ ∀ o, memExact A o → memOpen B1 o ∨ memOpen B2 o) := by
  obtain ⟨A', hI, hA'x, hA', hexact⟩ := positive_side A hA hAx
  have hne : (⟨mappingKind, j1⟩ : Atom) ≠ ⟨mappingKind, j2⟩ := by intro e; injection e with _ e2; exact h12 e2
  -- the two right-hand atoms in diagram order, with their definitions
  have key : ∀ (x y : Atom) (Bx By : MappingAtomic), x.kind = mappingKind → y.kind = mappingKind → Atom.cmp x y = .lt →
      (⟨mappingKind, i⟩ : Atom) ≠ x → (⟨mappingKind, i⟩ : Atom) ≠ y →
      c.mappings[x.idx]? = some (some Bx) → c.mappings[y.idx]? = some (some By) →
      ((∀ q ∈ Bx.vs, WF q.2) ∧ Bx.index = none) → ((∀ q ∈ By.vs, WF q.2) ∧ By.index = none) →
      U = objVec (node x tt (node y tt ff ff) ff) →
      ∃ r c', isSubtype (n + 6) (mappingFromIdx i) U c = some (r, c') ∧
        (r = true ↔ ∀ o, memExact A o → memOpen Bx o ∨ memOpen By o) := by
    intro x y Bx By hkx hky hxy hax hay hBx hBy hBxw hByw hUe
    subst hUe
    obtain ⟨D, hD, hdnf⟩ := diff_union_sorted ⟨mappingKind, i⟩ x y hax hay hxy 194
    have hdiff : Sem.diff (mappingFromIdx i) (objVec (node x tt (node y tt ff ff) ff)) = some (objVec D) := by
      have hD' : Bdd.diff fuelB (fromAtom ⟨mappingKind, i⟩) (node x tt (node y tt ff ff) ff) = some D := hD
      simp [Sem.diff, mappingFromIdx, never, subDiff, bddDiff, hD', objVec]
    have hNeg : ∀ B ∈ [Bx, By], (∀ q ∈ B.vs, WF q.2) ∧ B.index = none := by
      intro B hB
      simp only [List.mem_cons, List.mem_nil_iff, or_false] at hB
      rcases hB with rfl | rfl
      · exact hBxw
      · exact hByw
    obtain ⟨r, _, hiff⟩ := check_many [Bx, By] n A' c hA' hA'x hNeg
    have hcheck : ∀ c1 : Ctx, checkMappingEmpty (n + 3 + 1) A' [Bx, By] c1 = some (r, c1) := by
      intro c1
      obtain ⟨r1, hr1, hiff1⟩ := check_many [Bx, By] n A' c1 hA' hA'x hNeg
      have hb : r1 = true ↔ r = true := hiff1.trans hiff.symm
      have : r1 = r := by
        cases r1 <;> cases r
        · rfl
        · exact absurd (hb.2 rfl) (by simp)
        · exact absurd (hb.1 rfl) (by simp)
        · rfl
      exact this ▸ hr1
    have hpos : ∀ c1 : Ctx, c1.mappings = c.mappings →
        posIntersection (n + 3 + 1) [⟨mappingKind, i⟩] c1 = some (some A', c1) := by
      intro c1 hc1
      exact pos_single (n + 3) ⟨mappingKind, i⟩ A A' c1 (by rw [hc1]; exact hAi) hI
    have hmemo' : c.memoM.find? (fun p => p.1 == Dnf.ofBdd D) = none := by rw [hmemo]; rfl
    obtain ⟨c', hme⟩ := mapping_clause2 (n + 3) D ⟨mappingKind, i⟩ x y A' Bx By c r hdnf hmemo' hpos hBx hBy hcheck
    refine ⟨r, c', ?_, ?_⟩
    · unfold isSubtype
      rw [sm_bind_of _ _ c c (objVec D) (by rw [hdiff]; rfl)]
      exact isEmpty_objVec (n + 5) D c c' r hme
    · rw [hiff]
      constructor
      · intro h o ho
        obtain ⟨B, hB, hm⟩ := h o (fun k => by rw [hexact]; exact ho k)
        simp only [List.mem_cons, List.mem_nil_iff, or_false] at hB
        rcases hB with rfl | rfl
        · exact Or.inl hm
        · exact Or.inr hm
      · intro h o ho
        rcases h o (fun k => by rw [← hexact]; exact ho k) with hm | hm
        · exact ⟨Bx, by simp, hm⟩
        · exact ⟨By, by simp, hm⟩
  rcases cmp_cases ⟨mappingKind, j1⟩ ⟨mappingKind, j2⟩ hne with hc | hc
  · have hu := (objVec_union ⟨mappingKind, j1⟩ ⟨mappingKind, j2⟩ hc ⟨rfl, rfl⟩).1
    simp only at hu
    rw [hU] at hu
    exact key ⟨mappingKind, j1⟩ ⟨mappingKind, j2⟩ B1 B2 rfl rfl hc
      (by intro e; injection e with _ e2; exact h1 e2) (by intro e; injection e with _ e2; exact h2 e2) hB1 hB2 hB1w hB2w
      (Option.some.inj hu)
  · have hc' := cmp_flip_gt _ _ hc
    have hu := (objVec_union ⟨mappingKind, j2⟩ ⟨mappingKind, j1⟩ hc' ⟨rfl, rfl⟩).2
    simp only at hu
    rw [hU] at hu
    obtain ⟨r, c', hr, hiff⟩ := key ⟨mappingKind, j2⟩ ⟨mappingKind, j1⟩ B2 B1 rfl rfl hc'
      (by intro e; injection e with _ e2; exact h2 e2) (by intro e; injection e with _ e2; exact h1 e2) hB2 hB1 hB2w hB1w
      (Option.some.inj hu)
    exact ⟨r, c', hr, hiff.trans ⟨fun h o ho => (h o ho).symm, fun h o ho => (h o ho).symm⟩⟩

-- ---------- the statement is about something ----------
/-- `{ ok: boolean }` (atom 0) against `{ ok: true } | { ok: false }` (atoms 1, 2) — yes; against `{ ok: true } | { ok: true }`… the
second example takes atoms 1 and 3 (`{ ok: true }` twice under two names) — no -/
def exCtx : Ctx := { mappings := [some exP, some exT, some exF, some exT] }
example : ((Sem.union (mappingFromIdx 1) (mappingFromIdx 2)).bind fun U => (isSubtype 6 (mappingFromIdx 0) U exCtx).map (·.1)) = some true := by
  decide +kernel
example : ((Sem.union (mappingFromIdx 1) (mappingFromIdx 3)).bind fun U => (isSubtype 6 (mappingFromIdx 0) U exCtx).map (·.1)) = some false := by
  decide +kernel

end BeffVerif.C05Union3
