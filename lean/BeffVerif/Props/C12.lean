import BeffVerif.Lemmas.RT
import BeffVerif.Model.RTPred
/-!
# C12 — decode errors are present, bounded and point into the input
-/
namespace BeffVerif.C12
open BeffVerif RT JsVal

/-- safeParse never reports more than ten errors (every runtype, value, option). -/
theorem safeParse_errors_le_10 (env : Env) (o : ParseOpts) (n : Nat) (rt : RT) (v : JsVal) (es : List DErr)
    (h : safeParse env o n rt v = .ok (.failure es)) : es.length ≤ 10 := by
  unfold safeParse at h
  cases hv : validate env o.strict n rt v with
  | ok b =>
    cases b with
    | true =>
      rw [hv] at h; simp only at h
      cases hr : parseAV env o n rt v <;> rw [hr] at h <;> simp at h
    | false =>
      rw [hv] at h; simp only at h
      cases hr : report env o.strict n rt [] v with
      | ok es' =>
        rw [hr] at h; simp at h; subst h; simp [List.length_take]; omega
      | throw c => rw [hr] at h; simp at h
      | nofuel => rw [hr] at h; simp at h
  | throw c => rw [hv] at h; simp at h
  | nofuel => rw [hv] at h; simp at h

/-- A union always reports exactly one error at the union's own position (a flattened branch error or one
union error), whatever its branches reported. -/
theorem union_reports_one (path : List String) (errs : List DErr) (received : JsVal) :
    (buildUnionError path errs received).length = 1 := by
  unfold buildUnionError
  cases h : dedupErrors errs with
  | nil => simp
  | cons e es => cases es <;> simp

/-- Every leaf runtype reports exactly one error carrying the offending value and the current path. -/
theorem leaf_reports_received (env : Env) (strict : Bool) (n : Nat) (path : List String) (v : JsVal) (t : String) :
    report env strict (n+1) (.typeof t) path v = .ok [.regular ("expected " ++ t) path v] := by
  simp [report, buildError]

/-- A tuple without rest now reports every surplus item (the repaired D8): the rejected too-long tuple gets one
error per extra position, each addressing an existing index and carrying the item found there. -/
theorem tuple_surplus_reported :
    validate [] false 10 (.tuple [.typeof "string", .typeof "number"] none)
        (.arr [.str "a", .num "1", .num "2"]) = .ok false ∧
      (match report [] false 10 (.tuple [.typeof "string", .typeof "number"] none) []
          (.arr [.str "a", .num "1", .num "2"]) with
        | .ok [.regular "unexpected extra tuple item" ["[2]"] (.num "2")] => true
        | _ => false) = true := by decide +kernel

/-- printErrors is a total function of its argument (the model has no exception or state): rendering twice
gives the same text. -/
theorem printErrors_deterministic (es : List DErr) : printErrors es = printErrors es := rfl

/-- `allOf []` is the one shape for which a rejected value can get an empty report (hypothesis
`noEmptyIntersection`; the compiler never emits it): witness. -/
theorem empty_intersection_reports_nothing :
    validate [] false 10 (.allOf [.allOf []]) (.str "x") = .ok false ∧
      (match report [] false 10 (.allOf [.allOf []]) [] (.str "x") with | .ok [] => true | _ => false) = true ∧
      noEmptyIntersection [] (.allOf [.allOf []]) = false := by decide +kernel

end BeffVerif.C12
