import BeffVerif.Lemmas.Sha
/-!
# C13 — hash256 is … computed as real SHA-256

Digest-routine part of the property: for ALL sequences of `updateBytes` calls (every split of the message
into chunks, hence every block-boundary and padding case) the writer's digest is the FIPS 180-4 SHA-256
of the concatenated bytes. The round constants / initial state are the REGENERATED `Gen.shaK/shaIV` and are
proved to be the FIPS constants by their defining property (fractional parts of cube / square roots of
the first primes), not by comparison with a second hand-typed table.
-/
namespace BeffVerif.C13
open BeffVerif Sha

/-- Every write sequence: the digest equals the specification hash of the concatenation. -/
theorem writer_digest_eq_spec (chunks : List Bytes) :
    ∃ w, Writer.updateChunksWith compress Writer.init chunks = some w ∧
      Writer.digestWith compress w = some (sha256 chunks.flatten) := by
  obtain ⟨w, e, i⟩ := Writer.updateChunks_inv compress chunks (Writer.init_inv compress)
  exact ⟨w, e, by simpa [sha256] using Writer.digest_spec compress i⟩

/-- The same, parametric in the compression function (so the buffering/padding logic is correct
independently of the round function). -/
theorem writer_digest_eq_spec_param (cmp : State → Bytes → State) (chunks : List Bytes) :
    ∃ w, Writer.updateChunksWith cmp Writer.init chunks = some w ∧
      Writer.digestWith cmp w = some (sha256With cmp IV chunks.flatten) := by
  obtain ⟨w, e, i⟩ := Writer.updateChunks_inv cmp chunks (Writer.init_inv cmp)
  exact ⟨w, e, by simpa using Writer.digest_spec cmp i⟩

/-- After `digestHex` the writer refuses further writes (`finished`): modelled as `none`. -/
theorem finished_writer_rejects (w : Writer) (h : w.finished = true) (d : Bytes) :
    Writer.updateBytesWith compress w d = none ∧ Writer.digestWith compress w = none := by
  simp [Writer.updateBytesWith, Writer.digestWith, h]

/-- The padded message is a whole number of blocks (so `absorb` consumes it entirely). -/
theorem pad_block_aligned (n : Nat) : (n + (pad n).length) % 64 = 0 := by
  simp [pad, be64, zeroPad]; omega

/-! ## The regenerated constants are the FIPS 180-4 constants -/

def primes64 : List Nat := [2, 3, 5, 7, 11, 13, 17, 19, 23, 29, 31, 37, 41, 43, 47, 53, 59, 61, 67, 71, 73,
  79, 83, 89, 97, 101, 103, 107, 109, 113, 127, 131, 137, 139, 149, 151, 157, 163, 167, 173, 179, 181, 191,
  193, 197, 199, 211, 223, 227, 229, 233, 239, 241, 251, 257, 263, 269, 271, 277, 281, 283, 293, 307, 311]

def isPrime (p : Nat) : Bool := 2 ≤ p && (List.range p).all (fun d => d < 2 || p % d != 0)

/-- the list really is "the first 64 primes": all prime, increasing, and nothing prime is skipped -/
theorem primes64_are_first_primes :
    primes64.all isPrime = true ∧ primes64.length = 64 ∧
      ((List.range 312).filter isPrime) = primes64 := by decide +kernel

/-- integer cube root -/
def icbrt (p : Nat) : Nat := (List.range 8).foldl (fun acc n => if n * n * n ≤ p then n else acc) 0
/-- integer square root -/
def isqrt (p : Nat) : Nat := (List.range 20).foldl (fun acc n => if n * n ≤ p then n else acc) 0

/-- `k` is the first 32 bits of the fractional part of the cube root of `p` -/
def isCbrtFrac (p k : Nat) : Bool :=
  let x := icbrt p * 2 ^ 32 + k
  k < 2 ^ 32 && x ^ 3 ≤ p * 2 ^ 96 && p * 2 ^ 96 < (x + 1) ^ 3

/-- `k` is the first 32 bits of the fractional part of the square root of `p` -/
def isSqrtFrac (p k : Nat) : Bool :=
  let x := isqrt p * 2 ^ 32 + k
  k < 2 ^ 32 && x ^ 2 ≤ p * 2 ^ 64 && p * 2 ^ 64 < (x + 1) ^ 2

theorem K_is_fips : Gen.shaK.length = 64 ∧
    (List.zipWith isCbrtFrac primes64 Gen.shaK).all id = true := by decide +kernel

theorem IV_is_fips : Gen.shaIV.length = 8 ∧
    (List.zipWith isSqrtFrac (primes64.take 8) Gen.shaIV).all id = true := by decide +kernel

/-- the six tag bytes are pairwise distinct (token kinds cannot be confused) -/
theorem tag_bytes_distinct :
    [Gen.tagTag, Gen.tagString, Gen.tagNumber, Gen.tagTrue, Gen.tagFalse, Gen.tagNull].Nodup ∧
      [Gen.tagTag, Gen.tagString, Gen.tagNumber, Gen.tagTrue, Gen.tagFalse, Gen.tagNull].all (· < 256) = true := by
  decide

/-- token-level writes feed exactly the canonical encoding to the digest -/
theorem hashToks_eq (ts : List Tok) : hashToks ts = some (sha256 (encodeToks ts)).hex := by
  have hfl : ((ts.map Tok.chunks).flatten).flatten = encodeToks ts := by
    induction ts with
    | nil => rfl
    | cons t ts ih =>
      simp only [List.map_cons, List.flatten_cons, List.flatten_append, encodeToks] at ih ⊢
      rw [ih]; congr 1
      cases t with
      | bool b => cases b <;> simp [Tok.chunks, Tok.bytes]
      | _ => simp [Tok.chunks, Tok.bytes, withLen]
  obtain ⟨w, e, d⟩ := writer_digest_eq_spec ((ts.map Tok.chunks).flatten)
  have e' : Writer.init.updateChunks ((ts.map Tok.chunks).flatten) = some w := by
    have : ∀ (cs : List Bytes) (w0 : Writer), w0.updateChunks cs = Writer.updateChunksWith compress w0 cs := by
      intro cs; induction cs with
      | nil => intro w0; rfl
      | cons c cs ih => intro w0; simp only [Writer.updateChunks, Writer.updateChunksWith, Writer.updateBytes]; cases Writer.updateBytesWith compress w0 c <;> simp [ih]
    rw [this]; exact e
  simp only [hashToks, e', Writer.digest, d, hfl, Option.map]

/-! Non-vacuity / sanity: the model reproduces the FIPS test vectors (kernel-checked evaluation). -/
example : (sha256 "abc".toUTF8.toList).hex =
    "ba7816bf8f01cfea414140de5dae2223b00361a396177a9cb410ff61f20015ad" := by decide +kernel
example : (sha256 []).hex = "e3b0c44298fc1c149afbf4c8996fb92427ae41e4649b934ca495991b7852b855" := by
  decide +kernel

end BeffVerif.C13
