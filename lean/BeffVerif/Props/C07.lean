import BeffVerif.Model.ToSchema
/-!
# C07 — semantically computed types reach code generation unchanged in meaning

`Model/ToSchema.lean` is a port of the materialisation (to_schema.rs), of `remove_nots_of_intersections_and_empty_of_union`,
of `keyof` / indexed access on type vectors (bdd.rs) and of the frontend glue for `Exclude`, `keyof` and `T[K]`.
The reference meaning of the three operators is TypeScript's (Model/SubSpec.lean: `Exclude` distributes over the union
members and keeps those not assignable to the second operand; `keyof` of a union keeps the common keys; `T[K]`
distributes over unions).

General theorems over the materialisation are not proved (the functions are monadic, mutually recursive and go through
the smart constructors `any_of` / `all_of`); the statements below are closed witnesses checked by the kernel, each one the
regression test of a repaired defect, and the correspondence + reference oracle decide the property per generated
instance.
-/
namespace BeffVerif.C07
open BeffVerif Sem

/-- the materialised type and its helper definitions, as injective text keys (`IR.key`; `IR` has no decidable equality) -/
def materialise (t : SemType) (c : Ctx := {}) : Option (String × List (String × String)) :=
  (semtypeToRuntype 100 t 0 c).map fun r => (IR.key r.1.1, r.1.2.1.map fun p => (p.1, IR.key p.2))

def k (t : IR) : String := IR.key t

/-- D2: `number` minus the literals 1 and 2 is materialised as `number` — no negation, not "everything" -/
theorem excluded_numbers_widen_to_number :
    materialise { never with num := .some ⟨false, ["1", "2"]⟩ } = some (k .number, []) := by decide +kernel

/-- `boolean` minus `true` is materialised as `false`; a single literal as that constant -/
theorem literal_sets_are_exact :
    materialise { never with bool := .some false } = some (k (.const (.bool false)), []) ∧
    materialise { never with num := .some ⟨true, ["1"]⟩ } = some (k (.const (.num "1")), []) := by
  constructor <;> decide +kernel

/-- the context of `type T = [string, ...T[]]` (one list atom whose rest is the atom itself) -/
def recTupleCtx : Ctx :=
  { lists := [some ⟨[{ never with str := .all }], listFromIdx 0⟩], refL := [("T", 0)] }

/-- D72: a type that refers to itself is handed over as a reference to a helper definition that exists, exactly once,
under a generated name (before the fix: a reference to the undefined name "AnyName") -/
theorem recursive_result_keeps_its_definition :
    materialise (listFromIdx 0) recTupleCtx =
      some (k (.ref "RecursiveGenerated1"), [("RecursiveGenerated1", k (.tuple [.string] (some (.ref "RecursiveGenerated1"))))]) := by
  decide +kernel

/-- `keyof` of one object type: its declared keys -/
theorem keyof_object_keys :
    ((keyofSem (mappingFromIdx 0)) { mappings := [some ⟨[("a", { never with null := true }), ("b", { never with num := .all })], none⟩] }).map (·.1)
      = some { never with str := .some ⟨true, ["a", "b"]⟩ } := by decide +kernel

/-- D71: `({ [k: string]: "a" })["b"]` is `"a"` although the object type declares no property -/
theorem indexed_access_under_index_signature :
    (mappingMemberType ⟨[], some { never with str := .some ⟨true, ["a"]⟩ }⟩ (.lits true ["b"]))
      = some { never with str := .some ⟨true, ["a"]⟩ } := by decide +kernel

end BeffVerif.C07
