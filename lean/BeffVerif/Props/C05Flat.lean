import BeffVerif.Props.C05
import BeffVerif.Lemmas.Sort
/-!
# C05 — assignability = inclusion, for flat object types (one object type against one object type)

`Props/C05.lean` proves the decision exact on type vectors without object / list part. This file carries it one level up:
an object type whose declared properties are inhabited scalar types (no index signature), on the left of `extends`,
against an object type on the right, with or without a (string) index signature. For every context in which the two atoms are defined and the
memo holds no answer for this very question yet, and every fuel ≥ 5, `is_subtype` answers, and says *yes* exactly when every exact value of the left type —
a value for every declared key within its type, nothing else — is a value of the right type under the structural reading
(undeclared keys are free, or within the index signature when there is one). That is reading S8 of the reference, now a theorem on this fragment instead of a sampled
agreement.

The proof follows the engine step by step: the difference of two atoms is one diagram with one clause `A ∧ ¬B`
(`diff_atoms`), the clause's positive side is the atom itself with its keys sorted (`intersect_first`, `pos_single`),
`check_mapping_empty` walks the union of the keys and asks, per key, whether `A[k] \ B[k]` is empty (`keys_fold`, using
the scalar theorem), the index-signature dimension contributes nothing (`check_one`), the memo and the DNF plumbing are
transparent (`mapping_single`, `isEmpty_objVec`). The statement is false for unions of object types on the left (D25) and
for a UNION of index-signature types on the right (D84): both are outside the hypotheses (one atom on each side; one index
signature on the right is fine).
-/
namespace BeffVerif.C05Flat
open BeffVerif Sem C05 Bdd

@[simp] theorem sm_pure {α : Type} (a : α) (c : Ctx) : (pure a : SM α) c = some (a, c) := rfl
theorem sm_bind {α β : Type} (m : SM α) (f : α → SM β) (c : Ctx) :
    (m >>= f) c = match m c with | some (a, c') => f a c' | none => none := rfl
theorem sm_bind_of {α β : Type} (m : SM α) (f : α → SM β) (c c' : Ctx) (a : α) (h : m c = some (a, c')) :
    (m >>= f) c = f a c' := by rw [sm_bind, h]

/-- a property type of the fragment: scalar only, well formed -/
def Good (t : SemType) : Prop := ScalarOnly t ∧ WF t
def Inh (t : SemType) : Prop := ∃ v, hasScalar t v = true

theorem isEmpty_inh (n : Nat) (t : SemType) (c : Ctx) (hg : Good t) (hi : Inh t) :
    isEmpty (n + 1) t c = some (false, c) := by
  obtain ⟨r, hr, hiff⟩ := isEmpty_scalarOnly n t c hg.1 hg.2
  cases r
  · exact hr
  · obtain ⟨v, hv⟩ := hi
    have := hiff.1 rfl v
    rw [hv] at this; cases this

theorem isEmpty_good (n : Nat) (t : SemType) (c : Ctx) (hg : Good t) :
    ∃ r, isEmpty (n + 1) t c = some (r, c) ∧ (r = false ↔ Inh t) := by
  obtain ⟨r, hr, hiff⟩ := isEmpty_scalarOnly n t c hg.1 hg.2
  refine ⟨r, hr, ?_⟩
  constructor
  · intro h
    subst h
    by_cases hex : ∃ v, hasScalar t v = true
    · exact hex
    · exfalso
      have : ∀ v, hasScalar t v = false := by
        intro v
        cases hv : hasScalar t v
        · rfl
        · exact absurd ⟨v, hv⟩ hex
      have := hiff.2 this
      cases this
  · intro ⟨v, hv⟩
    cases r
    · rfl
    · have := hiff.1 rfl v
      rw [hv] at this; cases this

theorem anyEmpty_false (n : Nat) (vs : List (String × SemType)) (c : Ctx)
    (h : ∀ p ∈ vs, Good p.2 ∧ Inh p.2) :
    vs.foldlM (fun (acc : Bool) (p : String × SemType) => if acc then (pure true : SM Bool) else isEmpty (n + 1) p.2) false c
      = some (false, c) := by
  induction vs with
  | nil => rfl
  | cons p ps ih =>
    rw [List.foldlM_cons]
    have hp := h p List.mem_cons_self
    rw [sm_bind_of _ _ c c false (by simpa using isEmpty_inh n p.2 c hp.1 hp.2)]
    exact ih fun q hq => h q (List.mem_cons_of_mem _ hq)

theorem cmp_cases (a b : Atom) (h : a ≠ b) : Atom.cmp a b = .lt ∨ Atom.cmp a b = .gt := by
  unfold Atom.cmp
  by_cases h1 : a.kind < b.kind
  · simp [h1]
  · by_cases h2 : b.kind < a.kind
    · simp [h1, h2]
    · by_cases h3 : a.idx < b.idx
      · simp [h1, h2, h3]
      · by_cases h4 : b.idx < a.idx
        · simp [h1, h2, h3, h4]
        · exfalso; apply h
          cases a; cases b; simp at *; omega

/-- the difference of two distinct atoms has exactly one clause: the first atom and not the second -/
theorem diff_atoms (a b : Atom) (h : a ≠ b) (n : Nat) :
    ∃ d, Bdd.diff (n + 4) (fromAtom a) (fromAtom b) = some d ∧ Dnf.ofBdd d = [⟨[a], [b]⟩] := by
  have hne : (node a tt ff ff) ≠ (node b tt ff ff) := by
    intro e; injection e with e1; exact h e1
  rcases cmp_cases a b h with hc | hc
  · refine ⟨node a (node b ff ff tt) ff ff, ?_, ?_⟩
    · simp [Bdd.diff, fromAtom, hne, hc, Bdd.union, Bdd.complement, fromNode, fromNodeWith]
    · simp [Dnf.ofBdd, Dnf.ofBddAcc]
  · refine ⟨node b ff ff (node a tt ff ff), ?_, ?_⟩
    · simp [Bdd.diff, fromAtom, hne, hc, Bdd.union, fromNode, fromNodeWith]
    · simp [Dnf.ofBdd, Dnf.ofBddAcc]

/-- an object type all of whose declared properties are inhabited scalar types, checked against no negative atom, is not empty -/
theorem check_nil (n : Nat) (P : MappingAtomic) (c : Ctx) (h : ∀ p ∈ P.vs, Good p.2 ∧ Inh p.2) :
    checkMappingEmpty (n + 2) P [] c = some (false, c) := by
  unfold checkMappingEmpty
  rw [sm_bind_of _ _ c c false (anyEmpty_false n P.vs c h)]
  rfl

theorem wf_unknown : WF unknown := by
  refine ⟨?_, ?_, ?_⟩ <;> simp [unknown, WFLit]
theorem good_optionalProp : Good optionalProp := by
  refine ⟨⟨rfl, rfl⟩, ?_, ?_, ?_⟩ <;> simp [optionalProp, never, WFLit]

/-- the difference of a fragment type and a well-formed type is a fragment type with the expected members -/
theorem diff_good (a b : SemType) (ha : Good a) (hb : WF b) :
    ∃ d, Sem.diff a b = some d ∧ Good d ∧ ∀ v, hasScalar d v = (hasScalar a v && !hasScalar b v) := by
  obtain ⟨d, hd, hds, hdv⟩ := diff_scalarOnly a b ha.1
  refine ⟨d, hd, ⟨hds, ?_⟩, hdv⟩
  unfold Sem.diff at hd
  simp only [Option.bind_eq_bind, Option.bind_eq_some_iff] at hd
  obtain ⟨_, _, rn, hn, rs, hs, _, _, _, _, rv, hv, hd⟩ := hd
  simp only [Option.some.injEq] at hd
  subst hd
  exact ⟨subDiff_lit_wf _ _ ha.2.1 hb.1 _ hn, subDiff_lit_wf _ _ ha.2.2.1 hb.2.1 _ hs,
    subDiff_lit_wf _ _ ha.2.2.2 hb.2.2 _ hv⟩

theorem vsGet_mem {vs : List (String × SemType)} {k : String} {t : SemType} (h : vsGet vs k = some t) :
    ∃ p ∈ vs, p.2 = t := by
  unfold vsGet at h
  cases hf : vs.find? (fun p => p.1 == k) with
  | none => rw [hf] at h; cases h
  | some p => rw [hf] at h; exact ⟨p, List.mem_of_find?_eq_some hf, by simpa using h⟩

theorem good_valueExact (P : MappingAtomic) (hP : ∀ p ∈ P.vs, Good p.2) (hi : P.index = none) (k : String) :
    Good (valueExact P k) := by
  unfold valueExact
  cases hg : vsGet P.vs k with
  | none => simp only [hi]; exact good_optionalProp
  | some t => obtain ⟨p, hp, e⟩ := vsGet_mem hg; exact e ▸ hP p hp

theorem wf_valueOpen (B : MappingAtomic) (hB : ∀ q ∈ B.vs, WF q.2) (hi : ∀ w, B.index = some w → WF w) (k : String) :
    WF (valueOpen B k) := by
  unfold valueOpen
  cases hg : vsGet B.vs k with
  | none =>
    cases hx : B.index with
    | none => exact wf_unknown
    | some w => exact hi w hx
  | some t => obtain ⟨p, hp, e⟩ := vsGet_mem hg; exact e ▸ hB p hp

theorem mem_vsPut {vs : List (String × SemType)} {k : String} {d : SemType} {p : String × SemType}
    (h : p ∈ vsPut vs k d) : p ∈ vs ∨ p = (k, d) := by
  unfold vsPut at h
  split at h
  · obtain ⟨q, hq, e⟩ := List.mem_map.1 h
    split at e
    · exact Or.inr e.symm
    · exact Or.inl (e ▸ hq)
  · rcases List.mem_append.1 h with h | h
    · exact Or.inl h
    · exact Or.inr (by simpa using h)

/-- what the engine asks of one key: every value the left side may have there is a value the right side allows there -/
def Covered (P B : MappingAtomic) (k : String) : Prop :=
  ∀ v, hasScalar (valueExact P k) v = true → hasScalar (valueOpen B k) v = true

theorem keys_fold (n : Nat) (P B : MappingAtomic) (c : Ctx)
    (hP : ∀ p ∈ P.vs, Good p.2 ∧ Inh p.2) (hPi : P.index = none)
    (hB : ∀ q ∈ B.vs, WF q.2) (hBi : ∀ w, B.index = some w → WF w) (keys : List String) (ok : Bool) :
    ∃ r, keys.foldlM (fun (ok : Bool) (k : String) =>
        if !ok then (pure false : SM Bool) else do
          let d ← SM.lift (diff (valueExact P k) (valueOpen B k))
          if ← isEmpty (n + 2) d then pure true
          else do
            let r ← checkMappingEmpty (n + 2) { P with vs := vsPut P.vs k d } []
            pure r) ok c = some (r, c) ∧ (r = true ↔ ok = true ∧ ∀ k ∈ keys, Covered P B k) := by
  induction keys generalizing ok with
  | nil => exact ⟨ok, rfl, by simp⟩
  | cons k ks ih =>
    rw [List.foldlM_cons]
    cases ok with
    | false =>
      obtain ⟨r, hr, hiff⟩ := ih false
      refine ⟨r, ?_, by simpa using hiff⟩
      rw [sm_bind_of _ _ c c false (by rfl)]
      exact hr
    | true =>
      obtain ⟨d, hd, hdg, hdv⟩ := diff_good (valueExact P k) (valueOpen B k)
        (good_valueExact P (fun p hp => (hP p hp).1) hPi k) (wf_valueOpen B hB hBi k)
      obtain ⟨e, he, heiff⟩ := isEmpty_good (n + 1) d c hdg
      have hcov : e = true ↔ Covered P B k := by
        constructor
        · intro h v hv
          cases hb : hasScalar (valueOpen B k) v
          · exfalso
            have : Inh d := ⟨v, by rw [hdv, hv, hb]; rfl⟩
            have := heiff.2 this
            rw [h] at this; cases this
          · rfl
        · intro h
          cases e
          · exfalso
            obtain ⟨v, hv⟩ := heiff.1 rfl
            rw [hdv] at hv
            simp only [Bool.and_eq_true, Bool.not_eq_true'] at hv
            rw [h v hv.1] at hv; cases hv.2
          · rfl
      cases e with
      | true =>
        obtain ⟨r, hr, hiff⟩ := ih true
        refine ⟨r, ?_, ?_⟩
        · rw [sm_bind_of _ _ c c true ?_]
          · exact hr
          · simp only [Bool.not_true, Bool.false_eq_true, if_false]
            rw [sm_bind_of _ _ c c d (by rw [hd]; rfl)]
            rw [sm_bind_of _ _ c c true he]
            rfl
        · rw [hiff]
          simp only [true_and, List.mem_cons, forall_eq_or_imp]
          exact ⟨fun h => ⟨hcov.1 rfl, h⟩, fun h => h.2⟩
      | false =>
        obtain ⟨r, hr, hiff⟩ := ih false
        refine ⟨r, ?_, ?_⟩
        · rw [sm_bind_of _ _ c c false ?_]
          · exact hr
          · simp only [Bool.not_true, Bool.false_eq_true, if_false]
            rw [sm_bind_of _ _ c c d (by rw [hd]; rfl)]
            rw [sm_bind_of _ _ c c false he]
            simp only [Bool.false_eq_true, if_false]
            · apply check_nil
              intro p hp
              rcases mem_vsPut hp with hp | hp
              · exact hP p hp
              · subst hp; exact ⟨hdg, heiff.1 rfl⟩
        · rw [hiff]
          simp only [Bool.false_eq_true, false_and, true_and, List.mem_cons, forall_eq_or_imp, false_iff, not_and]
          intro h
          have := hcov.2 h
          cases this
theorem hasScalar_unknown (v : Scalar) : hasScalar unknown v = true := by
  cases v <;> simp [hasScalar, unknown, subBoolHas, subLitHas]

theorem hasScalar_makeOptional_unknown (v : Scalar) : hasScalar (makeOptional unknown) v = true := by
  cases v <;> simp [hasScalar, unknown, makeOptional, subBoolHas, subLitHas]

theorem wf_makeOptional (t : SemType) (h : WF t) : WF (makeOptional t) := h

theorem absent_of_optionalProp (v : Scalar) (h : hasScalar optionalProp v = true) : v = .absent := by
  cases v <;> simp [hasScalar, optionalProp, never, subBoolHas, subLitHas] at h ⊢

def keysOf (P B : MappingAtomic) : List String :=
  JsVal.sortStrings (dedup (P.vs.map (·.1) ++ B.vs.map (·.1)))

/-- the index-signature dimension of a closed positive atom: "no further key" against "further keys, if any, in `w`" —
nothing is left over -/
theorem index_dim_empty (n : Nat) (w : SemType) (hw : WF w) (c : Ctx) :
    ∃ d, Sem.diff optionalProp (makeOptional w) = some d ∧ isEmpty (n + 2) d c = some (true, c) := by
  obtain ⟨d, hd, hdg, hdv⟩ := diff_good optionalProp (makeOptional w) good_optionalProp (wf_makeOptional _ hw)
  obtain ⟨e, he, heiff⟩ := isEmpty_good (n + 1) d c hdg
  have : e = true := by
    cases e
    · obtain ⟨v, hv⟩ := heiff.1 rfl
      rw [hdv] at hv
      simp only [Bool.and_eq_true, Bool.not_eq_true'] at hv
      have hab : v = .absent := absent_of_optionalProp v hv.1
      subst hab
      simp [hasScalar, makeOptional] at hv
    · rfl
  subst this
  exact ⟨d, hd, he⟩

/-- `check_mapping_empty` on one positive and one negative flat atom: total, leaves the context alone, and says "empty"
exactly when every key in sight is covered -/
theorem check_one (n : Nat) (P B : MappingAtomic) (c : Ctx)
    (hP : ∀ p ∈ P.vs, Good p.2 ∧ Inh p.2) (hPi : P.index = none)
    (hB : ∀ q ∈ B.vs, WF q.2) (hBi : ∀ w, B.index = some w → WF w) :
    ∃ r, checkMappingEmpty (n + 3) P [B] c = some (r, c) ∧ (r = true ↔ ∀ k ∈ keysOf P B, Covered P B k) := by
  obtain ⟨r, hr, hiff⟩ := keys_fold n P B c hP hPi hB hBi (keysOf P B) true
  refine ⟨r, ?_, by simpa using hiff⟩
  unfold keysOf at hr
  unfold checkMappingEmpty
  rw [sm_bind_of _ _ c c false (anyEmpty_false (n + 1) P.vs c hP)]
  simp only [Bool.false_eq_true, if_false]
  rw [sm_bind_of _ _ c c r hr]
  cases r with
  | false => rfl
  | true =>
    simp only [Bool.not_true, Bool.false_eq_true, if_false, hPi]
    cases hx : B.index with
    | none =>
      simp only
      obtain ⟨d, hd, he⟩ := index_dim_empty n unknown wf_unknown c
      rw [sm_bind_of _ _ c c d (by rw [hd]; rfl)]
      rw [sm_bind_of _ _ c c true he]
      rfl
    | some w =>
      simp only
      obtain ⟨d, hd, he⟩ := index_dim_empty n w (hBi w hx) c
      rw [sm_bind_of _ _ c c d (by rw [hd]; rfl)]
      rw [sm_bind_of _ _ c c true he]
      rfl

theorem subInter_all {α : Type} (f : α → α → Option (Sem.Sub α)) (x : Sem.Sub α) : subInter f .all x = some x := by
  cases x <;> rfl

theorem inter_unknown (x : SemType) : inter unknown x = some x := by
  cases x
  simp [inter, unknown, subInter_all]

theorem hasScalar_never (v : Scalar) : hasScalar never v = false := by
  cases v <;> simp [hasScalar, never, subBoolHas, subLitHas]

theorem not_isNever (t : SemType) (h : Inh t) : t.isNever = false := by
  cases hn : t.isNever
  · rfl
  · exfalso
    obtain ⟨v, hv⟩ := h
    have : t = never := by simpa [SemType.isNever] using hn
    rw [this, hasScalar_never] at hv; cases hv

theorem mem_dedup_acc (xs acc : List String) (x : String) :
    x ∈ xs.foldl (fun a s => if a.contains s then a else a ++ [s]) acc ↔ x ∈ acc ∨ x ∈ xs := by
  induction xs generalizing acc with
  | nil => simp
  | cons y ys ih =>
    rw [List.foldl_cons, ih]
    by_cases hc : acc.contains y = true
    · simp only [hc, if_true, List.mem_cons]
      have : y ∈ acc := by simpa using hc
      constructor
      · rintro (h | h)
        · exact Or.inl h
        · exact Or.inr (Or.inr h)
      · rintro (h | h | h)
        · exact Or.inl h
        · exact Or.inl (h ▸ this)
        · exact Or.inr h
    · simp only [hc, Bool.false_eq_true, if_false, List.mem_append, List.mem_cons, List.not_mem_nil, or_false]
      constructor
      · rintro ((h | h) | h)
        · exact Or.inl h
        · exact Or.inr (Or.inl h)
        · exact Or.inr (Or.inr h)
      · rintro (h | h | h)
        · exact Or.inl (Or.inl h)
        · exact Or.inl (Or.inr h)
        · exact Or.inr h

theorem mem_dedup (xs : List String) (x : String) : x ∈ dedup xs ↔ x ∈ xs := by
  unfold dedup; rw [mem_dedup_acc]; simp

theorem mem_sortStrings (xs : List String) (x : String) : x ∈ JsVal.sortStrings xs ↔ x ∈ xs :=
  (C10.sortBy_perm _ xs).mem_iff

theorem vsGet_isSome_iff (vs : List (String × SemType)) (k : String) :
    (vsGet vs k).isSome = true ↔ k ∈ vs.map (·.1) := by
  unfold vsGet
  induction vs with
  | nil => simp
  | cons p ps ih =>
    simp only [List.find?_cons, List.map_cons, List.mem_cons]
    by_cases h : (p.1 == k) = true
    · simp [(beq_iff_eq.1 h).symm]
    · simp only [h]
      have : ¬ k = p.1 := fun e => h (by simp [e])
      simp only [this, false_or]
      exact ih

theorem vsGet_map (names : List String) (g : String → SemType) (k : String) :
    vsGet (names.map fun n => (n, g n)) k = if k ∈ names then some (g k) else none := by
  unfold vsGet
  induction names with
  | nil => simp
  | cons n ns ih =>
    simp only [List.map_cons, List.find?_cons, List.mem_cons]
    by_cases h : (n == k) = true
    · have e : n = k := beq_iff_eq.1 h
      simp [e]
    · have : ¬ k = n := fun e => h (by simp [e])
      simp only [h, this, false_or]
      exact ih

/-- one step of the fold inside `intersect_mapping` -/
def imStep (m1 m2 : MappingAtomic) (acc : Option (List (String × SemType))) (name : String) :
    Option (Option (List (String × SemType))) :=
  match acc with
  | none => some none
  | some vs => do
    let t ← inter (valueOpen m1 name) (valueOpen m2 name)
    if t.isNever then some none else some (some (vs ++ [(name, t)]))

theorem imFold (A : MappingAtomic) (hA : ∀ p ∈ A.vs, Inh p.2) :
    ∀ (names : List String) (vs0 : List (String × SemType)), (∀ k ∈ names, k ∈ A.vs.map (·.1)) →
      names.foldlM (imStep ⟨[], none⟩ A) (some vs0) = some (some (vs0 ++ names.map fun k => (k, valueOpen A k))) := by
  intro names
  induction names with
  | nil => intro vs0 _; simp
  | cons k ks ih =>
    intro vs0 hk
    have h1 : valueOpen (⟨[], none⟩ : MappingAtomic) k = unknown := by simp [valueOpen, vsGet]
    have hin : Inh (valueOpen A k) := by
      have hkm := hk k List.mem_cons_self
      have hs := (vsGet_isSome_iff A.vs k).2 hkm
      cases hg : vsGet A.vs k with
      | none => rw [hg] at hs; cases hs
      | some t =>
        obtain ⟨p, hp, e⟩ := vsGet_mem hg
        simp only [valueOpen, hg]
        exact e ▸ hA p hp
    have step : imStep ⟨[], none⟩ A (some vs0) k = some (some (vs0 ++ [(k, valueOpen A k)])) := by
      simp [imStep, h1, inter_unknown, not_isNever _ hin]
    rw [List.foldlM_cons, step]
    show List.foldlM (imStep ⟨[], none⟩ A) (some (vs0 ++ [(k, valueOpen A k)])) ks = _
    rw [ih _ fun k' hk' => hk k' (List.mem_cons_of_mem _ hk')]
    simp

/-- the intersection of "no atom yet" with one flat atom: the atom again, its keys sorted -/
theorem intersect_first (A : MappingAtomic) (hA : ∀ p ∈ A.vs, Inh p.2) (hi : A.index = none) :
    intersectMapping ⟨[], none⟩ A =
      some (some ⟨(JsVal.sortStrings (dedup (A.vs.map (·.1)))).map (fun k => (k, valueOpen A k)), none⟩) := by
  unfold intersectMapping
  show ((JsVal.sortStrings (dedup ([] ++ A.vs.map (·.1)))).foldlM (imStep ⟨[], none⟩ A) (some []) >>= _) = _
  rw [imFold A hA _ [] (fun k hk => by simpa [mem_sortStrings, mem_dedup] using hk)]
  simp [hi]

theorem getMapping_of (i : Nat) (A : MappingAtomic) (c : Ctx) (h : c.mappings[i]? = some (some A)) :
    getMapping i c = some (A, c) := by
  unfold getMapping; rw [h]

theorem pos_single (n : Nat) (a : Atom) (A A' : MappingAtomic) (c : Ctx)
    (hA : c.mappings[a.idx]? = some (some A)) (hI : intersectMapping ⟨[], none⟩ A = some (some A')) :
    posIntersection (n + 1) [a] c = some (some A', c) := by
  unfold posIntersection
  simp only []
  unfold posIntersection.go
  rw [sm_bind_of _ _ c c A (getMapping_of _ _ _ hA)]
  rw [sm_bind_of _ _ c c (some A') (by rw [hI]; rfl)]
  simp only []
  unfold posIntersection.go
  rfl

theorem mapM_single {α β : Type} (f : α → SM β) (x : α) (c c' : Ctx) (y : β) (h : f x c = some (y, c')) :
    [x].mapM f c = some ([y], c') := by
  unfold List.mapM List.mapM.loop
  rw [sm_bind_of _ _ c c' y h]
  rfl

theorem mapping_single (n : Nat) (D : Bdd) (a b : Atom) (A' B : MappingAtomic) (c : Ctx) (r : Bool)
    (hdnf : Dnf.ofBdd D = [⟨[a], [b]⟩])
    (hmemo : c.memoM.find? (fun p => p.1 == Dnf.ofBdd D) = none)
    (hpos : ∀ c1 : Ctx, c1.mappings = c.mappings → posIntersection (n + 1) [a] c1 = some (some A', c1))
    (hB : c.mappings[b.idx]? = some (some B))
    (hcheck : ∀ c1 : Ctx, checkMappingEmpty (n + 1) A' [B] c1 = some (r, c1)) :
    ∃ c', mappingIsEmpty (n + 2) D c = some (r, c') := by
  unfold mappingIsEmpty
  simp only []
  rw [sm_bind_of _ _ c c c (by rfl)]
  simp only [hmemo]
  let c1 : Ctx := { c with memoM := c.memoM ++ [(Dnf.ofBdd D, none)] }
  rw [sm_bind_of _ _ c c1 () (by rfl)]
  rw [hdnf]
  have hneg : [b].mapM (fun (at' : Atom) => getMapping at'.idx) c1 = some ([B], c1) :=
    mapM_single _ b c1 c1 B (getMapping_of _ _ _ hB)
  rw [sm_bind_of _ _ c1 c1 [r] (mapM_single _ _ c1 c1 r ?_)]
  · refine ⟨?_, ?_⟩
    rotate_left
    · simp only [sm_bind, SM.modify, sm_pure, List.all_cons, List.all_nil, Bool.and_true, id]
      rfl
  · show (posIntersection (n + 1) [a] >>= _) c1 = _
    rw [sm_bind_of _ _ c1 c1 (some A') (hpos c1 rfl)]
    show (List.mapM (fun (at' : Atom) => getMapping at'.idx) [b] >>= _) c1 = _
    rw [sm_bind_of _ _ c1 c1 [B] hneg]
    exact hcheck c1

def objVec (D : Bdd) : SemType := { never with mapping := .some D }

theorem diff_mapping (i j : Nat) (h : i ≠ j) :
    ∃ D, Sem.diff (mappingFromIdx i) (mappingFromIdx j) = some (objVec D) ∧
      Dnf.ofBdd D = [⟨[⟨mappingKind, i⟩], [⟨mappingKind, j⟩]⟩] := by
  have hne : (⟨mappingKind, i⟩ : Atom) ≠ ⟨mappingKind, j⟩ := by
    intro e; injection e with _ e2; exact h e2
  obtain ⟨D, hD, hdnf⟩ := diff_atoms ⟨mappingKind, i⟩ ⟨mappingKind, j⟩ hne 196
  refine ⟨D, ?_, hdnf⟩
  have hD' : Bdd.diff fuelB (fromAtom ⟨mappingKind, i⟩) (fromAtom ⟨mappingKind, j⟩) = some D := hD
  simp [Sem.diff, mappingFromIdx, never, subDiff, bddDiff, hD', objVec]

theorem isEmpty_objVec (n : Nat) (D : Bdd) (c c' : Ctx) (r : Bool) (h : mappingIsEmpty n D c = some (r, c')) :
    isEmpty (n + 1) (objVec D) c = some (r, c') := by
  unfold isEmpty
  have h0 : ((objVec D).bool != .none || (objVec D).num != .none || (objVec D).str != .none || (objVec D).null || (objVec D).opt
      || (objVec D).vu != .none || (objVec D).other) = false := by simp [objVec, never]
  have h1 : ((objVec D).mapping == .all || (objVec D).list == .all) = false := by
    simp [objVec, never]
  simp only [h0, h1, Bool.false_eq_true, if_false]
  show (mappingIsEmpty n D >>= _) c = _
  rw [sm_bind_of _ _ c c' r h]
  cases r <;> rfl
-- ---------- meaning ----------
/-- an object value of the fragment: what each key holds (`absent` for a key the object does not have) -/
abbrev ObjVal := String → Scalar
/-- exact member: every key holds a value of its declared type, an undeclared key is absent -/
def memExact (A : MappingAtomic) (o : ObjVal) : Prop := ∀ k, hasScalar (valueExact A k) (o k) = true
/-- structural member: every declared key holds a value of its type (absent if optional), other keys are free -/
def memOpen (B : MappingAtomic) (o : ObjVal) : Prop := ∀ k, hasScalar (valueOpen B k) (o k) = true

theorem inh_valueExact (P : MappingAtomic) (hP : ∀ p ∈ P.vs, Inh p.2) (hi : P.index = none) (k : String) :
    Inh (valueExact P k) := by
  unfold valueExact
  cases hg : vsGet P.vs k with
  | none => simp only [hi]; exact ⟨.absent, by simp [hasScalar, optionalProp]⟩
  | some t => obtain ⟨p, hp, e⟩ := vsGet_mem hg; exact e ▸ hP p hp

theorem covered_iff (P B : MappingAtomic) (hP : ∀ p ∈ P.vs, Inh p.2) (hPi : P.index = none)
    (keys : List String) (hkeys : ∀ k, k ∈ B.vs.map (·.1) → k ∈ keys) (hkeysP : ∀ k, k ∈ P.vs.map (·.1) → k ∈ keys) :
    (∀ k ∈ keys, Covered P B k) ↔ ∀ o, memExact P o → memOpen B o := by
  constructor
  · intro h o ho k
    by_cases hk : k ∈ keys
    · exact h k hk (o k) (ho k)
    · have : vsGet B.vs k = none := by
        cases hg : vsGet B.vs k with
        | none => rfl
        | some t =>
          exfalso; apply hk; apply hkeys
          exact (vsGet_isSome_iff B.vs k).1 (by rw [hg]; rfl)
      simp only [valueOpen, this]
      cases hx : B.index with
      | none => exact hasScalar_unknown _
      | some w =>
        -- an undeclared key of an exact value is absent, and absence is allowed under an index signature
        have hpn : vsGet P.vs k = none := by
          cases hg : vsGet P.vs k with
          | none => rfl
          | some t =>
            exfalso; apply hk; apply hkeysP
            exact (vsGet_isSome_iff P.vs k).1 (by rw [hg]; rfl)
        have hok := ho k
        simp only [valueExact, hpn, hPi] at hok
        rw [absent_of_optionalProp _ hok]
        simp [hasScalar, makeOptional]
  · intro h k _ v hv
    let o : ObjVal := fun k' => if k' = k then v else Classical.choose (inh_valueExact P hP hPi k')
    have ho : memExact P o := by
      intro k'
      by_cases e : k' = k
      · subst e; simp only [o, if_true]; exact hv
      · simp only [o, e, if_false]; exact Classical.choose_spec (inh_valueExact P hP hPi k')
    have := h o ho k
    simpa [o] using this

-- ---------- the theorem ----------
/-- **Flat object types: assignability = inclusion.** `A` an object type without index signature whose declared properties are
inhabited scalar types, `B` an object type with well-formed property types and possibly a (well-formed) index signature; `i ≠ j` their atoms in a context whose memo has no entry for the
clause `A ∧ ¬B` yet (an empty memo in particular). For every fuel
≥ 5 `is_subtype` answers, and the answer is *yes* exactly when every exact value of `A` is a structural value of `B`. -/
theorem flat_object_subtype_iff_inclusion (n i j : Nat) (A B : MappingAtomic) (c : Ctx)
    (hij : i ≠ j) (hAi : c.mappings[i]? = some (some A)) (hBj : c.mappings[j]? = some (some B))
    (hA : ∀ p ∈ A.vs, Good p.2 ∧ Inh p.2) (hAx : A.index = none)
    (hB : ∀ q ∈ B.vs, WF q.2) (hBx : ∀ w, B.index = some w → WF w)
    (hmemo : c.memoM.find? (fun p => p.1 == [⟨[⟨mappingKind, i⟩], [⟨mappingKind, j⟩]⟩]) = none) :
    ∃ r c', isSubtype (n + 5) (mappingFromIdx i) (mappingFromIdx j) c = some (r, c') ∧
      (r = true ↔ ∀ o, memExact A o → memOpen B o) := by
  obtain ⟨D, hdiff, hdnf⟩ := diff_mapping i j hij
  -- the positive side of the only clause
  let names := JsVal.sortStrings (dedup (A.vs.map (·.1)))
  let A' : MappingAtomic := ⟨names.map (fun k => (k, valueOpen A k)), none⟩
  have hI : intersectMapping ⟨[], none⟩ A = some (some A') := intersect_first A (fun p hp => (hA p hp).2) hAx
  have hnames : ∀ k, k ∈ names ↔ k ∈ A.vs.map (·.1) := fun k => by
    simp only [names, mem_sortStrings, mem_dedup]
  have hget : ∀ k, vsGet A'.vs k = vsGet A.vs k := by
    intro k
    show vsGet (names.map fun k => (k, valueOpen A k)) k = _
    rw [vsGet_map]
    by_cases hk : k ∈ names
    · simp only [hk, if_true]
      have hs := (vsGet_isSome_iff A.vs k).2 ((hnames k).1 hk)
      cases hg : vsGet A.vs k with
      | none => rw [hg] at hs; cases hs
      | some t => simp [valueOpen, hg]
    · simp only [hk, if_false]
      cases hg : vsGet A.vs k with
      | none => rfl
      | some t => exact absurd ((hnames k).2 ((vsGet_isSome_iff A.vs k).1 (by rw [hg]; rfl))) hk
  have hA' : ∀ p ∈ A'.vs, Good p.2 ∧ Inh p.2 := by
    intro p hp
    obtain ⟨k, hk, e⟩ := List.mem_map.1 hp
    subst e
    have hs := (vsGet_isSome_iff A.vs k).2 ((hnames k).1 hk)
    cases hg : vsGet A.vs k with
    | none => rw [hg] at hs; cases hs
    | some t =>
      obtain ⟨q, hq, e⟩ := vsGet_mem hg
      simp only [valueOpen, hg]
      exact e ▸ hA q hq
  have hexact : ∀ k, valueExact A' k = valueExact A k := fun k => by
    simp only [valueExact, hget k, hAx]; rfl
  -- the check on the clause, for whatever context
  obtain ⟨r, _, hiff⟩ := check_one n A' B c hA' rfl hB hBx
  have hcheck : ∀ c1 : Ctx, checkMappingEmpty (n + 2 + 1) A' [B] c1 = some (r, c1) := by
    intro c1
    obtain ⟨r1, hr1, hiff1⟩ := check_one n A' B c1 hA' rfl hB hBx
    have hb : r1 = true ↔ r = true := hiff1.trans hiff.symm
    have : r1 = r := by
      cases r1 <;> cases r
      · rfl
      · exact absurd (hb.2 rfl) (by simp)
      · exact absurd (hb.1 rfl) (by simp)
      · rfl
    exact this ▸ hr1
  have hpos : ∀ c1 : Ctx, c1.mappings = c.mappings →
      posIntersection (n + 2 + 1) [⟨mappingKind, i⟩] c1 = some (some A', c1) := by
    intro c1 hc1
    exact pos_single (n + 2) ⟨mappingKind, i⟩ A A' c1 (by rw [hc1]; exact hAi) hI
  have hmemo' : c.memoM.find? (fun p => p.1 == Dnf.ofBdd D) = none := by rw [hdnf]; exact hmemo
  obtain ⟨c', hme⟩ := mapping_single (n + 2) D ⟨mappingKind, i⟩ ⟨mappingKind, j⟩ A' B c r hdnf hmemo' hpos hBj hcheck
  refine ⟨r, c', ?_, ?_⟩
  · unfold isSubtype
    rw [sm_bind_of _ _ c c (objVec D) (by rw [hdiff]; rfl)]
    exact isEmpty_objVec (n + 4) D c c' r hme
  · rw [hiff]
    rw [covered_iff A' B (fun p hp => (hA' p hp).2) rfl (keysOf A' B) (fun k hk => by
      simp only [keysOf, mem_sortStrings, mem_dedup, List.mem_append]; exact Or.inr hk) (fun k hk => by
      simp only [keysOf, mem_sortStrings, mem_dedup, List.mem_append]; exact Or.inl hk)]
    constructor
    · intro h o ho; exact h o fun k => by rw [hexact]; exact ho k
    · intro h o ho; exact h o fun k => by rw [← hexact]; exact ho k

-- ---------- the statement is about something ----------
/-- `{ a: string; b: number }` (atom 0) and `{ a: string }` (atom 1) -/
def exA : MappingAtomic := ⟨[("a", { never with str := .all }), ("b", { never with num := .all })], none⟩
def exB : MappingAtomic := ⟨[("a", { never with str := .all })], none⟩
def exCtx : Ctx := { mappings := [some exA, some exB] }

/-- the hypotheses are satisfiable, and the engine's answers on the instance are the expected ones:
`{ a: string; b: number } extends { a: string }` — yes; the converse — no (`b` is missing) -/
example : ((isSubtype 5 (mappingFromIdx 0) (mappingFromIdx 1) exCtx).map (·.1)) = some true := by decide +kernel
example : ((isSubtype 5 (mappingFromIdx 1) (mappingFromIdx 0) exCtx).map (·.1)) = some false := by decide +kernel
example : (∀ p ∈ exA.vs, Good p.2 ∧ Inh p.2) ∧ exA.index = none ∧ (∀ q ∈ exB.vs, WF q.2) ∧ exB.index = none := by
  refine ⟨?_, rfl, ?_, rfl⟩
  · intro p hp
    simp only [exA, List.mem_cons, List.mem_nil_iff, or_false] at hp
    rcases hp with rfl | rfl
    · exact ⟨⟨⟨rfl, rfl⟩, by simp [WF, WFLit, never]⟩, ⟨.str "x", by simp [hasScalar, subLitHas]⟩⟩
    · exact ⟨⟨⟨rfl, rfl⟩, by simp [WF, WFLit, never]⟩, ⟨.num "1", by simp [hasScalar, subLitHas]⟩⟩
  · intro q hq
    simp only [exB, List.mem_cons, List.mem_nil_iff, or_false] at hq
    subst hq; simp [WF, WFLit, never]

/-- with an index signature on the right: `{ a: string } extends { [k: string]: string }` — yes;
`{ a: string; b: number } extends { [k: string]: string }` — no -/
def exIx : MappingAtomic := ⟨[], some { never with str := .all }⟩
example : ((isSubtype 5 (mappingFromIdx 1) (mappingFromIdx 2) { mappings := [some exA, some exB, some exIx] }).map (·.1)) = some true := by
  decide +kernel
example : ((isSubtype 5 (mappingFromIdx 0) (mappingFromIdx 2) { mappings := [some exA, some exB, some exIx] }).map (·.1)) = some false := by
  decide +kernel

end BeffVerif.C05Flat
