import BeffVerif.Props.C07Keyof
/-!
# C07 — `keyof` of an object type WITH an index signature is `string`

The companion of `keyof_flat_object`: for every object type with a (string) index signature, in every context that defines
its atom, `keyof` on the type vector answers `string` — the declared keys are absorbed by the index key type
(`keyof_indexed_object`), as in TypeScript (`keyof { a: 1; [k: string]: number }` is `string | number`, whose string part this is;
the port keys index signatures by `string` only).
-/
namespace BeffVerif.C07Keyof
open BeffVerif Sem C05 C05Flat Bdd

def stringType : SemType := { never with str := .all }

theorem union_keys_string (A : MappingAtomic) : Sem.union (keysType A) stringType = some stringType := by
  have h : ∀ x : Sem.Sub LitSet, subUnion (fun a b => some (litUnion a b)) x .all = some .all := by intro x; cases x <;> rfl
  simp only [Sem.union, keysType, stringType, never, h, subUnion_none]
  rfl

theorem keyof_indexed_object (i : Nat) (A : MappingAtomic) (c : Ctx) (iv : SemType)
    (hA : c.mappings[i]? = some (some A)) (hx : A.index = some iv) :
    keyofSem (mappingFromIdx i) c = some (stringType, c) := by
  have hdnf : Dnf.ofBdd (fromAtom ⟨mappingKind, i⟩) = [⟨[⟨mappingKind, i⟩], []⟩] := by
    simp [Dnf.ofBdd, Dnf.ofBddAcc, fromAtom]
  unfold keyofSem
  simp only [mappingFromIdx, never, Bool.false_eq_true, if_false, hdnf]
  have hscal : ((Sem.Sub.none : Sem.Sub Bool) == .all || (Sem.Sub.none : Sem.Sub LitSet) == .all || (Sem.Sub.none : Sem.Sub LitSet) == .all || false || false
      || (Sem.Sub.none : Sem.Sub LitSet) == .all || false) = false := by decide
  simp only [hscal, Bool.false_eq_true, if_false]
  have hconj : (List.foldlM (fun (keys : SemType) (a : Atom) => (do
        let m ← getMapping a.idx
        match m.index with
          | some val => do
            let ks ← SM.lift (Sem.union { never with str := mkLit true (List.map (fun x => x.fst) m.vs) } { never with str := .all })
            SM.lift (Sem.union keys ks)
          | none => do
            let ks ← pure ({ never with str := mkLit true (List.map (fun x => x.fst) m.vs) } : SemType)
            SM.lift (Sem.union keys ks) : SM SemType)) never [(⟨mappingKind, i⟩ : Atom)]) c = some (stringType, c) := by
    rw [List.foldlM_cons]
    show ((getMapping i >>= _) >>= _) c = _
    rw [sm_bind_of _ _ c c stringType ?_]
    · rfl
    · rw [sm_bind_of _ _ c c A (getMapping_of _ _ _ hA)]
      simp only [hx]
      show ((SM.lift (Sem.union (keysType A) stringType)) >>= fun ks => SM.lift (Sem.union never ks)) c = _
      rw [sm_bind_of _ _ c c stringType (by show (SM.lift (Sem.union (keysType A) stringType)) c = _; rw [union_keys_string]; rfl)]
      show (SM.lift (Sem.union never stringType)) c = _
      rw [union_never]; rfl
  simp only [Bool.false_eq_true, ↓reduceIte, sm_pure_bind]
  refine Eq.trans (sm_bind_of _ _ c c [stringType] (mapM_single _ _ c c stringType ?_)) ?_
  · exact hconj
  · simp only [List.foldlM_cons, List.foldlM_nil, sm_pure_bind, Option.getD_some]
    rfl

/-- the members of the answer: every string, nothing of any other kind -/
theorem keyof_indexed_object_members (v : Scalar) : hasScalar stringType v = true ↔ ∃ s, v = .str s := by
  cases v with
  | str s => simp [hasScalar, stringType, never, subLitHas]
  | _ => simp [hasScalar, stringType, never, subBoolHas, subLitHas]

example : (keyofSem (mappingFromIdx 0)
    { mappings := [some ⟨[("a", { never with str := .all })], some { never with num := .all }⟩] }).map (·.1)
    = some { never with str := .all } := by decide +kernel

end BeffVerif.C07Keyof
