import BeffVerif.Props.C12Nonempty
/-!
# C03 — validate never throws in a closed environment

`validate_no_throw`: if every reference that occurs in the runtype and in the environment resolves, `validate` never
ends in an exception — for every mode, fuel and value (it answers, or runs out of fuel). The only `throw` of the
validator model is the unresolved `RefRuntype` lookup; every other branch merely propagates what its children return.
-/
namespace BeffVerif.C03
open BeffVerif RT C12

def isDangling (env : Env) : RT → Bool
  | .ref name => (env.lookup name).isNone
  | _ => false

/-- every reference in the tree resolves -/
def Closed (env : Env) (rt : RT) : Prop := anyNode (isDangling env) rt = false

theorem allShort_throw {α : Type} (f : α → Res Bool) : ∀ (l : List α) (c : String),
    allShort f l = .throw c → ∃ x ∈ l, f x = .throw c := by
  intro l
  induction l with
  | nil => intro c h; simp [allShort] at h
  | cons x xs ih =>
    intro c h
    simp only [allShort] at h
    cases hfx : f x with
    | ok b =>
      rw [hfx] at h
      cases b with
      | true => obtain ⟨y, hy, e⟩ := ih c h; exact ⟨y, List.mem_cons_of_mem _ hy, e⟩
      | false => simp at h
    | throw c' => rw [hfx] at h; simp only [Res.throw.injEq] at h; exact ⟨x, List.mem_cons_self, by rw [hfx, h]⟩
    | nofuel => rw [hfx] at h; simp at h

theorem anyShort_throw {α : Type} (f : α → Res Bool) : ∀ (l : List α) (c : String),
    anyShort f l = .throw c → ∃ x ∈ l, f x = .throw c := by
  intro l
  induction l with
  | nil => intro c h; simp [anyShort] at h
  | cons x xs ih =>
    intro c h
    simp only [anyShort] at h
    cases hfx : f x with
    | ok b =>
      rw [hfx] at h
      cases b with
      | false => obtain ⟨y, hy, e⟩ := ih c h; exact ⟨y, List.mem_cons_of_mem _ hy, e⟩
      | true => simp at h
    | throw c' => rw [hfx] at h; simp only [Res.throw.injEq] at h; exact ⟨x, List.mem_cons_self, by rw [hfx, h]⟩
    | nofuel => rw [hfx] at h; simp at h

theorem anyO_false {p : RT → Bool} {o : Option RT} (h : anyO p o = false) : ∀ t, o = some t → anyNode p t = false := by
  intro t ht; subst ht; simpa [anyO] using h

/-- **No foreign exception**: in a closed environment `validate` never throws -/
theorem validate_no_throw (env : Env) (strict : Bool)
    (henv : ∀ name t, env.lookup name = some t → Closed env t) :
    ∀ n rt v c, Closed env rt → validate env strict n rt v ≠ .throw c := by
  intro n
  induction n with
  | zero => intro rt v c _ h; simp [validate] at h
  | succ k ih =>
    intro rt v c hc h
    rw [validate.eq_def] at h
    simp only at h
    cases rt with
    | typeof t => simp at h
    | any => simp at h
    | nullish d => simp at h
    | never => simp at h
    | const cv => simp at h
    | regex tpl d => simp at h
    | date => simp at h
    | bigint => simp at h
    | typed ct => simp at h
    | strfmt fs => simp at h
    | numfmt fs => simp at h
    | consts vs => simp at h
    | optional t =>
      simp only at h
      have hct : Closed env t := by simp only [Closed, anyNode, Bool.or_eq_false_iff] at hc; exact hc.2
      split at h
      · simp at h
      · exact ih t v c hct h
    | described d t =>
      have hct : Closed env t := by simp only [Closed, anyNode, Bool.or_eq_false_iff] at hc; exact hc.2
      exact ih t v c hct h
    | ref name =>
      simp only at h
      cases hl : env.lookup name with
      | none =>
        simp only [Closed, anyNode, isDangling, hl, Option.isNone_none] at hc
        exact absurd hc (by decide)
      | some t => rw [hl] at h; exact ih t v c (henv name t hl) h
    | anyOf ts =>
      have hmem : ∀ t ∈ ts, Closed env t := by
        simp only [Closed, anyNode, Bool.or_eq_false_iff] at hc; exact anyL_false hc.2
      obtain ⟨t, ht, e⟩ := anyShort_throw _ _ _ h
      exact ih t v c (hmem t ht) e
    | allOf ts =>
      have hmem : ∀ t ∈ ts, Closed env t := by
        simp only [Closed, anyNode, Bool.or_eq_false_iff] at hc; exact anyL_false hc.2
      obtain ⟨t, ht, e⟩ := allShort_throw _ _ _ h
      split at e
      · exact ih t v c (hmem t ht) e
      · simp at e
    | array t =>
      have hct : Closed env t := by simp only [Closed, anyNode, Bool.or_eq_false_iff] at hc; exact hc.2
      cases v with
      | arr items => obtain ⟨x, _, e⟩ := allShort_throw _ _ _ h; exact ih t x c hct e
      | _ => simp at h
    | set t =>
      have hct : Closed env t := by simp only [Closed, anyNode, Bool.or_eq_false_iff] at hc; exact hc.2
      cases v with
      | set xs => obtain ⟨x, _, e⟩ := allShort_throw _ _ _ h; exact ih t x c hct e
      | _ => simp at h
    | map kt vt =>
      have hck : Closed env kt ∧ Closed env vt := by
        simp only [Closed, anyNode, Bool.or_eq_false_iff] at hc; exact ⟨hc.1.2, hc.2⟩
      cases v with
      | map es =>
        obtain ⟨x, _, e⟩ := allShort_throw _ _ _ h
        cases hk : validate env strict k kt x.1 with
        | ok b =>
          rw [hk] at e
          cases b with
          | true => exact ih vt x.2 c hck.2 e
          | false => simp at e
        | throw c' => exact ih kt x.1 c' hck.1 hk
        | nofuel => rw [hk] at e; simp at e
      | _ => simp at h
    | disc ss key mapping sm =>
      simp only at h
      split at h
      · simp at h
      · split at h
        · simp at h
        · cases hm : lookupMapping mapping (v.getProp key) with
          | none => rw [hm] at h; simp at h
          | some t =>
            rw [hm] at h
            have hct : Closed env t := by
              simp only [Closed, anyNode, Bool.or_eq_false_iff] at hc
              unfold lookupMapping at hm
              cases hd : v.getProp key <;> rw [hd] at hm <;> try (simp at hm)
              rename_i s
              cases hfind : mapping.find? (fun p => p.1 == s) with
              | none => rw [hfind] at hm; simp at hm
              | some p =>
                rw [hfind] at hm
                simp only [Option.some.injEq] at hm
                rw [← hm]
                exact anySL_false hc.1.2 p (List.mem_of_find?_eq_some hfind)
            exact ih t v c hct h
    | tuple pre rest =>
      have hcpre : ∀ t ∈ pre, Closed env t := by
        simp only [Closed, anyNode, Bool.or_eq_false_iff] at hc; exact anyL_false hc.1.2
      cases v with
      | arr items =>
        simp only at h
        cases hp : allShort (fun (p : RT × Nat) => validate env strict k p.1 (items.getD p.2 JsVal.undef))
            (pre.zip (List.range pre.length)) with
        | throw c' =>
          obtain ⟨p, hpm, e⟩ := allShort_throw _ _ _ hp
          exact ih p.1 _ c' (hcpre p.1 (List.of_mem_zip hpm).1) e
        | nofuel => rw [hp] at h; simp at h
        | ok b =>
          rw [hp] at h
          cases b with
          | false => simp at h
          | true =>
            simp only at h
            cases rest with
            | none => simp at h
            | some r =>
              have hcr : Closed env r := by
                simp only [Closed, anyNode, anyO, Bool.or_eq_false_iff] at hc; exact hc.2
              obtain ⟨x, _, e⟩ := allShort_throw _ _ _ h
              exact ih r x c hcr e
      | _ => simp at h
    | object props indexed =>
      have hcp : ∀ p ∈ props, Closed env p.2 := by
        simp only [Closed, anyNode, Bool.or_eq_false_iff] at hc; exact anySL_false hc.1.2
      have hci : ∀ p ∈ indexed, Closed env p.1 ∧ Closed env p.2 := by
        simp only [Closed, anyNode, Bool.or_eq_false_iff] at hc; exact anyPL_false hc.2
      simp only at h
      split at h
      · simp at h
      · cases hp : allShort (fun (p : String × RT) => validate env strict k p.2 (v.getProp p.1)) props with
        | throw c' =>
          obtain ⟨p, hpm, e⟩ := allShort_throw _ _ _ hp
          exact ih p.2 _ c' (hcp p hpm) e
        | nofuel => rw [hp] at h; simp at h
        | ok b =>
          rw [hp] at h
          cases b with
          | false => simp at h
          | true =>
            simp only at h
            split at h
            · obtain ⟨kk, _, e⟩ := allShort_throw _ _ _ h
              unfold indexedAccepts at e
              obtain ⟨p, hpm, e'⟩ := anyShort_throw _ _ _ e
              cases hk : validate env strict k p.1 (.str kk) with
              | ok b' =>
                rw [hk] at e'
                cases b' with
                | true => exact ih p.2 _ c (hci p hpm).2 e'
                | false => simp at e'
              | throw c' => exact ih p.1 _ c' (hci p hpm).1 hk
              | nofuel => rw [hk] at e'; simp at e'
            · split at h <;> simp at h

end BeffVerif.C03
