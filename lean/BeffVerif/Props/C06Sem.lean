import BeffVerif.Props.C05
import BeffVerif.Props.C06
/-!
# C06 at the level of type vectors (SemType)

`SemTypeOps::{intersect, union, diff, complement}` (semtype.rs) combine the per-tag components; the object and list
components are decision diagrams. Whatever membership reading `ρM`, `ρL` one fixes for the mapping / list atoms, the
operations on the WHOLE vector are the set operations — for every scalar value and for every object-like / list-like
value. Lifts `bdd_*_exact` (C06) and the literal-set algebra (C05) through the tag dispatch.
-/
namespace BeffVerif.C06
open BeffVerif Sem C05

/-- the values a type vector talks about: scalars, or a structured value known only through which atoms contain it -/
inductive Val where
  | scalar (s : Scalar)
  | objectLike
  | listLike

def subBddHas (ρ : Atom → Bool) : Sem.Sub Bdd → Bool
  | .none => false
  | .all => true
  | .some b => Bdd.eval ρ b

def den (ρM ρL : Atom → Bool) (t : SemType) : Val → Bool
  | .scalar s => hasScalar t s
  | .objectLike => subBddHas ρM t.mapping
  | .listLike => subBddHas ρL t.list

theorem subInter_bdd (ρ : Atom → Bool) (x y r : Sem.Sub Bdd) (h : subInter bddInter x y = some r) :
    subBddHas ρ r = (subBddHas ρ x && subBddHas ρ y) := by
  cases x <;> cases y <;> simp [subInter] at h <;> try (subst h; simp [subBddHas])
  rename_i a b
  unfold bddInter at h
  cases hi : Bdd.intersect fuelB a b with
  | none => simp [hi] at h
  | some r' =>
    simp [hi] at h; subst h
    simp [subBddHas, bdd_intersect_exact fuelB a b r' hi ρ]

theorem subUnion_bdd (ρ : Atom → Bool) (x y r : Sem.Sub Bdd) (h : subUnion bddUnion x y = some r) :
    subBddHas ρ r = (subBddHas ρ x || subBddHas ρ y) := by
  cases x <;> cases y <;> simp [subUnion] at h <;> try (subst h; simp [subBddHas])
  rename_i a b
  unfold bddUnion at h
  cases hi : Bdd.union fuelB a b with
  | none => simp [hi] at h
  | some r' =>
    simp [hi] at h; subst h
    simp [subBddHas, bdd_union_exact fuelB a b r' hi ρ]

theorem subDiff_bdd (ρ : Atom → Bool) (x y r : Sem.Sub Bdd)
    (h : subDiff (Bdd.complement fuelB) bddDiff x y = some r) :
    subBddHas ρ r = (subBddHas ρ x && !subBddHas ρ y) := by
  cases x <;> cases y <;> simp [subDiff] at h <;> try (subst h; simp [subBddHas])
  · rename_i b
    obtain ⟨c, hc, hr⟩ := h
    subst hr
    simp [subBddHas, bdd_complement_exact fuelB b c hc ρ]
  · rename_i a b
    unfold bddDiff at h
    cases hi : Bdd.diff fuelB a b with
    | none => simp [hi] at h
    | some r' =>
      simp [hi] at h; subst h
      simp [subBddHas, bdd_diff_exact fuelB a b r' hi ρ]

/-- **SemType intersection is ∩** for every value, whenever the operation answers -/
theorem semtype_intersect_exact (ρM ρL : Atom → Bool) (a b r : SemType) (h : inter a b = some r) (v : Val) :
    den ρM ρL r v = (den ρM ρL a v && den ρM ρL b v) := by
  unfold inter at h
  simp only [Option.bind_eq_bind, Option.bind_eq_some_iff] at h
  obtain ⟨rb, hb, rn, hn, rs, hs, rm, hm, rl, hl, rv, hv, hr⟩ := h
  simp only [Option.pure_def, Option.some.injEq] at hr
  subst hr
  obtain ⟨rb', hb1, hb2⟩ := subInter_bool a.bool b.bool
  obtain ⟨rn', hn1, hn2⟩ := subInter_lit a.num b.num
  obtain ⟨rs', hs1, hs2⟩ := subInter_lit a.str b.str
  obtain ⟨rv', hv1, hv2⟩ := subInter_lit a.vu b.vu
  rw [hb1] at hb; rw [hn1] at hn; rw [hs1] at hs; rw [hv1] at hv
  cases hb; cases hn; cases hs; cases hv
  cases v with
  | scalar s => cases s <;> simp [den, hasScalar, hb2, hn2, hs2, hv2]
  | objectLike => simp [den, subInter_bdd ρM _ _ _ hm]
  | listLike => simp [den, subInter_bdd ρL _ _ _ hl]

/-- **SemType union is ∪** -/
theorem semtype_union_exact (ρM ρL : Atom → Bool) (a b r : SemType) (h : Sem.union a b = some r) (v : Val) :
    den ρM ρL r v = (den ρM ρL a v || den ρM ρL b v) := by
  unfold Sem.union at h
  simp only [Option.bind_eq_bind, Option.bind_eq_some_iff] at h
  obtain ⟨rb, hb, rn, hn, rs, hs, rm, hm, rl, hl, rv, hv, hr⟩ := h
  simp only [Option.pure_def, Option.some.injEq] at hr
  subst hr
  obtain ⟨rb', hb1, hb2⟩ := subUnion_bool a.bool b.bool
  obtain ⟨rn', hn1, hn2⟩ := subUnion_lit a.num b.num
  obtain ⟨rs', hs1, hs2⟩ := subUnion_lit a.str b.str
  obtain ⟨rv', hv1, hv2⟩ := subUnion_lit a.vu b.vu
  rw [hb1] at hb; rw [hn1] at hn; rw [hs1] at hs; rw [hv1] at hv
  cases hb; cases hn; cases hs; cases hv
  cases v with
  | scalar s => cases s <;> simp [den, hasScalar, hb2, hn2, hs2, hv2]
  | objectLike => simp [den, subUnion_bdd ρM _ _ _ hm]
  | listLike => simp [den, subUnion_bdd ρL _ _ _ hl]

/-- **SemType difference is \\** -/
theorem semtype_diff_exact (ρM ρL : Atom → Bool) (a b r : SemType) (h : Sem.diff a b = some r) (v : Val) :
    den ρM ρL r v = (den ρM ρL a v && !den ρM ρL b v) := by
  unfold Sem.diff at h
  simp only [Option.bind_eq_bind, Option.bind_eq_some_iff] at h
  obtain ⟨rb, hb, rn, hn, rs, hs, rm, hm, rl, hl, rv, hv, hr⟩ := h
  simp only [Option.pure_def, Option.some.injEq] at hr
  subst hr
  obtain ⟨rb', hb1, hb2⟩ := subDiff_bool a.bool b.bool
  obtain ⟨rn', hn1, hn2⟩ := subDiff_lit a.num b.num
  obtain ⟨rs', hs1, hs2⟩ := subDiff_lit a.str b.str
  obtain ⟨rv', hv1, hv2⟩ := subDiff_lit a.vu b.vu
  rw [hb1] at hb; rw [hn1] at hn; rw [hs1] at hs; rw [hv1] at hv
  cases hb; cases hn; cases hs; cases hv
  cases v with
  | scalar s => cases s <;> simp [den, hasScalar, hb2, hn2, hs2, hv2]
  | objectLike => simp [den, subDiff_bdd ρM _ _ _ hm]
  | listLike => simp [den, subDiff_bdd ρL _ _ _ hl]

/-- **SemType complement is ¬** (relative to `unknown`, which contains every value) -/
theorem semtype_complement_exact (ρM ρL : Atom → Bool) (a r : SemType) (h : Sem.complement a = some r) (v : Val) :
    den ρM ρL r v = !den ρM ρL a v := by
  have := semtype_diff_exact ρM ρL unknown a r h v
  rw [this]
  have hu : den ρM ρL unknown v = true := by
    cases v with
    | scalar s => cases s <;> rfl
    | objectLike => rfl
    | listLike => rfl
  simp [hu]

end BeffVerif.C06
