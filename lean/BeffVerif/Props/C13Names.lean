import BeffVerif.Props.C13Rec
/-!
# C13 — what the digest does NOT depend on

The first half of C13, for the token stream `h256` (the digest is SHA-256 of its injective byte encoding):

* `h256_described`, `h256_alias_hop`: descriptions (JSDoc) and alias boundaries (a name that is just another name) are
  transparent;
* `object_property_order`, `disc_mapping_order`: the order in which properties / discriminator cases are written does
  not matter (they are written sorted; distinct keys);
* `h256_rename`: renaming the types of the environment, consistently and injectively, changes nothing — names never reach
  the stream (a back reference is an offset), for every runtype, recursive or not.
-/
namespace BeffVerif.C13N
open BeffVerif RT Sha JsVal

/-! ## descriptions and alias hops -/

theorem h256_described (env : Env) (n : Nat) (d : String) (t : RT) (act : List (String × Nat)) (p : Nat) :
    h256 env (n+1) (.described d t) act p = h256 env n t act p := by
  simp only [h256]

/-- a named type whose body is (a described) reference to another named type is that other type -/
theorem h256_alias_hop (env : Env) (n : Nat) (name other : String) (to : RT) (act : List (String × Nat)) (p : Nat)
    (hl : env.lookup name = some to) (hs : stripDescribed to = .ref other) :
    h256 env (n+1) (.ref name) act p = h256 env n (.ref other) act p := by
  simp only [h256, hl, hs]

/-! ## property order -/

theorem strLe_total (a b : String) : strLe a b = true ∨ strLe b a = true := by
  unfold strLe
  rcases String.le_total a b with h | h
  · exact Or.inl (by simpa using h)
  · exact Or.inr (by simpa using h)

theorem strLe_trans {a b c : String} (h1 : strLe a b = true) (h2 : strLe b c = true) : strLe a c = true := by
  unfold strLe at *
  simp only [decide_eq_true_eq] at *
  exact String.le_trans h1 h2

theorem strLe_antisymm {a b : String} (h1 : strLe a b = true) (h2 : strLe b a = true) : a = b := by
  unfold strLe at *
  simp only [decide_eq_true_eq] at *
  exact String.le_antisymm h1 h2

/-- a sorted list is determined by its elements when the order is antisymmetric ON THEM -/
theorem sorted_perm_eq' {α : Type} (le : α → α → Bool) : ∀ (l1 l2 : List α),
    (∀ a ∈ l1, ∀ b ∈ l1, le a b = true → le b a = true → a = b) → l1.Perm l2 → C10.Sorted le l1 → C10.Sorted le l2 → l1 = l2 := by
  intro l1
  induction l1 with
  | nil => intro l2 _ hp _ _; exact (List.Perm.nil_eq hp)
  | cons x xs ih =>
    intro l2 hanti hp h1 h2
    cases l2 with
    | nil => exact absurd hp.symm (by simp)
    | cons y ys =>
      unfold C10.Sorted at h1 h2
      rw [List.pairwise_cons] at h1 h2
      have hx : x ∈ y :: ys := hp.mem_iff.1 (by simp)
      have hy : y ∈ x :: xs := hp.mem_iff.2 (by simp)
      have hxy : x = y := by
        rcases List.mem_cons.1 hx with e | hx'
        · exact e
        · rcases List.mem_cons.1 hy with e | hy'
          · exact e.symm
          · exact hanti x (by simp) y (by simp [hy']) (h1.1 y hy') (h2.1 x hx')
      subst hxy
      rw [ih ys (fun a ha b hb => hanti a (by simp [ha]) b (by simp [hb])) (List.Perm.cons_inv hp) h1.2 h2.2]

/-- entries with distinct keys: sorting by key does not see the order they were written in -/
theorem sortedProps_order {l1 l2 : List (String × RT)} (hp : l1.Perm l2) (hd : (l1.map (·.1)).Nodup) :
    sortedProps l1 = sortedProps l2 := by
  unfold sortedProps
  let le := fun (a b : String × RT) => strLe a.1 b.1
  have htot : ∀ a b, le a b = true ∨ le b a = true := fun a b => strLe_total a.1 b.1
  have htrans : ∀ a b c, le a b = true → le b c = true → le a c = true := fun a b c h1 h2 => strLe_trans h1 h2
  refine sorted_perm_eq' le _ _ ?_ (((C10.sortBy_perm le l1).trans hp).trans (C10.sortBy_perm le l2).symm)
    (C10.sortBy_sorted le htot htrans l1) (C10.sortBy_sorted le htot htrans l2)
  intro a ha b hb h1 h2
  have ha' : a ∈ l1 := (C10.sortBy_perm le l1).mem_iff.1 ha
  have hb' : b ∈ l1 := (C10.sortBy_perm le l1).mem_iff.1 hb
  have hk : a.1 = b.1 := strLe_antisymm h1 h2
  -- distinct keys: equal keys mean the same entry
  have key : ∀ (l : List (String × RT)), (l.map (·.1)).Nodup → ∀ a ∈ l, ∀ b ∈ l, a.1 = b.1 → a = b := by
    intro l
    induction l with
    | nil => intro _ a ha; cases ha
    | cons x xs ih =>
      intro hn a ha b hb hk
      simp only [List.map_cons, List.nodup_cons, List.mem_map, not_exists, not_and] at hn
      rcases List.mem_cons.1 ha with ea | ha1
      · rcases List.mem_cons.1 hb with eb | hb1
        · rw [ea, eb]
        · exact absurd (by rw [← ea]; exact hk.symm) (hn.1 b hb1)
      · rcases List.mem_cons.1 hb with eb | hb1
        · exact absurd (by rw [← eb]; exact hk) (hn.1 a ha1)
        · exact ih hn.2 a ha1 b hb1 hk
  exact key l1 hd a ha' b hb' hk

/-- **property order**: two object validators whose declared properties are the same entries in another order (distinct
names) write the same stream -/
theorem object_property_order (env : Env) (n : Nat) (props1 props2 : List (String × RT)) (ix : List (RT × RT))
    (act : List (String × Nat)) (p : Nat) (hp : props1.Perm props2) (hd : (props1.map (·.1)).Nodup) :
    h256 env n (.object props1 ix) act p = h256 env n (.object props2 ix) act p := by
  cases n with
  | zero => simp [h256]
  | succ n => simp only [h256, sortedProps_order hp hd, hp.length_eq]

/-- … and the cases of a discriminated union likewise -/
theorem disc_mapping_order (env : Env) (n : Nat) (schemas : List RT) (key : String) (m1 m2 sm : List (String × RT))
    (act : List (String × Nat)) (p : Nat) (hp : m1.Perm m2) (hd : (m1.map (·.1)).Nodup) :
    h256 env n (.disc schemas key m1 sm) act p = h256 env n (.disc schemas key m2 sm) act p := by
  cases n with
  | zero => simp [h256]
  | succ n => simp only [h256, sortedProps_order hp hd, hp.length_eq]


/-! ## renaming -/

mutual
/-- rename every reference -/
def ren (ρ : String → String) : RT → RT
  | .tuple pre rest => .tuple (renL ρ pre) (renO ρ rest)
  | .allOf ts => .allOf (renL ρ ts)
  | .anyOf ts => .anyOf (renL ρ ts)
  | .array t => .array (ren ρ t)
  | .map k v => .map (ren ρ k) (ren ρ v)
  | .set t => .set (ren ρ t)
  | .disc ss key m sm => .disc (renL ρ ss) key (renSL ρ m) (renSL ρ sm)
  | .optional t => .optional (ren ρ t)
  | .object props ix => .object (renSL ρ props) (renPL ρ ix)
  | .ref name => .ref (ρ name)
  | .described d t => .described d (ren ρ t)
  | .typeof t => .typeof t
  | .any => .any
  | .nullish d => .nullish d
  | .never => .never
  | .const v => .const v
  | .regex tpl d => .regex tpl d
  | .date => .date
  | .bigint => .bigint
  | .typed c => .typed c
  | .strfmt fs => .strfmt fs
  | .numfmt fs => .numfmt fs
  | .consts vs => .consts vs
def renL (ρ : String → String) : List RT → List RT
  | [] => []
  | t :: ts => ren ρ t :: renL ρ ts
def renO (ρ : String → String) : Option RT → Option RT
  | none => none
  | some t => some (ren ρ t)
def renSL (ρ : String → String) : List (String × RT) → List (String × RT)
  | [] => []
  | (k, t) :: ps => (k, ren ρ t) :: renSL ρ ps
def renPL (ρ : String → String) : List (RT × RT) → List (RT × RT)
  | [] => []
  | (a, b) :: ps => (ren ρ a, ren ρ b) :: renPL ρ ps
end

def renEnv (ρ : String → String) (env : Env) : Env := env.map fun e => (ρ e.1, ren ρ e.2)
def renAct (ρ : String → String) (act : List (String × Nat)) : List (String × Nat) := act.map fun q => (ρ q.1, q.2)

section
variable (ρ : String → String)

theorem renL_length : ∀ (ts : List RT), (renL ρ ts).length = ts.length
  | [] => rfl
  | t :: ts => by simp [renL, renL_length ts]

theorem renSL_length : ∀ (l : List (String × RT)), (renSL ρ l).length = l.length
  | [] => rfl
  | (k, t) :: ps => by simp [renSL, renSL_length ps]

theorem renPL_length : ∀ (l : List (RT × RT)), (renPL ρ l).length = l.length
  | [] => rfl
  | (a, b) :: ps => by simp [renPL, renPL_length ps]

theorem seqT_renL {f : RT → Nat → Option (List Tok)} : ∀ (ts : List RT) (q : Nat),
    seqT f (renL ρ ts) q = seqT (fun t => f (ren ρ t)) ts q
  | [], q => rfl
  | t :: ts, q => by
    simp only [renL, seqT]
    cases f (ren ρ t) q with
    | none => rfl
    | some r => simp only [seqT_renL ts]

theorem seqT_renSL {f : String × RT → Nat → Option (List Tok)} : ∀ (l : List (String × RT)) (q : Nat),
    seqT f (renSL ρ l) q = seqT (fun p => f (p.1, ren ρ p.2)) l q
  | [], q => rfl
  | (k, t) :: ps, q => by
    simp only [renSL, seqT]
    cases f (k, ren ρ t) q with
    | none => rfl
    | some r => simp only [seqT_renSL ps]

theorem seqT_renPL {f : RT × RT → Nat → Option (List Tok)} : ∀ (l : List (RT × RT)) (q : Nat),
    seqT f (renPL ρ l) q = seqT (fun p => f (ren ρ p.1, ren ρ p.2)) l q
  | [], q => rfl
  | (a, b) :: ps, q => by
    simp only [renPL, seqT]
    cases f (ren ρ a, ren ρ b) q with
    | none => rfl
    | some r => simp only [seqT_renPL ps]

/-- sorting by key commutes with renaming the values -/
theorem insertBy_renSL (k : String) (t : RT) : ∀ (l : List (String × RT)),
    insertBy (fun (a b : String × RT) => strLe a.1 b.1) (k, ren ρ t) (renSL ρ l) =
      renSL ρ (insertBy (fun (a b : String × RT) => strLe a.1 b.1) (k, t) l)
  | [] => rfl
  | (k', t') :: ps => by
    simp only [renSL, insertBy]
    split
    · simp only [renSL]
    · simp only [renSL, insertBy_renSL k t ps]

theorem sortedProps_renSL : ∀ (l : List (String × RT)), sortedProps (renSL ρ l) = renSL ρ (sortedProps l)
  | [] => rfl
  | (k, t) :: ps => by
    have ih := sortedProps_renSL ps
    unfold sortedProps sortBy at *
    simp only [renSL, List.foldr_cons]
    rw [ih]
    exact insertBy_renSL ρ k t _

theorem stripDescribed_ren : ∀ (t : RT), stripDescribed (ren ρ t) = ren ρ (stripDescribed t) := by
  have key : ∀ (k : Nat) (t : RT), sizeOf t ≤ k → stripDescribed (ren ρ t) = ren ρ (stripDescribed t) := by
    intro k
    induction k with
    | zero => intro t hs; cases t <;> simp at hs
    | succ k ih =>
      intro t hs
      cases t with
      | described d t' =>
        simp only [ren, stripDescribed]
        exact ih t' (by simp at hs; omega)
      | _ => simp only [ren, stripDescribed]
  exact fun t => key _ t (Nat.le_refl _)

theorem isOptionalField_ren (t : RT) : isOptionalField (ren ρ t) = isOptionalField t := by
  unfold isOptionalField
  rw [stripDescribed_ren]
  cases stripDescribed t <;> simp only [ren]

end

section
variable {ρ : String → String} (hρ : ∀ a b, ρ a = ρ b → a = b)

include hρ in
theorem lookup_renEnv (env : Env) (name : String) : (renEnv ρ env).lookup (ρ name) = (env.lookup name).map (ren ρ) := by
  unfold Env.lookup renEnv
  induction env with
  | nil => rfl
  | cons e es ih =>
    simp only [List.map_cons, List.find?_cons]
    by_cases h : e.1 = name
    · simp [h]
    · have h' : ¬ ρ e.1 = ρ name := fun e' => h (hρ _ _ e')
      have b1 : (e.1 == name) = false := by simpa using h
      have b2 : (ρ e.1 == ρ name) = false := by simpa using h'
      simp only [b1, b2]
      exact ih

include hρ in
theorem find_renAct (act : List (String × Nat)) (name : String) :
    (renAct ρ act).find? (fun q => q.1 == ρ name) = (act.find? (fun q => q.1 == name)).map (fun q => (ρ q.1, q.2)) := by
  unfold renAct
  induction act with
  | nil => rfl
  | cons e es ih =>
    simp only [List.map_cons, List.find?_cons]
    by_cases h : e.1 = name
    · simp [h]
    · have h' : ¬ ρ e.1 = ρ name := fun e' => h (hρ _ _ e')
      have b1 : (e.1 == name) = false := by simpa using h
      have b2 : (ρ e.1 == ρ name) = false := by simpa using h'
      simp only [b1, b2]
      exact ih

include hρ in
/-- **names never reach the stream**: renaming the named types of the environment injectively, and every reference with
them, gives the same tokens — for every runtype, set of types under expansion, offset and fuel -/
theorem h256_rename (env : Env) : ∀ (n : Nat) (rt : RT) (act : List (String × Nat)) (p : Nat),
    h256 (renEnv ρ env) n (ren ρ rt) (renAct ρ act) p = h256 env n rt act p := by
  intro n
  induction n with
  | zero => intro rt act p; simp [h256]
  | succ n ih =>
    intro rt act p
    have hh : (fun (t : RT) (q : Nat) => h256 (renEnv ρ env) n (ren ρ t) (renAct ρ act) q) =
        (fun (t : RT) (q : Nat) => h256 env n t act q) := by
      funext t q; exact ih t act q
    have hh1 : ∀ t, (fun (q : Nat) => h256 (renEnv ρ env) n (ren ρ t) (renAct ρ act) q) = (fun (q : Nat) => h256 env n t act q) :=
      fun t => by funext q; exact ih t act q
    cases rt with
    | typeof t => simp only [ren, h256]
    | any => simp only [ren, h256]
    | nullish _ => simp only [ren, h256]
    | never => simp only [ren, h256]
    | const _ => simp only [ren, h256]
    | regex _ _ => simp only [ren, h256]
    | date => simp only [ren, h256]
    | bigint => simp only [ren, h256]
    | typed _ => simp only [ren, h256]
    | strfmt _ => simp only [ren, h256]
    | numfmt _ => simp only [ren, h256]
    | consts _ => simp only [ren, h256]
    | described d t => simp only [ren, h256]; exact ih t act p
    | array t => simp only [ren, h256]; rw [hh1 t]
    | set t => simp only [ren, h256]; rw [hh1 t]
    | optional t => simp only [ren, h256]; rw [hh1 t]
    | map k v => simp only [ren, h256]; rw [hh1 k, hh1 v]
    | allOf ts =>
      simp only [ren, h256, renL_length]
      congr 1
      funext q
      rw [seqT_renL]
      exact congrFun (congrArg (fun f => seqT f ts) hh) q
    | anyOf ts =>
      simp only [ren, h256, renL_length]
      congr 1
      funext q
      rw [seqT_renL]
      exact congrFun (congrArg (fun f => seqT f ts) hh) q
    | tuple pre rest =>
      simp only [ren, h256, renL_length]
      have e1 : (fun q => seqT (fun t q => h256 (renEnv ρ env) n t (renAct ρ act) q) (renL ρ pre) q) =
          (fun q => seqT (fun t q => h256 env n t act q) pre q) := by
        funext q
        rw [seqT_renL]
        exact congrFun (congrArg (fun f => seqT f pre) hh) q
      cases rest with
      | none => simp only [renO]; rw [show seqT (fun t q => h256 (renEnv ρ env) n t (renAct ρ act) q) (renL ρ pre) = seqT (fun t q => h256 env n t act q) pre from e1]
      | some r =>
        simp only [renO]
        rw [show seqT (fun t q => h256 (renEnv ρ env) n t (renAct ρ act) q) (renL ρ pre) = seqT (fun t q => h256 env n t act q) pre from e1, hh1 r]
    | object props ix =>
      simp only [ren, h256, renSL_length, renPL_length, sortedProps_renSL]
      have e1 : seqT (fun (p : String × RT) => pre [.str p.1, .bool (isOptionalField p.2)] (fun q => h256 (renEnv ρ env) n p.2 (renAct ρ act) q))
          (renSL ρ (sortedProps props)) =
          seqT (fun (p : String × RT) => pre [.str p.1, .bool (isOptionalField p.2)] (fun q => h256 env n p.2 act q)) (sortedProps props) := by
        funext q
        rw [seqT_renSL]
        congr 1
        funext x
        simp only [isOptionalField_ren]
        rw [hh1 x.2]
      have e2 : seqT (fun (p : RT × RT) => andThen (fun q => h256 (renEnv ρ env) n p.1 (renAct ρ act) q) (fun q => h256 (renEnv ρ env) n p.2 (renAct ρ act) q)) (renPL ρ ix) =
          seqT (fun (p : RT × RT) => andThen (fun q => h256 env n p.1 act q) (fun q => h256 env n p.2 act q)) ix := by
        funext q
        rw [seqT_renPL]
        congr 1
        funext x
        rw [hh1 x.1, hh1 x.2]
      rw [e1, e2]
    | disc ss key m sm =>
      simp only [ren, h256, renL_length, renSL_length, sortedProps_renSL]
      have e1 : seqT (fun t q => h256 (renEnv ρ env) n t (renAct ρ act) q) (renL ρ ss) = seqT (fun t q => h256 env n t act q) ss := by
        funext q
        rw [seqT_renL]
        exact congrFun (congrArg (fun f => seqT f ss) hh) q
      have e2 : seqT (fun (p : String × RT) => pre [.str p.1] (fun q => h256 (renEnv ρ env) n p.2 (renAct ρ act) q)) (renSL ρ (sortedProps m)) =
          seqT (fun (p : String × RT) => pre [.str p.1] (fun q => h256 env n p.2 act q)) (sortedProps m) := by
        funext q
        rw [seqT_renSL]
        congr 1
        funext x
        rw [hh1 x.2]
      rw [e1, e2]
    | ref name =>
      simp only [ren, h256, lookup_renEnv hρ]
      cases hl : env.lookup name with
      | none => rfl
      | some to =>
        simp only [Option.map_some, stripDescribed_ren]
        cases hs : stripDescribed to with
        | ref other => simp only [ren]; exact ih (.ref other) act p
        | _ =>
          all_goals
            simp only [ren, find_renAct hρ]
            cases act.find? (fun q => q.1 == name) with
            | some q => rfl
            | none =>
              simp only [Option.map_none]
              exact ih to ((name, p) :: act) p

include hρ in
/-- at the root: the digest stream of a parser does not depend on what its types are called -/
theorem hash256Toks_rename (env : Env) (rt : RT) : hash256Toks (renEnv ρ env) (ren ρ rt) = hash256Toks env rt := by
  unfold hash256Toks
  have := h256_rename hρ env h256Fuel rt [] (bytesLen rootToks)
  simp only [renAct, List.map_nil] at this
  rw [this]

end


/-! ## the 32-bit `hash()` -/

/-- descriptions are invisible to `hash()` -/
theorem hash32_described (env : Env) (n : Nat) (d : String) (t : RT) (seen : List String) :
    RT.hash env (n+1) (.described d t) seen = RT.hash env n t seen := by
  simp only [RT.hash]

/-- `hash()` of an object does not depend on the order its properties were written in (distinct names) -/
theorem hash32_property_order (env : Env) (n : Nat) (props1 props2 : List (String × RT)) (ix : List (RT × RT))
    (seen : List String) (hp : props1.Perm props2) (hd : (props1.map (·.1)).Nodup) :
    RT.hash env n (.object props1 ix) seen = RT.hash env n (.object props2 ix) seen := by
  cases n with
  | zero => simp [RT.hash]
  | succ n =>
    have := sortedProps_order hp hd
    unfold sortedProps at this
    simp only [RT.hash, this]

/-! ### non-vacuity -/

private def pA : List (String × RT) := [("b", .typeof "number"), ("a", .optional (.typeof "string"))]
private def pB : List (String × RT) := [("a", .optional (.typeof "string")), ("b", .typeof "number")]

/-- two spellings of one object type: the hypotheses hold, and both digests are what the theorems say -/
example : pA.Perm pB ∧ (pA.map (·.1)).Nodup ∧
    hash256Toks [] (.object pA []) = hash256Toks [] (.object pB []) ∧ (hash256Toks [] (.object pA [])).isSome = true ∧
    RT.hash [] 10 (.object pA []) [] = RT.hash [] 10 (.object pB []) [] := by
  refine ⟨?_, by decide, by decide +kernel, by decide +kernel, by decide +kernel⟩
  exact List.Perm.swap _ _ _

end BeffVerif.C13N
