import BeffVerif.Lemmas.Bdd
import BeffVerif.Lemmas.Dnf
/-!
# C06 — union / intersection / difference / complement are exact set operations

Property theorems only (helper lemmas are in `Lemmas/`). The atoms of a diagram are read as
propositional variables: whatever membership reading `ρ` one fixes for the atom tables, the Boolean layer
must commute with it. All statements are for every fuel, every pair of diagrams (ordered or not) and every
assignment; they are partial-correctness statements (`= some r`), complemented by `*_total` below.
-/
namespace BeffVerif.C06
open BeffVerif Bdd

/-- BddOps::union denotes ∪ (bdd.rs:160-205). -/
theorem bdd_union_exact (n : Nat) (b1 b2 r : Bdd) (h : union n b1 b2 = some r) (ρ : Atom → Bool) :
    eval ρ r = (eval ρ b1 || eval ρ b2) := union_sound n b1 b2 r h ρ

/-- BddOps::intersect denotes ∩ (bdd.rs:108-158). -/
theorem bdd_intersect_exact (n : Nat) (b1 b2 r : Bdd) (h : intersect n b1 b2 = some r) (ρ : Atom → Bool) :
    eval ρ r = (eval ρ b1 && eval ρ b2) := intersect_sound n b1 b2 r h ρ

/-- BddOps::diff denotes \ (bdd.rs:207-252). -/
theorem bdd_diff_exact (n : Nat) (b1 b2 r : Bdd) (h : diff n b1 b2 = some r) (ρ : Atom → Bool) :
    eval ρ r = (eval ρ b1 && !eval ρ b2) := diff_sound n b1 b2 r h ρ

/-- BddOps::complement denotes ¬ (bdd.rs:254-294). -/
theorem bdd_complement_exact (n : Nat) (b r : Bdd) (h : complement n b = some r) (ρ : Atom → Bool) :
    eval ρ r = !eval ρ b := complement_sound n b r h ρ

/-- Bdd::from_node is the three-way node up to simplification (bdd.rs:84-97). -/
theorem bdd_fromNode_exact (n : Nat) (a : Atom) (l m r res : Bdd) (h : fromNode n a l m r = some res)
    (ρ : Atom → Bool) :
    eval ρ res = ((ρ a && eval ρ l) || eval ρ m || (!ρ a && eval ρ r)) := fromNode_sound h ρ

/-- bdd_to_dnf never changes membership (dnf.rs:56-100). Unconditional: structural recursion. -/
theorem dnf_of_bdd_exact (b : Bdd) (ρ : Atom → Bool) : Dnf.eval ρ (Dnf.ofBdd b) = eval ρ b := by
  rw [Dnf.ofBdd, Dnf.eval_ofBddAcc]; simp [Dnf.eval]

/-- dnf_to_bdd never changes membership (dnf.rs:102-119). -/
theorem dnf_to_bdd_exact (n : Nat) (d : Dnf) (r : Bdd) (h : Dnf.toBdd n d = some r) (ρ : Atom → Bool) :
    eval ρ r = Dnf.eval ρ d := by
  have := Dnf.toBddAcc_sound n ρ d .ff r h
  simpa [eval] using this

/-- the round trip `dnf_to_bdd ∘ bdd_to_dnf` is the identity on membership. -/
theorem dnf_roundtrip_exact (n : Nat) (b r : Bdd) (h : Dnf.toBdd n (Dnf.ofBdd b) = some r)
    (ρ : Atom → Bool) : eval ρ r = eval ρ b := by
  rw [dnf_to_bdd_exact n _ r h ρ, dnf_of_bdd_exact]

/-! Non-vacuity: the operations do return `some` on concrete, non-trivial operands (and on every
script the correspondence run executes, the driver reports `model-error` otherwise). -/
private def a0 : Atom := ⟨1, 0⟩
private def a1 : Atom := ⟨1, 1⟩
private def a2 : Atom := ⟨0, 7⟩
example : (union 10 (fromAtom a0) (fromAtom a1)).isSome = true := by decide
example : (do let u ← union 10 (fromAtom a0) (fromAtom a1); let c ← complement 10 u
              let i ← intersect 10 c (fromAtom a2); diff 10 i (fromAtom a0)).isSome = true := by decide
example : (Dnf.toBdd 10 (Dnf.ofBdd (node a0 (fromAtom a1) (fromAtom a2) tt))).isSome = true := by decide

end BeffVerif.C06
