import BeffVerif.Model.Session
/-!
# C14 — watch-mode rebuilds depend on current file contents only, not on edit history

For EVERY world (parser, compiler), every initial contents and every finite history of updates and rebuilds —
contents that parse, that do not resolve, that do not parse, files that are created on the way — the output of a rebuild in the long-lived session, asked under some settings, is the
output of a fresh session on the current contents under the same settings (`rebuild_eq_fresh`, `history_independent`). The proof is the
invariant "the cache only holds what parsing the current content gives". With the behaviour before fix D66
(`keepStale = true`: a content that does not parse leaves the previous module in the cache) the statement is false:
`stale_module_breaks_history_independence` exhibits a two-step history.
-/
namespace BeffVerif.C14
open BeffVerif.Session

variable {File Content Mod Sett Out : Type} [DecidableEq File]

theorem inv_fresh (w : World File Content Mod Sett Out) (disk : File → Option Content) : Inv w (fresh disk : State File Content Mod) := by
  intro f m h; simp [fresh] at h

theorem inv_update (w : World File Content Mod Sett Out) (s : State File Content Mod) (f : File) (c : Content)
    (h : Inv w s) : Inv w (update w false s f c) := by
  intro g m hg
  unfold update at hg ⊢
  simp only at hg ⊢
  by_cases e : g = f
  · subst e
    simp only [if_true] at hg
    refine ⟨c, by simp, ?_⟩
    cases hp : w.parse (fun h => (if h = g then some c else s.disk h).isSome) g c with
    | some m' => rw [hp] at hg; simp only [Bool.false_eq_true, if_false] at hg; rw [← hg]; exact hp
    | none => rw [hp] at hg; simp at hg
  · simp only [e, if_false] at hg
    by_cases hn : (s.disk f).isNone = true
    · simp [hn] at hg
    · simp only [hn, Bool.false_eq_true, if_false] at hg
      obtain ⟨c0, hd, hp⟩ := h g m hg
      refine ⟨c0, by simp [e, hd], ?_⟩
      -- the updated file existed before: what exists did not change
      have hex : (fun h => ((fun g' => if g' = f then some c else s.disk g') h).isSome) = existing s := by
        funext h'
        unfold existing
        by_cases e' : h' = f
        · subst e'
          simp only [if_true, Option.isSome_some]
          cases hdf : s.disk h' with
          | none => simp [hdf] at hn
          | some _ => rfl
        · simp [e']
      unfold existing at hex ⊢
      simp only at hex ⊢
      rw [hex]
      exact hp

theorem view_of_inv (w : World File Content Mod Sett Out) (s : State File Content Mod) (h : Inv w s) :
    view w s = fun f => (s.disk f).bind (w.parse (existing s) f) := by
  funext f
  unfold view
  cases hc : s.cache f with
  | some m =>
    obtain ⟨c, hd, hp⟩ := h f m hc
    simp [hd, hp]
  | none => rfl

theorem inv_rebuild (w : World File Content Mod Sett Out) (s : State File Content Mod) (σ : Sett) (h : Inv w s) :
    Inv w (rebuild w s σ).1 := by
  intro g m hg
  unfold rebuild at hg ⊢
  simp only at hg ⊢
  split at hg
  · rw [view_of_inv w s h] at hg
    simp only at hg
    cases hd : s.disk g with
    | none => rw [hd] at hg; simp at hg
    | some c =>
      rw [hd] at hg
      simp only [Option.bind_some] at hg
      exact ⟨c, rfl, hg⟩
  · exact h g m hg

theorem disk_rebuild (w : World File Content Mod Sett Out) (s : State File Content Mod) (σ : Sett) : (rebuild w s σ).1.disk = s.disk := rfl

/-- one rebuild: the session answers what a fresh session on the same disk answers under the same settings -/
theorem rebuild_eq_fresh (w : World File Content Mod Sett Out) (s : State File Content Mod) (σ : Sett) (h : Inv w s) :
    (rebuild w s σ).2 = (rebuild w (fresh s.disk : State File Content Mod) σ).2 := by
  unfold rebuild
  simp only
  rw [view_of_inv w s h, view_of_inv w (fresh s.disk) (inv_fresh w s.disk)]
  rfl

/-- **repeated rebuilds agree**: a rebuild straight after a rebuild, under the same settings and with no update in between,
outputs the same — what the first one cached does not change the answer (the "repeated runs" clause of C10 for a session) -/
theorem rebuild_twice (w : World File Content Mod Sett Out) (s : State File Content Mod) (σ : Sett) (h : Inv w s) :
    (rebuild w (rebuild w s σ).1 σ).2 = (rebuild w s σ).2 := by
  rw [rebuild_eq_fresh w (rebuild w s σ).1 σ (inv_rebuild w s σ h), disk_rebuild, ← rebuild_eq_fresh w s σ h]

/-- the outputs a history produces, paired with the disk at the time of each rebuild -/
def disksAtRebuilds (w : World File Content Mod Sett Out) : State File Content Mod → List (Op File Content Sett) → List (Sett × (File → Option Content))
  | _, [] => []
  | s, .update f c :: rest => disksAtRebuilds w (update w false s f c) rest
  | s, .rebuild σ :: rest => (σ, s.disk) :: disksAtRebuilds w (rebuild w s σ).1 rest

/-- **History independence.** From any state satisfying the invariant (in particular from a fresh session), for every
history, the k-th rebuild outputs exactly what a fresh session outputs on the file contents of that moment. -/
theorem history_independent (w : World File Content Mod Sett Out) (ops : List (Op File Content Sett)) :
    ∀ (s : State File Content Mod), Inv w s →
      (run w false s ops).2 = (disksAtRebuilds w s ops).map (fun d => (rebuild w (fresh d.2 : State File Content Mod) d.1).2) := by
  induction ops with
  | nil => intro s _; rfl
  | cons op rest ih =>
    intro s h
    cases op with
    | update f c =>
      simp only [run, step, disksAtRebuilds]
      exact ih _ (inv_update w s f c h)
    | rebuild σ =>
      simp only [run, step, disksAtRebuilds, List.map_cons]
      rw [ih _ (inv_rebuild w s σ h), rebuild_eq_fresh w s σ h]

/-- the disk only depends on the updates (so "the file contents of that moment" are the last contents written) -/
theorem disk_after_update (w : World File Content Mod Sett Out) (s : State File Content Mod) (f g : File) (c : Content) :
    (update w false s f c).disk g = if g = f then some c else s.disk g := rfl

-- ---------- the behaviour before fix D66 is history dependent ----------
/-- a two-file-free witness world: contents are numbers, 0 does not parse, the compiler reports the module of file 0 -/
def demoWorld : World Nat Nat Nat Unit (Option Nat) :=
  { parse := fun _ _ c => if c = 0 then none else some c
    extract := fun _ v => v 0
    touched := fun _ _ => [0] }

/-- before the fix: rebuild (caches content 5), update to a broken content, rebuild → still 5; a fresh session: none -/
theorem stale_module_breaks_history_independence :
    (run demoWorld true (fresh (fun _ => some 5)) [.rebuild (), .update 0 0, .rebuild ()]).2 = [some 5, some 5] ∧
    (rebuild demoWorld (fresh (fun _ => some 0) : State Nat Nat Nat) ()).2 = none := by decide

/-- the same history after the fix -/
example : (run demoWorld false (fresh (fun _ => some 5)) [.rebuild (), .update 0 0, .rebuild ()]).2 = [some 5, none] := by decide

/-- settings are part of the question: a world whose compiler reports whether the format the module asks for (its number)
is among the registered ones — two rebuilds in a row that differ in nothing but the settings answer differently, each as a
fresh session under ITS settings does -/
def fmtWorld : World Nat Nat Nat (List Nat) Bool :=
  { parse := fun _ _ c => some c
    extract := fun σ v => match v 0 with | some m => σ.contains m | none => false
    touched := fun _ _ => [0] }

example : (run fmtWorld false (fresh (fun _ => some 7)) [.rebuild [7], .rebuild [], .rebuild [7, 8]]).2 = [true, false, true] := by decide

/-- files may be CREATED during a session: a world whose parser reports whether file 1 exists (what an import of it resolves
to), compiled from file 0 — after file 1 is created the rebuild sees it, as a fresh session does, because the creation of a
file drops every cached module (the repaired D94; seeds C10-r12 / C14-r12 are the loss of this for a new file that does not parse) -/
def importWorld : World Nat Nat Bool Unit (Option Bool) :=
  { parse := fun ex f _ => if f = 0 then some (ex 1) else some true
    extract := fun _ v => v 0
    touched := fun _ _ => [0] }

example : (run importWorld false (fresh (fun f => if f = 0 then some 1 else none)) [.rebuild (), .update 1 9, .rebuild ()]).2
    = [some false, some true] := by decide

/-- the variant of `update` that drops the cache for a new file only when the new file PARSES (the seeded changes C10-r12 /
C14-r12): a tidy-looking rewrite of `update_file_content_inner` -/
def updateFlushIfParses {File Content Mod Sett Out : Type} [DecidableEq File] (w : World File Content Mod Sett Out)
    (s : State File Content Mod) (f : File) (c : Content) : State File Content Mod :=
  let isNew := (s.disk f).isNone
  let disk' : File → Option Content := fun g => if g = f then some c else s.disk g
  match w.parse (fun h => (disk' h).isSome) f c with
  | some m => { disk := disk', cache := fun g => if g = f then some m else if isNew then none else s.cache g }
  | none => { disk := disk', cache := fun g => if g = f then none else s.cache g }

/-- file 0 imports file 1 (its module says whether the import resolves); the content 0 of file 1 does not parse -/
def importWorld2 : World Nat Nat Bool Unit (Option Bool) :=
  { parse := fun ex f c => if f = 0 then some (ex 1) else if c = 0 then none else some true
    extract := fun _ v => v 0
    touched := fun _ _ => [0] }

/-- … is history dependent: file 1 is created with a content that does not parse; the importer keeps the module it was
bound to while file 1 was missing, where a fresh session resolves the import -/
theorem flush_only_when_new_file_parses_breaks_history_independence :
    let s0 : State Nat Nat Bool := fresh (fun f => if f = 0 then some 1 else none)
    let s1 := (rebuild importWorld2 s0 ()).1
    let s2 := updateFlushIfParses importWorld2 s1 1 0
    (rebuild importWorld2 s2 ()).2 = some false ∧
    (rebuild importWorld2 (fresh s2.disk : State Nat Nat Bool) ()).2 = some true ∧
    (rebuild importWorld2 (update importWorld2 false s1 1 0) ()).2 = some true := by decide

end BeffVerif.C14
