"""Shared machinery of /verif/bin/check: builds, Lean audit, correspondence runs, evidence, verdicts."""
import json, os, re, subprocess, sys, time, hashlib, shutil

VERIF = os.path.dirname(os.path.dirname(os.path.abspath(__file__)))
REPO = os.environ.get("BEFF_REPO", "/repo")
BUILD = os.path.join(VERIF, ".build")
LEAN = os.path.join(VERIF, "lean")
RS = os.path.join(VERIF, "harness", "rs")
JS = os.path.join(VERIF, "harness", "js")
BEFFH = os.path.join(BUILD, "rs-target", "debug", "beffh")
MODEL = os.path.join(LEAN, ".lake", "build", "bin", "beffmodel")
NODE22 = "/root/.nvm/versions/node/v22.22.2/bin/node"
ALLOWED_AXIOMS = {"propext", "Classical.choice", "Quot.sound"}
BANNED = re.compile(r"\b(sorry|admit|native_decide|bv_decide|implemented_by|unsafe)\b|^axiom |maxHeartbeats 0")

GLOBAL_TRUSTED_BASE = [
    "Lean 4.33.0 kernel; axioms limited to propext, Classical.choice, Quot.sound (audited by #print axioms on every property theorem, every run)",
    "Lean compiler for the model driver executable (correspondence runs compiled versions of the definitions the theorems are about)",
    "hand-written Lean models of the named source ranges: tied to /repo only by the correspondence run of this check (sampled inputs), not verified against the code",
    "the correspondence harnesses (/verif/harness/rs beffh, /verif/harness/js) and the S-expression line protocol",
]


def env_offline():
    e = dict(os.environ)
    e["CARGO_NET_OFFLINE"] = "true"
    e["CARGO_TARGET_DIR"] = os.path.join(BUILD, "rs-target")
    return e


def sh(cmd, cwd=None, env=None, timeout=None, input=None):
    t0 = time.time()
    p = subprocess.run(cmd, cwd=cwd, env=env, shell=isinstance(cmd, str), capture_output=True, text=True, timeout=timeout, input=input)
    return p.returncode, p.stdout, p.stderr, time.time() - t0


class Check:
    def __init__(self, pid, tier, seed):
        self.pid = pid
        self.tier = tier
        self.seed = seed
        self.t0 = time.time()
        self.violations = []       # (replay_path, suffix)
        self.known_seen = []       # strings
        self.coverage = {"samples": []}
        self.assumptions = []
        self.log = []
        self.obligations = 0
        self.discharged = 0
        self.checker_cmds = []
        self.trusted = list(GLOBAL_TRUSTED_BASE)
        self.replay_n = 0
        self.open_obligations = []
        os.makedirs(os.path.join(VERIF, "replays"), exist_ok=True)
        os.makedirs(os.path.join(VERIF, "evidence"), exist_ok=True)
        os.makedirs(BUILD, exist_ok=True)
        kf = os.path.join(VERIF, "known-findings.json")
        self.known = [k for k in (json.load(open(kf)) if os.path.exists(kf) else []) if k.get("property") == pid and k.get("status") == "open"]

    def say(self, *a):
        print(*a, flush=True)

    # ---------- builds ----------
    def build_rust(self):
        """rebuild the harness against /repo's current working tree (path dependency)"""
        rc, out, err, dt = sh(["cargo", "build", "--offline"], cwd=RS, env=env_offline(), timeout=1800)
        self.coverage["rust_build_s"] = round(dt, 1)
        if rc != 0:
            self.say(err[-3000:])
            raise SystemExit("harness build failed (does /repo still compile?)")

    def build_lean(self, modules):
        """lake build of the property's theorem modules + driver; returns (ok, output)"""
        cmd = ["lake", "build"] + modules + ["beffmodel"]
        rc, out, err, dt = sh(cmd, cwd=LEAN, timeout=3600)
        self.checker_cmds.append("cd /verif/lean && " + " ".join(cmd))
        self.coverage["lean_build_s"] = round(dt, 1)
        if rc == 0 and self.tier == "thorough" and modules:
            # thorough tier: the compiled theorem modules are re-checked by leanchecker, the toolchain's independent
            # re-checker of .olean files (declarations replayed into a fresh kernel environment)
            rc2, out2, err2, dt2 = sh(["lake", "env", "leanchecker"] + modules, cwd=LEAN, timeout=3600)
            self.checker_cmds.append("cd /verif/lean && lake env leanchecker " + " ".join(modules))
            self.coverage["leanchecker_s"] = round(dt2, 1)
            self.coverage["leanchecker_ok"] = rc2 == 0
            if rc2 != 0:
                return False, out + err + "\nleanchecker: " + out2 + err2
        return rc == 0, out + err

    def audit_lean(self, audit_file, src_globs=None):
        """#print axioms for every property theorem of this property; banned-token grep over all Lean sources.
        obligations := theorems listed in the audit file; discharged := those with accepted axiom sets."""
        rc, out, err, dt = sh(["lake", "env", "lean", audit_file], cwd=LEAN, timeout=1800)
        self.checker_cmds.append("cd /verif/lean && lake env lean " + audit_file)
        want = re.findall(r"^#print axioms (\S+)", open(os.path.join(LEAN, audit_file)).read(), re.M)
        got = {}
        txt = out + err
        for m in re.finditer(r"'([^']+)' depends on axioms: \[([^\]]*)\]", txt, re.S):
            got[m.group(1).split(".")[-1]] = {a.strip() for a in m.group(2).replace("\n", " ").split(",") if a.strip()}
        for m in re.finditer(r"'([^']+)' does not depend on any axioms", txt):
            got[m.group(1).split(".")[-1]] = set()
        bad = []
        for w in want:
            key = w.split(".")[-1]
            self.obligations += 1
            if key in got and got[key] <= ALLOWED_AXIOMS:
                self.discharged += 1
            else:
                bad.append((w, sorted(got.get(key, {"<not checked>"}))))
        # banned tokens
        banned_hits = []
        for root, _, files in os.walk(LEAN):
            if ".lake" in root:
                continue
            for f in files:
                if not f.endswith(".lean"):
                    continue
                in_block = False
                for ln, line in enumerate(open(os.path.join(root, f), errors="replace"), 1):
                    s = line
                    # strip comments (line comments and block comment bodies)
                    if in_block:
                        if "-/" in s:
                            s = s.split("-/", 1)[1]; in_block = False
                        else:
                            continue
                    while "/-" in s:
                        pre, rest = s.split("/-", 1)
                        if "-/" in rest:
                            s = pre + rest.split("-/", 1)[1]
                        else:
                            s = pre; in_block = True; break
                    s = s.split("--", 1)[0]
                    if BANNED.search(s):
                        banned_hits.append(f"{os.path.relpath(os.path.join(root, f), LEAN)}:{ln}")
        self.coverage["theorems_audited"] = want
        self.coverage["banned_token_hits"] = banned_hits
        return (rc == 0 and not bad and not banned_hits), bad, banned_hits, txt

    # ---------- correspondence ----------
    def gen(self, mode, seed, count, *params):
        rc, out, err, dt = sh([BEFFH, mode, "gen", str(seed), str(count)] + [str(p) for p in params], timeout=3600)
        if rc != 0:
            raise SystemExit("generator failed: " + err[-2000:])
        return [l for l in out.split("\n") if l.strip()]

    def run_impl(self, mode, lines, timeout=None):
        """runs the Rust harness; a hang (C04) is located by bisection and answered as `(hang)`"""
        # a compilation takes milliseconds: a short list gets a short budget (a hang is then located quickly)
        budget = timeout or max(12 if len(lines) <= 200 else 60, 0.05 * len(lines))
        try:
            rc, out, err, dt = sh([BEFFH, mode, "run"], input="\n".join(lines) + "\n", timeout=budget)
            res = [l for l in out.split("\n") if l.strip()]
            if len(res) < len(lines) and rc != 0:
                # the process died (abort / stack overflow) on request number len(res): answer it as a crash, go on with the rest
                crash = "(compiler-crash)\t(oracle fail c04.crash)"
                if len(res) + 1 >= len(lines):
                    return res + [crash], 0, err
                rest, rc2, err2 = self.run_impl(mode, lines[len(res) + 1:], timeout=budget)
                return res + [crash] + rest, rc2, err
            return res, rc, err
        except subprocess.TimeoutExpired:
            if len(lines) == 1:
                return ["(hang)\t(oracle fail c04.hang)"], 0, "timeout"
            mid = len(lines) // 2
            sub = max(8 if len(lines) <= 400 else 20, budget / 2)
            a, rc1, e1 = self.run_impl(mode, lines[:mid], timeout=sub)
            b, rc2, e2 = self.run_impl(mode, lines[mid:], timeout=sub)
            if len(a) != mid:
                return a, rc1, e1
            return a + b, rc2, e2

    def build_js(self):
        """re-strip the client runtime from /repo's working tree"""
        rc, out, err, dt = sh([os.path.join(JS, "build.sh")], timeout=600)
        self.coverage["js_build_s"] = round(dt, 1)
        if rc != 0:
            self.say(out[-2000:], err[-2000:])
            raise SystemExit("JS runtime strip failed")

    def translate(self, script):
        """run a (T) translator; returns (ok, message)"""
        rc, out, err, dt = sh([sys.executable, os.path.join(VERIF, "tools", "translate", script)], timeout=600)
        return rc == 0, (out + err).strip()

    def gen_js(self, mode, seed, count, *params):
        rc, out, err, dt = sh(["node", os.path.join(JS, "host.mjs"), mode, "gen", str(seed), str(count)] + [str(p) for p in params], timeout=3600)
        if rc != 0:
            raise SystemExit("js generator failed: " + err[-2000:])
        return [l for l in out.split("\n") if l.strip()]

    def run_impl_js(self, mode, lines, timeout=3600):
        rc, out, err, dt = sh(["node", "--stack-size=4000", os.path.join(JS, "host.mjs"), mode, "run"], input="\n".join(lines) + "\n", timeout=timeout)
        return [l for l in out.split("\n") if l.strip()], rc, err

    def run_model(self, lines, timeout=3600):
        rc, out, err, dt = sh([MODEL], input="\n".join(lines) + "\n", timeout=timeout)
        return [l for l in out.split("\n") if l.strip()], rc, err

    def write_replay(self, kind, body):
        self.replay_n += 1
        path = os.path.join(VERIF, "replays", f"{self.pid}-{self.seed}-{self.replay_n}.sx")
        with open(path, "w") as f:
            f.write(f"; property={self.pid} kind={kind} seed={self.seed} tier={self.tier}\n")
            f.write(f"; how-to-run: cd /verif && bin/check {self.pid} --replay {path}\n")
            f.write(body if body.endswith("\n") else body + "\n")
        return path

    def violation(self, kind, body, found_input=True):
        if len(self.violations) >= 25:   # keep counting, stop writing files
            self.violations.append((self.violations[-1][0], "" if found_input else " no-failing-input-found"))
            return
        path = self.write_replay(kind, body)
        self.violations.append((path, "" if found_input else " no-failing-input-found"))

    # ---------- finish ----------
    def finish(self, level="proof", extra_cov=None):
        cov = self.coverage
        cov["obligations"] = self.obligations
        cov["discharged"] = self.discharged
        cov["checker_cmd"] = " && ".join(self.checker_cmds) or "none"
        cov["trusted_base"] = self.trusted
        cov["open_obligations"] = self.open_obligations
        cov["known_findings_seen"] = self.known_seen
        if extra_cov:
            cov.update(extra_cov)
        cov["samples"] = cov.get("samples", [])[:12]
        ev = {
            "property_id": self.pid,
            "tier": self.tier,
            "seed": self.seed,
            "level": level,
            "coverage": cov,
            "assumptions": self.assumptions,
            "wall_s": round(time.time() - self.t0, 1),
            "violations": len(self.violations),
        }
        with open(os.path.join(VERIF, "evidence", f"{self.pid}.json"), "w") as f:
            json.dump(ev, f, indent=1)
        for k in self.known_seen:
            self.say(f"KNOWN-FINDING: property={self.pid} {k}")
        for path, suffix in self.violations[:20]:
            self.say(f"VIOLATION property={self.pid} replay={path}{suffix}")
        self.say(f"[{self.pid}] tier={self.tier} seed={self.seed} obligations={self.obligations} discharged={self.discharged} "
                 f"violations={len(self.violations)} wall={ev['wall_s']}s")
        return 1 if self.violations else 0


def split_reply(line):
    """impl lines are '<reply>\\t<oracle>'"""
    if "\t" in line:
        a, b = line.split("\t", 1)
        return a, b
    return line, "(oracle none)"


def corr_pass(chk, mode, lines, label, known_matcher=None, nontrivial=None, model_lines=None, engine="rs", oracle_filter=None, view=None, extra_oracle=None, search=None):
    """Run impl and model on the same request lines; compare replies; consult the impl-side oracle.
    Returns stats dict. Classification (DESIGN.md §6):
      reply differs + oracle fail  -> violation with the request as failing input
      reply differs + oracle ok    -> tie broken; reported once as no-failing-input-found unless a failing input exists
      reply equal   + oracle fail  -> property false of model and code: known finding (if the request violates the
                                      recorded hypothesis of an open finding) else violation
    oracle_filter(oracle_text) -> None if this property's part of the oracle is ok, else the relevant failure text.
    known_matcher(req, impl_reply, oracle_text, hyps_text) -> description string of the matching open finding or None.
    """
    if callable(engine):
        impl = engine(chk, lines)
        rc, err = 0, ""
    elif engine == "two-stage":
        impl, info = two_stage(chk, lines)
        rc, err = 0, str(info)
    else:
        impl, rc, err = (chk.run_impl_js if engine == "js" else chk.run_impl)(mode, lines)
    model, rc2, err2 = chk.run_model(model_lines if model_lines is not None else lines)
    stats = {"requests": len(lines), "mismatch": 0, "oracle_fail": 0, "known": 0, "nontrivial": 0}
    if len(impl) != len(lines):
        bad = len(impl)
        chk.violation(f"{label}:impl-crash", f"{lines[bad] if bad < len(lines) else '<eof>'}\n; impl process ended early rc={rc}\n; stderr: {err[-500:]!r}")
        stats["crash"] = 1
        lines = lines[:bad]; model = model[:bad]
    if len(model) < len(lines):
        raise SystemExit(f"model driver ended early rc={rc2}: {err2[-1000:]}")
    distinct = set()
    tie_broken = []
    found_input = False
    for req, il, ml in zip(lines, impl, model):
        ir, orc = split_reply(il)
        mr, hyps = (ml.split("\t", 1) + [""])[:2] if "\t" in ml else (ml, "")
        if nontrivial is None or nontrivial(req, ir):
            distinct.add(hashlib.sha1(req.encode()).hexdigest())
        if oracle_filter is not None:
            f = oracle_filter(orc)
            ofail = f is not None
            orc_rel = f if ofail else "(oracle ok)"
        else:
            ofail = not orc.startswith("(oracle ok") and not orc.startswith("(oracle none")
            orc_rel = orc
        if extra_oracle is not None:
            eo = extra_oracle(req, ir, hyps)
            if eo:
                ofail = True
                orc_rel = (orc_rel if orc_rel != "(oracle ok)" else "") + " " + eo
        if ofail:
            stats["oracle_fail"] += 1
        untied = mr.strip() == "untied"
        if untied:
            stats["untied"] = stats.get("untied", 0) + 1
        if (not untied) and ((view(ir) != view(mr.strip())) if view else (ir != mr.strip())):
            stats["mismatch"] += 1
            if ofail:
                found_input = True
                chk.violation(f"{label}:impl-differs-from-model+property-oracle-fails", f"{req}\n; impl:   {ir}\n; model:  {mr}\n; oracle: {orc_rel}")
            else:
                tie_broken.append((req, ir, mr))
        elif ofail:
            k = known_matcher(req, ir, orc_rel, hyps) if known_matcher else None
            if k:
                stats["known"] += 1
                if k not in chk.known_seen:
                    chk.known_seen.append(k)
            else:
                found_input = True
                chk.violation(f"{label}:property-oracle-fails", f"{req}\n; impl:   {ir}\n; model:  {mr}\n; oracle: {orc_rel}\n; hypotheses violated: {hyps}")
    if tie_broken and not found_input and search is not None:
        # the correspondence broke on inputs where the property oracle is silent: look harder for a failing input
        # (implementation + oracle only) before reporting the obligation as broken without one
        found_input = bool(search(chk, tie_broken))
        stats["searched"] = True
    if tie_broken and not found_input:
        req, ir, mr = tie_broken[0]
        chk.violation(f"{label}:correspondence-broken", f"{req}\n; impl:   {ir}\n; model:  {mr}\n; correspondence op `{label}` no longer checks ({len(tie_broken)} requests differ); the impl-side property oracle found no failing input", found_input=False)
    elif tie_broken:
        chk.coverage.setdefault("tie_broken_samples", []).append(tie_broken[0][0][:400])
    stats["nontrivial"] = len(distinct)
    if lines:
        chk.coverage["samples"].append({"op": label, "request": lines[0][:600], "impl_reply": split_reply(impl[0])[0][:300] if impl else None})
    return stats


def impl_search(mode, gen, label, engine="js", oracle_filter=None, known_matcher=None):
    """search callback for corr_pass: run the implementation alone on freshly generated requests and report every
    oracle failure that is not a recorded finding as a violation with its input; returns the number found"""
    def run(chk, tie_broken):
        lines = gen(chk)
        impl, rc, err = (chk.run_impl_js if engine == "js" else chk.run_impl)(mode, lines)
        n = 0
        for req, il in zip(lines, impl):
            ir, orc = split_reply(il)
            f = oracle_filter(orc) if oracle_filter else (None if orc.startswith("(oracle ok") or orc.startswith("(oracle none") else orc)
            if f is None:
                continue
            if known_matcher and known_matcher(req, ir, f, ""):
                continue
            n += 1
            if n <= 5:
                chk.violation(f"{label}:property-oracle-fails", f"{req}\n; impl:   {ir}\n; oracle: {f}\n; found by the search that follows a broken correspondence ({len(tie_broken)} requests differed from the model)")
        chk.coverage.setdefault("searches", []).append({"label": label, "requests": len(lines), "failing_inputs": n})
        return n
    return run


def sx_parse(s):
    """tiny S-expression reader: atoms -> str, strings -> ('s', text), lists -> list"""
    i = 0; n = len(s)
    def one():
        nonlocal i
        while i < n and s[i].isspace(): i += 1
        if i >= n: raise ValueError("eof")
        c = s[i]
        if c == "(":
            i += 1; out = []
            while True:
                while i < n and s[i].isspace(): i += 1
                if i < n and s[i] == ")": i += 1; return out
                out.append(one())
        if c == '"':
            j = i + 1; buf = []
            while s[j] != '"':
                if s[j] == "\\": buf.append(s[j:j+2]); j += 2
                else: buf.append(s[j]); j += 1
            i = j + 1
            return ("s", "".join(buf))
        j = i
        while j < n and not s[j].isspace() and s[j] not in '()"': j += 1
        tok = s[i:j]; i = j
        return tok
    return one()


def sx_show(x):
    if isinstance(x, tuple): return '"' + x[1] + '"'
    if isinstance(x, list): return "(" + " ".join(sx_show(y) for y in x) + ")"
    return x


def rt_view(prop):
    """projection of an `rt` reply onto what property `prop` talks about (so that a change that only affects
    error reporting does not break the C03/C11 correspondence and vice versa)"""
    def part(res, name):
        for p in res[1:]:
            if isinstance(p, list) and p and p[0] == name: return p[1]
        return None
    def cls(x):
        return x[0] if isinstance(x, list) and x else x
    def view(text):
        try:
            r = sx_parse(text)
        except Exception:
            return text
        if not (isinstance(r, list) and r and r[0] == "res"): return text
        v, si, ss, msg = part(r, "v"), part(r, "sp-in"), part(r, "sp-sorted"), part(r, "msg")
        if prop == "C11":
            return sx_show(["res", ["v", v]])
        if prop == "C03":
            keep = lambda x: x if cls(x) in ("ok", "throw") else [cls(x)]
            return sx_show(["res", ["v", v], ["sp-in", keep(si)], ["sp-sorted", keep(ss)], ["msg", [cls(msg)] if cls(msg) != "throw" else msg]])
        if prop == "C12":
            keep = lambda x: x if cls(x) in ("errors", "throw") else [cls(x)]
            return sx_show(["res", ["v", v if cls(v) == "throw" else "_"], ["sp-in", keep(si)], ["sp-sorted", keep(ss)], ["msg", msg]])
        return text
    return view


def tag_filter(prefixes):
    """oracle_filter keeping only the failure tags of one property, e.g. ('c03.',)"""
    def f(orc):
        if not orc.startswith("(oracle fail"):
            return None
        # a tag is an atom, or the head of a list carrying details: (c14.history 1 "…")
        tags = [t.lstrip("(").rstrip(")") for t in orc[len("(oracle fail"):].split() if any(t.lstrip("(").startswith(p) for p in prefixes)]
        return "(oracle fail " + " ".join(tags) + ")" if tags else None
    return f


def generic_run(chk, modules, audit, passes, trusted, open_obl, rule, translators=()):
    """Common skeleton: (T) translators -> lake build + axiom audit -> correspondence passes -> verdict.
    passes: list of callables(chk) -> stats"""
    tmsgs = []
    tok = True
    for t in translators:
        ok1, msg = chk.translate(t)
        tok = tok and ok1; tmsgs.append(f"{t}: {msg}")
    ok, out = chk.build_lean(modules) if tok else (False, "\n".join(tmsgs))
    aok, bad, banned, txt = chk.audit_lean(audit) if ok else (False, [("<build failed>", [])], [], out)
    chk.trusted += trusted
    chk.open_obligations += open_obl
    stats = [p(chk) for p in passes]
    if not (ok and aok):
        found = any(not s.endswith("no-failing-input-found") for _, s in chk.violations)
        if not found:
            chk.violation("lean-obligation-broken", f"; translators: {tmsgs}\n; theorem modules {modules} / audit {audit} no longer check\n; not-accepted: {bad}\n; banned: {banned}\n" + "\n".join("; " + l for l in (out if not ok else txt).split("\n")[-30:]), found_input=False)
    ev = sum(s["requests"] for s in stats)
    return chk.finish("proof", {
        "corr_evaluations": ev, "evaluations": ev,
        "distinct_nontrivial": sum(s["nontrivial"] for s in stats),
        "corr_mismatches": sum(s["mismatch"] for s in stats),
        "corr_oracle_failures": sum(s["oracle_fail"] for s in stats),
        "corr_known_finding_hits": sum(s["known"] for s in stats),
        "corr_rule": rule,
    })


def two_stage(chk, lines, stage1_mode="compile", stage2_mode="prog"):
    """Rust stage (real compiler) then JS stage (emitted module against the real runtime): returns impl reply lines
    '<reply>\t<oracle>' aligned with `lines` (a crashed stage is reported as its own reply)"""
    s1, rc, err = chk.run_impl(stage1_mode, lines)
    if len(s1) != len(lines):
        # the compiler process died (abort / stack overflow): attribute to the first unanswered request
        bad = len(s1)
        return s1 + ["(compiler-crash)\t(oracle fail c04.crash)"] * (len(lines) - bad), {"crash_at": bad, "stderr": err[-400:]}
    joined = [l + "\t" + split_reply(r)[0] for l, r in zip(lines, s1)]
    s2, rc2, err2 = chk.run_impl_js(stage2_mode, joined)
    if len(s2) != len(lines):
        s2 = s2 + ["(js-host-crash)\t(oracle fail c04.jscrash)"] * (len(lines) - len(s2))
    # keep the compile-stage oracle (panic location) when it failed
    out = []
    for a, b in zip(s1, s2):
        ra, oa = split_reply(a)
        out.append(b if oa.startswith("(oracle ok") else f"{split_reply(b)[0]}\t{oa}")
    return out, {}


def known_by_hyp(chk, mapping):
    """known_matcher from {hypothesis name: finding id}: an oracle failure is a manifestation of an open finding
    when the request violates that finding's hypothesis (evaluated by the Lean driver) and model == impl."""
    open_ids = {k["id"]: k for k in chk.known}
    def m(req, ir, orc, hyps):
        for hyp, fid in mapping.items():
            if hyp in hyps and fid in open_ids:
                k = open_ids[fid]
                tags = k.get("oracle_tags")
                if tags and not all(any(t.startswith(p) for p in tags) for t in orc[len("(oracle fail"):].rstrip(")").split()):
                    continue
                return k["what"]
        return None
    return m


def corpus_lines(pid):
    d = os.path.join(VERIF, "corpus", pid)
    lines = []
    if os.path.isdir(d):
        for f in sorted(os.listdir(d)):
            lines += [l for l in open(os.path.join(d, f)).read().split("\n") if l.strip() and not l.startswith(";")]
    return lines
