#!/usr/bin/env python3
"""tools/reseed_all.py — re-apply every recorded seeded change that still applies to /repo's current tree, run the quick
check of its property, undo the change. Writes seeded/STATUS.json. A patch that no longer applies (the code it touched
was repaired or moved since) is listed as such, with the reason recorded in its meta.json if any."""
import os, json, subprocess, sys
ROOT = "/verif/seeded"
args = sys.argv[1:]
# --resume: skip the seeds STATUS.json already has an entry for that was written by this run (marker file);
# --newest-first: the latest rounds first. Results are merged into STATUS.json after EVERY seed, so a run can be stopped.
resume = "--resume" in args
newest = "--newest-first" in args
only = [a for a in args if not a.startswith("--")]
assert subprocess.run(["git", "-C", "/repo", "status", "--porcelain"], capture_output=True, text=True).stdout.strip() == "", "/repo not clean"
status = {}
sp = os.path.join(ROOT, "STATUS.json")
stamp = os.path.join(ROOT, ".run-stamp.json")
done = set(json.load(open(stamp))) if resume and os.path.exists(stamp) else set()
def rank(n):
    import re
    m = re.match(r"C\d\d-r(\d+)-", n)
    return (-(int(m.group(1)) if m else 1), n) if newest else (0, n)
def flush():
    old = json.load(open(sp)) if os.path.exists(sp) else {}
    old.update(status)
    json.dump(old, open(sp, "w"), indent=1)
    json.dump(sorted(done | set(status)), open(stamp, "w"))
for name in sorted(os.listdir(ROOT), key=rank):
    d = os.path.join(ROOT, name)
    patch = os.path.join(d, "patch.diff")
    if not os.path.isfile(patch) or (only and name not in only) or name in done:
        continue
    meta = json.load(open(os.path.join(d, "meta.json")))
    pid = meta.get("property", name.split("-")[0])
    if subprocess.run(["git", "-C", "/repo", "apply", "--check", patch], capture_output=True).returncode != 0:
        status[name] = {"applies": False, "note": meta.get("applies_to", "the code it touches has changed since (repairs)")}
        print(name, "does not apply", flush=True)
        flush()
        continue
    subprocess.run(["git", "-C", "/repo", "apply", patch], check=True)
    try:
        r = subprocess.run(["bin/check", pid, "--tier", "quick"], cwd="/verif", capture_output=True, text=True, timeout=3600)
        viol = [l for l in r.stdout.split("\n") if l.startswith("VIOLATION")]
        with_input = [l for l in viol if not l.endswith("no-failing-input-found")]
        status[name] = {"applies": True, "exit": r.returncode, "violations": len(viol), "with_failing_input": len(with_input)}
        print(name, status[name], flush=True)
    finally:
        subprocess.run(["git", "-C", "/repo", "checkout", "--", "."], check=True)
    flush()
missed = [n for n, s in status.items() if s.get("applies") and s.get("exit") != 1]
print("applied:", sum(1 for s in status.values() if s.get("applies")), "missed:", missed)
