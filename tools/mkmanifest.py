#!/usr/bin/env python3
"""Regenerates /verif/MANIFEST.json from the claim table below (kept in one place so it stays valid)."""
import json, os
V = os.path.dirname(os.path.dirname(os.path.abspath(__file__)))
props = [json.loads(l) for l in open(os.path.join(V, "properties.jsonl"))]
NOTE_COMMON = "trusted: Lean 4.33 kernel + {propext, Classical.choice, Quot.sound} (audited every run); hand-written Lean model tied to /repo by the sampled correspondence run of the same check; harnesses + line protocol. "
claimed = {
 "C06": {
  "text": "Lean 4 theorems (Props/C06.lean) prove for ALL diagrams, ALL fuels and ALL truth assignments that the modelled union/intersect/diff/complement/from_node, bdd_to_dnf and dnf_to_bdd denote exactly the Boolean operation (no ordering hypothesis). The model is hand-written and tied to /repo on every run by a correspondence check: random op scripts over the real BddOps are compared with the compiled Lean model as complete truth tables, and an impl-only oracle checks the Boolean identity on the Rust results. SemType/ProperSubtype layer: correspondence only so far (named in open_obligations).",
  "note": NOTE_COMMON + "Model of bdd.rs:50-295/dnf.rs:56-119; fuel adequacy not proved (partial correctness).",
  "technique": "Lean 4 proof (induction on fuel, Boolean case analysis) + model/implementation correspondence on complete truth tables",
  "design": "§5 C06", "engines": ["lean-model", "beffh"]},
 "C13": {
  "text": "Lean 4 theorem writer_digest_eq_spec: for EVERY sequence of updateBytes chunks (all block-boundary/padding cases, unbounded length) the modelled Hash256Writer digest equals FIPS 180-4 SHA-256 of the concatenation (also parametric in the compression function); the round constants/IV are REGENERATED from hash.ts on every run and proved to be the FIPS constants by their defining cube/square-root property (decide +kernel); token-level writes feed exactly the canonical encoding (hashToks_eq). Tie: real Hash256Writer (type-stripped hash.ts under Node) vs compiled Lean writer on random and all-two-chunk-split write sequences; oracle: node:crypto. Structural-fingerprint clauses over Runtype trees: see open_obligations.",
  "note": NOTE_COMMON + "translator sha_consts.py; Node stripTypeScriptTypes; JS doubles exact below 2^53 bits; SHA-256 collision resistance is an assumption of the property, not an axiom.",
  "technique": "Lean 4 proof (writer invariant by induction over the chunk list, padding case split) + regenerated constant tables checked by decide +kernel + correspondence vs real runtime",
  "design": "§5 C13", "engines": ["lean-model", "js-host"]},
 "C03": {
  "text": "Lean 4 theorems over a hand-written executable model of every *Runtype class (validate / parseAfterValidation incl. deepmerge / reportDecodeError / safeParse / parse): the three entry points agree on acceptance for every runtype, value, option and fuel (safeParse_success_iff_validate, safeParse_failure_iff_not_validate, parse_agrees_safeParse, parse_returns_iff_validate). The re-validation / projection / idempotence clauses are FALSE of the current code for named shapes: negations are proved with concrete witnesses (D28, D29) and the shapes are decidable hypotheses evaluated by the Lean driver on every request. Tie: the model is run against the REAL runtime classes on type-directed random (env, runtype, value, option) quadruples and must reproduce validate, both safeParse outputs (data or full error trees) and the parse message verbatim; the seven C03 relations are evaluated on the JS results by an impl-only oracle. Several genuine defects were repaired (fix: commits D6, D7, D23, D27, D31, D34, D35).",
  "note": NOTE_COMMON + "Model of codegen-v2.ts:34-2430 + err.ts; no-mutation is only observed by the harness; property names outside the modelled vocabulary on non-plain objects, cyclic inputs, getters, sparse arrays, lone surrogates are outside the model.",
  "technique": "Lean 4 proof (definitional case analysis; decide +kernel witnesses for the negations) + verbatim model/implementation correspondence on the real runtime + JS property oracle",
  "design": "§5 C03", "engines": ["lean-model", "js-host"]},
 "C11": {
  "text": "Lean 4: strict_implies_default is proved at FULL strength by induction on fuel over all 23 runtype constructors (whenever both modes answer, strict acceptance implies default acceptance); strict_object_iff characterises one object position (strict ⟺ declared properties accepted ∧ every own key declared); strict_irrelevant_with_index. The full 'exactly the undeclared keys' statement is false for intersections of named object types (D9): negation proved (split_intersection_rejects_declared_keys), hypothesis NoSplitIntersection evaluated per request. Tie/search: same harness as C03 with an independent declarative reference for strict acceptance computed on the runtype description.",
  "note": NOTE_COMMON + "Model of ObjectRuntype/AllOfRuntype.validate (codegen-v2.ts:1346-1357, 2073-2117) inside the full validate model.",
  "technique": "Lean 4 proof (induction on fuel, all constructors) + correspondence + declarative strict-acceptance reference oracle",
  "design": "§5 C11", "engines": ["lean-model", "js-host"]},
 "C12": {
  "text": "Lean 4: safeParse_errors_le_10 (full strength), union_reports_one, leaf_reports_received, tuple_surplus_reported (the repaired D8), printErrors determinism (model is a pure function); witness that allOf [] is the only shape with an empty report (hypothesis NoEmptyIntersection). report_nonempty / paths_resolve for all constructors are not yet proved and are decided by the correspondence (full error trees compared verbatim with the real reportDecodeError/printErrors) plus the JS oracle (1..10 errors, every nested path resolves, received = value at path, rendering total and deterministic).",
  "note": NOTE_COMMON + "Model of reportDecodeError of every class, buildUnionError/maxErrorDepth/dedup (JSON.stringify modelled incl. ISO dates, bigint replacer), err.ts printErrors.",
  "technique": "Lean 4 proof (bounds, shape lemmas, decide +kernel witnesses) + verbatim error-tree correspondence + JS path/received oracle",
  "design": "§5 C12", "engines": ["lean-model", "js-host"]},
 "C01": {
  "text": "Three-way decision on the TsCore fragment (aliases, generics, interfaces/extends, recursion, unions incl. discriminated/literal, intersections, tuples with rest, index signatures, Record/Partial/Required/Pick/Omit/Readonly, Date/Map/Set/typed arrays, template literals): a Lean model of the compiler (frontend lowering with named definitions and the type-application stack → any_of/all_of → printer incl. literal-set and discriminator dispatch → runtime validate) and an independent declarative Lean reference semantics ⟦·⟧ᵀˢ (readings S1–S6). Proved in Lean: every keyword type and every string/number/boolean literal type is exact for EVERY value through the real model chain (keyword_types_exact, *_literal_exact), the literal-set dispatch is invisible (consts_eq_union_of_consts, all literal lists), paren/readonly invisibility; negations for the two known deviations D21/D22 and a regression witness for the repaired D12. The inductive step over all constructors (C01_main) is NOT yet proved and is decided by correspondence: real compiler + real runtime vs compiler model (tie) and vs the reference (search) on generated programs and type-directed values.",
  "note": NOTE_COMMON + "Models of frontend/mod.rs, ast/runtype.rs, print/printer.rs for the fragment; swc parser and the harness' TypeScript printer trusted; constructs outside the fragment are covered by C05/C07/C09 only.",
  "technique": "Lean 4 proof (base cases of the compile chain, printer lemma by induction on the literal list, decide +kernel witnesses) + three-way correspondence compiler/model/reference",
  "design": "§5 C01", "engines": ["lean-model", "beffh", "js-host"]},
 "C08": {
  "text": "Lean 4: the reference semantics is invariant under the listed rewrites — union / intersection member permutation and object-member permutation (via a general foldl-permutation lemma), parentheses, readonly, introducing/inlining a non-generic alias, the generic identity wrapper; at the runtime level the branch order of a union never changes acceptance (anyOf_order_irrelevant, all fuels). The end-to-end statement uses the C01 tie. The check rewrites generated programs (1–4 random rewrites from 12 kinds), compiles BOTH with the real compiler and compares the two real validators on the same values and their hash256 digests; the Lean compiler model predicts both bit vectors. hash256 equality is required without exception for name-free rewrites; for naming rewrites differences are classified by three recorded hypotheses (D11, D39, D41). Genuine defects repaired on the way: D10 (alias hops in cycle numbering), D42 (Pick with aliased keys), D1 (Record over an alias of an alias hangs).",
  "note": NOTE_COMMON + "Same models as C01; the rewrite engine of the harness (mode_prog.mjs) is trusted to apply the named rewrite.",
  "technique": "Lean 4 proof (permutation invariance of the reference folds, unfolding lemmas) + pairwise differential compilation with model prediction",
  "design": "§5 C08", "engines": ["lean-model", "beffh", "js-host"]},
 "C15": {
  "text": "Lean 4: a text-level model of describe() (every describeTypeExpr, member printing, reference counting, alias extraction, Codec wrapper) for which describe_definitions_nodup is proved for every runtime tree, environment and fuel (no named type is declared twice), with kernel-checked witnesses for the repaired D24 and for the two shapes whose text is not faithful TypeScript (D43 mixed index objects, D24c template alternations). Tie: the model's text (through the Lean compiler model incl. the derived Ord of RuntypeKind that fixes union order) must equal the REAL describe() text verbatim. Search: the real text is compiled again by the real compiler and generation 1 / generation 2 validators are compared on values and hash256; every alias is checked to be declared once.",
  "note": NOTE_COMMON + "Model/Describe.lean + Model/IR.lean (derived Ord, debug_print sort keys); printed names of generic instances are not modelled (those programs: round trip only).",
  "technique": "Lean 4 proof (invariant over the describe traversal, decide +kernel text witnesses) + verbatim text correspondence + real two-generation round trip",
  "design": "§5 C15", "engines": ["lean-model", "beffh", "js-host"]},
 "C02": {
  "text": "Lean 4: a model of schema() of every class in both printing modes (tied VERBATIM, key order included, to the real emitted JSON on every run) and a JSON Schema 2020-12 evaluator for the emitted keyword set. Proved: for every JSON document the schemas of string/number/boolean, null/undefined/void, any/unknown and never accept exactly what the validator accepts (typeof_exact, nullish_exact, any_exact, never_exact via valid_type_only for all fuels); Date/bigint/Map/Set/typed arrays throw in both modes in every context (nonjson_leaves_throw) and the exception propagates from nested positions; kernel-checked regression witnesses for the repaired D13/D19 and a witness for D48. Composite constructors are decided on the REAL schemas by python jsonschema (meta-schema well-formedness, soundness incl. strict keys, completeness on null-free exact members, $ref resolution, throw-iff-non-JSON). Seven genuine defects were repaired (D13, D19, D46, D47, D52, D16a + prior), five deviations are recorded with decidable hypotheses (D48–D51, D9).",
  "note": NOTE_COMMON + "Model/{Schema,Hash,JsonSchema}.lean; python jsonschema 4.x with the harness formats is the judge in the search; flat soundness is only claimed for non-recursive types (as the property states).",
  "technique": "Lean 4 proof (leaf exactness against a Lean JSON-Schema evaluator, throw lemmas, decide +kernel witnesses) + verbatim schema correspondence + python-jsonschema differential oracle",
  "design": "§5 C02", "engines": ["lean-model", "js-host"]},
 "C16": {
  "text": "Lean 4: the context state machine (collected definitions, in-progress marks, overrides, refPathTemplate, synthetic discriminated-variant names incl. the 32-bit hash) is part of the schema model and is compared VERBATIM with the real SchemaPrintingContext after EVERY call of random call histories (returned schema + exportDefinitions()). Proved: storeDefinition never loses a collected definition, defines the stored name and clears exactly its own mark (store_keeps / store_defines / store_clears_mark); kernel-checked witnesses: the repaired D16a (a throwing print no longer leaves a mark behind) and the 32-bit synthetic-name collision D16b. Search on the real contexts: every definition equals the fresh-context definition, nothing missing, repeated prints agree, every $ref resolves in the final export, for all histories with repetition and four template/container settings.",
  "note": NOTE_COMMON + "export_order_independent over arbitrary histories is not proved as one theorem (open obligation); D16c (dangling $ref after a throwing call inside a cycle) is a recorded finding.",
  "technique": "Lean 4 proof (context-update lemmas, decide +kernel witnesses) + per-call verbatim state correspondence + order-independence oracle on the real contexts",
  "design": "§5 C16", "engines": ["lean-model", "js-host"]},
}
pending_reason = "not yet built in this round (planned: DESIGN.md §5/§8); no claim is made until its model, theorems and correspondence check exist"
m = {"version": 1, "setup_cmd": "bin/setup",
 "hooks": {"guard": "beff_verif", "enable": "cargo feature beff_verif on packages/beff-wasm (C14 only); all other checks need no hook", "baseline_off_cmd": "cd /repo && cargo test --workspace --no-fail-fast --offline", "source_commits": [], "add_only": True},
 "engines": [
  {"name": "lean-model", "path": "lean/", "serves_properties": sorted(claimed), "kind_free_text": "Lean 4 model + theorems + compiled model driver (beffmodel)"},
  {"name": "beffh", "path": "harness/rs/", "serves_properties": sorted(k for k, v in claimed.items() if "beffh" in v["engines"]), "kind_free_text": "Rust harness calling beff-core in-process: generators, correspondence replies, property oracles"},
  {"name": "js-host", "path": "harness/js/", "serves_properties": sorted(k for k, v in claimed.items() if "js-host" in v["engines"]), "kind_free_text": "Node host running the real type-stripped client runtime: generators, correspondence replies, property oracles"}],
 "checks": [], "not_applicable": [], "notes": "see DESIGN.md"}
hooks_file = os.path.join(V, "hooks.json")
if os.path.exists(hooks_file):
    m["hooks"].update(json.load(open(hooks_file)))
for p in props:
    i = p["id"]
    if i in claimed:
        c = claimed[i]
        m["checks"].append({"property_id": i, "quick_cmd": f"bin/check {i} --tier quick", "thorough_cmd": f"bin/check {i} --tier thorough", "evidence_file": f"/verif/evidence/{i}.json", "replay_cmd_template": f"bin/check {i} --replay {{path}}", "engine": "lean-model", "level_claimed": {"category": "proof", "text": c["text"], "design_ref": c["design"]}, "level_note": c["note"], "technique": c["technique"]})
    else:
        m["not_applicable"].append({"property_id": i, "reason": pending_reason})
json.dump(m, open(os.path.join(V, "MANIFEST.json"), "w"), indent=1)
print("claimed:", sorted(claimed))
