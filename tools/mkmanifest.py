#!/usr/bin/env python3
"""Regenerates /verif/MANIFEST.json from the claim table below (kept in one place so it stays valid)."""
import json, os
V = os.path.dirname(os.path.dirname(os.path.abspath(__file__)))
props = [json.loads(l) for l in open(os.path.join(V, "properties.jsonl"))]
NOTE_COMMON = "trusted: Lean 4.33 kernel + {propext, Classical.choice, Quot.sound} (audited every run); hand-written Lean model tied to /repo by the sampled correspondence run of the same check; harnesses + line protocol. "
claimed = {
 "C06": {
  "text": "Lean 4 theorems (Props/C06.lean) prove for ALL diagrams, ALL fuels and ALL truth assignments that the modelled union/intersect/diff/complement/from_node, bdd_to_dnf and dnf_to_bdd denote exactly the Boolean operation (no ordering hypothesis). The model is hand-written and tied to /repo on every run by a correspondence check: random op scripts over the real BddOps are compared with the compiled Lean model as complete truth tables, and an impl-only oracle checks the Boolean identity on the Rust results. SemType/ProperSubtype layer: correspondence only so far (named in open_obligations).",
  "note": NOTE_COMMON + "Model of bdd.rs:50-295/dnf.rs:56-119; fuel adequacy not proved (partial correctness).",
  "technique": "Lean 4 proof (induction on fuel, Boolean case analysis) + model/implementation correspondence on complete truth tables",
  "design": "§5 C06", "engines": ["lean-model", "beffh"]},
 "C13": {
  "text": "Lean 4 theorem writer_digest_eq_spec: for EVERY sequence of updateBytes chunks (all block-boundary/padding cases, unbounded length) the modelled Hash256Writer digest equals FIPS 180-4 SHA-256 of the concatenation (also parametric in the compression function); the round constants/IV are REGENERATED from hash.ts on every run and proved to be the FIPS constants by their defining cube/square-root property (decide +kernel); token-level writes feed exactly the canonical encoding (hashToks_eq). Tie: real Hash256Writer (type-stripped hash.ts under Node) vs compiled Lean writer on random and all-two-chunk-split write sequences; oracle: node:crypto. Structural-fingerprint clauses over Runtype trees: see open_obligations.",
  "note": NOTE_COMMON + "translator sha_consts.py; Node stripTypeScriptTypes; JS doubles exact below 2^53 bits; SHA-256 collision resistance is an assumption of the property, not an axiom.",
  "technique": "Lean 4 proof (writer invariant by induction over the chunk list, padding case split) + regenerated constant tables checked by decide +kernel + correspondence vs real runtime",
  "design": "§5 C13", "engines": ["lean-model", "js-host"]},
}
pending_reason = "not yet built in this round (planned: DESIGN.md §5/§8); no claim is made until its model, theorems and correspondence check exist"
m = {"version": 1, "setup_cmd": "bin/setup",
 "hooks": {"guard": "beff_verif", "enable": "cargo feature beff_verif on packages/beff-wasm (C14 only); all other checks need no hook", "baseline_off_cmd": "cd /repo && cargo test --workspace --no-fail-fast --offline", "source_commits": [], "add_only": True},
 "engines": [
  {"name": "lean-model", "path": "lean/", "serves_properties": sorted(claimed), "kind_free_text": "Lean 4 model + theorems + compiled model driver (beffmodel)"},
  {"name": "beffh", "path": "harness/rs/", "serves_properties": sorted(k for k, v in claimed.items() if "beffh" in v["engines"]), "kind_free_text": "Rust harness calling beff-core in-process: generators, correspondence replies, property oracles"},
  {"name": "js-host", "path": "harness/js/", "serves_properties": sorted(k for k, v in claimed.items() if "js-host" in v["engines"]), "kind_free_text": "Node host running the real type-stripped client runtime: generators, correspondence replies, property oracles"}],
 "checks": [], "not_applicable": [], "notes": "see DESIGN.md"}
hooks_file = os.path.join(V, "hooks.json")
if os.path.exists(hooks_file):
    m["hooks"].update(json.load(open(hooks_file)))
for p in props:
    i = p["id"]
    if i in claimed:
        c = claimed[i]
        m["checks"].append({"property_id": i, "quick_cmd": f"bin/check {i} --tier quick", "thorough_cmd": f"bin/check {i} --tier thorough", "evidence_file": f"/verif/evidence/{i}.json", "replay_cmd_template": f"bin/check {i} --replay {{path}}", "engine": "lean-model", "level_claimed": {"category": "proof", "text": c["text"], "design_ref": c["design"]}, "level_note": c["note"], "technique": c["technique"]})
    else:
        m["not_applicable"].append({"property_id": i, "reason": pending_reason})
json.dump(m, open(os.path.join(V, "MANIFEST.json"), "w"), indent=1)
print("claimed:", sorted(claimed))
