#!/usr/bin/env python3
"""tools/try_seed.py <property> <seed-dir-with-patch.diff> <name>  — apply a seeded change to /repo, run the property's quick
check, undo the change, and store the outcome next to a copy of the seed in /verif/seeded/<name>/."""
import sys, os, subprocess, shutil, json, re
prop, src, name = sys.argv[1], sys.argv[2], sys.argv[3]
extra_props = sys.argv[4:]  # other properties to also run
dst = f"/verif/seeded/{name}"
os.makedirs(dst, exist_ok=True)
for f in os.listdir(src):
    p = os.path.join(src, f)
    if os.path.isfile(p):
        shutil.copy(p, dst)
patch = os.path.join(dst, "patch.diff")
assert subprocess.run(["git", "-C", "/repo", "status", "--porcelain"], capture_output=True, text=True).stdout.strip() == "", "/repo not clean"
subprocess.run(["git", "-C", "/repo", "apply", patch], check=True)
results = {}
try:
    for p in [prop] + extra_props:
        r = subprocess.run(["bin/check", p, "--tier", "quick"], cwd="/verif", capture_output=True, text=True, timeout=3600)
        lines = [l for l in r.stdout.split("\n") if l.startswith("VIOLATION") or l.startswith("[")]
        results[p] = {"exit": r.returncode, "violations": len([l for l in lines if l.startswith("VIOLATION")]),
                      "first": next((l for l in lines if l.startswith("VIOLATION")), None), "summary": lines[-1] if lines else r.stdout[-300:] + r.stderr[-300:]}
        m = re.search(r"replay=(\S+)", results[p]["first"] or "")
        if m and os.path.exists(m.group(1)):
            shutil.copy(m.group(1), os.path.join(dst, f"replay-{p}.sx"))
finally:
    subprocess.run(["git", "-C", "/repo", "checkout", "--", "."], check=True)
meta_p = os.path.join(dst, "meta.json")
meta = json.load(open(meta_p)) if os.path.exists(meta_p) else {}
meta.update({"property": prop, "check_results_with_change": results, "detected": results[prop]["exit"] == 1})
json.dump(meta, open(meta_p, "w"), indent=1)
print(json.dumps(results, indent=1))
