#!/usr/bin/env python3-vt
"""Property oracle for C02 / C16 on the REAL schemas (python jsonschema, Draft 2020-12). No model involved.
stdin: one JSON object per line (the `oracle-data` of harness/js/mode_schema.mjs, plus "req" = request text);
stdout: one line per input: '(oracle ok)' or '(oracle fail tag …)'."""
import sys, json, re
from jsonschema import Draft202012Validator
from jsonschema.exceptions import SchemaError, FormatError
from jsonschema import FormatChecker

NONJSON = ("(typed ", "date", "bigint", "(map ", "(set ")

def null_free(d):
    if d is None: return False
    if isinstance(d, list): return all(null_free(x) for x in d)
    if isinstance(d, dict): return all(null_free(x) for x in d.values())
    return True

def refs_in(x, acc):
    if isinstance(x, dict):
        for k, v in x.items():
            if k == "$ref" and isinstance(v, str): acc.append(v)
            elif k == "mapping" and isinstance(v, dict) and all(isinstance(s, str) for s in v.values()): acc.extend(v.values())
            else: refs_in(v, acc)
    elif isinstance(x, list):
        for v in x: refs_in(v, acc)
    return acc

def name_of(ref, tpl):
    a, b = tpl.split("{name}", 1)
    b = b.replace("{name}", "\0")  # only the first {name} is substituted
    if ref.startswith(a):
        rest = ref[len(a):]
        tail = b.replace("\0", "{name}")
        if tail == "" : return rest
        if rest.endswith(tail): return rest[:len(rest) - len(tail)]
    return None

def flat_defs(defs, key):
    return defs.get(key, {}) if key is not None else defs

def root_schema(schema, defs, tpl, key):
    """a self-contained root document: the schema plus its definitions placed where the refTemplate points"""
    if not tpl.startswith("#/"):
        return None
    path = tpl[2:].split("/")[:-1]
    root = dict(schema)
    cur = root
    for seg in path:
        nxt = cur.get(seg)
        if not isinstance(nxt, dict):
            nxt = {}
            cur[seg] = nxt
        cur = nxt
    for n, d in flat_defs(defs, key).items():
        cur[n] = d
    return root

class HarnessFormats(FormatChecker):
    """the custom formats registered by the harness (mode_rt.mjs registerFormats): `f<sub>` = string containing <sub>,
    `n<k>` = integer multiple of k, `f2` = both (a string containing "2" / an even integer); a chain `A and B` requires both; any other name is unregistered = never satisfied"""
    def check(self, instance, format):
        for f in format.split(" and "):
            if f == "f2":
                # registered both as a string format (contains "2") and as a number format (even integer)
                if isinstance(instance, str):
                    if "2" not in instance: raise FormatError("fmt")
                elif isinstance(instance, (int, float)) and not isinstance(instance, bool):
                    if not (float(instance).is_integer() and abs(instance) < 1e15 and int(instance) % 2 == 0): raise FormatError("fmt")
            elif f.startswith("f") and f[1:] in ("a", "b", "ab"):
                if isinstance(instance, str) and f[1:] not in instance: raise FormatError("fmt")
            elif f in ("n2", "n3"):
                if isinstance(instance, (int, float)) and not isinstance(instance, bool):
                    if not (float(instance).is_integer() and abs(instance) < 1e15 and int(instance) % int(f[1:]) == 0): raise FormatError("fmt")
            else:
                if isinstance(instance, (str, int, float)) and not isinstance(instance, bool): raise FormatError("unregistered")

def is_valid(schema, doc):
    return Draft202012Validator(schema, format_checker=HarnessFormats()).is_valid(doc)

def recursive(defs):
    g = {n: [name for name in (r.rsplit("/", 1)[-1] for r in refs_in(d, []))] for n, d in defs.items()}
    def reach(a, seen):
        for b in g.get(a, []):
            if b == start: return True
            if b not in seen:
                seen.add(b)
                if reach(b, seen): return True
        return False
    for start in g:
        if reach(start, set()): return True
    return False

def mentions_pf(x):
    if isinstance(x, dict):
        return any(k in ("pattern", "format") or mentions_pf(v) for k, v in x.items())
    if isinstance(x, list):
        return any(mentions_pf(v) for v in x)
    return False

def jsv_row(sch, docs, masked):
    """verdicts of python jsonschema, in the notation of the Lean evaluator's row (Driver/SchemaOps.lean jsvRows)"""
    if sch is None or masked: return "-"
    out = []
    for doc in docs:
        try:
            out.append("t" if is_valid(sch, doc) else "f")
        except Exception:
            out.append("e")
    return "".join(out)

def main():
    for line in sys.stdin:
        line = line.strip()
        if not line: continue
        d = json.loads(line)
        bad = set()
        jsv = '(jsv "-" "-")'
        try:
            tpl, key = d["tpl"], d["key"]
            req = d.get("req", "")
            # ---------- C02 on parser 0 (flat + first contextual call on a fresh context = d["fresh"][0]) ----------
            fresh0 = d["fresh"][0]
            flat = d["flat"][0]
            nonjson = d.get("nonjson0")
            if nonjson is not None:
                if (flat is None) != nonjson: bad.add("c02.throw-flat")
                if (not fresh0["ok"]) != nonjson: bad.add("c02.throw-ctx")
            ctx_root = root_schema(fresh0["schema"], fresh0["defs"], tpl, key) if fresh0["ok"] else None
            defs0 = flat_defs(fresh0["defs"], key)
            rec = recursive(defs0)
            jsv = '(jsv %s %s)' % (json.dumps(jsv_row(flat, d["docs"], flat is not None and mentions_pf(flat))),
                                   json.dumps(jsv_row(ctx_root, d["docs"], (not fresh0["ok"]) or mentions_pf(fresh0["schema"]) or mentions_pf(defs0))))
            for name, sch in (("flat", flat), ("ctx", ctx_root)):
                if sch is None: continue
                try:
                    Draft202012Validator.check_schema(sch)
                except SchemaError:
                    bad.add("c02.malformed-" + name); continue
                for doc, (v, vs) in zip(d["docs"], d["bits"]):
                    if v is None: continue
                    try:
                        sv = is_valid(sch, doc)
                    except Exception:
                        bad.add("c02.eval-" + name); continue
                    if sv and not (v and vs) and not (name == "flat" and rec):
                        bad.add("c02.sound-" + name)
                        # … rejected already in DEFAULT mode (not only for a key the type does not declare): D9 does not explain that
                        if not v: bad.add("c02.sound-default-" + name)
                    if vs and null_free(doc) and not sv:
                        bad.add("c02.complete-" + name)
            if fresh0["ok"]:
                for r in refs_in(fresh0["schema"], []) + refs_in(defs0, []):
                    n = name_of(r, tpl)
                    if n is None or n not in defs0: bad.add("c02.ref")
            # ---------- C16 on the call history ----------
            calls = d["calls"]
            if calls:
                final = flat_defs(calls[-1]["defs"], key)
                called = sorted({c["idx"] for c in calls})
                fresh = d["fresh"]
                for name, body in final.items():
                    if not any(flat_defs(fresh[i]["defs"], key).get(name) == body for i in called):
                        bad.add("c16.def-differs")
                # "each named definition equals the one a fresh context would produce for that type"
                for name, body in final.items():
                    fb = (d.get("freshByName") or {}).get(name)
                    if fb and fb["ok"] and flat_defs(fb["defs"], key).get(name) != body:
                        bad.add("c16.def-differs-from-type")
                for i in called:
                    if fresh[i]["ok"]:
                        for name in flat_defs(fresh[i]["defs"], key):
                            if name not in final: bad.add("c16.missing-def")
                # the definition of a named type is a function of the type: whichever root reaches it first in a fresh
                # context, the body is the same (otherwise the shared context depends on the order of the calls)
                bodies = {}
                for f in fresh:
                    if f["ok"]:
                        for name, body in flat_defs(f["defs"], key).items():
                            if name in bodies and bodies[name] != body: bad.add("c16.def-depends-on-root")
                            bodies.setdefault(name, body)
                for c in calls:
                    if c["ok"]:
                        for r in refs_in(c["schema"], []):
                            n = name_of(r, tpl)
                            if n is None or n not in final: bad.add("c16.ref-dangling")
                for r in refs_in(final, []):
                    n = name_of(r, tpl)
                    if n is None or n not in final: bad.add("c16.ref-dangling")
                # same parser printed twice returns the same schema
                seen = {}
                for c in calls:
                    if c["ok"]:
                        if c["idx"] in seen and seen[c["idx"]] != c["schema"]: bad.add("c16.repeat-differs")
                        seen[c["idx"]] = c["schema"]
                        if fresh[c["idx"]]["ok"] and fresh[c["idx"]]["schema"] != c["schema"]: bad.add("c16.schema-differs-from-fresh")
        except Exception as e:
            bad.add("oracle-error:" + type(e).__name__)
        print(("(oracle ok)" if not bad else "(oracle fail " + " ".join(sorted(bad)) + ")") + "\t" + jsv)
        sys.stdout.flush()

main()
