"""C12 — runtime layer (DESIGN.md §5 C12): Lean theorems over Model/{Validate,Parse,Report}.lean + correspondence
against the REAL runtime classes (type-stripped codegen-v2.ts) + property oracle evaluated on the JS results."""
import vcheck

PID = "C12"
MODULES = ["BeffVerif.Props.C12", "BeffVerif.Props.C12Nonempty", "BeffVerif.Props.C12Paths", "BeffVerif.Props.C12Received"]
AUDIT = "BeffVerif/Audit/C12.lean"
TAGS = ("c12.",)
HYP = {"NoEmptyIntersection": "D30"}
OPEN = [
    "received_is_value_at_path is now a theorem (Props/C12Received: report_received_located, safeParse_errors_located) for the relation `At` (array index, property read, Map key / value and Set item by their printed key, and the key itself for an index-signature key error); `At` is a relation, not a function: a Map with two keys that print alike, or a property literally named `[0]`, admit more than one reading of a path — which of them the error means is decided by the JS oracle on every rejected value",
]
RULE = ("same request stream as C03; for every rejected value the oracle checks 1 ≤ #errors ≤ 10, every (nested) path resolves in the input or names a "
        "missing property of an existing object, received equals the value found there (or the key itself for index-signature key errors), "
        "printErrors/parse message render without throwing, twice identically")

def _pass(seed, count, label):
    def p(chk):
        lines = chk.gen_js("rt", seed, count)
        return vcheck.corr_pass(chk, "rt", lines, label, engine="js", oracle_filter=vcheck.tag_filter(TAGS),
                                known_matcher=vcheck.known_by_hyp(chk, HYP), view=vcheck.rt_view(PID))
    return p

def _corpus(chk):
    lines = vcheck.corpus_lines(PID)
    return vcheck.corr_pass(chk, "rt", lines, "rt(corpus)", engine="js", oracle_filter=vcheck.tag_filter(TAGS),
                            known_matcher=vcheck.known_by_hyp(chk, HYP), view=vcheck.rt_view(PID))

def run(chk):
    chk.build_js()
    quick = chk.tier == "quick"
    passes = [_corpus] + ([_pass(chk.seed * 100 + 7, 30000, "rt(random)")] if quick else
                          [_pass(chk.seed * 100 + k, 25000, f"rt(random#{k})") for k in range(8)])
    return vcheck.generic_run(chk, MODULES, AUDIT, passes,
        [PID + ": Model/{JsVal,RT,Validate,Parse,Report}.lean model codegen-v2.ts:34-2430 and err.ts by hand; property names outside the modelled vocabulary "
         "on non-plain objects, lone surrogates, cyclic inputs and getters are outside the model; a hole of a sparse array is modelled as the `undefined` every read of it gives (the harness keeps real holes on the JavaScript side)",
         PID + ": Node stripTypeScriptTypes (types removed only); custom formats registered by the harness naming convention"],
        OPEN, RULE)

def replay(chk, path):
    chk.build_js(); chk.build_lean(MODULES)
    lines = [l for l in open(path).read().split("\n") if l.strip() and not l.startswith(";")]
    st = vcheck.corr_pass(chk, "rt", lines, "rt(replay)", engine="js", oracle_filter=vcheck.tag_filter(TAGS),
                          known_matcher=vcheck.known_by_hyp(chk, HYP), view=vcheck.rt_view(PID))
    print(st)
    return chk.finish("proof", {"evaluations": len(lines), "distinct_nontrivial": st["nontrivial"]})
