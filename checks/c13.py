"""C13 — hash256 is a structural fingerprint computed as real SHA-256 (DESIGN.md §5 C13)."""
import vcheck, os

MODULES = ["BeffVerif.Props.C13", "BeffVerif.Props.C13Inj", "BeffVerif.Props.C13Tree", "BeffVerif.Props.C13Rec", "BeffVerif.Props.C13Names", "BeffVerif.Props.C13Total", "BeffVerif.Props.C13Hash32", "BeffVerif.Props.C13Total32", "BeffVerif.Props.Consts"]
AUDIT = "BeffVerif/Audit/C13.lean"

def run(chk):
    chk.build_js()
    tok, tmsg = chk.translate("sha_consts.py")   # (T): regenerate Gen/ShaConsts.lean from hash.ts
    tok2, tmsg2 = chk.translate("client_consts.py")   # (T): the tags hash256 writes (Gen/ClientConsts.lean)
    tok, tmsg = tok and tok2, tmsg + "; " + tmsg2
    ok, out = chk.build_lean(MODULES) if tok else (False, tmsg)
    aok, bad, banned, txt = chk.audit_lean(AUDIT) if ok else (False, [("<build failed>", [])], [], out)
    chk.trusted += [
        "C13: tools/translate/sha_consts.py (regex extraction of SHA256_K, h0..h7, tag bytes from hash.ts)",
        "C13: Model/Sha256.lean models hash.ts:76-234 by hand; JS numbers of the length computation are exact below 2^53 bits (stated, not modelled)",
        "C13: strings are sequences of Unicode scalars (unpaired surrogates are outside the model; since the repair D109 the real writer encodes them injectively, probed on the JavaScript side of the pair pass)",
        "C13: Model/Hash256.lean models hash256() of every *Runtype class and ParserFromRuntype.hash256 by hand; strings compare by code point (equal to the UTF-16 code-unit order of Array.prototype.sort below U+D800)",
        "C13: collision resistance of SHA-256 is a cryptographic assumption, never a Lean axiom",
    ]
    chk.open_obligations += [
        "TERMINATION is a theorem (Props/C13Total: h256_total / hash256Toks_total — in an environment in which every name resolves, constants are Const values and alias chains end, the encoder answers for every runtype, active set and offset at fuel K·(D+1)+w: K names not yet under expansion, D / w nesting depths); an alias CYCLE has no rank and the real hash256 does not return on it (D4 family)",
        "injectivity of the Runtype-level token stream is a theorem for every tree, with named references and recursion (Props/C13Tree for closed trees, Props/C13Rec: same_stream_same_behaviour_rec, different_behaviour_different_stream_rec / _bytes_rec), under three stated hypotheses: GoodR / GoodEnv (what a JavaScript object can be: distinct property and mapping keys, constants are constants), SourceDeterminesMatch (a regular expression's source decides what it matches: a fact about the regex engine, not modelled), Tok.Valid (payloads below 2^32 bytes). The converse half of C13 is a theorem rewrite by rewrite (Props/C13Names): renaming the named types injectively (h256_rename, hash256Toks_rename: names never reach the stream, recursive types included), descriptions (h256_described), alias hops (h256_alias_hop), property order and discriminator-case order (object_property_order, disc_mapping_order; hash32_property_order for the 32-bit hash). Not a theorem: introducing / removing a name for an arbitrary sub-term (alias boundary in general: a new binder may move where a cycle is cut — the class of D41 / D78), decided by c13.same on the real classes",
    ]
    quick = chk.tier == "quick"
    stats = []
    lines = chk.gen_js("sha", chk.seed, 4000 if quick else 30000)
    stats.append(vcheck.corr_pass(chk, "sha", lines, "sha-writes(random)", engine="js", nontrivial=lambda r, i: True))
    lines = chk.gen_js("sha", 0, 0, "exhaustive", 70 if quick else 200)
    stats.append(vcheck.corr_pass(chk, "sha", lines, "sha-writes(all 2-chunk splits)", engine="js", nontrivial=lambda r, i: True))
    def c13_only(orc):
        tags = [t for t in orc.replace("(", " ").replace(")", " ").split() if t.startswith("c13.")]
        return ("(oracle fail " + " ".join(tags) + ")") if tags else None
    def differs(req, ir):
        parts = ir.rsplit('"', 4)
        return len(parts) == 5 and parts[1] != parts[3]
    _deeper = vcheck.impl_search("h256", lambda c: c.gen_js("h256", c.seed + 7777, 40000), "runtype-pairs(search)", engine="js", oracle_filter=c13_only)
    memo = {}
    def deeper(c, tb):
        if "n" not in memo: memo["n"] = _deeper(c, tb)
        return memo["n"]
    km = vcheck.known_by_hyp(chk, {"NoNewBinderOnCycle": "D101b", "NoMemberReorder": "D108"})
    stats.append(vcheck.corr_pass(chk, "h256", vcheck.corpus_lines("C13"), "runtype-pairs(corpus)", engine="js", oracle_filter=c13_only, nontrivial=differs, search=deeper, known_matcher=km))
    lines = chk.gen_js("h256", chk.seed, 4000 if quick else 40000)
    stats.append(vcheck.corr_pass(chk, "h256", lines, "runtype-pairs", engine="js", oracle_filter=c13_only, nontrivial=differs, search=deeper, known_matcher=km))
    if not (ok and aok):
        found = any(not s.endswith("no-failing-input-found") for _, s in chk.violations)
        if not found:
            chk.violation("lean-obligation-broken", f"; translator: {tmsg}\n; theorem modules {MODULES} / audit {AUDIT} no longer check\n; not-accepted: {bad}\n; banned: {banned}\n" + "\n".join("; " + l for l in (out if not ok else txt).split("\n")[-30:]), found_input=False)
    ev = sum(s["requests"] for s in stats)
    return chk.finish("proof", {
        "corr_evaluations": ev, "evaluations": ev,
        "distinct_nontrivial": sum(s["nontrivial"] for s in stats),
        "corr_mismatches": sum(s["mismatch"] for s in stats),
        "corr_oracle_failures": sum(s["oracle_fail"] for s in stats),
        "corr_rule": "write sequences through the REAL Hash256Writer (type-stripped hash.ts): random byte chunks with lengths around 0/55/56/63/64/65/119/120/128 and token sequences (tag/string/number/boolean/null incl. non-ASCII), plus EVERY split of messages of length 0..N into two chunks; digest compared with the compiled Lean writer model; independently with node:crypto on the same byte stream (property oracle). every request is non-trivial (a digest); distinct = distinct request text. Runtype level: pairs (env, Runtype) built from the REAL classes — a generated type and (a) one point change of a random kind (optionality, tuple rest/length, key, property, index signature, constant, leaf, discriminator key/tag/mapping, reference target, member, container, connective, template, formats, wrapping) optionally followed by name/alias/order/description rewrites, or (b) only such rewrites; half of the environments are mutually recursive. digest of both sides compared with Model/Hash256.lean (token stream of every class + cycle offsets) and acceptance bits on 12 values with the validator model; property oracle on the JS results: equal digests with different bits = c13.collision, different digests under (b) = c13.same; non-trivial for this pass = the two validators disagree on a value",
    })

def replay(chk, path):
    chk.build_js(); chk.build_lean(MODULES)
    lines = [l for l in open(path).read().split("\n") if l.strip() and not l.startswith(";")]
    st = vcheck.corr_pass(chk, "sha", lines, "sha(replay)", engine="js")
    return chk.finish("proof", {"evaluations": len(lines), "distinct_nontrivial": st["nontrivial"]})
