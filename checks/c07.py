"""C07 — semantically computed types reach code generation unchanged in meaning (DESIGN.md §5 C07)."""
import re, vcheck

PID = "C07"
MODULES = ["BeffVerif.Props.C07", "BeffVerif.Props.C07Print", "BeffVerif.Props.C07Keyof", "BeffVerif.Props.C07Idx", "BeffVerif.Props.C07Names", "BeffVerif.Props.C07KeyofIx", "BeffVerif.Props.C07IdxIx"]
AUDIT = "BeffVerif/Audit/C07.lean"
HYP = {"NoObjectUnionOnLeft": "D25"}

def spec_oracle(req, ir, second):
    """second channel: ((spec (R "<bits with ? for unsettled>")) (hyp-failed …)); impl reply (bits (R "…")) | (diags) | …"""
    m = re.search(r'\(spec \(R "([^"]*)"\)\)', second)
    if not m:
        return None
    spec = m.group(1)
    ib = re.search(r'\(R "([^"]*)"\)', ir)
    if ib:
        bits = ib.group(1)
        if "T" in bits:
            return "(oracle fail c07.validator-throws)"
        bad = [str(i) for i, (a, b) in enumerate(zip(bits, spec)) if b != "?" and a != b]
        if bad:
            return f"(oracle fail c07.meaning values={','.join(bad)} impl={bits} spec={spec})"
        return None
    if ir.startswith("(diags"):
        # a diagnostic is acceptable only when the operator has no value at all in the reference (nothing to validate)
        return "(oracle fail c07.unexpected-diagnostic)" if "1" in spec else None
    return f"(oracle fail c07.no-validator:{ir[:40]})"

def known(chk):
    base = vcheck.known_by_hyp(chk, HYP)
    def m(req, ir, orc, hyps):
        if "c07.meaning" not in orc or "(exclude " not in req:
            return None
        return base(req, ir, "(oracle fail c07.meaning)", hyps)
    return m

def _pass(seed, count, label, lines_fn=None):
    def p(chk):
        lines = lines_fn(chk) if lines_fn else chk.gen_js("sub-sem", seed, count, 10)
        st = vcheck.corr_pass(chk, "prog", lines, label, engine="two-stage", known_matcher=known(chk), extra_oracle=spec_oracle,
                              oracle_filter=lambda o: None, nontrivial=lambda r, i: "1" in i and "0" in i)
        kinds = {k: sum(1 for l in lines if f'("R" ({k} ' in l) for k in ("exclude", "keyof", "idx")}
        chk.coverage.setdefault("operators", {})[label] = kinds
        return st
    return p

def _corpus(chk):
    return _pass(0, 0, "sem(corpus)", lines_fn=lambda c: vcheck.corpus_lines(PID))(chk)

RULE = ("`Exclude<A, B>` (A a union of 2–4 scalar / literal / object / list members; B one of them, an edit of one, a union of two, or unrelated), `keyof T` (objects, unions and "
        "intersections of objects, named objects, string index signatures) and `T[K]` (objects with one or several literal keys, unions of objects, arrays / tuples with `number` "
        "or a literal index), over up to two named — possibly recursive — types. The REAL compiler compiles the expression; the emitted validator runs against the REAL runtime on "
        "type-directed values. Tie: the Lean port (lowering → to_sem_type → operator → materialisation → remove_nots → printer → runtime model) must produce the same acceptance "
        "bits / the same diagnostic outcome. Oracle: TypeScript's meaning of the operator on the same values (Lean reference; `?` where assignability of a member was not settled); "
        "a validator that throws, a negation reaching the printer, or a diagnostic for an operator that has values are failures")

def run(chk):
    chk.build_rust(); chk.build_js()
    quick = chk.tier == "quick"
    passes = [_corpus] + ([_pass(chk.seed * 100 + 7, 7000, "sem(random)")] if quick else [_pass(chk.seed * 100 + k, 20000, f"sem(random#{k})") for k in range(5)])
    return vcheck.generic_run(chk, MODULES, AUDIT, passes,
        ["C07: Model/ToSchema.lean is a hand-written port of to_schema.rs, remove_nots_of_intersections_and_empty_of_union, keyof / mapping_indexed_access / list_indexed_access "
         "and the frontend glue (Exclude, convert_keyof, do_indexed_access_on_types incl. the syntactic shortcut) on the fragment of C05; the smart constructors any_of / all_of and "
         "the printer are those of the C01 model",
         "C07: the reference reads `Exclude`, `keyof` and `T[K]` as TypeScript does (distribution over union members; exclusions of literals from `number` / `string` are dropped: "
         "`Exclude<number, 1>` = number) and values as the validators do (readings S1–S6 of the C01 reference)"],
        ["materialisation denotes the computed set for ALL type vectors: not proved (closed kernel-checked witnesses; the general theorem is printability only: Props/C07Print removeNots_spine_free, exclude_result_spine_free); decided per instance by correspondence + reference oracle",
         "helper names are defined exactly once for ALL recursive operands: not proved in general (witness recursive_result_keeps_its_definition + the correspondence: a duplicate "
         "definition with a different body panics in insert_definition and would surface as a crash)",
         "D25 (open, shared with C05): `Exclude` over a union with two or more object members inherits the exact/structural polarity mismatch of is_subtype"],
        RULE)

def replay(chk, path):
    chk.build_rust(); chk.build_js(); chk.build_lean(MODULES)
    lines = [l for l in open(path).read().split("\n") if l.strip() and not l.startswith(";")]
    st = _pass(0, 0, "sem(replay)", lines_fn=lambda c: lines)(chk)
    print(st)
    return chk.finish("proof", {"evaluations": len(lines), "distinct_nontrivial": st["nontrivial"]})
