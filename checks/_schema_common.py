"""shared by C02 and C16: JS stage (real schema()/schemaWithContext()) followed by the python-jsonschema oracle stage"""
import vcheck, json, subprocess, os

NONJSON = ("(typed ", "(map ", "(set ")

def nonjson_reachable(req_sx):
    """does parser 0 (transitively through references) contain Date / bigint / Map / Set / typed arrays?"""
    env = {e[0][1]: e[1] for e in req_sx[1]}
    seen = set()
    def walk(x):
        if isinstance(x, str):
            return x in ("date", "bigint")
        if isinstance(x, tuple):
            return False
        if isinstance(x, list) and x:
            HEADS = ("typeof", "nullish", "const", "consts", "regex", "typed", "strfmt", "numfmt", "tuple", "array", "allof", "anyof",
                     "map", "set", "opt", "ref", "desc", "disc", "object")
            if not isinstance(x[0], str) or x[0] not in HEADS:   # a plain list of sub-terms (members, pairs, …)
                return any(walk(y) for y in x)
            if x[0] in ("typed", "map", "set"): return True
            if x[0] == "ref":
                n = x[1][1]
                if n in seen: return False
                seen.add(n)
                return walk(env.get(n, "any"))
            if x[0] == "const" or x[0] == "consts": return False
            return any(walk(y) for y in x[1:])
        return False
    return walk(req_sx[2][0])

def engine(mode):
    def run(chk, lines):
        out, rc, err = chk.run_impl_js(mode, lines)
        out = out + ["(js-host-crash)\t(oracle-data \"{}\")"] * (len(lines) - len(out))
        datas, replies = [], []
        for req, o in zip(lines, out):
            rep, od = vcheck.split_reply(o)
            replies.append(rep)
            try:
                x = vcheck.sx_parse(od)
                d = json.loads(json.loads('"' + x[1][1] + '"'))
                d["nonjson0"] = nonjson_reachable(vcheck.sx_parse(req))
            except Exception:
                d = {}
            datas.append(json.dumps(d))
        p = subprocess.run(["python3-vt", os.path.join(vcheck.VERIF, "tools", "schema_oracle.py")], input="\n".join(datas) + "\n", capture_output=True, text=True, timeout=3600)
        tags = [l for l in p.stdout.split("\n") if l.strip()]
        tags += ["(oracle fail oracle-crash)"] * (len(lines) - len(tags))
        # the verdicts of python jsonschema on the REAL schemas become part of the reply: the Lean side answers with the
        # verdicts of its own evaluator (the reference of the C02 theorems) on the model's schemas — a tie for the reference
        out = []
        for r, t in zip(replies, tags):
            tag, _, jsv = t.partition("\t")
            out.append((r[:-1] + " " + jsv + ")" if jsv and r.startswith("(sc ") and r.endswith(")") else r) + "\t" + tag)
        return out
    return run
