"""C02 — schema printing (DESIGN.md §5 C02): Lean model of schema()/SchemaPrintingContext tied verbatim to the real emitted JSON;
search: python jsonschema (Draft 2020-12) on the real schemas + real validate."""
import vcheck
from checks import _schema_common as sc

PID = "C02"
MODULES = ["BeffVerif.Props.C02", "BeffVerif.Props.C02Eval", "BeffVerif.Props.C02Frag", "BeffVerif.Props.C02Sound", "BeffVerif.Props.C02Complete", "BeffVerif.Props.C16Refs", "BeffVerif.Props.Consts", "BeffVerif.Props.C02NonJson"]
AUDIT = "BeffVerif/Audit/C02.lean"
TAGS = ("c02.",)
MODE = "schema"
HYP = {"NoRequiredUndefinedAcceptingProp": "D48", "NoMultiValuedDiscriminator": "D49", "NoMixedIndexRT": "D50", "NoProtoNamedKeys": "D51", "NoSplitIntersection": "D9s", "IntersectionsOfTypeofObject": "D22s"}
OPEN = ["soundness and the converse are proved for the flat schema of the structural fragment (Props/C02Sound.lean `schema_sound_frag`, Props/C02Complete.lean `schema_complete_frag` / `schema_exact_frag`); every emitted $ref resolves is a theorem for every type and every history of returning calls (Props/C16Refs `returned_refs_resolve` / `definition_refs_resolve`); VALIDITY for intersections, index signatures, discriminated unions and the contextual mode with $ref is decided by python jsonschema on the real schemas",
        "known deviations: D48 (required property whose type accepts undefined), D49 (multi-valued discriminator under oneOf), D50 (index signature applied to declared properties), D51 (prototype-named declared properties), D9 (named intersections in strict mode)"]
RULE = ("random (environment, runtype) with JSON documents (type-directed members, near-misses, random JSON): the REAL schema() and schemaWithContext()+exportDefinitions() "
        "JSON is compared verbatim (key order included) with the Lean model; oracle = python jsonschema Draft 2020-12 with the harness formats registered: meta-schema "
        "well-formedness, schema-valid ⇒ validate ∧ strict-validate (flat only for non-recursive types), strict-validate ∧ null-free ⇒ schema-valid, every $ref resolves, "
        "printing throws exactly for types containing Date/bigint/Map/Set/typed arrays. The Lean JSON-Schema evaluator the C02 theorems speak about (Model/JsonSchema.lean) is tied "
        "too: its verdicts on every document (flat schema; contextual schema + definitions of a fresh context) must equal python jsonschema's on the real schemas (schemas "
        "using pattern / format excepted: those keywords are parameters of the evaluator)")

def _pass(seed, count, label):
    def p(chk):
        lines = chk.gen_js(MODE, seed, count, 8)
        return vcheck.corr_pass(chk, MODE, lines, label, engine=sc.engine(MODE), oracle_filter=vcheck.tag_filter(TAGS), known_matcher=vcheck.known_by_hyp(chk, HYP))
    return p

import json, subprocess, os

def engine_prog(chk, lines):
    """compiled validators: real compiler (Rust stage), emitted module + real schema()/schemaWithContext() (JS stage),
    python jsonschema (oracle stage)"""
    s1, rc, err = chk.run_impl("compile", lines)
    s1 = s1 + ["(compiler-crash)\t(oracle ok)"] * (len(lines) - len(s1))
    joined = [l + "\t" + vcheck.split_reply(r)[0] for l, r in zip(lines, s1)]
    s2, rc2, err2 = chk.run_impl_js("prog-schema", joined)
    s2 = s2 + ["(js-host-crash)\t(oracle-data \"{}\")"] * (len(lines) - len(s2))
    datas, replies = [], []
    for o in s2:
        rep, od = vcheck.split_reply(o)
        replies.append(rep)
        try:
            x = vcheck.sx_parse(od)
            d = json.loads(json.loads('"' + x[1][1] + '"')) if x and x[0] == "oracle-data" else {}
        except Exception:
            d = {}
        datas.append(json.dumps(d))
    p = subprocess.run(["python3-vt", os.path.join(vcheck.VERIF, "tools", "schema_oracle.py")], input="\n".join(datas) + "\n", capture_output=True, text=True, timeout=3600)
    tags = [l.split("\t")[0] for l in p.stdout.split("\n") if l.strip()]
    tags += ["(oracle fail oracle-crash)"] * (len(lines) - len(tags))
    # requests without data (diagnostics, missing parser) are not judged
    return [r + "\t" + (t if d != "{}" else "(oracle ok)") for r, t, d in zip(replies, tags, datas)]

def _pass_prog(seed, count, label):
    def p(chk):
        chk.build_rust()
        # `prog` requests under the head `pschema`: the Lean driver answers `untied` (schemas of compiled validators are judged
        # by the oracle only; the Runtype-level passes carry the tie for schema printing) and evaluates the schema hypotheses
        # on the validator its compiler model produces
        lines = ["(pschema" + l[len("(prog"):] for l in chk.gen_js("prog", seed, count, 10)]
        return vcheck.corr_pass(chk, "prog", lines, label, engine=engine_prog, oracle_filter=vcheck.tag_filter(TAGS),
                                known_matcher=vcheck.known_by_hyp(chk, {**HYP, "ModelDoesNotCompile": "untied"}), view=lambda r: "(untied)",
                                nontrivial=lambda r, i: i.startswith("(pschema flat ctx"))
    return p

def _corpus(chk):
    lines = vcheck.corpus_lines(PID)
    return vcheck.corr_pass(chk, MODE, lines, "schema(corpus)", engine=sc.engine(MODE), oracle_filter=vcheck.tag_filter(TAGS), known_matcher=vcheck.known_by_hyp(chk, HYP))

def run(chk):
    chk.build_js(); chk.build_rust()
    quick = chk.tier == "quick"
    passes = [_corpus] + ([_pass(chk.seed * 100 + 11, 3000, "schema(random)"), _pass_prog(chk.seed * 100 + 12, 1200, "compiled-schema(random)")] if quick else
                          [_pass_prog(chk.seed * 100 + 20 + k, 6000, f"compiled-schema(random#{k})") for k in range(2)] + [_pass(chk.seed * 100 + k, 8000, f"schema(random#{k})") for k in range(6)])
    return vcheck.generic_run(chk, MODULES, AUDIT, passes,
        [PID + ": Model/{Schema,Hash}.lean model schema() of every class, SchemaPrintingContext, tryMergeAllOfObjectSchemas, removeNullUnionBranch, synthetic variant names (32-bit hash) by hand",
         PID + ": python jsonschema 4.x (Draft 2020-12) with the harness' custom formats is the judge of schema validity in the search; function types are excluded from the generators"],
        OPEN, RULE, translators=("client_consts.py",))

def replay(chk, path):
    chk.build_js(); chk.build_lean(MODULES)
    lines = [l for l in open(path).read().split("\n") if l.strip() and not l.startswith(";")]
    st = vcheck.corr_pass(chk, MODE, lines, "schema(replay)", engine=sc.engine(MODE), oracle_filter=vcheck.tag_filter(TAGS), known_matcher=vcheck.known_by_hyp(chk, HYP))
    print(st)
    return chk.finish("proof", {"evaluations": len(lines), "distinct_nontrivial": st["nontrivial"]})
