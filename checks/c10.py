"""C10 — compilation output is a deterministic function of the sources (DESIGN.md §5 C10)."""
import vcheck

PID = "C10"
MODULES = ["BeffVerif.Props.C10", "BeffVerif.Props.C14"]
AUDIT = "BeffVerif/Audit/C10.lean"
TAGS = ("c10.",)

def det_pass(genmode, seed, count, label, lines_fn=None):
    """real compiler: same thread twice, fresh threads with permuted registration orders (oracle inside beffh `det`),
    then the whole stream again in a SECOND OS process; the 64-bit digests of output/diagnostics must agree line by line.
    Tie: outcome class (code / diagnostics) vs the Lean compiler model, which is a function of the sources by construction."""
    def p(chk):
        lines = lines_fn(chk) if lines_fn else chk.gen_js(genmode, seed, count, 2)
        a, rc, err = chk.run_impl("det", lines)
        b, rc2, err2 = chk.run_impl("det", lines)
        reqs, impl = [], []
        for l, ra, rb in zip(lines, a, b):
            ia, oa = vcheck.split_reply(ra)
            ib, ob = vcheck.split_reply(rb)
            if not (ia.startswith("(det ") and ib.startswith("(det ")):
                continue            # panic / crash / hang: C04's business
            kind = ia.split()[1]
            fails = [t for t in (oa + " " + ob).replace("(", " ").replace(")", " ").split() if t.startswith("c10.")]
            if ia != ib:
                fails.append("c10.process")
            out = {"js": "(outcome ok)", "diags": "(outcome diags)", "parse-fail": "(outcome diags)"}.get(kind, f"(outcome {kind})")
            reqs.append(l)
            impl.append(out + ("\t(oracle fail " + " ".join(sorted(set(fails))) + f" ; {oa} ; {ob} ; {ia} vs {ib})" if fails else "\t(oracle ok)"))
        chk.coverage.setdefault("det_streams", []).append({"label": label, "requests": len(lines), "compared": len(reqs),
                                                           "multi_file": sum(1 for l in reqs if l.count('.ts"') > 1)})
        # `prog` requests are answered by the model with acceptance bits: for C10 only the outcome class is tied
        def view(r):
            if r.startswith("(pair "):      # split requests: the model answers (pair <single> <multi>)
                try:
                    second = vcheck.sx_parse(r)[2]
                    r = "(bits" if second[0] == "bits" else "(outcome diags)" if second[0] == "diags" else vcheck.sx_show(second)
                except Exception:
                    pass
            return "(outcome ok)" if r.startswith("(bits") else "(outcome diags)" if r == "(diags)" else r
        return vcheck.corr_pass(chk, "det", reqs, label, engine=lambda c, ls: impl, oracle_filter=vcheck.tag_filter(TAGS), view=view, nontrivial=lambda r, i: True)
    return p

def reg_pass(seed, count, label, lines_fn=None):
    """registration histories through the REAL session API of beff-wasm (the `beff_verif` hook, as C14 uses it): every file of a
    split project is absent at first and is registered (created) in a random order, with rebuilds in between; every rebuild must
    be what a fresh session produces for the files registered so far — "different orders in which files are read, registered or
    imported" at the level of the long-lived session, where resolutions and parsed modules are cached."""
    import random, re
    def transform(lines):
        rnd = random.Random(seed)
        out = []
        for l in lines:
            try:
                sx = vcheck.sx_parse(l)
                files = sx[2][1:]
                names, specs, has_broken, has_edited = [], [], [], {}
                for f in files:
                    name = f[1][1]
                    vs = [v for v in f[2:] if v[1][1] != "@@ABSENT@@"]
                    if not vs: continue
                    names.append(name)
                    broken = [v for v in vs if v[2] == "broken"]
                    edited = [v for v in vs[1:2] if v[2] != "broken"]
                    specs.append(["file", f[1], ["var", ("s", "@@ABSENT@@"), ["src"]], vs[0]] + broken[:1] + edited[:1])
                    if broken: has_broken.append(name)
                    if edited: has_edited[name] = 2 + len(broken[:1])
                order = names[:]; rnd.shuffle(order)
                ops = []
                # files other files re-export from: while one of them is missing beff falls through to an `export *` that also
                # provides the name, where the model (and TypeScript) report the missing module — an observation recorded under
                # C14, not part of this comparison: no rebuild until they are all there
                reexp = set()
                def walk(t):
                    if isinstance(t, list):
                        if t and t[0] in ("export-from", "export-all", "export-ns") and isinstance(t[-1], tuple): reexp.add(t[-1][1])
                        for y in t: walk(y)
                for sp in specs: walk(sp)
                seen_entry, done = False, set()
                for n in order:
                    # (sometimes the FIRST content a new file is registered with does not parse: the files that import it were
                    # bound while it was missing, and must be bound again all the same; then the file is repaired)
                    if n in has_broken and n != "entry.ts" and rnd.random() < 0.3:
                        ops.append(["u", ("s", n), "2"])
                        if seen_entry and reexp <= (done | {n}): ops.append(["r"])
                    ops.append(["u", ("s", n), "1"])
                    done.add(n)
                    seen_entry = seen_entry or n == "entry.ts"
                    # (no rebuild before the entry point exists: what the tool does without one is not part of the model)
                    if seen_entry and reexp <= done and rnd.random() < 0.6: ops.append(["r"])
                # a second round: the importing files are saved again (their contents did not change)
                if rnd.random() < 0.5:
                    for n in rnd.sample(order, max(1, len(order) // 2)):
                        ops.append(["u", ("s", n), "1"])
                ops.append(["r"])
                # a registered file is saved with content that does not parse, the project is rebuilt, the file is repaired
                if has_broken and rnd.random() < 0.5:
                    n = rnd.choice(has_broken)
                    ops += [["u", ("s", n), "2"], ["r"], ["u", ("s", n), "1"], ["r"]]
                # a registered file is saved with OTHER valid content (a declaration or an export changed), the project is rebuilt —
                # whoever reaches its names through an `export *` barrel that was not saved again must see the new ones — and back
                if has_edited and rnd.random() < 0.7:
                    n = rnd.choice(sorted(has_edited))
                    ops += [["u", ("s", n), str(has_edited[n])], ["r"]]
                    if rnd.random() < 0.5: ops += [["u", ("s", n), "1"], ["r"]]
                # a project that uses custom formats: every rebuild names its settings, and the history ends with rebuilds that
                # differ in nothing but the settings (the output is a function of the sources AND the settings)
                if "gen_vfmt.ts" in names:
                    ops = [["rs", str(rnd.randrange(3))] if o == ["r"] else o for o in ops] + [["rs", "1"], ["rs", "0"], ["rs", "2"]]
                out.append(vcheck.sx_show(["watch", sx[1], ["files"] + specs, ["ops"] + ops]))
            except Exception:
                continue
        return out
    def engine(c, ls):
        res, rc, err = c.run_impl("watch", ls)
        return [r.replace("c14.history", "c10.registration-history") for r in res]
    def p(chk):
        lines = lines_fn(chk) if lines_fn else transform(chk.gen_js("prog-watch", seed, count))
        chk.coverage.setdefault("registration_histories", []).append({"label": label, "requests": len(lines)})
        return vcheck.corr_pass(chk, "watch", lines, label, engine=engine, oracle_filter=vcheck.tag_filter(TAGS),
                                view=lambda r: re.sub(r' "[0-9a-f]{16}"', "", r), nontrivial=lambda r, i: True)
    return p

RULE = ("projects from the C04 generator (valid, erroneous, textually mutated and two-file projects with named/type-only/renamed/namespace/missing imports, cycles, export *) and "
        "the C09 split generator when present. Each project is compiled by the REAL parse_and_bind+extract+emit_code (a) twice in one thread (every std HashMap instance gets a "
        "fresh SipHash key), (b) in fresh threads with reversed / random file registration orders, (c) again in a second OS process; code bytes and serialized diagnostics must be "
        "identical (compared as text in-process, as FNV-64 digests across processes). Tie: outcome class vs the Lean compiler model. A last pass drives the long-lived SESSION of beff-wasm "
        "(hook `beff_verif`): the files of a split project are registered in random orders with rebuilds in between, every rebuild against a fresh session on the same files")

def run(chk):
    chk.build_rust(); chk.build_js()
    quick = chk.tier == "quick"
    passes = ([det_pass("prog-total", chk.seed * 100 + 31, 2500, "det(total)"), det_pass("prog", chk.seed * 100 + 32, 800, "det(valid)")] if quick else
              [det_pass("prog-total", chk.seed * 100 + k, 15000, f"det(total#{k})") for k in range(4)] + [det_pass("prog", chk.seed * 100 + 40 + k, 8000, f"det(valid#{k})") for k in range(2)])
    import os
    if os.path.exists(os.path.join(vcheck.VERIF, "checks", "c09.py")):
        passes.append(det_pass("prog-split", chk.seed * 100 + 33, 1500 if quick else 12000, "det(split)"))
    passes.append(reg_pass(chk.seed * 100 + 34, 600 if quick else 6000, "registration(session)"))
    return vcheck.generic_run(chk, MODULES, AUDIT, passes,
        ["C10: tools/translate/hash_iter.py (regex inventory of iterations over HashMap/HashSet-typed names, of process-dependent sources — time, random, env, thread ids, pointer "
         "addresses — in beff-core and beff-wasm; test modules cut by brace counting); the justification column of Model/Emit.lean `knownSites` is prose",
         "C10: a Lean function is deterministic by construction: the model cannot exhibit process-level nondeterminism; that part is decided by the search only (threads = fresh "
         "RandomState keys; two OS processes; permuted registration orders)",
         "C10: sorting lemmas are stated for an arbitrary total order `le`; that Rust's Ord on RuntypeUUID / String is a total order is trusted (derived Ord)"],
        ["emit is a function of the SET of registered files for the REAL compiler: not a theorem (the model proves only that explicit sorting makes the emission order independent of the "
         "registration order, and that the current tree has no unlisted hash-order iteration)",
         "hoist ids assigned in traversal order (printer.rs): traversal is over BTreeMaps; covered by the byte comparison only"],
        RULE, translators=("hash_iter.py",))

def replay(chk, path):
    chk.build_rust(); chk.build_lean(MODULES)
    lines = [l for l in open(path).read().split("\n") if l.strip() and not l.startswith(";")]
    if lines and lines[0].startswith("(watch "):
        st = reg_pass(0, 0, "registration(replay)", lines_fn=lambda c: lines)(chk)
        print(st)
        return chk.finish("proof", {"evaluations": len(lines), "distinct_nontrivial": st["nontrivial"]})
    st = det_pass(None, 0, 0, "det(replay)", lines_fn=lambda c: lines)(chk)
    print(st)
    return chk.finish("proof", {"evaluations": len(lines), "distinct_nontrivial": st["nontrivial"]})
