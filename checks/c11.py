"""C11 — runtime layer (DESIGN.md §5 C11): Lean theorems over Model/{Validate,Parse,Report}.lean + correspondence
against the REAL runtime classes (type-stripped codegen-v2.ts) + property oracle evaluated on the JS results."""
import vcheck

PID = "C11"
MODULES = ["BeffVerif.Props.C11", "BeffVerif.Props.C11Frag", "BeffVerif.Props.C11Open"]
AUDIT = "BeffVerif/Audit/C11.lean"
TAGS = ("c11.",)
HYP = {"NoSplitIntersection": "D9", "NoNumberKey": "D21"}
OPEN = [
    "strict_iff at full strength (all constructors, declaredKeys through intersections): false on the current code (D9, negation proved); proved: strict_implies_default (full), strict_object_iff (one object position), strict_irrelevant_with_index",
]
RULE = ("same request stream as C03 (both strict flags); oracle: validate(v,{disallowExtraProperties:true}) compared with an independent declarative "
        "reference computed on the Runtype description (accepted in default mode AND no own key beyond the keys declared at that position, "
        "counting all members of an intersection, the matching union branch, and index signatures), plus monotonicity strict ⇒ default")

def _pass(seed, count, label):
    def p(chk):
        lines = chk.gen_js("rt", seed, count)
        return vcheck.corr_pass(chk, "rt", lines, label, engine="js", oracle_filter=vcheck.tag_filter(TAGS),
                                known_matcher=vcheck.known_by_hyp(chk, HYP), view=vcheck.rt_view(PID))
    return p

import re
TRI = re.compile(r'\((\w+) "([01TF?]*)" "([01TF?]*)"\)')

def strict_oracle(req, impl_reply, second):
    """compiled validators, strict mode: for a value that is a member under the exact-scalar reading (e0 = 1) the strict
    verdict must be e1 (declared properties only, at every depth, counting all members of an intersection)"""
    if not impl_reply.startswith("(bits"):
        return None
    ib, sb = TRI.findall(impl_reply), TRI.findall(second.split("(hyp-failed")[0])
    tags, diffs = set(), []
    for (n1, d, s), (n2, e0, e1) in zip(ib, sb):
        for k in range(min(len(s), len(e1))):
            # judged: accepted in default mode, a member under the exact-scalar reading too, reference defined
            if d[k] == "1" and e0[k] == "1" and e1[k] in "01" and s[k] != e1[k]:
                tags.add("c11.rejects-declared" if e1[k] == "1" else "c11.accepts-undeclared")
                diffs.append(f"{n1}#{k}:strict={s[k]},exact-member={e1[k]}")
    return " ".join(sorted(tags)) + " (" + " ".join(diffs[:6]) + ")" if diffs else None

def _pass_prog(seed, count, label):
    def p(chk):
        lines = chk.gen_js("prog-strict", seed, count, 8)
        engine = lambda c, ls: vcheck.two_stage(c, ls, stage2_mode="prog-strict")[0]
        base = vcheck.known_by_hyp(chk, HYP)
        return vcheck.corr_pass(chk, "prog-strict", lines, label, engine=engine, oracle_filter=vcheck.tag_filter(TAGS), extra_oracle=strict_oracle,
                                known_matcher=lambda req, ir, orc, hyps: base(req, ir, "(oracle fail " + " ".join(t for t in orc.split() if t.startswith("c11.")) + ")", hyps),
                                nontrivial=lambda r, i: TRI.search(i) is not None and any(a != b for _, a, b in TRI.findall(i)))
    return p

def _prog_pass_lines(chk, lines, label):
    engine = lambda c, ls: vcheck.two_stage(c, ls, stage2_mode="prog-strict")[0]
    base = vcheck.known_by_hyp(chk, HYP)
    return vcheck.corr_pass(chk, "prog-strict", lines, label, engine=engine, oracle_filter=vcheck.tag_filter(TAGS), extra_oracle=strict_oracle,
                            known_matcher=lambda req, ir, orc, hyps: base(req, ir, "(oracle fail " + " ".join(t for t in orc.split() if t.startswith("c11.")) + ")", hyps),
                            nontrivial=lambda r, i: TRI.search(i) is not None and any(a != b for _, a, b in TRI.findall(i)))

def semstrict_oracle(req, impl_reply, second):
    """materialised types: where the reference says strict acceptance is owed (an exact member of a surviving member of the
    left operand that is not in the right operand), the compiled validator must accept in strict mode"""
    if not impl_reply.startswith("(bits"):
        return None
    ib = TRI.findall(impl_reply)
    sb = re.findall(r'\((\w+) "([01?]*)"\)', second.split("(hyp-failed")[0])
    diffs = []
    for (n1, d, s), (n2, owed) in zip(ib, sb):
        for k in range(min(len(s), len(owed))):
            if owed[k] == "1" and s[k] == "0":
                diffs.append(f"{n1}#{k}:default={d[k]},strict=0,owed")
    return "c11.rejects-declared (" + " ".join(diffs[:6]) + ")" if diffs else None

def _pass_sem(seed, count, label):
    def p(chk):
        lines = chk.gen_js("sub-sem-strict", seed, count, 8)
        engine = lambda c, ls: vcheck.two_stage(c, ls, stage2_mode="prog-strict")[0]
        base = vcheck.known_by_hyp(chk, HYP)
        return vcheck.corr_pass(chk, "prog-strict", lines, label, engine=engine, oracle_filter=vcheck.tag_filter(TAGS), extra_oracle=semstrict_oracle,
                                known_matcher=lambda req, ir, orc, hyps: base(req, ir, "(oracle fail " + " ".join(t for t in orc.split() if t.startswith("c11.")) + ")", hyps),
                                nontrivial=lambda r, i: TRI.search(i) is not None and any(a != b for _, a, b in TRI.findall(i)))
    return p

def _corpus_prog(chk):
    return _prog_pass_lines(chk, [l for l in vcheck.corpus_lines(PID) if l.startswith("(strict")], "compiled-strict(corpus)")

def _corpus(chk):
    lines = [l for l in vcheck.corpus_lines(PID) if not l.startswith("(strict")]
    return vcheck.corr_pass(chk, "rt", lines, "rt(corpus)", engine="js", oracle_filter=vcheck.tag_filter(TAGS),
                            known_matcher=vcheck.known_by_hyp(chk, HYP), view=vcheck.rt_view(PID))

def run(chk):
    chk.build_rust(); chk.build_js()
    quick = chk.tier == "quick"
    passes = [_corpus, _corpus_prog] + ([_pass(chk.seed * 100 + 7, 12000, "rt(random)"), _pass_prog(chk.seed * 100 + 8, 2400, "compiled-strict(random)"), _pass_sem(chk.seed * 100 + 9, 800, "materialised-strict(random)")] if quick else
                          [_pass_sem(chk.seed * 100 + 60 + k, 4000, f"materialised-strict(random#{k})") for k in range(2)] +
                          [_pass(chk.seed * 100 + k, 25000, f"rt(random#{k})") for k in range(8)] + [_pass_prog(chk.seed * 100 + 50 + k, 8000, f"compiled-strict(random#{k})") for k in range(3)])
    return vcheck.generic_run(chk, MODULES, AUDIT, passes,
        [PID + ": Model/{JsVal,RT,Validate,Parse,Report}.lean model codegen-v2.ts:34-2430 and err.ts by hand; property names outside the modelled vocabulary "
         "on non-plain objects, lone surrogates, cyclic inputs and getters are outside the model; a hole of a sparse array is modelled as the `undefined` every read of it gives (the harness keeps real holes on the JavaScript side)",
         PID + ": Node stripTypeScriptTypes (types removed only); custom formats registered by the harness naming convention"],
        OPEN, RULE)

def replay(chk, path):
    chk.build_js(); chk.build_lean(MODULES)
    lines = [l for l in open(path).read().split("\n") if l.strip() and not l.startswith(";")]
    if lines and lines[0].startswith("(strict"):
        chk.build_rust()
        st = _prog_pass_lines(chk, lines, "compiled-strict(replay)")
        print(st)
        return chk.finish("proof", {"evaluations": len(lines), "distinct_nontrivial": st["nontrivial"]})
    st = vcheck.corr_pass(chk, "rt", lines, "rt(replay)", engine="js", oracle_filter=vcheck.tag_filter(TAGS),
                          known_matcher=vcheck.known_by_hyp(chk, HYP), view=vcheck.rt_view(PID))
    print(st)
    return chk.finish("proof", {"evaluations": len(lines), "distinct_nontrivial": st["nontrivial"]})
