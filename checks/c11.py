"""C11 — runtime layer (DESIGN.md §5 C11): Lean theorems over Model/{Validate,Parse,Report}.lean + correspondence
against the REAL runtime classes (type-stripped codegen-v2.ts) + property oracle evaluated on the JS results."""
import vcheck

PID = "C11"
MODULES = ["BeffVerif.Props.C11"]
AUDIT = "BeffVerif/Audit/C11.lean"
TAGS = ("c11.",)
HYP = {"NoSplitIntersection": "D9"}
OPEN = [
    "strict_iff at full strength (all constructors, declaredKeys through intersections): false on the current code (D9, negation proved); proved: strict_implies_default (full), strict_object_iff (one object position), strict_irrelevant_with_index",
]
RULE = ("same request stream as C03 (both strict flags); oracle: validate(v,{disallowExtraProperties:true}) compared with an independent declarative "
        "reference computed on the Runtype description (accepted in default mode AND no own key beyond the keys declared at that position, "
        "counting all members of an intersection, the matching union branch, and index signatures), plus monotonicity strict ⇒ default")

def _pass(seed, count, label):
    def p(chk):
        lines = chk.gen_js("rt", seed, count)
        return vcheck.corr_pass(chk, "rt", lines, label, engine="js", oracle_filter=vcheck.tag_filter(TAGS),
                                known_matcher=vcheck.known_by_hyp(chk, HYP), view=vcheck.rt_view(PID))
    return p

def _corpus(chk):
    lines = vcheck.corpus_lines(PID)
    return vcheck.corr_pass(chk, "rt", lines, "rt(corpus)", engine="js", oracle_filter=vcheck.tag_filter(TAGS),
                            known_matcher=vcheck.known_by_hyp(chk, HYP), view=vcheck.rt_view(PID))

def run(chk):
    chk.build_js()
    quick = chk.tier == "quick"
    passes = [_corpus] + ([_pass(chk.seed * 100 + 7, 6000, "rt(random)")] if quick else
                          [_pass(chk.seed * 100 + k, 25000, f"rt(random#{k})") for k in range(8)])
    return vcheck.generic_run(chk, MODULES, AUDIT, passes,
        [PID + ": Model/{JsVal,RT,Validate,Parse,Report}.lean model codegen-v2.ts:34-2430 and err.ts by hand; property names outside the modelled vocabulary "
         "on non-plain objects, lone surrogates, cyclic inputs, sparse arrays and getters are outside the model",
         PID + ": Node stripTypeScriptTypes (types removed only); custom formats registered by the harness naming convention"],
        OPEN, RULE)

def replay(chk, path):
    chk.build_js(); chk.build_lean(MODULES)
    lines = [l for l in open(path).read().split("\n") if l.strip() and not l.startswith(";")]
    st = vcheck.corr_pass(chk, "rt", lines, "rt(replay)", engine="js", oracle_filter=vcheck.tag_filter(TAGS),
                          known_matcher=vcheck.known_by_hyp(chk, HYP), view=vcheck.rt_view(PID))
    print(st)
    return chk.finish("proof", {"evaluations": len(lines), "distinct_nontrivial": st["nontrivial"]})
